
val negb : bool -> bool

type nat =
| O
| S of nat

val fst : ('a1 * 'a2) -> 'a1

val snd : ('a1 * 'a2) -> 'a2

val length : 'a1 list -> nat

val app : 'a1 list -> 'a1 list -> 'a1 list

val add : nat -> nat -> nat

module Nat :
 sig
  val min : nat -> nat -> nat
 end

val existsb : ('a1 -> bool) -> 'a1 list -> bool

val filter : ('a1 -> bool) -> 'a1 list -> 'a1 list

val firstn : nat -> 'a1 list -> 'a1 list

val skipn : nat -> 'a1 list -> 'a1 list

type positive =
| XI of positive
| XO of positive
| XH

type n =
| N0
| Npos of positive

module Pos :
 sig
  type mask =
  | IsNul
  | IsPos of positive
  | IsNeg
 end

module Coq_Pos :
 sig
  val succ : positive -> positive

  val add : positive -> positive -> positive

  val add_carry : positive -> positive -> positive

  val pred_double : positive -> positive

  type mask = Pos.mask =
  | IsNul
  | IsPos of positive
  | IsNeg

  val succ_double_mask : mask -> mask

  val double_mask : mask -> mask

  val double_pred_mask : positive -> mask

  val sub_mask : positive -> positive -> mask

  val sub_mask_carry : positive -> positive -> mask

  val eqb : positive -> positive -> bool

  val iter_op : ('a1 -> 'a1 -> 'a1) -> positive -> 'a1 -> 'a1

  val to_nat : positive -> nat

  val of_succ_nat : nat -> positive
 end

module N :
 sig
  val add : n -> n -> n

  val sub : n -> n -> n

  val eqb : n -> n -> bool

  val to_nat : n -> nat

  val of_nat : nat -> n
 end

val aget : n -> (n * 'a1) list -> 'a1 option

val aset : n -> 'a1 -> (n * 'a1) list -> (n * 'a1) list

type fixes = { fx03 : bool; fx03f : bool; fx06 : bool; fx07 : bool;
               fx08 : bool; fx12 : bool; fx33 : bool }

type wst =
| Waiting
| WClosed
| Success
| Cancelled

val is_waiting : wst -> bool

val is_success : wst -> bool

type handle = { h_tx : bool; h_async : bool; h_closed : bool; h_live : bool }

type fut = { f_recv : bool; f_h : n; f_item : n option; f_state : wst;
             f_reg : bool; f_live : bool; f_done : bool }

type taints = { t03 : bool; t03f : bool; t06 : bool; t07 : bool; t08 : 
                bool; t12 : bool; t33 : bool }

val no_taint : taints

type st = { cap : n; fx : fixes; q : n list; sc : n; rc : n;
            asq : (n * n) list; arq : (n * n) list; hs : (n * handle) list;
            fs : (n * fut) list; next : n; acc : n list; recvd : n list;
            back : n list; dropped : n list; freed : bool; tn : taints;
            wk : n list; dk : n list; bad : bool }

val with_q : n list -> st -> st

val with_sc : n -> st -> st

val with_rc : n -> st -> st

val with_asq : (n * n) list -> st -> st

val with_arq : (n * n) list -> st -> st

val with_hs : (n * handle) list -> st -> st

val with_fs : (n * fut) list -> st -> st

val with_next : n -> st -> st

val with_acc : n list -> st -> st

val with_recvd : n list -> st -> st

val with_back : n list -> st -> st

val with_dropped : n list -> st -> st

val with_freed : bool -> st -> st

val with_tn : taints -> st -> st

val with_wk : n list -> st -> st

val with_dk : n list -> st -> st

val with_bad : bool -> st -> st

val set_t03 : taints -> taints

val set_t03f : taints -> taints

val set_t06 : taints -> taints

val set_t07 : taints -> taints

val set_t08 : taints -> taints

val set_t12 : taints -> taints

val set_t33 : taints -> taints

val taint : (taints -> taints) -> bool -> st -> st

val getH : n -> st -> handle option

val getF : n -> st -> fut option

val setH : n -> handle -> st -> st

val setF : n -> fut -> st -> st

val set_state : wst -> fut -> fut

val set_reg : bool -> fut -> fut

val set_item : n option -> fut -> fut

val set_done : fut -> fut

val set_dead : fut -> fut

val set_closed : bool -> handle -> handle

val set_hdead : handle -> handle

val wake : n -> st -> st

val mark_bad : bool -> st -> st

val lenq : st -> n

val is_full : st -> bool

val fresh : st -> n * st

val push : n -> st -> st

val give_back : n -> st -> st

val destroy : n -> st -> st

val first_waiting : (n -> fut option) -> (n * n) list -> (n * n) option

val remove_first : n -> (n * n) list -> (n * n) list

val unlink : n -> (n * n) list -> (n * n) list

val queued : n -> (n * n) list -> bool

val set_waker : n -> n -> (n * n) list -> (n * n) list

val wake_one_recv : st -> st

val wake_one_send : st -> st

val mark_all : wst -> (n * n) list -> st -> st

type tsr =
| TsOk
| TsFull
| TsClosed

val try_send_core : n -> st -> st * tsr

type trr =
| TrVal of n
| TrEmpty
| TrDisc

val try_recv_core : st -> st * trr

val skip_nw : (n -> fut option) -> (n * n) list -> (n * n) list

val hand_one_recv : st -> st

val send_loop : n list -> st -> st * n list

val wake_senders : nat -> st -> st

val drain : nat -> st -> st

val seqN : n -> nat -> n list

type res =
| ROk
| RFull of n
| RClosedV of n
| RClosed
| RVal of n
| REmpty
| RDisc
| RTimeout
| RWouldBlock
| RCloseErr
| RNoHandle
| RWrongKind
| RBadId
| RBorrowed
| RNoFut
| RDone
| RPending
| RReadyOk
| RReadyClosed
| RReadyVal of n
| RReadyDisc
| RObs of n * bool * bool * n * bool
| RPanic
| RBOk of n
| RBErr of n * bool * n list
| RMOk of n * n list
| RMClosed of n list
| RVals of n list
| RNVals of n list

type out = { o_res : res; o_wakes : n list; o_drops : n list; o_bad : bool }

type op =
| TrySend of n
| TryRecv of n
| Send of n
| Recv of n
| RecvTimeout of n
| Clone of n * n
| Close of n
| DropH of n
| Convert of n * n
| Observe of n
| MkSend of n * n
| MkRecv of n * n
| Poll of n * n
| DropF of n
| TrySendBatch of bool * n * n
| TryRecvBatch of bool * n * n

val close_tx : st -> st option

val close_rx : st -> st option

val do_close : n -> handle -> st -> st * res

val borrowed : n -> st -> bool

val any_live : st -> bool

val maybe_free : st -> st

val cancel_reg : n -> fut -> st -> st

val handle_closed : n -> st -> bool

val send_try : n -> n -> fut -> st -> st * res

val poll_send : n -> n -> fut -> st -> st * res

val recv_try : n -> n -> bool -> fut -> st -> st * res

val poll_recv : n -> n -> fut -> st -> st * res

val ret : st -> res -> st * out

val step : st -> op -> st * out

val init : n -> bool -> fixes -> st

val run : st -> op list -> st * out list
