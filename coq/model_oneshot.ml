
(** val negb : bool -> bool **)

let negb = function
| true -> false
| false -> true

type nat =
| O
| S of nat

(** val fst : ('a1 * 'a2) -> 'a1 **)

let fst = function
| (x, _) -> x

(** val snd : ('a1 * 'a2) -> 'a2 **)

let snd = function
| (_, y) -> y

(** val app : 'a1 list -> 'a1 list -> 'a1 list **)

let rec app l m =
  match l with
  | [] -> m
  | a :: l1 -> a :: (app l1 m)

type positive =
| XI of positive
| XO of positive
| XH

type n =
| N0
| Npos of positive

type z =
| Z0
| Zpos of positive
| Zneg of positive

module Nat =
 struct
  (** val eqb : nat -> nat -> bool **)

  let rec eqb n0 m =
    match n0 with
    | O -> (match m with
            | O -> true
            | S _ -> false)
    | S n' -> (match m with
               | O -> false
               | S m' -> eqb n' m')
 end

module Pos =
 struct
  (** val succ : positive -> positive **)

  let rec succ = function
  | XI p -> XO (succ p)
  | XO p -> XI p
  | XH -> XO XH

  (** val add : positive -> positive -> positive **)

  let rec add x y =
    match x with
    | XI p ->
      (match y with
       | XI q -> XO (add_carry p q)
       | XO q -> XI (add p q)
       | XH -> XO (succ p))
    | XO p ->
      (match y with
       | XI q -> XI (add p q)
       | XO q -> XO (add p q)
       | XH -> XI p)
    | XH -> (match y with
             | XI q -> XO (succ q)
             | XO q -> XI q
             | XH -> XO XH)

  (** val add_carry : positive -> positive -> positive **)

  and add_carry x y =
    match x with
    | XI p ->
      (match y with
       | XI q -> XI (add_carry p q)
       | XO q -> XO (add_carry p q)
       | XH -> XI (succ p))
    | XO p ->
      (match y with
       | XI q -> XO (add_carry p q)
       | XO q -> XI (add p q)
       | XH -> XO (succ p))
    | XH ->
      (match y with
       | XI q -> XI (succ q)
       | XO q -> XO (succ q)
       | XH -> XI XH)

  (** val pred_double : positive -> positive **)

  let rec pred_double = function
  | XI p -> XI (XO p)
  | XO p -> XI (pred_double p)
  | XH -> XH

  (** val eqb : positive -> positive -> bool **)

  let rec eqb p q =
    match p with
    | XI p0 -> (match q with
                | XI q0 -> eqb p0 q0
                | _ -> false)
    | XO p0 -> (match q with
                | XO q0 -> eqb p0 q0
                | _ -> false)
    | XH -> (match q with
             | XH -> true
             | _ -> false)

  (** val of_succ_nat : nat -> positive **)

  let rec of_succ_nat = function
  | O -> XH
  | S x -> succ (of_succ_nat x)
 end

module N =
 struct
  (** val of_nat : nat -> n **)

  let of_nat = function
  | O -> N0
  | S n' -> Npos (Pos.of_succ_nat n')
 end

(** val map : ('a1 -> 'a2) -> 'a1 list -> 'a2 list **)

let rec map f = function
| [] -> []
| a :: t -> (f a) :: (map f t)

module Z =
 struct
  (** val double : z -> z **)

  let double = function
  | Z0 -> Z0
  | Zpos p -> Zpos (XO p)
  | Zneg p -> Zneg (XO p)

  (** val succ_double : z -> z **)

  let succ_double = function
  | Z0 -> Zpos XH
  | Zpos p -> Zpos (XI p)
  | Zneg p -> Zneg (Pos.pred_double p)

  (** val pred_double : z -> z **)

  let pred_double = function
  | Z0 -> Zneg XH
  | Zpos p -> Zpos (Pos.pred_double p)
  | Zneg p -> Zneg (XI p)

  (** val pos_sub : positive -> positive -> z **)

  let rec pos_sub x y =
    match x with
    | XI p ->
      (match y with
       | XI q -> double (pos_sub p q)
       | XO q -> succ_double (pos_sub p q)
       | XH -> Zpos (XO p))
    | XO p ->
      (match y with
       | XI q -> pred_double (pos_sub p q)
       | XO q -> double (pos_sub p q)
       | XH -> Zpos (Pos.pred_double p))
    | XH ->
      (match y with
       | XI q -> Zneg (XO q)
       | XO q -> Zneg (Pos.pred_double q)
       | XH -> Z0)

  (** val add : z -> z -> z **)

  let add x y =
    match x with
    | Z0 -> y
    | Zpos x' ->
      (match y with
       | Z0 -> x
       | Zpos y' -> Zpos (Pos.add x' y')
       | Zneg y' -> pos_sub x' y')
    | Zneg x' ->
      (match y with
       | Z0 -> x
       | Zpos y' -> pos_sub y' x'
       | Zneg y' -> Zneg (Pos.add x' y'))

  (** val opp : z -> z **)

  let opp = function
  | Z0 -> Z0
  | Zpos x0 -> Zneg x0
  | Zneg x0 -> Zpos x0

  (** val sub : z -> z -> z **)

  let sub m n0 =
    add m (opp n0)

  (** val eqb : z -> z -> bool **)

  let eqb x y =
    match x with
    | Z0 -> (match y with
             | Z0 -> true
             | _ -> false)
    | Zpos p -> (match y with
                 | Zpos q -> Pos.eqb p q
                 | _ -> false)
    | Zneg p -> (match y with
                 | Zneg q -> Pos.eqb p q
                 | _ -> false)
 end

type ocfg = { fix_taken_wake : bool }

(** val ocfg_repo : ocfg **)

let ocfg_repo =
  { fix_taken_wake = false }

(** val ocfg_fixed : ocfg **)

let ocfg_fixed =
  { fix_taken_wake = true }

type ostt =
| OEmpty
| OSent of nat
| OTaken
| OClosed

type orcv =
| RcvGone
| RcvLive of bool

type oevent =
| OWake of nat
| ODrop of nat

type ores =
| OOk
| OVal of nat
| OClosedV of nat
| OSentV of nat
| OEmptyR
| ODisc
| OPending
| OCloseErr
| OObsS of bool * bool
| OObsR of bool
| OGone
| OBusy
| ONoFut

type oop =
| OSend of nat
| OCloseS of nat
| OClone of nat
| ODropS of nat
| OObsSnd of nat
| OTryRecv
| OCloseR
| ODropR
| OObsRcv
| OMkRecv of nat
| OPoll of nat * nat
| ODropFut of nat

type ost = { ostate : ostt; rdrop : bool; ocount : z; wk : nat option;
             snd_h : (nat * bool) list; nexth : nat; rcv : orcv;
             futs : nat list; onext : nat; oacc : nat list; orecv : nat list;
             oret : nat list; odrop : nat list; o_pend : (nat * nat) option;
             o_woken : bool; o_disc : bool; oev : oevent list }

(** val oinit : ost **)

let oinit =
  { ostate = OEmpty; rdrop = false; ocount = (Zpos XH); wk = None; snd_h =
    ((O, false) :: []); nexth = (S O); rcv = (RcvLive false); futs = [];
    onext = O; oacc = []; orecv = []; oret = []; odrop = []; o_pend = None;
    o_woken = false; o_disc = false; oev = [] }

(** val set_ostate : ostt -> ost -> ost **)

let set_ostate v s =
  { ostate = v; rdrop = s.rdrop; ocount = s.ocount; wk = s.wk; snd_h =
    s.snd_h; nexth = s.nexth; rcv = s.rcv; futs = s.futs; onext = s.onext;
    oacc = s.oacc; orecv = s.orecv; oret = s.oret; odrop = s.odrop; o_pend =
    s.o_pend; o_woken = s.o_woken; o_disc = s.o_disc; oev = s.oev }

(** val set_rdrop : bool -> ost -> ost **)

let set_rdrop v s =
  { ostate = s.ostate; rdrop = v; ocount = s.ocount; wk = s.wk; snd_h =
    s.snd_h; nexth = s.nexth; rcv = s.rcv; futs = s.futs; onext = s.onext;
    oacc = s.oacc; orecv = s.orecv; oret = s.oret; odrop = s.odrop; o_pend =
    s.o_pend; o_woken = s.o_woken; o_disc = s.o_disc; oev = s.oev }

(** val set_ocount : z -> ost -> ost **)

let set_ocount v s =
  { ostate = s.ostate; rdrop = s.rdrop; ocount = v; wk = s.wk; snd_h =
    s.snd_h; nexth = s.nexth; rcv = s.rcv; futs = s.futs; onext = s.onext;
    oacc = s.oacc; orecv = s.orecv; oret = s.oret; odrop = s.odrop; o_pend =
    s.o_pend; o_woken = s.o_woken; o_disc = s.o_disc; oev = s.oev }

(** val set_wk : nat option -> ost -> ost **)

let set_wk v s =
  { ostate = s.ostate; rdrop = s.rdrop; ocount = s.ocount; wk = v; snd_h =
    s.snd_h; nexth = s.nexth; rcv = s.rcv; futs = s.futs; onext = s.onext;
    oacc = s.oacc; orecv = s.orecv; oret = s.oret; odrop = s.odrop; o_pend =
    s.o_pend; o_woken = s.o_woken; o_disc = s.o_disc; oev = s.oev }

(** val set_snd_h : (nat * bool) list -> ost -> ost **)

let set_snd_h v s =
  { ostate = s.ostate; rdrop = s.rdrop; ocount = s.ocount; wk = s.wk; snd_h =
    v; nexth = s.nexth; rcv = s.rcv; futs = s.futs; onext = s.onext; oacc =
    s.oacc; orecv = s.orecv; oret = s.oret; odrop = s.odrop; o_pend =
    s.o_pend; o_woken = s.o_woken; o_disc = s.o_disc; oev = s.oev }

(** val set_nexth : nat -> ost -> ost **)

let set_nexth v s =
  { ostate = s.ostate; rdrop = s.rdrop; ocount = s.ocount; wk = s.wk; snd_h =
    s.snd_h; nexth = v; rcv = s.rcv; futs = s.futs; onext = s.onext; oacc =
    s.oacc; orecv = s.orecv; oret = s.oret; odrop = s.odrop; o_pend =
    s.o_pend; o_woken = s.o_woken; o_disc = s.o_disc; oev = s.oev }

(** val set_rcv : orcv -> ost -> ost **)

let set_rcv v s =
  { ostate = s.ostate; rdrop = s.rdrop; ocount = s.ocount; wk = s.wk; snd_h =
    s.snd_h; nexth = s.nexth; rcv = v; futs = s.futs; onext = s.onext; oacc =
    s.oacc; orecv = s.orecv; oret = s.oret; odrop = s.odrop; o_pend =
    s.o_pend; o_woken = s.o_woken; o_disc = s.o_disc; oev = s.oev }

(** val set_futs : nat list -> ost -> ost **)

let set_futs v s =
  { ostate = s.ostate; rdrop = s.rdrop; ocount = s.ocount; wk = s.wk; snd_h =
    s.snd_h; nexth = s.nexth; rcv = s.rcv; futs = v; onext = s.onext; oacc =
    s.oacc; orecv = s.orecv; oret = s.oret; odrop = s.odrop; o_pend =
    s.o_pend; o_woken = s.o_woken; o_disc = s.o_disc; oev = s.oev }

(** val set_onext : nat -> ost -> ost **)

let set_onext v s =
  { ostate = s.ostate; rdrop = s.rdrop; ocount = s.ocount; wk = s.wk; snd_h =
    s.snd_h; nexth = s.nexth; rcv = s.rcv; futs = s.futs; onext = v; oacc =
    s.oacc; orecv = s.orecv; oret = s.oret; odrop = s.odrop; o_pend =
    s.o_pend; o_woken = s.o_woken; o_disc = s.o_disc; oev = s.oev }

(** val set_oacc : nat list -> ost -> ost **)

let set_oacc v s =
  { ostate = s.ostate; rdrop = s.rdrop; ocount = s.ocount; wk = s.wk; snd_h =
    s.snd_h; nexth = s.nexth; rcv = s.rcv; futs = s.futs; onext = s.onext;
    oacc = v; orecv = s.orecv; oret = s.oret; odrop = s.odrop; o_pend =
    s.o_pend; o_woken = s.o_woken; o_disc = s.o_disc; oev = s.oev }

(** val set_orecv : nat list -> ost -> ost **)

let set_orecv v s =
  { ostate = s.ostate; rdrop = s.rdrop; ocount = s.ocount; wk = s.wk; snd_h =
    s.snd_h; nexth = s.nexth; rcv = s.rcv; futs = s.futs; onext = s.onext;
    oacc = s.oacc; orecv = v; oret = s.oret; odrop = s.odrop; o_pend =
    s.o_pend; o_woken = s.o_woken; o_disc = s.o_disc; oev = s.oev }

(** val set_oret : nat list -> ost -> ost **)

let set_oret v s =
  { ostate = s.ostate; rdrop = s.rdrop; ocount = s.ocount; wk = s.wk; snd_h =
    s.snd_h; nexth = s.nexth; rcv = s.rcv; futs = s.futs; onext = s.onext;
    oacc = s.oacc; orecv = s.orecv; oret = v; odrop = s.odrop; o_pend =
    s.o_pend; o_woken = s.o_woken; o_disc = s.o_disc; oev = s.oev }

(** val set_odrop : nat list -> ost -> ost **)

let set_odrop v s =
  { ostate = s.ostate; rdrop = s.rdrop; ocount = s.ocount; wk = s.wk; snd_h =
    s.snd_h; nexth = s.nexth; rcv = s.rcv; futs = s.futs; onext = s.onext;
    oacc = s.oacc; orecv = s.orecv; oret = s.oret; odrop = v; o_pend =
    s.o_pend; o_woken = s.o_woken; o_disc = s.o_disc; oev = s.oev }

(** val set_o_pend : (nat * nat) option -> ost -> ost **)

let set_o_pend v s =
  { ostate = s.ostate; rdrop = s.rdrop; ocount = s.ocount; wk = s.wk; snd_h =
    s.snd_h; nexth = s.nexth; rcv = s.rcv; futs = s.futs; onext = s.onext;
    oacc = s.oacc; orecv = s.orecv; oret = s.oret; odrop = s.odrop; o_pend =
    v; o_woken = s.o_woken; o_disc = s.o_disc; oev = s.oev }

(** val set_o_woken : bool -> ost -> ost **)

let set_o_woken v s =
  { ostate = s.ostate; rdrop = s.rdrop; ocount = s.ocount; wk = s.wk; snd_h =
    s.snd_h; nexth = s.nexth; rcv = s.rcv; futs = s.futs; onext = s.onext;
    oacc = s.oacc; orecv = s.orecv; oret = s.oret; odrop = s.odrop; o_pend =
    s.o_pend; o_woken = v; o_disc = s.o_disc; oev = s.oev }

(** val set_o_disc : bool -> ost -> ost **)

let set_o_disc v s =
  { ostate = s.ostate; rdrop = s.rdrop; ocount = s.ocount; wk = s.wk; snd_h =
    s.snd_h; nexth = s.nexth; rcv = s.rcv; futs = s.futs; onext = s.onext;
    oacc = s.oacc; orecv = s.orecv; oret = s.oret; odrop = s.odrop; o_pend =
    s.o_pend; o_woken = s.o_woken; o_disc = v; oev = s.oev }

(** val set_oev : oevent list -> ost -> ost **)

let set_oev v s =
  { ostate = s.ostate; rdrop = s.rdrop; ocount = s.ocount; wk = s.wk; snd_h =
    s.snd_h; nexth = s.nexth; rcv = s.rcv; futs = s.futs; onext = s.onext;
    oacc = s.oacc; orecv = s.orecv; oret = s.oret; odrop = s.odrop; o_pend =
    s.o_pend; o_woken = s.o_woken; o_disc = s.o_disc; oev = v }

(** val find_h : nat -> (nat * bool) list -> bool option **)

let rec find_h h = function
| [] -> None
| p :: t -> let (h', c) = p in if Nat.eqb h' h then Some c else find_h h t

(** val remove_h : nat -> (nat * bool) list -> (nat * bool) list **)

let rec remove_h h = function
| [] -> []
| p :: t ->
  let (h', c) = p in
  if Nat.eqb h' h then remove_h h t else (h', c) :: (remove_h h t)

(** val set_closed_h : nat -> (nat * bool) list -> (nat * bool) list **)

let rec set_closed_h h = function
| [] -> []
| p :: t ->
  let (h', c) = p in
  if Nat.eqb h' h
  then (h', true) :: (set_closed_h h t)
  else (h', c) :: (set_closed_h h t)

(** val mem_f : nat -> nat list -> bool **)

let rec mem_f f = function
| [] -> false
| x :: t -> (||) (Nat.eqb x f) (mem_f f t)

(** val remove_f : nat -> nat list -> nat list **)

let rec remove_f f = function
| [] -> []
| x :: t -> if Nat.eqb x f then remove_f f t else x :: (remove_f f t)

(** val sent_val : ostt -> nat list **)

let sent_val = function
| OSent v -> v :: []
| _ -> []

(** val owake : ost -> ost **)

let owake s =
  set_wk None
    (set_oev
      (app s.oev (match s.wk with
                  | Some w -> (OWake w) :: []
                  | None -> []))
      (set_o_woken
        ((||) s.o_woken (match s.wk with
                         | Some _ -> true
                         | None -> false)) s))

(** val oback : nat -> ost -> ost **)

let oback v s =
  set_oret (app s.oret (v :: [])) s

(** val odestroy : nat list -> ost -> ost **)

let odestroy vs s =
  set_oev (app s.oev (map (fun x -> ODrop x) vs))
    (set_odrop (app s.odrop vs) s)

(** val dec_senders : ocfg -> ost -> ost **)

let dec_senders cf s =
  let old = s.ocount in
  let s1 = set_ocount (Z.sub old (Zpos XH)) s in
  if Z.eqb old (Zpos XH)
  then (match s.ostate with
        | OEmpty -> owake (set_ostate OClosed s1)
        | OSent v ->
          if s.rdrop then odestroy (v :: []) (set_ostate OTaken s1) else s1
        | OTaken -> if cf.fix_taken_wake then owake s1 else s1
        | OClosed -> owake s1)
  else s1

(** val oshared_drop_if : ost -> ost **)

let oshared_drop_if s =
  match s.snd_h with
  | [] ->
    (match s.rcv with
     | RcvGone ->
       odestroy (sent_val s.ostate)
         (set_ostate (match s.ostate with
                      | OSent _ -> OTaken
                      | x -> x) s)
     | RcvLive _ -> s)
  | _ :: _ -> s

(** val close_int_rcv : ost -> ost **)

let close_int_rcv s =
  let s1 = set_rdrop true s in
  (match s.ostate with
   | OEmpty -> set_ostate OClosed s1
   | OSent v -> odestroy (v :: []) (set_ostate OTaken s1)
   | _ -> s1)

(** val do_osend : ocfg -> nat -> ost -> ost * ores **)

let do_osend cf h s =
  match find_h h s.snd_h with
  | Some c ->
    let v = s.onext in
    let s1 = set_snd_h (remove_h h s.snd_h) (set_onext (S v) s) in
    if c
    then ((oshared_drop_if (oback v s1)), (OClosedV v))
    else if s.rdrop
         then ((oshared_drop_if (dec_senders cf (oback v s1))), (OClosedV v))
         else (match s.ostate with
               | OEmpty ->
                 ((oshared_drop_if
                    (dec_senders cf
                      (owake
                        (set_oacc (app s.oacc (v :: []))
                          (set_ostate (OSent v) s1))))), OOk)
               | _ ->
                 ((oshared_drop_if (dec_senders cf (oback v s1))), (OSentV v)))
  | None -> (s, OGone)

(** val do_oclose_s : ocfg -> nat -> ost -> ost * ores **)

let do_oclose_s cf h s =
  match find_h h s.snd_h with
  | Some b ->
    if b
    then (s, OCloseErr)
    else ((dec_senders cf (set_snd_h (set_closed_h h s.snd_h) s)), OOk)
  | None -> (s, OGone)

(** val do_oclone : nat -> ost -> ost * ores **)

let do_oclone h s =
  match find_h h s.snd_h with
  | Some _ ->
    ((set_nexth (S s.nexth)
       (set_snd_h (app s.snd_h ((s.nexth, false) :: []))
         (set_ocount (Z.add s.ocount (Zpos XH)) s))), OOk)
  | None -> (s, OGone)

(** val do_odrop_s : ocfg -> nat -> ost -> ost * ores **)

let do_odrop_s cf h s =
  match find_h h s.snd_h with
  | Some c ->
    let s1 = set_snd_h (remove_h h s.snd_h) s in
    ((oshared_drop_if (if c then s1 else dec_senders cf s1)), OOk)
  | None -> (s, OGone)

(** val do_oobs_s : nat -> ost -> ost * ores **)

let do_oobs_s h s =
  match find_h h s.snd_h with
  | Some _ ->
    (s, (OObsS (s.rdrop,
      (match s.ostate with
       | OEmpty -> false
       | OClosed -> false
       | _ -> true))))
  | None -> (s, OGone)

(** val core_try_recv : ost -> ost * ores **)

let core_try_recv s =
  match s.ostate with
  | OEmpty ->
    if Z.eqb s.ocount Z0
    then ((set_o_disc true (set_ostate OClosed s)), ODisc)
    else (s, OEmptyR)
  | OSent v ->
    ((set_orecv (app s.orecv (v :: [])) (set_ostate OTaken s)), (OVal v))
  | OTaken -> (s, OEmptyR)
  | OClosed -> ((set_o_disc true s), ODisc)

(** val do_otry_recv : ost -> ost * ores **)

let do_otry_recv s =
  match s.rcv with
  | RcvGone -> (s, OGone)
  | RcvLive closed ->
    if closed then ((set_o_disc true s), ODisc) else core_try_recv s

(** val do_oclose_r : ost -> ost * ores **)

let do_oclose_r s =
  match s.rcv with
  | RcvGone -> (s, OGone)
  | RcvLive closed ->
    if closed
    then (s, OCloseErr)
    else ((close_int_rcv (set_rcv (RcvLive true) s)), OOk)

(** val do_odrop_r : ost -> ost * ores **)

let do_odrop_r s =
  match s.rcv with
  | RcvGone -> (s, OGone)
  | RcvLive c ->
    (match s.futs with
     | [] ->
       let s1 = if c then s else close_int_rcv s in
       ((oshared_drop_if (set_rcv RcvGone s1)), OOk)
     | _ :: _ -> (s, OBusy))

(** val do_oobs_r : ost -> ost * ores **)

let do_oobs_r s =
  match s.rcv with
  | RcvGone -> (s, OGone)
  | RcvLive _ ->
    (s, (OObsR
      (match s.ostate with
       | OEmpty -> Z.eqb s.ocount Z0
       | OSent _ -> false
       | _ -> true)))

(** val do_omk : nat -> ost -> ost * ores **)

let do_omk f s =
  match s.rcv with
  | RcvGone -> (s, OGone)
  | RcvLive _ ->
    if mem_f f s.futs
    then (s, OBusy)
    else ((set_futs (app s.futs (f :: [])) s), OOk)

(** val fut_done : nat -> ost -> ost **)

let fut_done f s =
  set_o_pend
    (match s.o_pend with
     | Some p ->
       let (f', w) = p in if Nat.eqb f' f then None else Some (f', w)
     | None -> None) (set_futs (remove_f f s.futs) s)

(** val do_opoll : nat -> nat -> ost -> ost * ores **)

let do_opoll f w s =
  if negb (mem_f f s.futs)
  then (s, ONoFut)
  else (match s.rcv with
        | RcvGone -> (s, ONoFut)
        | RcvLive closed ->
          if closed
          then ((fut_done f (set_o_disc true s)), ODisc)
          else let pending =
                 ((set_o_woken false
                    (set_o_pend (Some (f, w)) (set_wk (Some w) s))), OPending)
               in
               (match s.ostate with
                | OEmpty ->
                  if Z.eqb s.ocount Z0
                  then ((fut_done f (set_o_disc true (set_ostate OClosed s))),
                         ODisc)
                  else pending
                | OSent v ->
                  ((fut_done f
                     (set_orecv (app s.orecv (v :: [])) (set_ostate OTaken s))),
                    (OVal v))
                | OTaken ->
                  if Z.eqb s.ocount Z0
                  then ((fut_done f (set_o_disc true s)), ODisc)
                  else pending
                | OClosed -> ((fut_done f (set_o_disc true s)), ODisc)))

(** val do_odropfut : nat -> ost -> ost * ores **)

let do_odropfut f s =
  if mem_f f s.futs then ((fut_done f s), OOk) else (s, ONoFut)

(** val oexec : ocfg -> ost -> oop -> ost * ores **)

let oexec cf s = function
| OSend h -> do_osend cf h s
| OCloseS h -> do_oclose_s cf h s
| OClone h -> do_oclone h s
| ODropS h -> do_odrop_s cf h s
| OObsSnd h -> do_oobs_s h s
| OTryRecv -> do_otry_recv s
| OCloseR -> do_oclose_r s
| ODropR -> do_odrop_r s
| OObsRcv -> do_oobs_r s
| OMkRecv f -> do_omk f s
| OPoll (f, w) -> do_opoll f w s
| ODropFut f -> do_odropfut f s

type oout = ores * oevent list

(** val ostep : ocfg -> ost -> oop -> ost * oout **)

let ostep cf s o =
  let (s1, r) = oexec cf (set_oev [] s) o in (s1, (r, s1.oev))

(** val orun : ocfg -> ost -> oop list -> ost * oout list **)

let rec orun cf s = function
| [] -> (s, [])
| o :: r ->
  let (s1, x) = ostep cf s o in let (s2, xs) = orun cf s1 r in (s2, (x :: xs))

(** val oteardown : ost -> oop list **)

let oteardown s =
  app (map (fun x -> ODropFut x) s.futs)
    (app (map (fun hc -> ODropS (fst hc)) s.snd_h) (ODropR :: []))

(** val orun_case : ocfg -> oop list -> oout list **)

let orun_case cf ops =
  let (s1, outs) = orun cf oinit ops in
  app outs (snd (orun cf s1 (oteardown s1)))
