
(** val negb : bool -> bool **)

let negb = function
| true -> false
| false -> true

type nat =
| O
| S of nat

(** val snd : ('a1 * 'a2) -> 'a2 **)

let snd = function
| (_, y) -> y

(** val length : 'a1 list -> nat **)

let rec length = function
| [] -> O
| _ :: l' -> S (length l')

(** val app : 'a1 list -> 'a1 list -> 'a1 list **)

let rec app l m =
  match l with
  | [] -> m
  | a :: l1 -> a :: (app l1 m)

(** val add : nat -> nat -> nat **)

let rec add n0 m =
  match n0 with
  | O -> m
  | S p -> S (add p m)

(** val sub : nat -> nat -> nat **)

let rec sub n0 m =
  match n0 with
  | O -> n0
  | S k -> (match m with
            | O -> n0
            | S l -> sub k l)

(** val min : nat -> nat -> nat **)

let rec min n0 m =
  match n0 with
  | O -> O
  | S n' -> (match m with
             | O -> O
             | S m' -> S (min n' m'))

type positive =
| XI of positive
| XO of positive
| XH

type n =
| N0
| Npos of positive

type z =
| Z0
| Zpos of positive
| Zneg of positive

module Nat =
 struct
  (** val eqb : nat -> nat -> bool **)

  let rec eqb n0 m =
    match n0 with
    | O -> (match m with
            | O -> true
            | S _ -> false)
    | S n' -> (match m with
               | O -> false
               | S m' -> eqb n' m')

  (** val leb : nat -> nat -> bool **)

  let rec leb n0 m =
    match n0 with
    | O -> true
    | S n' -> (match m with
               | O -> false
               | S m' -> leb n' m')

  (** val ltb : nat -> nat -> bool **)

  let ltb n0 m =
    leb (S n0) m
 end

module Pos =
 struct
  (** val succ : positive -> positive **)

  let rec succ = function
  | XI p -> XO (succ p)
  | XO p -> XI p
  | XH -> XO XH

  (** val add : positive -> positive -> positive **)

  let rec add x y =
    match x with
    | XI p ->
      (match y with
       | XI q0 -> XO (add_carry p q0)
       | XO q0 -> XI (add p q0)
       | XH -> XO (succ p))
    | XO p ->
      (match y with
       | XI q0 -> XI (add p q0)
       | XO q0 -> XO (add p q0)
       | XH -> XI p)
    | XH -> (match y with
             | XI q0 -> XO (succ q0)
             | XO q0 -> XI q0
             | XH -> XO XH)

  (** val add_carry : positive -> positive -> positive **)

  and add_carry x y =
    match x with
    | XI p ->
      (match y with
       | XI q0 -> XI (add_carry p q0)
       | XO q0 -> XO (add_carry p q0)
       | XH -> XI (succ p))
    | XO p ->
      (match y with
       | XI q0 -> XO (add_carry p q0)
       | XO q0 -> XI (add p q0)
       | XH -> XO (succ p))
    | XH ->
      (match y with
       | XI q0 -> XI (succ q0)
       | XO q0 -> XO (succ q0)
       | XH -> XI XH)

  (** val pred_double : positive -> positive **)

  let rec pred_double = function
  | XI p -> XI (XO p)
  | XO p -> XI (pred_double p)
  | XH -> XH

  (** val eqb : positive -> positive -> bool **)

  let rec eqb p q0 =
    match p with
    | XI p0 -> (match q0 with
                | XI q1 -> eqb p0 q1
                | _ -> false)
    | XO p0 -> (match q0 with
                | XO q1 -> eqb p0 q1
                | _ -> false)
    | XH -> (match q0 with
             | XH -> true
             | _ -> false)

  (** val of_succ_nat : nat -> positive **)

  let rec of_succ_nat = function
  | O -> XH
  | S x -> succ (of_succ_nat x)
 end

module N =
 struct
  (** val of_nat : nat -> n **)

  let of_nat = function
  | O -> N0
  | S n' -> Npos (Pos.of_succ_nat n')
 end

(** val map : ('a1 -> 'a2) -> 'a1 list -> 'a2 list **)

let rec map f = function
| [] -> []
| a :: t -> (f a) :: (map f t)

(** val firstn : nat -> 'a1 list -> 'a1 list **)

let rec firstn n0 l =
  match n0 with
  | O -> []
  | S n1 -> (match l with
             | [] -> []
             | a :: l0 -> a :: (firstn n1 l0))

(** val skipn : nat -> 'a1 list -> 'a1 list **)

let rec skipn n0 l =
  match n0 with
  | O -> l
  | S n1 -> (match l with
             | [] -> []
             | _ :: l0 -> skipn n1 l0)

(** val seq : nat -> nat -> nat list **)

let rec seq start = function
| O -> []
| S len0 -> start :: (seq (S start) len0)

module Z =
 struct
  (** val double : z -> z **)

  let double = function
  | Z0 -> Z0
  | Zpos p -> Zpos (XO p)
  | Zneg p -> Zneg (XO p)

  (** val succ_double : z -> z **)

  let succ_double = function
  | Z0 -> Zpos XH
  | Zpos p -> Zpos (XI p)
  | Zneg p -> Zneg (Pos.pred_double p)

  (** val pred_double : z -> z **)

  let pred_double = function
  | Z0 -> Zneg XH
  | Zpos p -> Zpos (Pos.pred_double p)
  | Zneg p -> Zneg (XI p)

  (** val pos_sub : positive -> positive -> z **)

  let rec pos_sub x y =
    match x with
    | XI p ->
      (match y with
       | XI q0 -> double (pos_sub p q0)
       | XO q0 -> succ_double (pos_sub p q0)
       | XH -> Zpos (XO p))
    | XO p ->
      (match y with
       | XI q0 -> pred_double (pos_sub p q0)
       | XO q0 -> double (pos_sub p q0)
       | XH -> Zpos (Pos.pred_double p))
    | XH ->
      (match y with
       | XI q0 -> Zneg (XO q0)
       | XO q0 -> Zneg (Pos.pred_double q0)
       | XH -> Z0)

  (** val add : z -> z -> z **)

  let add x y =
    match x with
    | Z0 -> y
    | Zpos x' ->
      (match y with
       | Z0 -> x
       | Zpos y' -> Zpos (Pos.add x' y')
       | Zneg y' -> pos_sub x' y')
    | Zneg x' ->
      (match y with
       | Z0 -> x
       | Zpos y' -> pos_sub y' x'
       | Zneg y' -> Zneg (Pos.add x' y'))

  (** val opp : z -> z **)

  let opp = function
  | Z0 -> Z0
  | Zpos x0 -> Zneg x0
  | Zneg x0 -> Zpos x0

  (** val sub : z -> z -> z **)

  let sub m n0 =
    add m (opp n0)

  (** val eqb : z -> z -> bool **)

  let eqb x y =
    match x with
    | Z0 -> (match y with
             | Z0 -> true
             | _ -> false)
    | Zpos p -> (match y with
                 | Zpos q0 -> Pos.eqb p q0
                 | _ -> false)
    | Zneg p -> (match y with
                 | Zneg q0 -> Pos.eqb p q0
                 | _ -> false)
 end

type cfg = { fix_f03 : bool; fix_conv : bool }

(** val cfg_repo : cfg **)

let cfg_repo =
  { fix_f03 = false; fix_conv = false }

(** val cfg_fixed : cfg **)

let cfg_fixed =
  { fix_f03 = true; fix_conv = true }

type kind =
| KSync
| KAsync

(** val kind_eqb : kind -> kind -> bool **)

let kind_eqb a b =
  match a with
  | KSync -> (match b with
              | KSync -> true
              | KAsync -> false)
  | KAsync -> (match b with
               | KSync -> false
               | KAsync -> true)

(** val flip : kind -> kind **)

let flip = function
| KSync -> KAsync
| KAsync -> KSync

type hst =
| HGone
| HLive of kind * bool

type sfut =
| SFSend of nat
| SFBatch of nat list * nat
| SFBatchMut of nat list * nat

type rfut =
| RFRecv
| RFBatch of nat

type owner =
| OFut
| OStream

type event =
| EWake of nat
| EDrop of nat

type res =
| ROk
| ROkN of nat
| RVal of nat
| RVals of nat list
| RFull of nat
| RClosedV of nat
| RClosed
| RTryBatchErr of nat * nat list * bool
| RBatchErr of nat * nat list
| RMutOk of nat * nat list
| RMutClosed of nat list
| RRest of nat list
| REmpty
| RDisc
| RTimeout
| RPending
| RNone
| RObs of nat * bool * bool * bool * nat
| RCloseErr
| RNA
| RBusy
| RGone
| RNoFut
| RWouldBlock

type op =
| TrySend
| Send
| TrySendBatch of nat
| SendBatch of nat
| TrySendBatchMut of nat
| SendBatchMut of nat
| CloseS
| ObsS
| ConvS
| DropS
| MkSend
| MkSendBatch of nat
| MkSendBatchMut of nat
| PollS of nat
| DropFutS
| TryRecv
| Recv
| RecvTimeout
| TryRecvBatch of nat
| RecvBatch of nat
| CloseR
| ObsR
| ConvR
| DropR
| MkRecv
| MkRecvBatch of nat
| PollR of nat
| DropFutR
| StreamNext of nat

type st = { cap : nat; q : nat list; scount : z; rcount : z; pdrop : 
            bool; cdrop : bool; pw : nat option; cw : nat option; sh : 
            hst; rh : hst; rreg : bool; sf : (sfut * bool) option;
            rf : (rfut * bool) option; next : nat; accepted : nat list;
            received : nat list; returned : nat list; dropped : nat list;
            drained : nat list; s_pend : nat option; s_woken : bool;
            r_pend : (owner * nat) option; r_woken : bool;
            st_pend : nat option; st_woken : bool; rdisc : bool;
            s_ever : bool; r_ever : bool; ev : event list }

(** val set_q : nat list -> st -> st **)

let set_q v s =
  { cap = s.cap; q = v; scount = s.scount; rcount = s.rcount; pdrop =
    s.pdrop; cdrop = s.cdrop; pw = s.pw; cw = s.cw; sh = s.sh; rh = s.rh;
    rreg = s.rreg; sf = s.sf; rf = s.rf; next = s.next; accepted =
    s.accepted; received = s.received; returned = s.returned; dropped =
    s.dropped; drained = s.drained; s_pend = s.s_pend; s_woken = s.s_woken;
    r_pend = s.r_pend; r_woken = s.r_woken; st_pend = s.st_pend; st_woken =
    s.st_woken; rdisc = s.rdisc; s_ever = s.s_ever; r_ever = s.r_ever; ev =
    s.ev }

(** val set_scount : z -> st -> st **)

let set_scount v s =
  { cap = s.cap; q = s.q; scount = v; rcount = s.rcount; pdrop = s.pdrop;
    cdrop = s.cdrop; pw = s.pw; cw = s.cw; sh = s.sh; rh = s.rh; rreg =
    s.rreg; sf = s.sf; rf = s.rf; next = s.next; accepted = s.accepted;
    received = s.received; returned = s.returned; dropped = s.dropped;
    drained = s.drained; s_pend = s.s_pend; s_woken = s.s_woken; r_pend =
    s.r_pend; r_woken = s.r_woken; st_pend = s.st_pend; st_woken =
    s.st_woken; rdisc = s.rdisc; s_ever = s.s_ever; r_ever = s.r_ever; ev =
    s.ev }

(** val set_rcount : z -> st -> st **)

let set_rcount v s =
  { cap = s.cap; q = s.q; scount = s.scount; rcount = v; pdrop = s.pdrop;
    cdrop = s.cdrop; pw = s.pw; cw = s.cw; sh = s.sh; rh = s.rh; rreg =
    s.rreg; sf = s.sf; rf = s.rf; next = s.next; accepted = s.accepted;
    received = s.received; returned = s.returned; dropped = s.dropped;
    drained = s.drained; s_pend = s.s_pend; s_woken = s.s_woken; r_pend =
    s.r_pend; r_woken = s.r_woken; st_pend = s.st_pend; st_woken =
    s.st_woken; rdisc = s.rdisc; s_ever = s.s_ever; r_ever = s.r_ever; ev =
    s.ev }

(** val set_pdrop : bool -> st -> st **)

let set_pdrop v s =
  { cap = s.cap; q = s.q; scount = s.scount; rcount = s.rcount; pdrop = v;
    cdrop = s.cdrop; pw = s.pw; cw = s.cw; sh = s.sh; rh = s.rh; rreg =
    s.rreg; sf = s.sf; rf = s.rf; next = s.next; accepted = s.accepted;
    received = s.received; returned = s.returned; dropped = s.dropped;
    drained = s.drained; s_pend = s.s_pend; s_woken = s.s_woken; r_pend =
    s.r_pend; r_woken = s.r_woken; st_pend = s.st_pend; st_woken =
    s.st_woken; rdisc = s.rdisc; s_ever = s.s_ever; r_ever = s.r_ever; ev =
    s.ev }

(** val set_cdrop : bool -> st -> st **)

let set_cdrop v s =
  { cap = s.cap; q = s.q; scount = s.scount; rcount = s.rcount; pdrop =
    s.pdrop; cdrop = v; pw = s.pw; cw = s.cw; sh = s.sh; rh = s.rh; rreg =
    s.rreg; sf = s.sf; rf = s.rf; next = s.next; accepted = s.accepted;
    received = s.received; returned = s.returned; dropped = s.dropped;
    drained = s.drained; s_pend = s.s_pend; s_woken = s.s_woken; r_pend =
    s.r_pend; r_woken = s.r_woken; st_pend = s.st_pend; st_woken =
    s.st_woken; rdisc = s.rdisc; s_ever = s.s_ever; r_ever = s.r_ever; ev =
    s.ev }

(** val set_pw : nat option -> st -> st **)

let set_pw v s =
  { cap = s.cap; q = s.q; scount = s.scount; rcount = s.rcount; pdrop =
    s.pdrop; cdrop = s.cdrop; pw = v; cw = s.cw; sh = s.sh; rh = s.rh; rreg =
    s.rreg; sf = s.sf; rf = s.rf; next = s.next; accepted = s.accepted;
    received = s.received; returned = s.returned; dropped = s.dropped;
    drained = s.drained; s_pend = s.s_pend; s_woken = s.s_woken; r_pend =
    s.r_pend; r_woken = s.r_woken; st_pend = s.st_pend; st_woken =
    s.st_woken; rdisc = s.rdisc; s_ever = s.s_ever; r_ever = s.r_ever; ev =
    s.ev }

(** val set_cw : nat option -> st -> st **)

let set_cw v s =
  { cap = s.cap; q = s.q; scount = s.scount; rcount = s.rcount; pdrop =
    s.pdrop; cdrop = s.cdrop; pw = s.pw; cw = v; sh = s.sh; rh = s.rh; rreg =
    s.rreg; sf = s.sf; rf = s.rf; next = s.next; accepted = s.accepted;
    received = s.received; returned = s.returned; dropped = s.dropped;
    drained = s.drained; s_pend = s.s_pend; s_woken = s.s_woken; r_pend =
    s.r_pend; r_woken = s.r_woken; st_pend = s.st_pend; st_woken =
    s.st_woken; rdisc = s.rdisc; s_ever = s.s_ever; r_ever = s.r_ever; ev =
    s.ev }

(** val set_sh : hst -> st -> st **)

let set_sh v s =
  { cap = s.cap; q = s.q; scount = s.scount; rcount = s.rcount; pdrop =
    s.pdrop; cdrop = s.cdrop; pw = s.pw; cw = s.cw; sh = v; rh = s.rh; rreg =
    s.rreg; sf = s.sf; rf = s.rf; next = s.next; accepted = s.accepted;
    received = s.received; returned = s.returned; dropped = s.dropped;
    drained = s.drained; s_pend = s.s_pend; s_woken = s.s_woken; r_pend =
    s.r_pend; r_woken = s.r_woken; st_pend = s.st_pend; st_woken =
    s.st_woken; rdisc = s.rdisc; s_ever = s.s_ever; r_ever = s.r_ever; ev =
    s.ev }

(** val set_rh : hst -> st -> st **)

let set_rh v s =
  { cap = s.cap; q = s.q; scount = s.scount; rcount = s.rcount; pdrop =
    s.pdrop; cdrop = s.cdrop; pw = s.pw; cw = s.cw; sh = s.sh; rh = v; rreg =
    s.rreg; sf = s.sf; rf = s.rf; next = s.next; accepted = s.accepted;
    received = s.received; returned = s.returned; dropped = s.dropped;
    drained = s.drained; s_pend = s.s_pend; s_woken = s.s_woken; r_pend =
    s.r_pend; r_woken = s.r_woken; st_pend = s.st_pend; st_woken =
    s.st_woken; rdisc = s.rdisc; s_ever = s.s_ever; r_ever = s.r_ever; ev =
    s.ev }

(** val set_rreg : bool -> st -> st **)

let set_rreg v s =
  { cap = s.cap; q = s.q; scount = s.scount; rcount = s.rcount; pdrop =
    s.pdrop; cdrop = s.cdrop; pw = s.pw; cw = s.cw; sh = s.sh; rh = s.rh;
    rreg = v; sf = s.sf; rf = s.rf; next = s.next; accepted = s.accepted;
    received = s.received; returned = s.returned; dropped = s.dropped;
    drained = s.drained; s_pend = s.s_pend; s_woken = s.s_woken; r_pend =
    s.r_pend; r_woken = s.r_woken; st_pend = s.st_pend; st_woken =
    s.st_woken; rdisc = s.rdisc; s_ever = s.s_ever; r_ever = s.r_ever; ev =
    s.ev }

(** val set_sf : (sfut * bool) option -> st -> st **)

let set_sf v s =
  { cap = s.cap; q = s.q; scount = s.scount; rcount = s.rcount; pdrop =
    s.pdrop; cdrop = s.cdrop; pw = s.pw; cw = s.cw; sh = s.sh; rh = s.rh;
    rreg = s.rreg; sf = v; rf = s.rf; next = s.next; accepted = s.accepted;
    received = s.received; returned = s.returned; dropped = s.dropped;
    drained = s.drained; s_pend = s.s_pend; s_woken = s.s_woken; r_pend =
    s.r_pend; r_woken = s.r_woken; st_pend = s.st_pend; st_woken =
    s.st_woken; rdisc = s.rdisc; s_ever = s.s_ever; r_ever = s.r_ever; ev =
    s.ev }

(** val set_rf : (rfut * bool) option -> st -> st **)

let set_rf v s =
  { cap = s.cap; q = s.q; scount = s.scount; rcount = s.rcount; pdrop =
    s.pdrop; cdrop = s.cdrop; pw = s.pw; cw = s.cw; sh = s.sh; rh = s.rh;
    rreg = s.rreg; sf = s.sf; rf = v; next = s.next; accepted = s.accepted;
    received = s.received; returned = s.returned; dropped = s.dropped;
    drained = s.drained; s_pend = s.s_pend; s_woken = s.s_woken; r_pend =
    s.r_pend; r_woken = s.r_woken; st_pend = s.st_pend; st_woken =
    s.st_woken; rdisc = s.rdisc; s_ever = s.s_ever; r_ever = s.r_ever; ev =
    s.ev }

(** val set_next : nat -> st -> st **)

let set_next v s =
  { cap = s.cap; q = s.q; scount = s.scount; rcount = s.rcount; pdrop =
    s.pdrop; cdrop = s.cdrop; pw = s.pw; cw = s.cw; sh = s.sh; rh = s.rh;
    rreg = s.rreg; sf = s.sf; rf = s.rf; next = v; accepted = s.accepted;
    received = s.received; returned = s.returned; dropped = s.dropped;
    drained = s.drained; s_pend = s.s_pend; s_woken = s.s_woken; r_pend =
    s.r_pend; r_woken = s.r_woken; st_pend = s.st_pend; st_woken =
    s.st_woken; rdisc = s.rdisc; s_ever = s.s_ever; r_ever = s.r_ever; ev =
    s.ev }

(** val set_accepted : nat list -> st -> st **)

let set_accepted v s =
  { cap = s.cap; q = s.q; scount = s.scount; rcount = s.rcount; pdrop =
    s.pdrop; cdrop = s.cdrop; pw = s.pw; cw = s.cw; sh = s.sh; rh = s.rh;
    rreg = s.rreg; sf = s.sf; rf = s.rf; next = s.next; accepted = v;
    received = s.received; returned = s.returned; dropped = s.dropped;
    drained = s.drained; s_pend = s.s_pend; s_woken = s.s_woken; r_pend =
    s.r_pend; r_woken = s.r_woken; st_pend = s.st_pend; st_woken =
    s.st_woken; rdisc = s.rdisc; s_ever = s.s_ever; r_ever = s.r_ever; ev =
    s.ev }

(** val set_received : nat list -> st -> st **)

let set_received v s =
  { cap = s.cap; q = s.q; scount = s.scount; rcount = s.rcount; pdrop =
    s.pdrop; cdrop = s.cdrop; pw = s.pw; cw = s.cw; sh = s.sh; rh = s.rh;
    rreg = s.rreg; sf = s.sf; rf = s.rf; next = s.next; accepted =
    s.accepted; received = v; returned = s.returned; dropped = s.dropped;
    drained = s.drained; s_pend = s.s_pend; s_woken = s.s_woken; r_pend =
    s.r_pend; r_woken = s.r_woken; st_pend = s.st_pend; st_woken =
    s.st_woken; rdisc = s.rdisc; s_ever = s.s_ever; r_ever = s.r_ever; ev =
    s.ev }

(** val set_returned : nat list -> st -> st **)

let set_returned v s =
  { cap = s.cap; q = s.q; scount = s.scount; rcount = s.rcount; pdrop =
    s.pdrop; cdrop = s.cdrop; pw = s.pw; cw = s.cw; sh = s.sh; rh = s.rh;
    rreg = s.rreg; sf = s.sf; rf = s.rf; next = s.next; accepted =
    s.accepted; received = s.received; returned = v; dropped = s.dropped;
    drained = s.drained; s_pend = s.s_pend; s_woken = s.s_woken; r_pend =
    s.r_pend; r_woken = s.r_woken; st_pend = s.st_pend; st_woken =
    s.st_woken; rdisc = s.rdisc; s_ever = s.s_ever; r_ever = s.r_ever; ev =
    s.ev }

(** val set_dropped : nat list -> st -> st **)

let set_dropped v s =
  { cap = s.cap; q = s.q; scount = s.scount; rcount = s.rcount; pdrop =
    s.pdrop; cdrop = s.cdrop; pw = s.pw; cw = s.cw; sh = s.sh; rh = s.rh;
    rreg = s.rreg; sf = s.sf; rf = s.rf; next = s.next; accepted =
    s.accepted; received = s.received; returned = s.returned; dropped = v;
    drained = s.drained; s_pend = s.s_pend; s_woken = s.s_woken; r_pend =
    s.r_pend; r_woken = s.r_woken; st_pend = s.st_pend; st_woken =
    s.st_woken; rdisc = s.rdisc; s_ever = s.s_ever; r_ever = s.r_ever; ev =
    s.ev }

(** val set_drained : nat list -> st -> st **)

let set_drained v s =
  { cap = s.cap; q = s.q; scount = s.scount; rcount = s.rcount; pdrop =
    s.pdrop; cdrop = s.cdrop; pw = s.pw; cw = s.cw; sh = s.sh; rh = s.rh;
    rreg = s.rreg; sf = s.sf; rf = s.rf; next = s.next; accepted =
    s.accepted; received = s.received; returned = s.returned; dropped =
    s.dropped; drained = v; s_pend = s.s_pend; s_woken = s.s_woken; r_pend =
    s.r_pend; r_woken = s.r_woken; st_pend = s.st_pend; st_woken =
    s.st_woken; rdisc = s.rdisc; s_ever = s.s_ever; r_ever = s.r_ever; ev =
    s.ev }

(** val set_s_pend : nat option -> st -> st **)

let set_s_pend v s =
  { cap = s.cap; q = s.q; scount = s.scount; rcount = s.rcount; pdrop =
    s.pdrop; cdrop = s.cdrop; pw = s.pw; cw = s.cw; sh = s.sh; rh = s.rh;
    rreg = s.rreg; sf = s.sf; rf = s.rf; next = s.next; accepted =
    s.accepted; received = s.received; returned = s.returned; dropped =
    s.dropped; drained = s.drained; s_pend = v; s_woken = s.s_woken; r_pend =
    s.r_pend; r_woken = s.r_woken; st_pend = s.st_pend; st_woken =
    s.st_woken; rdisc = s.rdisc; s_ever = s.s_ever; r_ever = s.r_ever; ev =
    s.ev }

(** val set_s_woken : bool -> st -> st **)

let set_s_woken v s =
  { cap = s.cap; q = s.q; scount = s.scount; rcount = s.rcount; pdrop =
    s.pdrop; cdrop = s.cdrop; pw = s.pw; cw = s.cw; sh = s.sh; rh = s.rh;
    rreg = s.rreg; sf = s.sf; rf = s.rf; next = s.next; accepted =
    s.accepted; received = s.received; returned = s.returned; dropped =
    s.dropped; drained = s.drained; s_pend = s.s_pend; s_woken = v; r_pend =
    s.r_pend; r_woken = s.r_woken; st_pend = s.st_pend; st_woken =
    s.st_woken; rdisc = s.rdisc; s_ever = s.s_ever; r_ever = s.r_ever; ev =
    s.ev }

(** val set_r_pend : (owner * nat) option -> st -> st **)

let set_r_pend v s =
  { cap = s.cap; q = s.q; scount = s.scount; rcount = s.rcount; pdrop =
    s.pdrop; cdrop = s.cdrop; pw = s.pw; cw = s.cw; sh = s.sh; rh = s.rh;
    rreg = s.rreg; sf = s.sf; rf = s.rf; next = s.next; accepted =
    s.accepted; received = s.received; returned = s.returned; dropped =
    s.dropped; drained = s.drained; s_pend = s.s_pend; s_woken = s.s_woken;
    r_pend = v; r_woken = s.r_woken; st_pend = s.st_pend; st_woken =
    s.st_woken; rdisc = s.rdisc; s_ever = s.s_ever; r_ever = s.r_ever; ev =
    s.ev }

(** val set_r_woken : bool -> st -> st **)

let set_r_woken v s =
  { cap = s.cap; q = s.q; scount = s.scount; rcount = s.rcount; pdrop =
    s.pdrop; cdrop = s.cdrop; pw = s.pw; cw = s.cw; sh = s.sh; rh = s.rh;
    rreg = s.rreg; sf = s.sf; rf = s.rf; next = s.next; accepted =
    s.accepted; received = s.received; returned = s.returned; dropped =
    s.dropped; drained = s.drained; s_pend = s.s_pend; s_woken = s.s_woken;
    r_pend = s.r_pend; r_woken = v; st_pend = s.st_pend; st_woken =
    s.st_woken; rdisc = s.rdisc; s_ever = s.s_ever; r_ever = s.r_ever; ev =
    s.ev }

(** val set_st_pend : nat option -> st -> st **)

let set_st_pend v s =
  { cap = s.cap; q = s.q; scount = s.scount; rcount = s.rcount; pdrop =
    s.pdrop; cdrop = s.cdrop; pw = s.pw; cw = s.cw; sh = s.sh; rh = s.rh;
    rreg = s.rreg; sf = s.sf; rf = s.rf; next = s.next; accepted =
    s.accepted; received = s.received; returned = s.returned; dropped =
    s.dropped; drained = s.drained; s_pend = s.s_pend; s_woken = s.s_woken;
    r_pend = s.r_pend; r_woken = s.r_woken; st_pend = v; st_woken =
    s.st_woken; rdisc = s.rdisc; s_ever = s.s_ever; r_ever = s.r_ever; ev =
    s.ev }

(** val set_st_woken : bool -> st -> st **)

let set_st_woken v s =
  { cap = s.cap; q = s.q; scount = s.scount; rcount = s.rcount; pdrop =
    s.pdrop; cdrop = s.cdrop; pw = s.pw; cw = s.cw; sh = s.sh; rh = s.rh;
    rreg = s.rreg; sf = s.sf; rf = s.rf; next = s.next; accepted =
    s.accepted; received = s.received; returned = s.returned; dropped =
    s.dropped; drained = s.drained; s_pend = s.s_pend; s_woken = s.s_woken;
    r_pend = s.r_pend; r_woken = s.r_woken; st_pend = s.st_pend; st_woken =
    v; rdisc = s.rdisc; s_ever = s.s_ever; r_ever = s.r_ever; ev = s.ev }

(** val set_rdisc : bool -> st -> st **)

let set_rdisc v s =
  { cap = s.cap; q = s.q; scount = s.scount; rcount = s.rcount; pdrop =
    s.pdrop; cdrop = s.cdrop; pw = s.pw; cw = s.cw; sh = s.sh; rh = s.rh;
    rreg = s.rreg; sf = s.sf; rf = s.rf; next = s.next; accepted =
    s.accepted; received = s.received; returned = s.returned; dropped =
    s.dropped; drained = s.drained; s_pend = s.s_pend; s_woken = s.s_woken;
    r_pend = s.r_pend; r_woken = s.r_woken; st_pend = s.st_pend; st_woken =
    s.st_woken; rdisc = v; s_ever = s.s_ever; r_ever = s.r_ever; ev = s.ev }

(** val set_s_ever : bool -> st -> st **)

let set_s_ever v s =
  { cap = s.cap; q = s.q; scount = s.scount; rcount = s.rcount; pdrop =
    s.pdrop; cdrop = s.cdrop; pw = s.pw; cw = s.cw; sh = s.sh; rh = s.rh;
    rreg = s.rreg; sf = s.sf; rf = s.rf; next = s.next; accepted =
    s.accepted; received = s.received; returned = s.returned; dropped =
    s.dropped; drained = s.drained; s_pend = s.s_pend; s_woken = s.s_woken;
    r_pend = s.r_pend; r_woken = s.r_woken; st_pend = s.st_pend; st_woken =
    s.st_woken; rdisc = s.rdisc; s_ever = v; r_ever = s.r_ever; ev = s.ev }

(** val set_r_ever : bool -> st -> st **)

let set_r_ever v s =
  { cap = s.cap; q = s.q; scount = s.scount; rcount = s.rcount; pdrop =
    s.pdrop; cdrop = s.cdrop; pw = s.pw; cw = s.cw; sh = s.sh; rh = s.rh;
    rreg = s.rreg; sf = s.sf; rf = s.rf; next = s.next; accepted =
    s.accepted; received = s.received; returned = s.returned; dropped =
    s.dropped; drained = s.drained; s_pend = s.s_pend; s_woken = s.s_woken;
    r_pend = s.r_pend; r_woken = s.r_woken; st_pend = s.st_pend; st_woken =
    s.st_woken; rdisc = s.rdisc; s_ever = s.s_ever; r_ever = v; ev = s.ev }

(** val set_ev : event list -> st -> st **)

let set_ev v s =
  { cap = s.cap; q = s.q; scount = s.scount; rcount = s.rcount; pdrop =
    s.pdrop; cdrop = s.cdrop; pw = s.pw; cw = s.cw; sh = s.sh; rh = s.rh;
    rreg = s.rreg; sf = s.sf; rf = s.rf; next = s.next; accepted =
    s.accepted; received = s.received; returned = s.returned; dropped =
    s.dropped; drained = s.drained; s_pend = s.s_pend; s_woken = s.s_woken;
    r_pend = s.r_pend; r_woken = s.r_woken; st_pend = s.st_pend; st_woken =
    s.st_woken; rdisc = s.rdisc; s_ever = s.s_ever; r_ever = s.r_ever; ev =
    v }

(** val init : nat -> kind -> st **)

let init c k =
  { cap = c; q = []; scount = (Zpos XH); rcount = (Zpos XH); pdrop = false;
    cdrop = false; pw = None; cw = None; sh = (HLive (k, false)); rh = (HLive
    (k, false)); rreg = false; sf = None; rf = None; next = O; accepted = [];
    received = []; returned = []; dropped = []; drained = []; s_pend = None;
    s_woken = false; r_pend = None; r_woken = false; st_pend = None;
    st_woken = false; rdisc = false; s_ever = false; r_ever = false; ev = [] }

(** val opt_is : 'a1 option -> bool **)

let opt_is = function
| Some _ -> true
| None -> false

(** val is_nil : 'a1 list -> bool **)

let is_nil = function
| [] -> true
| _ :: _ -> false

(** val wake_ev : nat option -> event list **)

let wake_ev = function
| Some w -> (EWake w) :: []
| None -> []

(** val wake_r_if : bool -> st -> st **)

let wake_r_if b s =
  set_cw (if b then None else s.cw)
    (set_ev (app s.ev (if b then wake_ev s.cw else []))
      (set_r_woken ((||) s.r_woken ((&&) b (opt_is s.cw)))
        (set_st_woken
          ((||) s.st_woken
            ((&&) b
              (match s.cw with
               | Some w ->
                 (match s.st_pend with
                  | Some w' -> Nat.eqb w' w
                  | None -> false)
               | None -> false))) s)))

(** val wake_s_if : bool -> st -> st **)

let wake_s_if b s =
  set_pw (if b then None else s.pw)
    (set_ev (app s.ev (if b then wake_ev s.pw else []))
      (set_s_woken ((||) s.s_woken ((&&) b (opt_is s.pw))) s))

(** val push : nat list -> st -> st **)

let push ids s =
  wake_r_if (negb (is_nil ids))
    (set_accepted (app s.accepted ids) (set_q (app s.q ids) s))

(** val pop : nat -> st -> st **)

let pop k s =
  wake_s_if (negb (Nat.eqb k O))
    (set_q (skipn k s.q) (set_received (app s.received (firstn k s.q)) s))

(** val give_back : nat list -> st -> st **)

let give_back ids s =
  set_returned (app s.returned ids) s

(** val destroy : nat list -> st -> st **)

let destroy ids s =
  set_ev (app s.ev (map (fun x -> EDrop x) ids))
    (set_dropped (app s.dropped ids) s)

(** val free : st -> nat **)

let free s =
  sub s.cap (length s.q)

(** val close_int_s_if : bool -> st -> st **)

let close_int_s_if b s =
  wake_r_if ((&&) b (Z.eqb s.scount (Zpos XH)))
    (set_scount (if b then Z.sub s.scount (Zpos XH) else s.scount)
      (set_pdrop ((||) s.pdrop b) s))

(** val close_int_r_if : bool -> st -> st **)

let close_int_r_if b s =
  wake_s_if ((&&) b (Z.eqb s.rcount (Zpos XH)))
    (set_rcount (if b then Z.sub s.rcount (Zpos XH) else s.rcount)
      (set_cdrop ((||) s.cdrop b) s))

(** val close_int_s : st -> st **)

let close_int_s =
  close_int_s_if true

(** val close_int_r : st -> st **)

let close_int_r =
  close_int_r_if true

(** val both_gone : st -> bool **)

let both_gone s =
  match s.sh with
  | HGone -> (match s.rh with
              | HGone -> true
              | HLive (_, _) -> false)
  | HLive (_, _) -> false

(** val shared_drop_if : st -> st **)

let shared_drop_if s =
  set_q (if both_gone s then [] else s.q)
    (set_ev
      (app s.ev (if both_gone s then map (fun x -> EDrop x) s.q else []))
      (set_drained (app s.drained (if both_gone s then s.q else [])) s))

(** val clear_stream_pend : st -> st **)

let clear_stream_pend s =
  set_r_pend
    (match s.r_pend with
     | Some p ->
       let (o, n0) = p in
       (match o with
        | OFut -> Some (OFut, n0)
        | OStream -> None)
     | None -> None) (set_st_pend None s)

(** val clear_fut_pend : st -> st **)

let clear_fut_pend s =
  set_r_pend
    (match s.r_pend with
     | Some p ->
       let (o, n0) = p in
       (match o with
        | OFut -> None
        | OStream -> Some (OStream, n0))
     | None -> None) s

(** val note_disc : st -> st **)

let note_disc s =
  set_rdisc true s

(** val gate_s :
    st -> kind option -> (kind -> bool -> st * res) -> st * res **)

let gate_s s need body =
  match s.sh with
  | HGone -> (s, RGone)
  | HLive (k, c) ->
    (match s.sf with
     | Some _ -> (s, RBusy)
     | None ->
       (match need with
        | Some k' -> if kind_eqb k k' then body k c else (s, RNA)
        | None -> body k c))

(** val gate_r :
    st -> kind option -> (kind -> bool -> st * res) -> st * res **)

let gate_r s need body =
  match s.rh with
  | HGone -> (s, RGone)
  | HLive (k, c) ->
    (match s.rf with
     | Some _ -> (s, RBusy)
     | None ->
       (match need with
        | Some k' -> if kind_eqb k k' then body k c else (s, RNA)
        | None -> body k c))

(** val alloc : nat -> st -> st **)

let alloc n0 s =
  set_next (add s.next n0) s

(** val do_try_send : st -> st * res **)

let do_try_send s =
  gate_s s None (fun _ c ->
    let v = s.next in
    if (||) c s.cdrop
    then ((give_back (v :: []) (alloc (S O) s)), (RClosedV v))
    else if Nat.ltb (length s.q) s.cap
         then ((push (v :: []) (alloc (S O) s)), ROk)
         else ((give_back (v :: []) (alloc (S O) s)), (RFull v)))

(** val do_send : st -> st * res **)

let do_send s =
  gate_s s (Some KSync) (fun _ c ->
    let v = s.next in
    if (||) c s.cdrop
    then ((destroy (v :: []) (alloc (S O) s)), RClosed)
    else if Nat.ltb (length s.q) s.cap
         then ((push (v :: []) (alloc (S O) s)), ROk)
         else (s, RWouldBlock))

(** val do_try_send_batch : nat -> st -> st * res **)

let do_try_send_batch n0 s =
  gate_s s None (fun _ c ->
    match n0 with
    | O -> (s, (ROkN O))
    | S _ ->
      let ids = seq s.next n0 in
      if (||) c s.cdrop
      then ((give_back ids (alloc n0 s)), (RTryBatchErr (O, ids, true)))
      else let k = min n0 (free s) in
           let s1 = push (firstn k ids) (alloc n0 s) in
           if Nat.eqb k n0
           then (s1, (ROkN n0))
           else ((give_back (skipn k ids) s1), (RTryBatchErr (k,
                  (skipn k ids), false))))

(** val do_send_batch : cfg -> nat -> st -> st * res **)

let do_send_batch cf n0 s =
  gate_s s (Some KSync) (fun _ c ->
    let ids = seq s.next n0 in
    if (||) ((&&) cf.fix_f03 c) s.cdrop
    then ((give_back ids (alloc n0 s)), (RBatchErr (O, ids)))
    else if Nat.leb n0 (free s)
         then ((push ids (alloc n0 s)), (ROkN n0))
         else (s, RWouldBlock))

(** val do_try_send_batch_mut : nat -> st -> st * res **)

let do_try_send_batch_mut n0 s =
  gate_s s None (fun _ c ->
    match n0 with
    | O -> (s, (RMutOk (O, [])))
    | S _ ->
      let ids = seq s.next n0 in
      if (||) c s.cdrop
      then ((give_back ids (alloc n0 s)), (RMutClosed ids))
      else let k = min n0 (free s) in
           let s1 = push (firstn k ids) (alloc n0 s) in
           ((give_back (skipn k ids) s1), (RMutOk (k, (skipn k ids)))))

(** val do_send_batch_mut : nat -> st -> st * res **)

let do_send_batch_mut n0 s =
  gate_s s (Some KSync) (fun _ c ->
    match n0 with
    | O -> (s, (RMutOk (O, [])))
    | S _ ->
      let ids = seq s.next n0 in
      if (||) c s.cdrop
      then ((give_back ids (alloc n0 s)), (RMutClosed ids))
      else if Nat.leb n0 (free s)
           then ((push ids (alloc n0 s)), (RMutOk (n0, [])))
           else (s, RWouldBlock))

(** val do_close_s : st -> st * res **)

let do_close_s s =
  gate_s s None (fun k c ->
    if c
    then (s, RCloseErr)
    else ((close_int_s (set_s_ever true (set_sh (HLive (k, true)) s))), ROk))

(** val do_obs_s : st -> st * res **)

let do_obs_s s =
  gate_s s None (fun _ c -> (s, (RObs ((length s.q),
    (Nat.eqb (length s.q) O), (Nat.leb s.cap (length s.q)), ((||) c s.cdrop),
    s.cap))))

(** val do_conv_s : cfg -> st -> st * res **)

let do_conv_s cf s =
  gate_s s None (fun k c ->
    ((set_sh (HLive ((flip k), (if cf.fix_conv then c else false))) s), ROk))

(** val do_drop_s : st -> st * res **)

let do_drop_s s =
  gate_s s None (fun _ c ->
    ((shared_drop_if (set_sh HGone (close_int_s_if (negb c) s))), ROk))

(** val do_mk_s : sfut -> nat -> st -> st * res **)

let do_mk_s f n0 s =
  gate_s s (Some KAsync) (fun _ _ ->
    ((set_sf (Some (f, false)) (alloc n0 s)), ROk))

(** val do_poll_s : nat -> st -> st * res **)

let do_poll_s w s =
  match s.sh with
  | HGone -> (s, RNoFut)
  | HLive (_, c) ->
    (match s.sf with
     | Some p ->
       let (f, reg) = p in
       let unreg = fun s0 -> set_pw (if reg then None else s0.pw) s0 in
       let done0 = fun s0 -> set_s_pend None (set_sf None s0) in
       let pending = fun f' s0 ->
         ((set_s_woken false
            (set_s_pend (Some w)
              (set_sf (Some (f', true)) (set_pw (Some w) s0)))), RPending)
       in
       (match f with
        | SFSend v ->
          if (||) c s.cdrop
          then ((done0 (destroy (v :: []) (unreg s))), RClosed)
          else if Nat.ltb (length s.q) s.cap
               then ((done0 (push (v :: []) (unreg s))), ROk)
               else pending f s
        | SFBatch (rest, sent) ->
          (match rest with
           | [] -> ((done0 (unreg s)), (ROkN sent))
           | _ :: _ ->
             if (||) c s.cdrop
             then ((done0 (give_back rest (unreg s))), (RBatchErr (sent,
                    rest)))
             else let k = min (length rest) (free s) in
                  let s1 = push (firstn k rest) s in
                  if Nat.eqb k (length rest)
                  then ((done0 (unreg s1)), (ROkN (add sent k)))
                  else pending (SFBatch ((skipn k rest), (add sent k))) s1)
        | SFBatchMut (items, sent) ->
          (match items with
           | [] -> ((done0 (unreg s)), (RMutOk (sent, [])))
           | _ :: _ ->
             if (||) c s.cdrop
             then ((done0 (give_back items (unreg s))), (RMutClosed items))
             else let k = min (length items) (free s) in
                  let s1 = push (firstn k items) s in
                  if Nat.eqb k (length items)
                  then ((done0 (unreg s1)), (RMutOk ((add sent k), [])))
                  else pending (SFBatchMut ((skipn k items), (add sent k))) s1))
     | None -> (s, RNoFut))

(** val do_dropfut_s : st -> st * res **)

let do_dropfut_s s =
  match s.sf with
  | Some p ->
    let (f, reg) = p in
    let s1 =
      set_s_pend None (set_sf None (set_pw (if reg then None else s.pw) s))
    in
    (match f with
     | SFSend v -> ((destroy (v :: []) s1), ROk)
     | SFBatch (rest, _) -> ((destroy rest s1), ROk)
     | SFBatchMut (items, _) -> ((give_back items s1), (RRest items)))
  | None -> (s, RNoFut)

(** val senders_alive : st -> bool **)

let senders_alive s =
  negb (Z.eqb s.scount Z0)

(** val do_recv1 : kind option -> res -> st -> st * res **)

let do_recv1 need on_empty s =
  gate_r s need (fun _ c ->
    if c
    then ((note_disc s), RDisc)
    else (match s.q with
          | [] ->
            if senders_alive s then (s, on_empty) else ((note_disc s), RDisc)
          | x :: _ -> ((pop (S O) s), (RVal x))))

(** val do_recvn : kind option -> res -> nat -> st -> st * res **)

let do_recvn need on_empty m s =
  gate_r s need (fun _ c ->
    match m with
    | O -> (s, (RVals []))
    | S _ ->
      if c
      then ((note_disc s), RDisc)
      else (match s.q with
            | [] ->
              if senders_alive s
              then (s, on_empty)
              else ((note_disc s), RDisc)
            | _ :: _ ->
              let k = min m (length s.q) in
              ((pop k s), (RVals (firstn k s.q)))))

(** val do_close_r : st -> st * res **)

let do_close_r s =
  gate_r s None (fun k c ->
    if c
    then (s, RCloseErr)
    else ((close_int_r (set_r_ever true (set_rh (HLive (k, true)) s))), ROk))

(** val do_obs_r : st -> st * res **)

let do_obs_r s =
  gate_r s None (fun _ c -> (s, (RObs ((length s.q),
    (Nat.eqb (length s.q) O), (Nat.leb s.cap (length s.q)),
    ((||) c ((&&) (negb (senders_alive s)) (Nat.eqb (length s.q) O))),
    s.cap))))

(** val stream_unreg : st -> st **)

let stream_unreg s =
  set_rreg false (set_cw (if s.rreg then None else s.cw) s)

(** val do_conv_r : cfg -> st -> st * res **)

let do_conv_r cf s =
  gate_r s None (fun k c ->
    let s1 =
      match k with
      | KSync -> s
      | KAsync -> clear_stream_pend (stream_unreg s)
    in
    ((set_rh (HLive ((flip k), (if cf.fix_conv then c else false))) s1), ROk))

(** val do_drop_r : st -> st * res **)

let do_drop_r s =
  gate_r s None (fun k c ->
    let s1 =
      match k with
      | KSync -> s
      | KAsync -> clear_stream_pend (stream_unreg s)
    in
    ((shared_drop_if (set_rh HGone (close_int_r_if (negb c) s1))), ROk))

(** val do_mk_r : rfut -> st -> st * res **)

let do_mk_r f s =
  gate_r s (Some KAsync) (fun _ _ -> ((set_rf (Some (f, false)) s), ROk))

(** val do_poll_r : nat -> st -> st * res **)

let do_poll_r w s =
  match s.rh with
  | HGone -> (s, RNoFut)
  | HLive (_, c) ->
    (match s.rf with
     | Some p ->
       let (f, reg) = p in
       let unreg = fun s0 -> set_cw (if reg then None else s0.cw) s0 in
       let done0 = fun s0 -> clear_fut_pend (set_rf None s0) in
       let pending = fun s0 ->
         ((set_r_woken false
            (set_r_pend (Some (OFut, w))
              (set_rf (Some (f, true)) (set_cw (Some w) s0)))), RPending)
       in
       (match f with
        | RFRecv ->
          if c
          then ((note_disc (done0 (unreg s))), RDisc)
          else (match s.q with
                | [] ->
                  if senders_alive s
                  then pending s
                  else ((note_disc (done0 (unreg s))), RDisc)
                | x :: _ -> ((done0 (pop (S O) (unreg s))), (RVal x)))
        | RFBatch m ->
          (match m with
           | O -> ((done0 (unreg s)), (RVals []))
           | S _ ->
             if c
             then ((note_disc (done0 (unreg s))), RDisc)
             else (match s.q with
                   | [] ->
                     if s.pdrop
                     then ((note_disc (done0 (unreg s))), RDisc)
                     else if senders_alive s
                          then pending s
                          else ((note_disc (done0 (set_cw None s))), RDisc)
                   | _ :: _ ->
                     let k = min m (length s.q) in
                     ((done0 (unreg (pop k s))), (RVals (firstn k s.q))))))
     | None -> (s, RNoFut))

(** val do_dropfut_r : st -> st * res **)

let do_dropfut_r s =
  match s.rf with
  | Some p ->
    let (_, reg) = p in
    ((clear_fut_pend (set_rf None (set_cw (if reg then None else s.cw) s))),
    ROk)
  | None -> (s, RNoFut)

(** val do_stream_next : nat -> st -> st * res **)

let do_stream_next w s =
  gate_r s (Some KAsync) (fun _ c ->
    if c
    then ((clear_stream_pend (note_disc s)), RNone)
    else (match s.q with
          | [] ->
            if senders_alive s
            then ((set_st_woken false
                    (set_st_pend (Some w)
                      (set_r_woken false
                        (set_r_pend (Some (OStream, w))
                          (set_rreg true (set_cw (Some w) s)))))), RPending)
            else ((note_disc (clear_stream_pend (stream_unreg s))), RNone)
          | x :: _ ->
            ((clear_stream_pend (pop (S O) (stream_unreg s))), (RVal x))))

(** val exec : cfg -> st -> op -> st * res **)

let exec cf s = function
| TrySend -> do_try_send s
| Send -> do_send s
| TrySendBatch n0 -> do_try_send_batch n0 s
| SendBatch n0 -> do_send_batch cf n0 s
| TrySendBatchMut n0 -> do_try_send_batch_mut n0 s
| SendBatchMut n0 -> do_send_batch_mut n0 s
| CloseS -> do_close_s s
| ObsS -> do_obs_s s
| ConvS -> do_conv_s cf s
| DropS -> do_drop_s s
| MkSend -> do_mk_s (SFSend s.next) (S O) s
| MkSendBatch n0 -> do_mk_s (SFBatch ((seq s.next n0), O)) n0 s
| MkSendBatchMut n0 -> do_mk_s (SFBatchMut ((seq s.next n0), O)) n0 s
| PollS w -> do_poll_s w s
| DropFutS -> do_dropfut_s s
| TryRecv -> do_recv1 None REmpty s
| Recv -> do_recv1 (Some KSync) RWouldBlock s
| RecvTimeout -> do_recv1 (Some KSync) RTimeout s
| TryRecvBatch m -> do_recvn None REmpty m s
| RecvBatch m -> do_recvn (Some KSync) RWouldBlock m s
| CloseR -> do_close_r s
| ObsR -> do_obs_r s
| ConvR -> do_conv_r cf s
| DropR -> do_drop_r s
| MkRecv -> do_mk_r RFRecv s
| MkRecvBatch m -> do_mk_r (RFBatch m) s
| PollR w -> do_poll_r w s
| DropFutR -> do_dropfut_r s
| StreamNext w -> do_stream_next w s

type out = res * event list

(** val step : cfg -> st -> op -> st * out **)

let step cf s o =
  let (s1, r) = exec cf (set_ev [] s) o in (s1, (r, s1.ev))

(** val run : cfg -> st -> op list -> st * out list **)

let rec run cf s = function
| [] -> (s, [])
| o :: r ->
  let (s1, x) = step cf s o in let (s2, xs) = run cf s1 r in (s2, (x :: xs))

(** val teardown : op list **)

let teardown =
  DropFutS :: (DropFutR :: (DropS :: (DropR :: [])))

(** val run_case : cfg -> nat -> kind -> op list -> out list **)

let run_case cf c k ops =
  snd (run cf (init c k) (app ops teardown))
