
val negb : bool -> bool

type nat =
| O
| S of nat

val fst : ('a1 * 'a2) -> 'a1

val snd : ('a1 * 'a2) -> 'a2

val length : 'a1 list -> nat

val app : 'a1 list -> 'a1 list -> 'a1 list

type comparison =
| Eq
| Lt
| Gt

val add : nat -> nat -> nat

val sub : nat -> nat -> nat

module Nat :
 sig
  val eqb : nat -> nat -> bool

  val leb : nat -> nat -> bool

  val ltb : nat -> nat -> bool

  val max : nat -> nat -> nat

  val min : nat -> nat -> nat
 end

val nth : nat -> 'a1 list -> 'a1 -> 'a1

val rev : 'a1 list -> 'a1 list

val concat : 'a1 list list -> 'a1 list

val map : ('a1 -> 'a2) -> 'a1 list -> 'a2 list

val fold_left : ('a1 -> 'a2 -> 'a1) -> 'a2 list -> 'a1 -> 'a1

val existsb : ('a1 -> bool) -> 'a1 list -> bool

val filter : ('a1 -> bool) -> 'a1 list -> 'a1 list

val find : ('a1 -> bool) -> 'a1 list -> 'a1 option

val firstn : nat -> 'a1 list -> 'a1 list

val skipn : nat -> 'a1 list -> 'a1 list

val seq : nat -> nat -> nat list

val repeat : 'a1 -> nat -> 'a1 list

type positive =
| XI of positive
| XO of positive
| XH

type n =
| N0
| Npos of positive

module Pos :
 sig
  type mask =
  | IsNul
  | IsPos of positive
  | IsNeg
 end

module Coq_Pos :
 sig
  val succ : positive -> positive

  val add : positive -> positive -> positive

  val add_carry : positive -> positive -> positive

  val pred_double : positive -> positive

  type mask = Pos.mask =
  | IsNul
  | IsPos of positive
  | IsNeg

  val succ_double_mask : mask -> mask

  val double_mask : mask -> mask

  val double_pred_mask : positive -> mask

  val sub_mask : positive -> positive -> mask

  val sub_mask_carry : positive -> positive -> mask

  val mul : positive -> positive -> positive

  val iter : ('a1 -> 'a1) -> 'a1 -> positive -> 'a1

  val pow : positive -> positive -> positive

  val compare_cont : comparison -> positive -> positive -> comparison

  val compare : positive -> positive -> comparison

  val eqb : positive -> positive -> bool

  val iter_op : ('a1 -> 'a1 -> 'a1) -> positive -> 'a1 -> 'a1

  val to_nat : positive -> nat

  val of_succ_nat : nat -> positive
 end

module N :
 sig
  val succ_double : n -> n

  val double : n -> n

  val add : n -> n -> n

  val sub : n -> n -> n

  val mul : n -> n -> n

  val compare : n -> n -> comparison

  val eqb : n -> n -> bool

  val leb : n -> n -> bool

  val ltb : n -> n -> bool

  val pow : n -> n -> n

  val pos_div_eucl : positive -> n -> n * n

  val div_eucl : n -> n -> n * n

  val modulo : n -> n -> n

  val to_nat : n -> nat

  val of_nat : nat -> n
 end

type kc = n * n

val rm : n -> kc list -> kc list

val mem : n -> n list -> bool

val sumN : n list -> n

type entry = { ekey : n; eval : n; ecost : n; eexp : n; ela : n }

type item = n * n

val item_of : entry -> item

val is_expired : n option -> n -> entry -> bool

val live : n option -> n -> entry -> bool

type cursor = { c_shard : nat; c_seen : nat }

type iter_st = { it_buf : item list; it_cur : cursor; it_fin : bool }

val iter_init : iter_st

val refill :
  entry list list -> n option -> nat -> nat -> n -> cursor -> item list ->
  (cursor * item list) * bool

val refill_fuel : entry list list -> nat

val iter_next :
  entry list list -> n option -> nat -> n -> iter_st -> (item
  option * iter_st) * bool

val drain :
  entry list list -> n option -> nat -> nat -> (nat -> n) -> nat -> iter_st
  -> item list * bool

val drain_fuel : entry list list -> nat

val iterate_clk :
  entry list list -> n option -> nat -> (nat -> n) -> item list * bool

val iterate_adv :
  entry list list -> n option -> nat -> n -> n -> nat -> item list * bool

val touch : n option -> n -> entry -> entry

val fetch_in : n option -> n -> n -> entry list -> n option * entry list

val shard_idx : nat -> n -> nat

val set_nth : nat -> 'a1 -> 'a1 list -> 'a1 list

val fetch :
  n option -> n -> entry list list -> n -> n option * entry list list

val snap_pass :
  n option -> n -> n list -> entry list list -> item list * entry list list

val snap_from :
  n option -> n -> nat -> nat -> entry list list -> item list * entry list
  list

val snap_iterate :
  n option -> n -> entry list list -> item list * entry list list

type lru_list = kc list

val ll_push_front : n -> n -> lru_list -> lru_list

val pop_while : n -> n -> kc list -> (n list * n) * kc list

val ll_evict : n -> lru_list -> (lru_list * n list) * n

type shardst = { sh_map : entry list; sh_pol : lru_list; sh_pend : kc list }

type cache = { c_shs : shardst list; c_cost : n; c_cap : n option;
               c_ttl : n option; c_tti : n option; c_now : n }

val w64 : n

val wadd : n -> n -> n

val wsub : n -> n -> n

val empty_sh : shardst

val new_cache : nat -> n option -> n option -> n option -> n -> cache

val maps : cache -> entry list list

val set_maps : shardst list -> entry list list -> shardst list

val upsert : entry -> entry list -> entry list * entry option

val new_entry : cache -> n -> n -> n -> n option -> entry

val insert_entry : cache -> entry -> cache

val find_key : n -> entry list -> entry option

val peek : cache -> n -> n option

val drain_limit : nat

val admit_all : kc list -> lru_list -> lru_list

val remove_keys : n list -> entry list -> entry list

val maint_one : n option -> shardst -> n -> shardst * n

val maint_shards : n option -> shardst list -> n -> shardst list * n

val run_maintenance : cache -> cache

type pentry = { pkey : n; pval : n; pcost : n; pttl : n option }

type snap = { s_entries : pentry list; s_cap : n option; s_shards : nat }

val pentry_of : n -> entry -> pentry

val snapshot : cache -> snap

val entry_of_p : n -> n option -> pentry -> entry

val restore_shard : nat -> nat -> entry list -> entry list

val restore : snap -> n -> n option -> n option -> cache

type op =
| OIns of n * n * n
| OInsTtl of n * n * n * n
| OAdv of n
| OFetch of n
| OPeek of n
| OIter of nat * n * nat
| OIterSnap
| OSnap of n * n option
| OMaint
| OCost

type res =
| RUnit
| RVal of n option
| RItems of item list * bool
| RSnap of pentry list
| RCost of n

val step : cache -> op -> cache * res

val run : cache -> op list -> cache * res list
