(* Log/Json.v — executable model of the JSON-lines encoder of fibre_logging
   (/repo/logging/src/encoders/json.rs, model.rs) and of the part of serde_json it uses.
   Model only: proofs are in Proofs/JsonProofs.v, pinned statements in Props/C20_enc.v.

   Bytes are N (0..255); a Rust `String` is its UTF-8 byte list.

   What the code does (JsonLinesFormatter::format_event):
     json_map : BTreeMap<String, Value>   (byte-lexicographic key order, insert = replace)
       insert timestamp (RFC3339 millis text; OPAQUE here: supplied as bytes, never interpreted)
       insert level, target; message if Some; name; span_id parent_id thread_id
       thread_name if Some
       if fields non-empty:
         flatten_fields: for (k, v) in fields: if !json_map.contains_key(k) { insert(k, v) }
         else:           insert fields (Object (BTreeMap of all fields))
     serde_json::to_string (compact: {KEY:v,...} with KEY a string literal) ++ newline
   serde_json string escaping (ser.rs ESCAPE table): quote -> \quote  \ -> \\  08 -> \b  09 -> \t
   0A -> \n  0C -> \f  0D -> \r  other < 0x20 -> \u00xx (lowercase hex); every other byte verbatim. *)
From Fibre Require Import Common.Base.
Open Scope N_scope.

Definition bytes := list N.

(** * serde_json string escaping *)
Definition hexd (d : N) : N := if d <? 10 then 48 + d else 87 + d.

Definition esc_byte (b : N) : bytes :=
  if b =? 34 then [92; 34]
  else if b =? 92 then [92; 92]
  else if b =? 8 then [92; 98]
  else if b =? 9 then [92; 116]
  else if b =? 10 then [92; 110]
  else if b =? 12 then [92; 102]
  else if b =? 13 then [92; 114]
  else if b <? 32 then [92; 117; 48; 48; hexd (b / 16); hexd (b mod 16)]
  else [b].

Fixpoint escape (s : bytes) : bytes :=
  match s with
  | [] => []
  | b :: r => esc_byte b ++ escape r
  end.

(** * a JSON string-literal scanner/decoder (the reader's side)
   [scan_str inp]: [inp] starts just after an opening quote; decodes up to the first unescaped
   quote and returns (decoded bytes, input after the closing quote).
   Accepts: every byte >= 0x20 other than quote and backslash verbatim (so UTF-8 passes through),
   the two-character escapes \quote \\ \/ \b \f \n \r \t, and \uXXXX (either hex case) for code
   points < 0x80.  Rejects (None): unterminated literal, raw byte < 0x20, unknown escape, short or
   non-hex \u, and \uXXXX >= 0x80 (would need UTF-8 encoding / surrogate pairing; serde_json never
   emits those for a Rust String). *)
Definition unhexd (c : N) : option N :=
  if (48 <=? c) && (c <=? 57) then Some (c - 48)
  else if (97 <=? c) && (c <=? 102) then Some (c - 87)
  else if (65 <=? c) && (c <=? 70) then Some (c - 55)
  else None.

Definition simple_unesc (c : N) : option N :=
  if c =? 34 then Some 34
  else if c =? 92 then Some 92
  else if c =? 47 then Some 47
  else if c =? 98 then Some 8
  else if c =? 102 then Some 12
  else if c =? 110 then Some 10
  else if c =? 114 then Some 13
  else if c =? 116 then Some 9
  else None.

Definition cons_fst (x : N) (o : option (bytes * bytes)) : option (bytes * bytes) :=
  match o with
  | Some (s, rest) => Some (x :: s, rest)
  | None => None
  end.

Fixpoint scan_str (inp : bytes) : option (bytes * bytes) :=
  match inp with
  | [] => None
  | b :: r =>
    if b =? 34 then Some ([], r)
    else if b =? 92 then
      match r with
      | [] => None
      | c :: r1 =>
        if c =? 117 then
          match r1 with
          | h1 :: h2 :: h3 :: h4 :: r2 =>
            match unhexd h1, unhexd h2, unhexd h3, unhexd h4 with
            | Some d1, Some d2, Some d3, Some d4 =>
              let cp := ((d1 * 16 + d2) * 16 + d3) * 16 + d4 in
              if cp <? 128 then cons_fst cp (scan_str r2) else None
            | _, _, _, _ => None
            end
          | _ => None
          end
        else
          match simple_unesc c with
          | Some x => cons_fst x (scan_str r1)
          | None => None
          end
      end
    else if b <? 32 then None
    else cons_fst b (scan_str r)
  end.

(** [unescape lit]: [lit] is the inside of a literal (no surrounding quotes); succeeds iff the
   scanner, run on [lit ++ quote], stops exactly at that final quote. *)
Definition unescape (lit : bytes) : option bytes :=
  match scan_str (lit ++ [34]) with
  | Some (s, []) => Some s
  | _ => None
  end.

(** * byte-string order and BTreeMap as a sorted association list *)
Fixpoint bytes_eqb (a b : bytes) : bool :=
  match a, b with
  | [], [] => true
  | x :: a', y :: b' => (x =? y) && bytes_eqb a' b'
  | _, _ => false
  end.

(* Rust `impl Ord for String`: lexicographic on bytes *)
Fixpoint lex_ltb (a b : bytes) : bool :=
  match a, b with
  | _, [] => false
  | [], _ :: _ => true
  | x :: a', y :: b' => if x <? y then true else if y <? x then false else lex_ltb a' b'
  end.

Fixpoint bt_insert {V : Type} (k : bytes) (v : V) (m : list (bytes * V)) : list (bytes * V) :=
  match m with
  | [] => [(k, v)]
  | (k', v') :: t =>
    if bytes_eqb k k' then (k, v) :: t
    else if lex_ltb k k' then (k, v) :: m
    else (k', v') :: bt_insert k v t
  end.

Fixpoint bt_lookup {V : Type} (k : bytes) (m : list (bytes * V)) : option V :=
  match m with
  | [] => None
  | (k', v) :: t => if bytes_eqb k k' then Some v else bt_lookup k t
  end.

Definition bt_mem {V : Type} (k : bytes) (m : list (bytes * V)) : bool :=
  match bt_lookup k m with Some _ => true | None => false end.

(** * events (model.rs LogEvent / LogValue) *)
Inductive level := Trace | Debug | Info | Warn | Error.

(* tracing::Level's Display *)
Definition level_str (l : level) : bytes :=
  match l with
  | Trace => [84; 82; 65; 67; 69]
  | Debug => [68; 69; 66; 85; 71]
  | Info => [73; 78; 70; 79]
  | Warn => [87; 65; 82; 78]
  | Error => [69; 82; 82; 79; 82]
  end.

(* LogValue.  A float carries two OPAQUE renderings supplied with the case: the serde_json text
   (serde_json float text for finite values, null for NaN/inf — `Number::from_f64` fails) and Rust's `{}` Display
   text (pattern encoder).  the float formatters are not modelled. *)
Inductive value :=
| VStr (s : bytes)
| VInt (z : Z)
| VBool (b : bool)
| VFloat (json disp : bytes)
| VDebug (s : bytes).

Record event := mkEvent {
  e_ts : bytes;                       (* RFC3339 text of the timestamp: opaque data *)
  e_dates : list (bytes * bytes);     (* chrono rendering of each %d{fmt} the case uses: opaque *)
  e_level : level;
  e_target : bytes;
  e_name : bytes;
  e_message : option bytes;
  e_span : option bytes;
  e_parent : option bytes;
  e_tid : option bytes;
  e_tname : option bytes;
  e_fields : list (bytes * value)     (* HashMap<String, LogValue>: keys unique, order irrelevant *)
}.

(** * decimal rendering (itoa / Display of i64) *)
Fixpoint dec_fuel (fuel : nat) (n : N) (acc : bytes) : bytes :=
  match fuel with
  | O => acc
  | S f =>
    let acc' := (48 + n mod 10) :: acc in
    if n / 10 =? 0 then acc' else dec_fuel f (n / 10) acc'
  end.

(* a number has at most as many decimal digits as bits (+1 for 0) *)
Definition dec_N (n : N) : bytes := dec_fuel (S (N.size_nat n)) n [].

Definition dec_Z (z : Z) : bytes :=
  if (z <? 0)%Z then 45 :: dec_N (Z.abs_N z) else dec_N (Z.abs_N z).

(** * JSON values of the shape the encoder produces *)
Inductive jatom :=
| AStr (s : bytes)         (* a string, rendered through [escape] *)
| ARaw (r : bytes).        (* number / true / false / null, rendered as is *)

Inductive jval :=
| JAtom (a : jatom)
| JObj (m : list (bytes * jatom)).

Definition s_true : bytes := [116; 114; 117; 101].
Definition s_false : bytes := [102; 97; 108; 115; 101].

(* log_value_to_json_value *)
Definition atom_of (v : value) : jatom :=
  match v with
  | VStr s => AStr s
  | VInt z => ARaw (dec_Z z)
  | VBool b => ARaw (if b then s_true else s_false)
  | VFloat j _ => ARaw j
  | VDebug s => AStr s
  end.

(** * the record assembler *)
Definition K_timestamp : bytes := [116; 105; 109; 101; 115; 116; 97; 109; 112].
Definition K_level : bytes := [108; 101; 118; 101; 108].
Definition K_target : bytes := [116; 97; 114; 103; 101; 116].
Definition K_message : bytes := [109; 101; 115; 115; 97; 103; 101].
Definition K_name : bytes := [110; 97; 109; 101].
Definition K_span_id : bytes := [115; 112; 97; 110; 95; 105; 100].
Definition K_parent_id : bytes := [112; 97; 114; 101; 110; 116; 95; 105; 100].
Definition K_thread_id : bytes := [116; 104; 114; 101; 97; 100; 95; 105; 100].
Definition K_thread_name : bytes := [116; 104; 114; 101; 97; 100; 95; 110; 97; 109; 101].
Definition K_fields : bytes := [102; 105; 101; 108; 100; 115].

Definition jstr (s : bytes) : jval := JAtom (AStr s).

Definition ins_opt (k : bytes) (o : option bytes) (m : list (bytes * jval)) : list (bytes * jval) :=
  match o with
  | Some s => bt_insert k (jstr s) m
  | None => m
  end.

(* the inserts of format_event in source order (innermost first) *)
Definition core_map (ev : event) : list (bytes * jval) :=
  ins_opt K_thread_name (e_tname ev)
  (ins_opt K_thread_id (e_tid ev)
  (ins_opt K_parent_id (e_parent ev)
  (ins_opt K_span_id (e_span ev)
  (bt_insert K_name (jstr (e_name ev))
  (ins_opt K_message (e_message ev)
  (bt_insert K_target (jstr (e_target ev))
  (bt_insert K_level (jstr (level_str (e_level ev)))
  (bt_insert K_timestamp (jstr (e_ts ev)) [])))))))).

(* flatten mode: a custom field never overwrites a key that is already present (finding F-27:
   it is silently dropped) *)
Definition flatten_step (m : list (bytes * jval)) (kv : bytes * value) : list (bytes * jval) :=
  if bt_mem (fst kv) m then m else bt_insert (fst kv) (JAtom (atom_of (snd kv))) m.

Definition flatten_fields (m : list (bytes * jval)) (fields : list (bytes * value)) : list (bytes * jval) :=
  fold_left flatten_step fields m.

(* nested mode: `.collect()` into a BTreeMap (insert = replace) *)
Definition nested_step (m : list (bytes * jatom)) (kv : bytes * value) : list (bytes * jatom) :=
  bt_insert (fst kv) (atom_of (snd kv)) m.

Definition nested_obj (fields : list (bytes * value)) : list (bytes * jatom) :=
  fold_left nested_step fields [].

Definition assemble (flat : bool) (ev : event) : list (bytes * jval) :=
  match e_fields ev with
  | [] => core_map ev
  | _ :: _ =>
    if flat then flatten_fields (core_map ev) (e_fields ev)
    else bt_insert K_fields (JObj (nested_obj (e_fields ev))) (core_map ev)
  end.

(** * serde_json compact serialisation *)
Definition ser_str (s : bytes) : bytes := 34 :: escape s ++ [34].

Definition ser_atom (a : jatom) : bytes :=
  match a with
  | AStr s => ser_str s
  | ARaw r => r
  end.

Fixpoint ser_members {V : Type} (sv : V -> bytes) (l : list (bytes * V)) : bytes :=
  match l with
  | [] => []
  | (k, v) :: t =>
    match t with
    | [] => ser_str k ++ 58 :: sv v
    | _ :: _ => ser_str k ++ 58 :: sv v ++ 44 :: ser_members sv t
    end
  end.

Definition ser_obj {V : Type} (sv : V -> bytes) (l : list (bytes * V)) : bytes :=
  123 :: ser_members sv l ++ [125].

Definition ser_val (v : jval) : bytes :=
  match v with
  | JAtom a => ser_atom a
  | JObj m => ser_obj ser_atom m
  end.

(* the bytes format_event returns *)
Definition render (flat : bool) (ev : event) : bytes :=
  ser_obj ser_val (assemble flat ev) ++ [10].

(** * a model parser for the object shape above (the reader's side of the round trip)
   object  := '{' '}' | '{' member (',' member)* '}'
   member  := string ':' value
   value   := string | raw | (top level only) object of atoms
   raw     := non-empty run of [A-Za-z0-9+-.] ended by ',' or '}'
   No whitespace is accepted (the encoder emits none).  Fuel bounds the number of members; the
   entry point supplies the input length, and the round-trip theorem shows that suffices. *)
Definition is_delim (b : N) : bool := (b =? 44) || (b =? 125).

Definition raw_byte_ok (b : N) : bool :=
  ((48 <=? b) && (b <=? 57)) || ((65 <=? b) && (b <=? 90)) || ((97 <=? b) && (b <=? 122))
  || (b =? 43) || (b =? 45) || (b =? 46).

Fixpoint span_raw (inp : bytes) : bytes * bytes :=
  match inp with
  | [] => ([], [])
  | b :: r =>
    if is_delim b then ([], inp)
    else let (t, rest) := span_raw r in (b :: t, rest)
  end.

Definition raw_ok (t : bytes) : bool :=
  match t with
  | [] => false
  | _ :: _ => forallb raw_byte_ok t
  end.

Definition p_atom (inp : bytes) : option (jatom * bytes) :=
  match inp with
  | [] => None
  | b :: r =>
    if b =? 34 then
      match scan_str r with
      | Some (s, rest) => Some (AStr s, rest)
      | None => None
      end
    else
      let (t, rest) := span_raw inp in
      if raw_ok t then Some (ARaw t, rest) else None
  end.

Section Members.
  Context {V : Type}.
  Variable pv : bytes -> option (V * bytes).

  (* [inp] starts at a member; parses members up to and including the closing brace *)
  Fixpoint p_members (fuel : nat) (inp : bytes) : option (list (bytes * V) * bytes) :=
    match fuel with
    | O => None
    | S f =>
      match inp with
      | [] => None
      | q :: r =>
        if q =? 34 then
          match scan_str r with
          | Some (k, c :: r1) =>
            if c =? 58 then
              match pv r1 with
              | Some (v, d :: r2) =>
                if d =? 44 then
                  match p_members f r2 with
                  | Some (ms, r3) => Some ((k, v) :: ms, r3)
                  | None => None
                  end
                else if d =? 125 then Some ([(k, v)], r2)
                else None
              | _ => None
              end
            else None
          | _ => None
          end
        else None
      end
    end.

  Definition p_obj (fuel : nat) (inp : bytes) : option (list (bytes * V) * bytes) :=
    match inp with
    | o :: r =>
      if o =? 123 then
        match r with
        | c :: r' => if c =? 125 then Some ([], r') else p_members fuel r
        | [] => None
        end
      else None
    | [] => None
    end.
End Members.

Definition p_value (fuel : nat) (inp : bytes) : option (jval * bytes) :=
  match inp with
  | [] => None
  | b :: _ =>
    if b =? 123 then
      match p_obj p_atom fuel inp with
      | Some (m, rest) => Some (JObj m, rest)
      | None => None
      end
    else
      match p_atom inp with
      | Some (a, rest) => Some (JAtom a, rest)
      | None => None
      end
  end.

(* one JSON-lines record: an object followed by exactly one newline and nothing else *)
Definition parse_line (inp : bytes) : option (list (bytes * jval)) :=
  match p_obj (p_value (length inp)) (length inp) inp with
  | Some (m, rest) =>
    match rest with
    | [b] => if b =? 10 then Some m else None
    | _ => None
    end
  | None => None
  end.

(** * what round-tripping means for one record: reading the parsed object back *)
Definition get_str (k : bytes) (m : list (bytes * jval)) : option bytes :=
  match bt_lookup k m with
  | Some (JAtom (AStr s)) => Some s
  | _ => None
  end.

(* where the reader finds custom field [k] *)
Definition get_field (flat : bool) (k : bytes) (m : list (bytes * jval)) : option jatom :=
  if flat then
    match bt_lookup k m with
    | Some (JAtom a) => Some a
    | _ => None
    end
  else
    match bt_lookup K_fields m with
    | Some (JObj fm) => bt_lookup k fm
    | _ => None
    end.

(* opaque float texts must be number-like tokens for the record to be parseable *)
Definition value_ok (v : value) : bool :=
  match v with
  | VFloat j _ => raw_ok j
  | _ => true
  end.

Definition fields_ok (ev : event) : Prop :=
  NoDup (map fst (e_fields ev)) /\ forallb (fun kv => value_ok (snd kv)) (e_fields ev) = true.
