(* Log/Roller.v — executable model (K2) of the rolling file appender
   /repo/logging/src/roller.rs (CustomRoller) over an abstract directory.
   NO proofs here (see Proofs/RollerProofs.v, Props/C20_roller.v).

   What is modelled, function by function:
     new_at_time          -> start / restart   (open_file: size from metadata)
     write_internal       -> write             (time roll BEFORE the write when the period of
                                                `now` is strictly greater than current_period_start;
                                                size roll AFTER the write when current_size >= max)
     BufWriter<File>::write -> bufwrite        (8 KiB buffer: what is on disk vs. still buffered)
     Write::flush         -> flush
     roll                 -> roll              (sequence = 1 + max sequence among rolled files of the
                                                period being closed; rename; reopen; cleanup)
     find_rolled_files    -> the field `rolled`, kept in the order find_rolled_files+sort produce
                             (newest first: period descending, then sequence descending); only files named
                             "<prefix>.<period>.<seq>..." are the appender's (since /repo 95e064e the '.' after
                             the prefix is required): everything else is in `foreign` and no step reads or
                             writes that field
     cleanup              -> firstn/skipn by max_retained, then compress_from max_uncompressed
     compress_file        -> gz (same period/sequence/content, name gains the compressed suffix)
     calculate_period_start -> eff             ("never" pins every time to one period)

   Time is an abstract period index (number of granularity units); chrono's mapping between
   instants, period starts and the strings in file names is done by the drivers and tied by D1.
   Records are atomic values (id, byte length): one record = one `write` call of a buffer that the
   BufWriter accepts whole (always the case below 8 KiB; above, a regular-file write is assumed
   complete).  File contents are lists of records. *)
From Fibre Require Import Common.Base.

Definition rcd := (N * N)%type.            (* (record id, byte length) *)

Fixpoint bytes (l : list rcd) : N :=
  match l with [] => 0 | r :: t => snd r + bytes t end.

Record policy := mkPolicy {
  p_never : bool;                 (* time_granularity = "never" (else minutely/hourly/daily) *)
  p_max_size : option N;          (* max_file_size *)
  p_max_retained : option N;      (* max_retained_sequences *)
  p_compression : option N }.     (* Some max_uncompressed_sequences *)

(* std::io::BufWriter default capacity *)
Definition bufcap : N := 8192.

(* a rolled file: <prefix>.<period>.<seq><suffix>[<compressed suffix>] *)
Record rfile := mkFile { rp : N; rs : N; rz : bool; rdata : list rcd }.

Definition key (f : rfile) : N * N := (rp f, rs f).

Definition key_ltb (a b : N * N) : bool :=
  (fst a <? fst b) || ((fst a =? fst b) && (snd a <? snd b)).

Record state := mkState {
  rolled : list rfile;            (* the rolled files in the directory, newest first *)
  adisk : list rcd;               (* active file: bytes on disk *)
  abuf : list rcd;                (* active file: bytes still in the BufWriter *)
  cur_size : N;                   (* CustomRoller.current_size *)
  cur_period : N;                 (* CustomRoller.current_period_start *)
  gone : list (N * N);            (* ghost: (period, seq) of every rolled file deleted so far *)
  foreign : list (N * list rcd) }.  (* files in the directory that are not this appender's: sibling
                                     appenders sharing the prefix ("<prefix>_time.<period>.<seq><suffix>"),
                                     unrelated files; (opaque name id, content) *)

(* abstract directory view: structured names *)
Inductive name := Active | Rolled (p s : N) (z : bool) | Foreign (n : N).

Definition dir_of (st : state) : list (name * list rcd) :=
  (Active, adisk st) :: map (fun f => (Rolled (rp f) (rs f) (rz f), rdata f)) (rolled st)
    ++ map (fun x => (Foreign (fst x), snd x)) (foreign st).

(* the same roller state in a directory with other foreign files *)
Definition with_foreign (st : state) (fs : list (N * list rcd)) : state :=
  mkState (rolled st) (adisk st) (abuf st) (cur_size st) (cur_period st) (gone st) fs.

Definition eff (pol : policy) (p : N) : N := if p_never pol then 0 else p.

Definition flush (st : state) : state :=
  mkState (rolled st) (adisk st ++ abuf st) [] (cur_size st) (cur_period st) (gone st) (foreign st).

(* roll, step 3: highest sequence among the rolled files of period p (0 if none) *)
Fixpoint last_seq (p : N) (l : list rfile) : N :=
  match l with
  | [] => 0
  | f :: t => if rp f =? p then N.max (rs f) (last_seq p t) else last_seq p t
  end.

Definition same_name (a b : rfile) : bool :=
  (rp a =? rp b) && (rs a =? rs b) && Bool.eqb (rz a) (rz b).

(* fs::rename onto an existing name replaces that file *)
Definition fs_remove (nf : rfile) (l : list rfile) : list rfile :=
  filter (fun g => negb (same_name g nf)) l.

(* all_files.push(new); all_files.sort()  — stable, newest first *)
Fixpoint insert_desc (f : rfile) (l : list rfile) : list rfile :=
  match l with
  | [] => [f]
  | g :: t => if key_ltb (key g) (key f) then f :: g :: t else g :: insert_desc f t
  end.

Definition gz (f : rfile) : rfile := mkFile (rp f) (rs f) true (rdata f).

(* cleanup, step 2: everything past the first k (newest) files is compressed if it is not yet *)
Fixpoint compress_from (k : nat) (l : list rfile) : list rfile :=
  match l with
  | [] => []
  | f :: t => match k with
              | O => gz f :: compress_from O t
              | S k' => f :: compress_from k' t
              end
  end.

(* the file a roll of `st` would create *)
Definition roll_file (st : state) : rfile :=
  mkFile (cur_period st) (last_seq (cur_period st) (rolled st) + 1) false (adisk st ++ abuf st).

Definition roll (pol : policy) (st : state) (now : N) : state :=
  let nf := roll_file st in
  let all := insert_desc nf (fs_remove nf (rolled st)) in
  let kept := match p_max_retained pol with Some m => firstn (N.to_nat m) all | None => all end in
  let del := match p_max_retained pol with Some m => skipn (N.to_nat m) all | None => [] end in
  let kept' := match p_compression pol with Some k => compress_from (N.to_nat k) kept | None => kept end in
  mkState kept' [] [] 0 (eff pol now) (map key del ++ gone st) (foreign st).

(* BufWriter::write of one record (std: write / write_cold) *)
Definition bufwrite (st : state) (r : rcd) : state :=
  let n := snd r in
  let spare := bufcap - bytes (abuf st) in
  if n <? spare then
    mkState (rolled st) (adisk st) (abuf st ++ [r]) (cur_size st) (cur_period st) (gone st) (foreign st)
  else
    let st1 := if spare <? n then flush st else st in
    if bufcap <=? n then
      mkState (rolled st1) (adisk st1 ++ [r]) (abuf st1) (cur_size st1) (cur_period st1) (gone st1) (foreign st1)
    else
      mkState (rolled st1) (adisk st1) (abuf st1 ++ [r]) (cur_size st1) (cur_period st1) (gone st1) (foreign st1).

Definition append (st : state) (r : rcd) : state :=
  let st' := bufwrite st r in
  mkState (rolled st') (adisk st') (abuf st') (cur_size st + snd r) (cur_period st') (gone st') (foreign st').

Definition write (pol : policy) (st : state) (now : N) (r : rcd) : state :=
  let st1 := if cur_period st <? eff pol now then roll pol st now else st in
  if snd r =? 0 then st1      (* bytes_written = 0: nothing appended, no size check *)
  else
    let st2 := append st1 r in
    match p_max_size pol with
    | Some m => if m <=? cur_size st2 then roll pol st2 now else st2
    | None => st2
    end.

(* drop(roller) (BufWriter flushes on drop) ; new_at_time(policy, now) *)
Definition restart (pol : policy) (st : state) (now : N) : state :=
  let st1 := flush st in
  mkState (rolled st1) (adisk st1) [] (bytes (adisk st1)) (eff pol now) (gone st1) (foreign st1).

(* fs = the foreign files already in the directory when the appender starts *)
Definition start (pol : policy) (fs : list (N * list rcd)) (now : N) : state :=
  mkState [] [] [] 0 (eff pol now) [] fs.

Inductive op := Write (p : N) (r : rcd) | Restart (p : N) | Flush.

Definition step (pol : policy) (st : state) (o : op) : state :=
  match o with
  | Write p r => write pol st p r
  | Restart p => restart pol st p
  | Flush => flush st
  end.

Definition run_from (pol : policy) (st : state) (ops : list op) : state :=
  fold_left (step pol) ops st.

Definition run (pol : policy) (fs : list (N * list rcd)) (p0 : N) (ops : list op) : state :=
  run_from pol (start pol fs p0) ops.

(* the stream of records handed to the appender (empty buffers write nothing) *)
Definition written (ops : list op) : list rcd :=
  flat_map (fun o => match o with
                     | Write _ r => if snd r =? 0 then [] else [r]
                     | _ => []
                     end) ops.

(* everything readable: rolled files oldest first, then the active file incl. its buffer *)
Definition logical (st : state) : list rcd :=
  concat (rev (map rdata (rolled st))) ++ adisk st ++ abuf st.

Definition all_records (st : state) : list rcd :=
  concat (map rdata (rolled st)) ++ adisk st ++ abuf st.

(* the clock never goes backwards (in effective periods), restarts included *)
Definition op_time (o : op) : option N :=
  match o with Write p _ => Some p | Restart p => Some p | Flush => None end.

Fixpoint monotone_from (pol : policy) (c : N) (ops : list op) : Prop :=
  match ops with
  | [] => True
  | o :: t => match op_time o with
              | Some p => eff pol c <= eff pol p /\ monotone_from pol p t
              | None => monotone_from pol c t
              end
  end.

Definition monotone (pol : policy) (p0 : N) (ops : list op) : Prop := monotone_from pol p0 ops.
