(* Log/Pattern.v — executable model of the pattern encoder of fibre_logging
   (/repo/logging/src/encoders/pattern.rs).  Model only; proofs in Proofs/PatternProofs.v.

   PatternFormatter::new(pattern) scans the pattern with the regex
       (%(-?\d+)?([a-zA-Z])(\{([^}]+)\})?) | (%%)
   (leftmost match, first alternative preferred) into literal / specifier segments;
   format_event interprets the segments, pads, and appends a newline if the output lacks one.

   [scan_pattern] is a hand-written scanner for the language of that regex on BYTES.  It agrees
   with the regex on every valid UTF-8 pattern in which no `%` or `%-` is directly followed by a
   non-ASCII Unicode decimal digit (the regex crate's \d is Unicode-aware; see docs/C20_enc.md).

   Outcome [Panicked] mirrors the one place where the real code panics: std's formatting
   machinery (Rust >= 1.87; the harness toolchain is 1.95) rejects a run-time width above
   u16::MAX with the panic `Formatting argument out of range`. *)
From Fibre Require Import Common.Base Log.Json.
Open Scope N_scope.

Inductive seg :=
| Lit (s : bytes)
| Spec (conv : N) (pad : option Z) (opts : option bytes).

Inductive outcome :=
| Rendered (out : bytes)
| Panicked.

(** * the scanner *)
Definition is_digit (b : N) : bool := (48 <=? b) && (b <=? 57).
Definition is_alpha (b : N) : bool := ((65 <=? b) && (b <=? 90)) || ((97 <=? b) && (b <=? 122)).

Fixpoint dec_value (ds : bytes) (acc : N) : N :=
  match ds with
  | [] => acc
  | d :: r => dec_value r (acc * 10 + (d - 48))
  end.

(* `m.as_str().parse::<i32>().ok()` on text matching -?\d+ *)
Definition parse_i32 (neg : bool) (ds : bytes) : option Z :=
  let n := Z.of_N (dec_value ds 0) in
  let z := if neg then (- n)%Z else n in
  if ((-2147483648 <=? z) && (z <=? 2147483647))%Z then Some z else None.

(* `{` must be followed by at least one non-`}` byte and, later, a `}` *)
Definition has_close (r : bytes) : bool :=
  match r with
  | [] => false
  | x :: r' => negb (x =? 125) && existsb (N.eqb 125) r'
  end.

Inductive pstate :=
| SLit                                          (* in literal text *)
| SPad (pend : bytes) (neg : bool) (ds : bytes) (* consumed `%`, optional `-`, digits: [pend] *)
| SConv (c : N) (pad : option Z)                (* consumed a whole %[pad]c; `{opts}` may follow *)
| SOpts (c : N) (pad : option Z) (acc : bytes). (* inside {opts}; a closing brace is known to exist *)

Definition flush (lit : bytes) : list seg :=
  match lit with
  | [] => []
  | _ :: _ => [Lit lit]
  end.

Definition pad_of (neg : bool) (ds : bytes) : option Z :=
  match ds with
  | [] => None
  | _ :: _ => parse_i32 neg ds
  end.

Fixpoint scan (st : pstate) (lit : bytes) (inp : bytes) : list seg :=
  match inp with
  | [] =>
    match st with
    | SLit => flush lit
    | SPad pend _ _ => flush (lit ++ pend)
    | SConv c pad => [Spec c pad None]
    | SOpts c pad acc => [Spec c pad None; Lit (123 :: acc)]   (* unreachable: see has_close *)
    end
  | b :: r =>
    match st with
    | SLit =>
      if b =? 37 then scan (SPad [37] false []) lit r
      else scan SLit (lit ++ [b]) r
    | SPad pend neg ds =>
      if (b =? 37) && (match pend with [_] => true | _ => false end) then
        (* %% *)
        flush lit ++ Lit [37] :: scan SLit [] r
      else if (b =? 45) && (match pend with [_] => true | _ => false end) then
        scan (SPad (pend ++ [b]) true []) lit r
      else if is_digit b then
        scan (SPad (pend ++ [b]) neg (ds ++ [b])) lit r
      else if is_alpha b && (negb neg || match ds with [] => false | _ => true end) then
        flush lit ++ scan (SConv b (pad_of neg ds)) [] r
      else
        (* no match starts at that `%`: it and what followed are literal; [b] is looked at afresh *)
        if b =? 37 then scan (SPad [37] false []) (lit ++ pend) r
        else scan SLit (lit ++ pend ++ [b]) r
    | SConv c pad =>
      if (b =? 123) && has_close r then scan (SOpts c pad []) [] r
      else
        Spec c pad None ::
        (if b =? 37 then scan (SPad [37] false []) [] r else scan SLit [b] r)
    | SOpts c pad acc =>
      if b =? 125 then Spec c pad (Some acc) :: scan SLit [] r
      else scan (SOpts c pad (acc ++ [b])) [] r
    end
  end.

Definition scan_pattern (pat : bytes) : list seg := scan SLit [] pat.

(** * the interpreter *)
Definition len (s : bytes) : N := N.of_nat (length s).

(* what `{:>w$}` counts: chars, i.e. bytes that are not UTF-8 continuation bytes *)
Definition is_cont (b : N) : bool := (128 <=? b) && (b <? 192).
Definition nchars (s : bytes) : N := len (filter (fun b => negb (is_cont b)) s).

Definition spaces (n : N) : bytes := repeat 32 (N.to_nat n).

(* apply_padding: `content.len() >= width` compares BYTES; the fill is computed in CHARS *)
Definition apply_padding (content : bytes) (p : Z) : outcome :=
  let w := Z.abs_N p in
  if w <=? len content then Rendered content
  else if 65535 <? w then Panicked
  else
    let fill := spaces (w - nchars content) in
    if (0 <? p)%Z then Rendered (fill ++ content) else Rendered (content ++ fill).

(* Display of LogValue *)
Definition display (v : value) : bytes :=
  match v with
  | VStr s => s
  | VInt z => dec_Z z
  | VBool b => if b then s_true else s_false
  | VFloat _ d => d
  | VDebug s => s
  end.

Definition opt_bytes (o : option bytes) : bytes :=
  match o with Some s => s | None => [] end.

Definition sorted_fields (fs : list (bytes * value)) : list (bytes * value) :=
  fold_left (fun m kv => bt_insert (fst kv) (snd kv) m) fs [].

Fixpoint join_fields (l : list (bytes * value)) : bytes :=
  match l with
  | [] => []
  | (k, v) :: t =>
    match t with
    | [] => k ++ 61 :: display v
    | _ :: _ => k ++ 61 :: display v ++ 44 :: 32 :: join_fields t
    end
  end.

Definition all_fields (fs : list (bytes * value)) : bytes :=
  match fs with
  | [] => []
  | _ :: _ =>
    123 :: join_fields (filter (fun kv => negb (bytes_eqb (fst kv) K_message)) (sorted_fields fs)) ++ [125]
  end.

Definition spec_content (ev : event) (c : N) (opts : option bytes) : bytes :=
  if c =? 100 then                                   (* d *)
    match opts with
    | Some f => opt_bytes (bt_lookup f (e_dates ev))
    | None => e_ts ev
    end
  else if (c =? 112) || (c =? 108) then level_str (e_level ev)   (* p l *)
  else if c =? 116 then e_target ev                  (* t *)
  else if c =? 109 then opt_bytes (e_message ev)     (* m *)
  else if c =? 84 then opt_bytes (e_tname ev)        (* T *)
  else if c =? 88 then                               (* X *)
    match opts with
    | Some name => match bt_lookup name (e_fields ev) with Some v => display v | None => [] end
    | None => all_fields (e_fields ev)
    end
  else [].

Definition render_spec (ev : event) (c : N) (pad : option Z) (opts : option bytes) : outcome :=
  if c =? 110 then Rendered [10]                     (* n: no padding *)
  else
    match pad with
    | None => Rendered (spec_content ev c opts)
    | Some p => apply_padding (spec_content ev c opts) p
    end.

Definition render_seg (ev : event) (s : seg) : outcome :=
  match s with
  | Lit t => Rendered t
  | Spec c pad opts => render_spec ev c pad opts
  end.

Fixpoint render_segs (ev : event) (segs : list seg) : outcome :=
  match segs with
  | [] => Rendered []
  | s :: r =>
    match render_seg ev s with
    | Panicked => Panicked
    | Rendered a =>
      match render_segs ev r with
      | Panicked => Panicked
      | Rendered b => Rendered (a ++ b)
      end
    end
  end.

(* `output.ends_with('\n')` (linear: stdlib [rev] is quadratic) *)
Fixpoint ends_nl (out : bytes) : bool :=
  match out with
  | [] => false
  | b :: r =>
    match r with
    | [] => b =? 10
    | _ :: _ => ends_nl r
    end
  end.

Definition format_segs (ev : event) (segs : list seg) : outcome :=
  match render_segs ev segs with
  | Panicked => Panicked
  | Rendered out => Rendered (if ends_nl out then out else out ++ [10])
  end.

(* PatternFormatter::new(pat).format_event(ev) *)
Definition format_pattern (pat : bytes) (ev : event) : outcome :=
  format_segs ev (scan_pattern pat).
