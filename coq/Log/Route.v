(* Log/Route.v — E-ROUTE: executable model of fibre_logging's event routing (K1)
   and the C19 routing clause written as an independent predicate.

   Code mirrored (logging/src):
     subscriber/actor.rs      target_matches_prefix, PerAppenderFilter::{find_most_specific_rule,
                              enabled, max_level}
     init.rs                  build_filter_for_appender, tracing_filter_to_log_filter
     subscriber/processor.rs  EventProcessor::{new (max_level), event_enabled, process_event}
     subscriber/dispatch.rs   Layer::{enabled, max_level_hint}     (tracing entry)
     subscriber/log_handler.rs  Log::log                           (log entry)

   Names and targets are byte strings (list N); appender names are opaque ids (N): the code only
   ever compares them for equality.  HashMap<String, _> becomes an association list whose key
   uniqueness is the hypothesis [wf_cfg].  NO proofs in this file (Proofs/RouteProofs.v). *)
From Fibre Require Import Common.Base.

(* ------------------------------------------------------------------ levels *)
(* tracing_core::Level (TRACE is the most verbose = greatest) and LevelFilter (= Option<Level>,
   OFF least).  `event_level <= filter` in the code is [admits filter event_level]. *)
Inductive level := ERROR | WARN | INFO | DEBUG | TRACE.
Inductive lfilter := OFF | UPTO (l : level).

Definition rank (l : level) : nat :=
  match l with ERROR => 1 | WARN => 2 | INFO => 3 | DEBUG => 4 | TRACE => 5 end.
Definition frank (f : lfilter) : nat := match f with OFF => 0 | UPTO l => rank l end.
Definition admits (f : lfilter) (l : level) : bool := Nat.leb (rank l) (frank f).
Definition fmax (a b : lfilter) : lfilter := if Nat.leb (frank a) (frank b) then b else a.

(* ------------------------------------------------------------------ names *)
Definition name := list N.
Definition sep : name := [58; 58].                    (* "::" *)
Definition root_name : name := [114; 111; 111; 116].  (* "root" *)

Fixpoint name_eqb (a b : name) : bool :=
  match a, b with
  | [], [] => true
  | x :: a', y :: b' => N.eqb x y && name_eqb a' b'
  | _, _ => false
  end.

(* str::strip_prefix *)
Fixpoint strip_prefix (p t : name) : option name :=
  match p with
  | [] => Some t
  | a :: p' => match t with
               | [] => None
               | b :: t' => if N.eqb a b then strip_prefix p' t' else None
               end
  end.

Definition starts_with_sep (r : name) : bool :=
  match r with a :: b :: _ => N.eqb a 58 && N.eqb b 58 | _ => false end.

(* actor.rs target_matches_prefix:
   target.strip_prefix(prefix).map_or(false, |rest| rest.is_empty() || rest.starts_with("::")) *)
Definition target_matches_prefix (target prefix : name) : bool :=
  match strip_prefix prefix target with
  | Some [] => true
  | Some rest => starts_with_sep rest
  | None => false
  end.

(* ------------------------------------------------------------------ configuration *)
Record logger := mkLogger { lname : name; llevel : lfilter; ladd : bool; lapps : list N }.
(* ConfigInternal: appenders (HashMap keys) and loggers (HashMap name -> LoggerInternal);
   process_raw_config always inserts a "root" entry, the model tolerates its absence like
   build_filter_for_appender does (`if let Some(root_logger) = loggers.get("root")`). *)
Record config := mkConfig { cappenders : list N; cloggers : list logger }.

Definition is_root (l : logger) : bool := name_eqb (lname l) root_name.
Definition find_root (ls : list logger) : option logger := find is_root ls.

Fixpoint nodup_names (ls : list name) : bool :=
  match ls with
  | [] => true
  | x :: t => negb (existsb (name_eqb x) t) && nodup_names t
  end.

(* what process_raw_config validates / what the HashMaps guarantee *)
Definition wf_cfg (c : config) : bool :=
  nodup_names (map lname (cloggers c))
  && forallb (fun l => forallb (fun a => mem a (cappenders c)) (lapps l)) (cloggers c).

(* ------------------------------------------------------------------ per-appender filter *)
Record rule := mkRule { rprefix : name; rlevel : lfilter; radd : bool }.
Record pfilter := mkFilter { frules : list rule; fdefault : lfilter }.

Definition rule_of (l : logger) : rule := mkRule (lname l) (llevel l) (ladd l).

(* init.rs build_filter_for_appender *)
Definition build_filter (a : N) (ls : list logger) : pfilter :=
  mkFilter
    (map rule_of (filter (fun l => negb (is_root l) && mem a (lapps l)) ls))
    (match find_root ls with
     | Some r => if mem a (lapps r) then llevel r else OFF
     | None => OFF
     end).

Section MaxBy.
  Variable A : Type.
  Variable key : A -> nat.
  (* Iterator::max_by_key: of several maxima the LAST one is returned *)
  Fixpoint max_by_key_from (best : A) (l : list A) : A :=
    match l with
    | [] => best
    | x :: t => if Nat.leb (key best) (key x) then max_by_key_from x t else max_by_key_from best t
    end.
  Definition max_by_key (l : list A) : option A :=
    match l with [] => None | x :: t => Some (max_by_key_from x t) end.
  (* "the most specific": of several maxima the FIRST one (used by the winner loop of
     process_event, strict `>`, and by the specification) *)
  Fixpoint longest_from (best : A) (l : list A) : A :=
    match l with
    | [] => best
    | x :: t => if Nat.ltb (key best) (key x) then longest_from x t else longest_from best t
    end.
  Definition longest (l : list A) : option A :=
    match l with [] => None | x :: t => Some (longest_from x t) end.
End MaxBy.
Arguments max_by_key {A}.
Arguments max_by_key_from {A}.
Arguments longest {A}.
Arguments longest_from {A}.

Definition rule_len (r : rule) : nat := length (rprefix r).

(* actor.rs PerAppenderFilter::find_most_specific_rule *)
Definition find_most_specific_rule (f : pfilter) (target : name) : option rule :=
  max_by_key rule_len (filter (fun r => target_matches_prefix target (rprefix r)) (frules f)).

(* actor.rs PerAppenderFilter::enabled *)
Definition filter_enabled (f : pfilter) (target : name) (lv : level) : bool :=
  match find_most_specific_rule f target with
  | Some r => admits (rlevel r) lv
  | None => admits (fdefault f) lv
  end.

(* actor.rs PerAppenderFilter::max_level *)
Definition filter_max_level (f : pfilter) : lfilter :=
  fold_right fmax (fdefault f) (map rlevel (frules f)).

(* ------------------------------------------------------------------ the processor *)
(* one AppenderActor per configured appender (init.rs loop over internal_config.appenders) *)
Definition actors (c : config) : list (N * pfilter) :=
  map (fun a => (a, build_filter a (cloggers c))) (cappenders c).

(* processor.rs EventProcessor::new: max over actors, OFF when there are none *)
Definition proc_max_level (c : config) : lfilter :=
  fold_right fmax OFF (map (fun af => filter_max_level (snd af)) (actors c)).

(* processor.rs event_enabled *)
Definition event_enabled (c : config) (target : name) (lv : level) : bool :=
  existsb (fun af => filter_enabled (snd af) target lv) (actors c).

(* processor.rs process_event, winner loop:
     for (prefix, (_, additive)) in rules.iter().flatten() {
       if winner.map_or(true, |(wp, _)| prefix.len() > wp.len()) { winner = Some((prefix, additive)) } } *)
Fixpoint winner_from (w : option (name * bool)) (rs : list (option rule)) : option (name * bool) :=
  match rs with
  | [] => w
  | None :: t => winner_from w t
  | Some r :: t =>
      match w with
      | None => winner_from (Some (rprefix r, radd r)) t
      | Some (wp, _) =>
          if Nat.ltb (length wp) (length (rprefix r))
          then winner_from (Some (rprefix r, radd r)) t
          else winner_from w t
      end
  end.

Definition gate_of (w : option (name * bool)) : option name :=
  match w with Some (p, false) => Some p | _ => None end.

(* body of the delivery loop for one actor *)
Definition actor_receives (gate : option name) (f : pfilter) (r : option rule) (lv : level) : bool :=
  (match gate with
   | Some gp => match r with Some r' => name_eqb (rprefix r') gp | None => false end
   | None => true
   end)
  && (match r with
      | Some r' => admits (rlevel r') lv
      | None => admits (fdefault f) lv
      end).

(* process_event: the appenders the event is sent to, in actor order (one send each) *)
Definition process_event (c : config) (target : name) (lv : level) : list N :=
  let acts := actors c in
  let rules := map (fun af => find_most_specific_rule (snd af) target) acts in
  let gate := gate_of (winner_from None rules) in
  map (fun x => fst (fst x))
      (filter (fun x => actor_receives gate (snd (fst x)) (snd x) lv) (combine acts rules)).

(* the two public entry points.
   tracing: the macro first compares with the global max-level hint (Layer::max_level_hint =
   processor.max_level()), then Layer::enabled = event_enabled, then on_event = process_event.
   log: the macro compares with log::max_level() (set from processor.max_level() through
   tracing_filter_to_log_filter, a bijection on the six values), Log::log re-checks it, then
   process_event. *)
Inductive via := ViaLog | ViaTracing.

Definition emit (c : config) (v : via) (target : name) (lv : level) : list N :=
  match v with
  | ViaLog => if admits (proc_max_level c) lv then process_event c target lv else []
  | ViaTracing =>
      if admits (proc_max_level c) lv && event_enabled c target lv
      then process_event c target lv else []
  end.

Definition model_delivers (c : config) (v : via) (target : name) (lv : level) (a : N) : bool :=
  mem a (emit c v target lv).

(* ------------------------------------------------------------------ specification *)
(* The property sentence, transcribed over the logger tree (no per-appender filters, no actor
   list): "an event is delivered to an appender exactly when the most specific logger that names
   that appender and whose name is a module-path prefix of the event target (the root logger as
   fallback) admits the event's level, except that when the most specific matching logger overall
   is non-additive only that logger's own appenders can receive it". *)
Fixpoint is_prefix (p t : name) : bool :=
  match p, t with
  | [], _ => true
  | a :: p', b :: t' => N.eqb a b && is_prefix p' t'
  | _ :: _, [] => false
  end.

(* `p` is `t` itself or a module-path ancestor of it *)
Definition module_prefix (p t : name) : bool := name_eqb t p || is_prefix (p ++ sep) t.

Definition logger_len (l : logger) : nat := length (lname l).

Definition named_matching (c : config) (t : name) : list logger :=
  filter (fun l => negb (is_root l) && module_prefix (lname l) t) (cloggers c).

Definition spec_logger_for (c : config) (t : name) (a : N) : option logger :=
  match longest logger_len (filter (fun l => mem a (lapps l)) (named_matching c t)) with
  | Some l => Some l
  | None => match find_root (cloggers c) with
            | Some r => if mem a (lapps r) then Some r else None
            | None => None
            end
  end.

Definition spec_overall (c : config) (t : name) : option logger :=
  match longest logger_len (named_matching c t) with
  | Some l => Some l
  | None => find_root (cloggers c)
  end.

Definition spec_delivers (c : config) (t : name) (lv : level) (a : N) : bool :=
  (match spec_logger_for c t a with Some l => admits (llevel l) lv | None => false end)
  && (match spec_overall c t with Some w => ladd w || mem a (lapps w) | None => true end).

(* ------------------------------------------------------------------ F-25 boundary *)
(* the most specific named logger matching this target (if any) names at least one appender *)
Definition nonempty {A} (l : list A) : bool := match l with [] => false | _ => true end.

Definition winner_wired (c : config) (t : name) : bool :=
  match longest logger_len (named_matching c t) with
  | Some w => nonempty (lapps w)
  | None => true
  end.

(* every named logger names at least one appender *)
Definition all_wired (c : config) : bool :=
  forallb (fun l => is_root l || nonempty (lapps l)) (cloggers c).

(* only the non-additive ones do (NOT sufficient, see RouteProofs.route_refuted_F25_additive) *)
Definition nonadditive_wired (c : config) : bool :=
  forallb (fun l => is_root l || ladd l || nonempty (lapps l)) (cloggers c).

(* ------------------------------------------------------------------ script runner (D1 driver) *)
(* an emitted event: (thread, id, target, level); each is sent through log and through tracing *)
Definition event := (N * N * name * level)%type.

Definition deliveries_of (c : config) (a : N) (evs : list event) : list (N * N * via) :=
  flat_map (fun e =>
    let '(th, id, t, lv) := e in
    (if model_delivers c ViaLog t lv a then [(th, id, ViaLog)] else [])
    ++ (if model_delivers c ViaTracing t lv a then [(th, id, ViaTracing)] else [])) evs.
