(* Log/Pipeline.v — E-PIPE: section-level (K3') model of ONE byte-appender pipeline of
   fibre_logging: emitting threads -> bounded FIFO -> writer thread, and the shutdown sequence.

   Code mirrored (logging/src):
     subscriber/processor.rs  send_bytes, OverflowPolicy::Block:  `let _ = sender.send(bytes)`
     channels/src/mpsc/bounded_v3/producer.rs  Sender::send_inner (closed check, try_send_now, retry)
     init.rs                  run_byte_appender_writer (loop / recv_timeout / drain batch / final drain)
     lib.rs                   InitResult::shutdown_impl (store flag; close_channels; join)  (= Drop)

   A step is one critical section or one atomic access, in source order; the schedule is an
   arbitrary list of labels (any interleaving, any number of emitters, timeouts firing at any
   point).  The FIFO is abstract (a list; its implementation is the subject of C01-C05).
   Parking/unparking is abstracted to "retry": only safety is stated.  NO proofs in this file. *)
From Coq Require Import List Arith Bool Lia.
Import ListNotations.

Definition ev := (nat * nat)%type.          (* (emitting thread, payload) *)

Inductive epcT := EIdle | EChecked.          (* EChecked: passed the closed check, about to try_send_now *)
Inductive wpcT := WTop | WRecv | WBatch (n : nat) | WFinal | WFlush | WDone.
Inductive spcT := SIdle | SFlagged | SClosed | SDone.

Record emitter := mkEm {
  epc : epcT;
  todo : list nat;                (* payloads still to be emitted, in program order *)
  hist : list (nat * bool) }.     (* payloads whose send returned, with Ok = true / Err = false *)

Record st := mkSt {
  queue : list ev;                (* the bounded channel, head = oldest *)
  written : list ev;              (* what the writer passed to write_all, in order *)
  flag : bool;                    (* shutdown_signal *)
  closed : bool;                  (* the processor's Sender handle was closed *)
  rx_alive : bool;                (* the writer still owns the Receiver *)
  wpc : wpcT;
  spc : spcT;
  ems : nat -> emitter;
  early : list ev }.              (* ghost: events pushed while the flag was still false *)

Inductive label :=
| LEmit (e : nat)                 (* emitting thread e takes its next step *)
| LEmitSpin (e : nat)             (* same, but a failed try_send_now is retried WITHOUT re-checking
                                     `closed`: the pre-register spin of send_inner (cap <= 4, up to
                                     SYNC_SPIN_LIMIT = 200 yields) *)
| LWriter (timeout : bool)        (* the writer takes a step; recv_timeout may time out *)
| LShut.                          (* the thread running shutdown_impl / Drop takes a step *)

Definition upd (f : nat -> emitter) (e : nat) (v : emitter) : nat -> emitter :=
  fun j => if Nat.eqb j e then v else f j.

Definition set_ems (s : st) (f : nat -> emitter) : st :=
  mkSt (queue s) (written s) (flag s) (closed s) (rx_alive s) (wpc s) (spc s) f (early s).

(* one step of emitter e: Sender::send_inner under OverflowPolicy::Block *)
Definition step_emit (cap : nat) (s : st) (e : nat) (spin : bool) : st :=
  let m := ems s e in
  match todo m with
  | [] => s
  | p :: rest =>
      match epc m with
      | EIdle =>
          (* if self.closed.load() || !self.shared.receivers_alive() { return Err(item) } *)
          if closed s || negb (rx_alive s)
          then set_ems s (upd (ems s) e (mkEm EIdle rest (hist m ++ [(p, false)])))
          else set_ems s (upd (ems s) e (mkEm EChecked (todo m) (hist m)))
      | EChecked =>
          (* try_send_now: room -> push, Ok; full -> (register, park, wake) -> re-check closed *)
          if Nat.ltb (length (queue s)) cap
          then mkSt (queue s ++ [(e, p)]) (written s) (flag s) (closed s) (rx_alive s) (wpc s) (spc s)
                    (upd (ems s) e (mkEm EIdle rest (hist m ++ [(p, true)])))
                    (if flag s then early s else early s ++ [(e, p)])
          else if spin then s
          else set_ems s (upd (ems s) e (mkEm EIdle (todo m) (hist m)))
      end
  end.

Definition set_w (s : st) (q w : list ev) (pc : wpcT) (alive : bool) : st :=
  mkSt q w (flag s) (closed s) alive pc (spc s) (ems s) (early s).

Definition batch_max : nat := 256.           (* WRITER_DRAIN_BATCH_MAX *)

(* one step of run_byte_appender_writer *)
Definition step_writer (s : st) (timeout : bool) : st :=
  match wpc s with
  | WTop =>      (* if shutdown.load(Relaxed) { break } *)
      set_w s (queue s) (written s) (if flag s then WFinal else WRecv) (rx_alive s)
  | WRecv =>     (* rx.recv_timeout(50ms): Ok -> write_one | Disconnected -> break | Timeout -> loop *)
      match queue s with
      | x :: q' => set_w s q' (written s ++ [x]) (WBatch batch_max) (rx_alive s)
      | [] => if closed s then set_w s [] (written s) WFinal (rx_alive s)
              else if timeout then set_w s [] (written s) WTop (rx_alive s)
              else s
      end
  | WBatch n =>  (* for _ in 0..256 { match rx.try_recv() { Ok -> write_one, Err -> break } } *)
      match n with
      | O => set_w s (queue s) (written s) WTop (rx_alive s)
      | S n' => match queue s with
                | x :: q' => set_w s q' (written s ++ [x]) (WBatch n') (rx_alive s)
                | [] => set_w s [] (written s) WTop (rx_alive s)
                end
      end
  | WFinal =>    (* while let Ok(bytes) = rx.try_recv() { write_one } *)
      match queue s with
      | x :: q' => set_w s q' (written s ++ [x]) WFinal (rx_alive s)
      | [] => set_w s [] (written s) WFlush (rx_alive s)
      end
  | WFlush =>    (* final flush; the function returns and drops rx *)
      set_w s (queue s) (written s) WDone false
  | WDone => s
  end.

(* one step of InitResult::shutdown_impl *)
Definition step_shut (s : st) : st :=
  match spc s with
  | SIdle =>     (* shutdown_signal.store(true, SeqCst) *)
      mkSt (queue s) (written s) true (closed s) (rx_alive s) (wpc s) SFlagged (ems s) (early s)
  | SFlagged =>  (* processor.close_channels() *)
      mkSt (queue s) (written s) (flag s) true (rx_alive s) (wpc s) SClosed (ems s) (early s)
  | SClosed =>   (* join: returns once the writer thread has finished (deadline not modelled) *)
      match wpc s with
      | WDone => mkSt (queue s) (written s) (flag s) (closed s) (rx_alive s) (wpc s) SDone (ems s) (early s)
      | _ => s
      end
  | SDone => s
  end.

Definition step (cap : nat) (s : st) (l : label) : st :=
  match l with
  | LEmit e => step_emit cap s e false
  | LEmitSpin e => step_emit cap s e true
  | LWriter t => step_writer s t
  | LShut => step_shut s
  end.

Definition init (scripts : nat -> list nat) : st :=
  mkSt [] [] false false true WTop SIdle (fun e => mkEm EIdle (scripts e) []) [].

Definition run (cap : nat) (scripts : nat -> list nat) (sch : list label) : st :=
  fold_left (step cap) sch (init scripts).

(* payloads of thread e whose send returned Ok, in emission order *)
Definition oks (h : list (nat * bool)) : list nat := map fst (filter snd h).
Definition accepted (s : st) (e : nat) : list ev := map (pair e) (oks (hist (ems s e))).
Definition from (e : nat) (x : ev) : bool := Nat.eqb (fst x) e.
