(* Props/C03_mpmcb.v — pinned theorems for property C03 (capacity) on the bounded MPMC K2 model. *)
From Fibre Require Import Common.Base Chan.MpmcB Proofs.MpmcBBase Proofs.MpmcBInv Proofs.MpmcBStep Proofs.MpmcBProofs.

(* never more than `capacity` buffered *)
Theorem C03_mpmcb_capacity : forall c a f os,
  let s := state_after c a f os in (length (q s) <= N.to_nat c)%nat.
Proof. exact mpmcb_capacity. Qed.

(* try_send on a live sender handle succeeds exactly when that handle is open, the receiver count is
   not zero, and fewer than `capacity` ids are buffered *)
Theorem C03_mpmcb_try_send_exact : forall c a f os h x,
  let s := state_after c a f os in
  getH h s = Some x -> h_live x = true -> h_tx x = true ->
  (o_res (snd (step s (TrySend h))) = ROk <->
   h_closed x = false /\ rc s <> 0 /\ (length (q s) < N.to_nat c)%nat).
Proof. exact P_try_send_exact. Qed.

(* ... and the receiver count is the number of open receiver handles (unless the F-07 event
   happened: see C04), so "rc <> 0" reads "some receiver handle is open" *)
Theorem C03_mpmcb_counts : forall c a f os,
  let s := state_after c a f os in
  t07 (tn s) = false ->
  sc s = N.of_nat (cnt open_tx (hs s)) /\ rc s = N.of_nat (cnt open_rx (hs s)).
Proof. exact P_counts. Qed.

Example C03_mpmcb_example :
  map o_res (snd (run (init 2 false no_fixes) [TrySend 0; TrySend 0; TrySend 0; Observe 0; TryRecv 1; TrySend 0; Send 0]))
  = [ROk; ROk; RFull 2; RObs 2 false true 2 false; RVal 0; ROk; RWouldBlock].
Proof. vm_compute. reflexivity. Qed.
