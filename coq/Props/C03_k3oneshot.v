(* Props/C03_k3oneshot.v — pinned statements: C03 for oneshot (only the first send ever succeeds),
   K3 model, every cfg, every number N of sender clones, all programs and all schedules. *)
From Coq Require Import List.
From Fibre Require Import Common.Conc Chan.OneshotK3 Proofs.OneshotK3Base Proofs.OneshotK3Life
  Proofs.OneshotK3Slot Proofs.OneshotK3Vals Proofs.OneshotK3Examples.
Import ListNotations.

(* at most one sender is inside the EMPTY->WRITING critical section, and state = WRITING iff one is *)
Theorem C03_k3oneshot_one_writer :
  forall C n sprog rp sch t u,
  let s := fst (run (sys C n sprog rp) (init n rp) sch) in
  writer (spc s t) = true -> writer (spc s u) = true -> t = u.
Proof.
  intros C n sprog rp sch t u s. apply (k3_one_writer C n sprog rp). exists sch. reflexivity.
Qed.

Theorem C03_k3oneshot_writing_iff_writer :
  forall C n sprog rp sch,
  let s := fst (run (sys C n sprog rp) (init n rp) sch) in
  cs s = Writing <-> exists t, inr n t /\ writer (spc s t) = true.
Proof.
  intros C n sprog rp sch s. apply (k3_writing_iff_writer C n sprog rp). exists sch. reflexivity.
Qed.

(* at most one value is ever written into the slot *)
Theorem C03_k3oneshot_one_value :
  forall C n sprog rp sch,
  let s := fst (run (sys C n sprog rp) (init n rp) sch) in
  length (wrote s) <= 1.
Proof.
  intros C n sprog rp sch s. apply (k3_one_value C n sprog rp). exists sch. reflexivity.
Qed.

(* at most one send reports Ok, and it is the send whose value was written *)
Theorem C03_k3oneshot_one_ok :
  forall C n sprog rp sch,
  let s := fst (run (sys C n sprog rp) (init n rp) sch) in
  length (oks s) <= 1 /\ incl (oks s) (wrote s).
Proof.
  intros C n sprog rp sch s. apply (k3_one_ok C n sprog rp). exists sch. reflexivity.
Qed.

Example C03_k3oneshot_ex :
  oks st_race = [1] /\ back st_race = [2; 3] /\ wrote st_race = [1] /\ rlog st_race = [REmpty; RVal 1] /\
  rpc st_race = RDone.
Proof. exact ex_race. Qed.
