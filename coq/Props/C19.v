(* Props/C19.v — pinned theorems for property C19 (log routing, exactly-once, log = tracing).
   Only statements, `exact`, and Examples. *)
From Fibre Require Import Common.Base Log.Route Proofs.RouteProofs Proofs.RouteThm.

(* ROUTING.  [model_delivers] mirrors build_filter_for_appender + find_most_specific_rule +
   process_event behind either public entry point (log / tracing, with their level fast paths);
   [spec_delivers] is the property sentence over the logger tree.  They agree for every
   well-formed configuration, target, level and appender, provided the most specific logger
   matching the target names at least one appender (the boundary of finding F-25). *)
Theorem C19_route_except_F25_at : forall c v t lv a,
  wf_cfg c = true -> winner_wired c t = true ->
  model_delivers c v t lv a = spec_delivers c t lv a.
Proof. exact route_except_F25_at. Qed.

Theorem C19_route_except_F25 : forall c,
  wf_cfg c = true -> all_wired c = true ->
  forall v t lv a, model_delivers c v t lv a = spec_delivers c t lv a.
Proof. exact route_except_F25. Qed.

(* the full statement is false of the code as written: F-25 (a non-additive logger without
   appenders does not gate) ... *)
Theorem C19_route_refuted_F25 :
  ~ (forall c v t lv a, wf_cfg c = true -> model_delivers c v t lv a = spec_delivers c t lv a).
Proof. exact route_refuted_F25. Qed.

(* ... and its twin: an ADDITIVE logger without appenders is invisible too, so a less specific
   non-additive logger keeps gating; excluding only non-additive unwired loggers is not enough *)
Theorem C19_route_refuted_F25_additive :
  ~ (forall c v t lv a, wf_cfg c = true -> nonadditive_wired c = true ->
                        model_delivers c v t lv a = spec_delivers c t lv a).
Proof. exact route_refuted_F25_additive. Qed.

(* IDENTICALLY THROUGH log AND tracing: the max-level hints and Layer::enabled never reject an
   event that process_event would deliver (no hypothesis on the configuration) *)
Theorem C19_route_log_eq_tracing : forall c t lv a,
  model_delivers c ViaLog t lv a = model_delivers c ViaTracing t lv a.
Proof. exact log_eq_tracing. Qed.

Theorem C19_route_fast_paths_redundant : forall c v t lv, emit c v t lv = process_event c t lv.
Proof. exact emit_is_process_event. Qed.

(* EXACTLY ONCE: one send per selected appender *)
Theorem C19_route_exactly_once : forall c v t lv a,
  NoDup (cappenders c) ->
  NoDup (emit c v t lv)
  /\ count_occ N.eq_dec (emit c v t lv) a = (if model_delivers c v t lv a then 1 else 0)%nat.
Proof. intros c v t lv a H. split; [apply emit_NoDup | apply emit_exactly_once]; exact H. Qed.

(* the code's matcher is "module-path prefix": the target itself or the target cut at a `::` *)
Theorem C19_route_matcher : forall t p,
  target_matches_prefix t p = true <-> (t = p \/ exists r, t = p ++ sep ++ r).
Proof. exact target_matches_prefix_mp. Qed.

Theorem C19_route_matcher_boundary : forall p x r,
  target_matches_prefix (p ++ x :: r) p = true -> exists r', x :: r = 58 :: 58 :: r'.
Proof. exact matches_boundary. Qed.

(* longest-prefix choice is unique: two matching logger names of equal length are the same name *)
Theorem C19_route_longest_prefix_unique : forall t p q,
  target_matches_prefix t p = true -> target_matches_prefix t q = true ->
  length p = length q -> p = q.
Proof. exact matches_unique. Qed.

(* `apple` is not under `app`, `app::le` is *)
Example C19_example_apple :
  target_matches_prefix [97;112;112;108;101] [97;112;112] = false
  /\ target_matches_prefix [97;112;112;58;58;108;101] [97;112;112] = true
  /\ target_matches_prefix [97;112;112] [97;112;112] = true.
Proof. vm_compute. repeat split. Qed.

(* non-vacuity: upstream's additivity matrix (root INFO -> s3; `a` DEBUG non-additive -> s1;
   `a::b` DEBUG additive -> s2) satisfies the hypotheses and exercises gate, levels and fallback *)
Definition C19_matrix : config :=
  mkConfig [1; 2; 3]
    [mkLogger root_name (UPTO INFO) true [3];
     mkLogger [97] (UPTO DEBUG) false [1];
     mkLogger [97; 58; 58; 98] (UPTO DEBUG) true [2]].

Example C19_example_matrix :
  wf_cfg C19_matrix = true /\ all_wired C19_matrix = true /\ NoDup (cappenders C19_matrix)
  /\ emit C19_matrix ViaLog [97; 58; 58; 120] DEBUG = [1]
  /\ emit C19_matrix ViaTracing [97; 58; 58; 98; 58; 58; 120] INFO = [1; 2; 3]
  /\ emit C19_matrix ViaLog [97; 58; 58; 98; 58; 58; 120] DEBUG = [1; 2]
  /\ emit C19_matrix ViaTracing [111] INFO = [3]
  /\ emit C19_matrix ViaLog [97; 97; 58; 58; 120] DEBUG = []
  /\ spec_delivers C19_matrix [97; 58; 58; 120] INFO 3 = false
  /\ spec_delivers C19_matrix [97; 58; 58; 98; 58; 58; 120] INFO 3 = true.
Proof.
  vm_compute. repeat split.
  repeat constructor; cbn; intuition discriminate.
Qed.

(* the F-25 witnesses, as replayed on the implementation by the check *)
Example C19_example_F25 :
  model_delivers cfg_F25 ViaTracing (nm_noisy ++ sep ++ [120]) INFO 0 = true
  /\ spec_delivers cfg_F25 (nm_noisy ++ sep ++ [120]) INFO 0 = false
  /\ model_delivers cfg_F25b ViaLog (nm_app_db ++ sep ++ [113]) INFO 0 = false
  /\ spec_delivers cfg_F25b (nm_app_db ++ sep ++ [113]) INFO 0 = true.
Proof. vm_compute. repeat split. Qed.
