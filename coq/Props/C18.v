(* Props/C18.v — pinned theorems for property C18 (IoC container).
   Only statements, `exact`, and Examples.  Models: Ioc/Container.v (K2), Ioc/OnceCell.v (K3). *)
From Fibre Require Import Common.Base Ioc.Container Ioc.OnceCell
     Proofs.ContainerProofs Proofs.OnceCellProofs.

(* ------------------------------------------------------------------ termination / cycles *)
(* the fuel supplied by a top-level resolution (registered slots + 1) never runs out: for every
   state and dependency graph the resolution ends with None, Some or Panic *)
Theorem C18_terminates : forall s sl, snd (resolve (fuel_of s) s [] sl) <> RFuel.
Proof. exact no_out_of_fuel. Qed.

(* a dependency cycle among scripts that would run now — through the resolved slot's own key, or
   merely reachable from it — is reported by Panic *)
Theorem C18_cycle_panics : forall s sl b,
  reach (provs s) sl b -> (skey b = skey sl \/ reach (provs s) b b) ->
  snd (step s (Resolve sl)) = OPanic.
Proof. exact cycle_panics. Qed.

(* conversely every Panic has a cause visible in the starting state: a missing required
   dependency or a key met again while its factory is still running *)
Theorem C18_panic_has_cause_except_F33 : forall s sl s',
  step s (Resolve sl) = (s', OPanic) -> pcause hit_key (provs s) [] sl.
Proof. exact panic_has_cause. Qed.

(* ... but NOT necessarily a genuine cycle: the stack is keyed by (type, name) without the
   container, so the same key in another container counts as "circular" (finding F-33) *)
Theorem C18_no_spurious_panic_refuted_F33 : ~ no_spurious_panic.
Proof. exact no_spurious_panic_refuted. Qed.

(* ------------------------------------------------------------------ keys *)
Theorem C18_unregistered_none : forall ops sl,
  no_register sl ops ->
  let s := fst (run init ops) in step s (Resolve sl) = (s, ONone).
Proof. exact unregistered_history. Qed.

Theorem C18_registered_iff : forall s ops sl,
  plookup sl (provs (fst (run s ops))) = None <-> plookup sl (provs s) = None /\ no_register sl ops.
Proof. exact registered_run. Qed.

Theorem C18_latest_wins : forall s k sl sc ops s3 i f ds,
  Inv s -> no_register sl ops ->
  let s1 := fst (step s (Register k sl sc)) in
  let s2 := fst (run s1 ops) in
  step s2 (Resolve sl) = (s3, OSome i f ds) -> f = nextf s.
Proof. exact latest_wins. Qed.

Theorem C18_no_alias : forall s sl s' i f ds sl' p',
  Inv s -> step s (Resolve sl) = (s', OSome i f ds) ->
  plookup sl' (provs s) = Some p' -> pfid p' = f -> sl' = sl.
Proof. exact no_alias. Qed.

Theorem C18_frame : forall s sl s' o z,
  step s (Resolve sl) = (s', o) -> ~ sreach (provs s) sl z -> plookup z (provs s') = plookup z (provs s).
Proof. exact resolve_frame. Qed.

Theorem C18_invariant_reachable : forall ops, Inv (fst (run init ops)).
Proof. exact inv_reachable. Qed.

(* ------------------------------------------------------------------ transient *)
Theorem C18_transient_fresh : forall ops s outs sl fid sc s' i f ds,
  run init ops = (s, outs) -> plookup sl (provs s) = Some (PTransient fid sc) ->
  step s (Resolve sl) = (s', OSome i f ds) ->
  forall j f' ds', In (OSome j f' ds') outs -> j < i.
Proof. exact transient_never_repeats. Qed.

(* ------------------------------------------------------------------ singleton *)
Theorem C18_singleton_once : forall ops f k,
  let s := fst (run init ops) in
  In (f, k) (kinds s) -> k <> KTransient -> (cnt f (completed s) <= 1)%nat.
Proof. exact singleton_once. Qed.

Theorem C18_instance_factory_never_runs : forall ops f,
  let s := fst (run init ops) in In (f, KInstance) (kinds s) -> cnt f (started s) = 0%nat.
Proof. exact instance_factory_never_runs. Qed.

Theorem C18_singleton_same : forall s sl fid c sc s1 i f ds ops,
  Inv s -> plookup sl (provs s) = Some (PSingleton fid c sc) ->
  step s (Resolve sl) = (s1, OSome i f ds) ->
  no_register sl ops ->
  let s2 := fst (run s1 ops) in
  exists f' ds', step s2 (Resolve sl) = (s2, OSome i f' ds').
Proof. exact singleton_same. Qed.

(* ------------------------------------------------------------------ once-cell protocol, all schedules *)
Theorem C18_once_all_schedules : forall sched,
  let s := orun sched in
  completions s <= 1 /\
  (forall t1 t2 v1 v2, opc s t1 = Done v1 -> opc s t2 = Done v2 -> v1 = v2) /\
  (forall t v, opc s t = Done v -> ocell s = Init v) /\
  runs s <= fails s + 1.
Proof. exact once_all_schedules. Qed.

Theorem C18_once_no_panic : forall sched,
  forallb (fun e => negb (is_fail e)) sched = true -> runs (orun sched) <= 1.
Proof. exact once_no_panic. Qed.

Theorem C18_once_blocked_returns : forall s t v,
  opc s t = Blocked -> ocell s = Init v -> opc (ostep s (Step t)) t = Done v.
Proof. exact blocked_returns. Qed.

Theorem C18_once_blocked_takes_over : forall s t,
  opc s t = Blocked -> ocell s = Uninit ->
  opc (ostep s (Step t)) t = InFactory /\ ocell (ostep s (Step t)) = Running t.
Proof. exact blocked_takes_over. Qed.

(* ------------------------------------------------------------------ non-vacuity *)
Definition kA : slot := (0, (0, Some 1)).
Definition kB : slot := (0, (1, Some 2)).
Definition kC : slot := (0, (2, None)).
Definition kT : slot := (0, (3, None)).

(* singleton sameness, transient freshness, names/types do not alias, unregistered, latest wins *)
Example C18_example_history :
  snd (run init [ Register KSingleton kA [(kT, true)]; Register KTransient kT [];
                  Resolve kA; Resolve kA; Resolve kT; Resolve kT; Resolve kB;
                  Resolve (0, (0, None)); Resolve (1, (0, Some 1));
                  Register KSingleton kA []; Resolve kA; Register KInstance kB []; Resolve kB; Resolve kB ])
  = [ OOk; OOk; OSome 1 0 [Some 0]; OSome 1 0 [Some 0]; OSome 2 1 []; OSome 3 1 []; ONone;
      ONone; ONone; OOk; OSome 4 2 []; OOk; OSome 5 3 []; OSome 5 3 [] ].
Proof. vm_compute. reflexivity. Qed.

(* a 3-cycle A -> B -> C -> A (the middle edge optional, C transient): hypotheses of
   C18_cycle_panics hold, every entry point panics, and after repairing C everything resolves *)
Definition cyc_ops : list op :=
  [ Register KSingleton kA [(kB, true)]; Register KSingleton kB [(kC, false)];
    Register KTransient kC [(kA, true)] ].

Example C18_example_cycle_hyp :
  let s := fst (run init cyc_ops) in reach (provs s) kA kA.
Proof.
  cbn zeta.
  apply (reach_trans _ kA [(kB, true)] kB true kA); [vm_compute; reflexivity | left; reflexivity |].
  apply (reach_trans _ kB [(kC, false)] kC false kA); [vm_compute; reflexivity | left; reflexivity |].
  apply (reach_step _ kC [(kA, true)] kA true); [vm_compute; reflexivity | left; reflexivity].
Qed.

Example C18_example_cycle :
  snd (run init (cyc_ops ++ [ Resolve kA; Resolve kB; Resolve kC; Register KTransient kC []; Resolve kA; Resolve kB ]))
  = [ OOk; OOk; OOk; OPanic; OPanic; OPanic; OOk; OSome 2 0 [Some 1]; OSome 1 1 [Some 0] ].
Proof. vm_compute. reflexivity. Qed.

(* a cycle that exists only behind an initialised singleton is never entered: no panic *)
Example C18_example_cached_cuts_cycle :
  snd (run init [ Register KSingleton kA []; Resolve kA; Register KSingleton kB [(kA, true)]; Resolve kB;
                  Register KTransient kA [(kB, true)]; Resolve kA; Resolve kB ])
  = [ OOk; OSome 0 0 []; OOk; OSome 1 1 [Some 0]; OOk; OSome 2 2 [Some 1]; OSome 1 1 [Some 0] ].
Proof. vm_compute. reflexivity. Qed.

(* F-33 witness on the model: container 0's T0 depends on container 1's T0 *)
Example C18_example_F33 :
  snd (run init (f33_ops ++ [Resolve (0, (0, None)); Resolve (1, (0, None))]))
  = [ OOk; OOk; OPanic; OSome 0 1 [] ].
Proof. vm_compute. reflexivity. Qed.

(* once-cell: three threads race, the first runner panics, a blocked thread takes over *)
Example C18_example_once :
  let s := orun [Step 1; Step 2; Step 3; Fail 1; Step 3; Step 2; Step 3; Step 2] in
  (opc s 1, opc s 2, opc s 3, ocell s, runs s, fails s, completions s)
  = (Panicked, Done 2, Done 2, Init 2, 2, 1, 1).
Proof. vm_compute. reflexivity. Qed.
