(* Props/C02_mpscu.v — pinned theorems, property C02 (FIFO) for the unbounded MPSC channel. *)
From Fibre Require Import Common.Base Chan.MpscU Chan.MpscUSpec Proofs.MpscUProofs.

Theorem C02_mpscu_fifo : forall s, reach s -> acc s = rcv s ++ q s ++ qdrp s.
Proof. exact fifo_all. Qed.

Theorem C02_mpscu_recv_trace : forall ops s,
  rcv (final s ops) = rcv s ++ flat_map (fun x => recv_ids (out_res x)) (snd (run s ops)).
Proof. exact recv_trace. Qed.

Theorem C02_mpscu_batch_order : forall s h vs ip so,
  match snd (exec s (SendB h vs ip so)) with
  | RBatchOk k | RMutOk k [] => k = len vs /\ q (fst (exec s (SendB h vs ip so))) = q s ++ vs
  | RBatchErr k l => k = 0 /\ l = vs /\ q (fst (exec s (SendB h vs ip so))) = q s
  | RMutClosed l => l = vs /\ q (fst (exec s (SendB h vs ip so))) = q s
  | RMutOk _ (_ :: _) => False
  | _ => True
  end.
Proof. exact send_batch_all_or_nothing. Qed.

Example C02_mpscu_example :
  let '(s, outs) := run (init false false)
      [SendB 0 [1; 2; 3] false true; Clone 0 2; TryRecv 1; TrySend 2 5; TryRecvB 1 9; TryRecv 1] in
  map out_res outs = [RBatchOk 3; ROk; RVal 1; ROk; RVals [2; 3; 5]; REmpty]
  /\ acc s = [1; 2; 3; 5] /\ rcv s = [1; 2; 3; 5].
Proof. vm_compute. repeat split; reflexivity. Qed.
