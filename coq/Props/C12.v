(* Props/C12.v — pinned theorems for property C12 (no expired entry is ever
   served; an unexpired entry of an unbounded cache is not reported missing).
   The stale-while-revalidate sentence (fetch_with) belongs to C15's engine.
   Only statements, `exact`, examples. *)
From Fibre Require Import Common.Base Cache.PolicySpec Cache.PolicyLru Cache.AMap
     Cache.CacheOps Cache.CacheSpec Proofs.CacheCoreProofs Proofs.CacheStepProofs Proofs.CacheC12Proofs.

(** * first sentence: whatever a read path hands out is unexpired *)

(* FULL statement ([C12_served_live], CacheSpec.v), for the code with the F-15
   and F-33 patches: every policy, configuration, state and operation *)
Theorem C12_seq : forall (P : policy) (c : cfg),
  0 < c_shards c -> fix_f15 (c_fix c) = true -> fix_f33 (c_fix c) = true ->
  C12_served_live P c.
Proof.
  intros P c Hn H15 H33 s o k v Hs. apply (c12_served_gen P c Hn s o k v Hs); intros _; assumption.
Qed.

(* the code as found refutes it: entry() is Occupied on an expired entry (F-15),
   and compute_val hands the closure an expired value (F-33) *)
Theorem C12_seq_refuted_F15 : ~ C12_served_live LruP (c12_cfg no_fixes).
Proof. exact c12_served_refuted_F15. Qed.

Theorem C12_seq_refuted_F15_or_insert : ~ C12_served_live LruP (c12_cfg no_fixes).
Proof. exact c12_served_refuted_F15_or_insert. Qed.

Theorem C12_seq_refuted_F33 : ~ C12_served_live LruP (c12_cfg no_fixes).
Proof. exact c12_served_refuted_F33. Qed.

(* what holds of the code as found: every read path except entry() and compute *)
Theorem C12_seq_except_F15_F33 : forall (P : policy) (c : cfg) (s : state P) (o : op) (k v : N),
  0 < c_shards c ->
  served P c s o k v -> is_entry_op o = false -> is_compute_op o = false ->
  exists e, find P c s k = Some e /\ e_val e = v /\ live c (st_now P s) e.
Proof.
  intros P c s o k v Hn Hs He Hc. apply (c12_served_gen P c Hn s o k v Hs); intros Hx; congruence.
Qed.

(* where the deadlines come from: TTL counted from insertion (global or per insert),
   idle timer started at insertion *)
Theorem C12_deadline_set : forall (P : policy) (c : cfg) (s : state P) (k v cost : N),
  0 < c_shards c ->
  (exists h, find P c (do_insert P c s k v cost) k
             = Some (mkE v cost (ttl_exp c (st_now P s)) (la0 P c s) h (st_eid P s)))
  /\ (forall d, exists h, find P c (do_insert_ttl P c s k v cost d) k
                          = Some (mkE v cost (st_now P s + d) (la0 P c s) h (st_eid P s)))
  /\ (occupied P c s k = None ->
      find P c (fst (do_or_insert P c s k v cost)) k
      = Some (mkE v cost (ttl_exp c (st_now P s)) (la0 P c s) None (st_eid P s))).
Proof. intros P c s k v cost Hn. exact (c12_deadline_set P c Hn s k v cost). Qed.

(* ... and that nothing but an overwrite changes them; the idle timer moves only
   to `now`, only by get/fetch/multiget hitting a live entry (peek, entry and
   compute do not refresh) *)
Theorem C12_deadline_frame : forall (P : policy) (c : cfg) (s : state P) (o : op) (k : N) (e e' : entry),
  0 < c_shards c ->
  wfp P c s -> find P c s k = Some e -> silent o k = false ->
  find P c (fst (step P c s o)) k = Some e' ->
  e_id e' = e_id e /\ e_exp e' = e_exp e /\ e_cost e' = e_cost e
  /\ (e_la e' = e_la e \/ (e_la e' = st_now P s /\ live c (st_now P s) e /\ refreshes o k = true)).
Proof. intros P c s o k e e' Hn. exact (c12_deadline_frame P c Hn s o k e e'). Qed.

(** * second sentence: an unexpired entry of an unbounded cache is not reported missing *)

(* FULL statement ([C12_present]) for the code with the F-16 patch *)
Theorem C12_present_fixed : forall (P : policy) (c : cfg),
  0 < c_shards c -> fix_f16 (c_fix c) = true -> C12_present P c.
Proof. intros P c Hn Hf. exact (c12_present P c Hn Hf). Qed.

(* the code as found refutes it: the timer wheel advances one tick per
   maintenance call and TTL cleanup removes by key hash without re-checking
   expiry (F-16) *)
Theorem C12_present_refuted_F16 : ~ C12_present LruP (c12_cfg no_fixes).
Proof. exact c12_present_refuted_F16. Qed.

(* what holds of the code as found: every operation other than the maintenance passes *)
Theorem C12_present_except_F16 : forall (P : policy) (c : cfg) (s : state P) (o : op) (k : N) (e : entry),
  0 < c_shards c ->
  wfp P c s -> find P c s k = Some e -> removes o k = false -> silent o k = false -> is_maint o = false ->
  exists e', find P c (fst (step P c s o)) k = Some e' /\ e_id e' = e_id e /\ e_exp e' = e_exp e.
Proof. intros P c s o k e Hn. exact (c12_present_nonmaint P c Hn s o k e). Qed.

(* and a resident live entry is returned by every read path *)
Theorem C12_live_is_served : forall (P : policy) (c : cfg) (s : state P) (k : N) (e : entry),
  0 < c_shards c ->
  find P c s k = Some e -> live c (st_now P s) e ->
  (forall hit, snd (do_read P c hit s k) = Some (e_val e))
  /\ snd (do_read_direct P c s k) = Some (e_val e)
  /\ occupied P c s k = Some e
  /\ computable P c s k = Some e
  /\ (forall ks, In k ks -> In k (map fst (snd (do_multiget_gen P (do_read P c true) s ks []))))
  /\ (forall ks, In k ks -> In k (map fst (snd (do_multiget_gen P (do_read_direct P c) s ks [])))).
Proof. intros P c s k e Hn. exact (c12_live_is_served P c Hn s k e). Qed.

(* every reachable state is well formed, so the hypotheses above are satisfiable *)
Theorem C12_reachable_wfp : forall (P : policy) (c : cfg) (s : state P),
  0 < c_shards c -> reachable P c s -> wfp P c s.
Proof. intros P c s Hn. exact (reachable_wfp P c Hn s). Qed.

(* non-vacuity: boundary instants with TTL 5 and TTI 3 (get refreshes, peek does not) *)
Definition c12_ex_cfg : cfg := mkCfg 2 U64_MAX (Some 5) (Some 3) 60 1 false true false false all_fixes.
Example C12_example :
  snd (run LruP c12_ex_cfg (init LruP 1000)
           [OInsert 1 100 1; OAdvance 2; OPeek 1; OAdvance 1; OPeek 1;          (* idle 3: expired *)
            OInsert 2 101 1; OAdvance 2; OGet 2; OAdvance 2; OGet 2;            (* refreshed at +2: live at +4 *)
            OAdvance 1; OGet 2; OEntryGet 2; OComputeVal 2 FKeep])              (* TTL 5 reached *)
  = [RUnit; RUnit; ROpt (Some 100); RUnit; ROpt None;
     RUnit; RUnit; ROpt (Some 101); RUnit; ROpt (Some 101);
     RUnit; ROpt None; ROpt None; ROpt None].
Proof. vm_compute. reflexivity. Qed.
