(* Props/C06_rv.v — pinned theorems of property C06 (async wake-ups and cancellation) for the
   rendezvous channels (engine rv).  Findings: F-31 (dropping a completed receive future destroys its
   value), F-33 (single-slot receiver store of spsc/mpsc overwrites a parked receive). *)
From Fibre Require Import Common.Base Chan.Rendezvous Proofs.RendezvousBase Proofs.RendezvousWF
     Proofs.RendezvousProofs Proofs.RendezvousAck Proofs.RendezvousWake.

(** no missed wake-up *)
(* would_be_ready is defined by running the model's own poll *)
Theorem C06_rv_no_missed_wake_except_F33 : forall c a ops s tr f r,
  run c (init a) ops = (s, tr) ->
  aget f (fs s) = Some r -> f_reg r = true -> (f_side r = Tx \/ multi_rx c = true) ->
  would_be_ready c s f -> f_woken r = true.
Proof. exact rv_no_missed_wake. Qed.

Theorem C06_rv_no_missed_wake_mpmc : forall c, multi_rx c = true -> rv_no_missed_wake_full c.
Proof. exact rv_no_missed_wake_multi. Qed.

Theorem C06_rv_no_missed_wake_refuted_F33 : forall c, multi_rx c = false -> ~ rv_no_missed_wake_full c.
Proof. exact rv_no_missed_wake_refuted_F33. Qed.

(* a poll that returns Pending leaves a record carrying THIS poll's waker (a re-poll with another
   waker moves the registration) and clears the woken mark *)
Theorem C06_rv_pending_registers : forall c s f w s' e,
  step c s (Poll f w) = (s', OPending, e) ->
  exists r', aget f (fs s') = Some r' /\ f_reg r' = true /\ f_woken r' = false /\ f_st r' = WAITING
             /\ match f_side r' with Tx => In (f, w) (sq s') | Rx => In (f, w) (rq s') end.
Proof. exact rv_pending_registers. Qed.

(* a record leaves its queue only together with a wake of its stored waker, or because its own
   future is dropped (sender queue: every flavour; receiver store: deque) *)
Theorem C06_rv_removed_record_is_woken : forall c s o s' r e,
  step c s o = (s', r, e) ->
  q_evol (sq s) (sq s') e (dropped_of o) /\
  (multi_rx c = true -> q_evol (rq s) (rq s') e (dropped_of o)).
Proof. exact step_queues_evol. Qed.

(** cancellation *)
(* no dangling registration: every record belongs to a live registered future, always *)
Theorem C06_rv_no_dangling : forall c a ops s tr f w,
  run c (init a) ops = (s, tr) -> In (f, w) (sq s ++ rq s) ->
  exists r, aget f (fs s) = Some r /\ f_reg r = true /\ f_st r = WAITING.
Proof. exact rv_no_dangling. Qed.

(* dropping a future removes at most its own record, keeps everybody else's order, touches no
   counter or handle and wakes nobody (a rendezvous wake is a completion, not a permit: there is
   nothing to pass on) *)
Theorem C06_rv_drop_future_queues : forall c s f s' r e,
  step c s (DropF f) = (s', r, e) ->
  (sq s' = sq s \/ sq s' = qdel f (sq s)) /\ (rq s' = rq s \/ rq s' = qdel f (rq s))
  /\ hs s' = hs s /\ scnt s' = scnt s /\ rcnt s' = rcnt s
  /\ (forall w, ~ In (EWake w) e).
Proof. exact rv_drop_future_queues. Qed.

(* dropping a pending SEND future never loses or ghost-delivers a message (conservation holds over
   every history, C01); dropping a RECEIVE future that was already handed a value destroys it *)
Theorem C06_rv_cancel_loses_refuted_F31 : forall c, ~ rv_acked_delivered_full c.
Proof. exact rv_acked_delivered_refuted_F31. Qed.

Theorem C06_rv_cancel_safe_except_F31 : forall c a ops s tr v,
  run c (init a) ops = (s, tr) -> In (EAck v) (evs_of tr) ->
  In (ERecv v) (evs_of tr) \/ in_dest (fs s) v \/ In (EDropDest v) (evs_of tr).
Proof. exact rv_acked_delivered_except_F31. Qed.

Theorem C06_rv_F31_only_completed_recv_future : forall c s o s' r e v,
  WF s -> step c s o = (s', r, e) -> In (EDropDest v) e ->
  exists f r0, o = DropF f /\ aget f (fs s) = Some r0 /\ f_side r0 = Rx /\ f_cell r0 = Some v
               /\ f_st r0 = DONE /\ f_reg r0 = true.
Proof. exact rv_drop_dest_only_completed_recv. Qed.

(* non-vacuity: two parked receives (mpmc), the woken one is dropped (its value is lost: F-31), the
   other is still registered and gets the next value *)
Example C06_rv_example :
  map (fun t => (snd (fst t), snd t))
      (snd (run mpmc_cfg (init true)
             [MkRecv 10 1; MkRecv 11 1; Poll 10 3; Poll 11 4; TrySend 0 100; DropF 10;
              TrySend 0 101; Poll 11 4]))
  = [(ONone, []); (ONone, []); (OPending, []); (OPending, []);
     (OOk, [EIntro 100; EOffer 100; EHand 100; EAck 100; EWake 3]); (ONone, [EDropDest 100]);
     (OOk, [EIntro 101; EOffer 101; EHand 101; EAck 101; EWake 4]); (OReadyVal 101, [ERecv 101])].
Proof. vm_compute. reflexivity. Qed.
