(* Props/C09_oneshot.v — pinned theorems: C09 (value dropped exactly once) for fibre::oneshot. *)
From Coq Require Import List Arith Permutation.
From Fibre Require Import Chan.OneshotOps Proofs.OneshotOpsProofs Proofs.OneshotOpsTheorems.
Import ListNotations.
Open Scope nat_scope.

Theorem C09_oneshot_one_place : forall cf ops,
  let s := oreach cf ops in
  Permutation (orecv s ++ sent_val (ostate s) ++ oret s ++ odrop s) (seq 0 (onext s)).
Proof. exact oneshot_conservation. Qed.

(* every teardown order: once every sender handle and the receiver are gone the slot is empty and each id is
   exactly one of received / handed back / dropped (by receiver close-or-drop, the last sender, or the
   shared state's Drop) *)
Theorem C09_oneshot_teardown : forall cf ops,
  let s := oreach cf ops in
  snd_h s = [] -> rcv s = RcvGone ->
  sent_val (ostate s) = [] /\ futs s = [] /\
  Permutation (orecv s ++ oret s ++ odrop s) (seq 0 (onext s)) /\ NoDup (orecv s ++ oret s ++ odrop s).
Proof. exact oneshot_teardown. Qed.

(* the value is dropped by the receiver's close, by its drop, or handed to it: one example per path *)
Example C09_oneshot_example_close : orun_case ocfg_repo [OSend 0; OCloseR]
  = [(OOk, []); (OOk, [ODrop 0]); (OOk, [])].
Proof. vm_compute. reflexivity. Qed.
Example C09_oneshot_example_drop : orun_case ocfg_repo [OClone 0; OSend 0; ODropR; OSend 1]
  = [(OOk, []); (OOk, []); (OOk, [ODrop 0]); (OClosedV 1, []); (OGone, [])].
Proof. vm_compute. reflexivity. Qed.
