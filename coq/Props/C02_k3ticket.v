(* Props/C02_k3ticket.v — pinned statements: C02 (delivery in ticket order, per-producer FIFO) for
   the K3 model of the bounded MPSC ticket protocol. *)
From Fibre Require Import Common.Base Common.Conc Chan.TicketK3 Proofs.TicketK3Base Proofs.TicketK3Values
  Proofs.TicketK3Theorems Proofs.TicketK3Examples.

(* delivery is in ticket order: what the consumer has taken is the list of SET payloads of the
   tickets below its cursor, ascending (hence a prefix of the accepted payloads in ticket order) *)
Theorem C02_k3ticket_ticket_order :
  forall cap cc n kk np pp cp sch, 0 < cc -> 0 < n ->
  let s := fst (Conc.run (sys cap cc n kk np pp cp) (init np pp cp) sch) in
  received s = vals_in s 0 (rpos s).
Proof.
  intros cap cc n kk np pp cp sch Hcc Hn s. apply (received_by_ticket cap cc n kk np Hcc Hn pp cp). exists sch. reflexivity.
Qed.

(* per-producer FIFO: two payloads of the same producer are received in the order of its calls *)
Theorem C02_k3ticket_fifo_received :
  forall cap cc n kk np pp cp sch l1 th k1 l2 k2 l3, 0 < cc -> 0 < n ->
  let s := fst (Conc.run (sys cap cc n kk np pp cp) (init np pp cp) sch) in
  received s = l1 ++ (th, k1) :: l2 ++ (th, k2) :: l3 -> k1 < k2.
Proof.
  intros cap cc n kk np pp cp sch l1 th k1 l2 k2 l3 Hcc Hn s. apply (received_per_producer_fifo cap cc n kk np Hcc Hn pp cp). exists sch. reflexivity.
Qed.

Theorem C02_k3ticket_fifo_accepted :
  forall cap cc n kk np pp cp sch l1 th k1 l2 k2 l3, 0 < cc -> 0 < n ->
  let s := fst (Conc.run (sys cap cc n kk np pp cp) (init np pp cp) sch) in
  accepted s = l1 ++ (th, k1) :: l2 ++ (th, k2) :: l3 -> k1 < k2.
Proof.
  intros cap cc n kk np pp cp sch l1 th k1 l2 k2 l3 Hcc Hn s. apply (accepted_per_producer_fifo cap cc n kk np Hcc Hn pp cp). exists sch. reflexivity.
Qed.

(* a thread's successive tickets increase, and carry its op numbers in increasing order *)
Theorem C02_k3ticket_tickets_increase :
  forall cap cc n kk np pp cp sch th, 0 < cc -> 0 < n ->
  let s := fst (Conc.run (sys cap cc n kk np pp cp) (init np pp cp) sch) in
  (forall t t2 k, tk s t = TSet (th, k) -> owns (ppc s th) t2 -> t < t2) /\
  (forall t1 t2 k1 k2, tk s t1 = TSet (th, k1) -> tk s t2 = TSet (th, k2) -> t1 < t2 -> k1 < k2).
Proof.
  intros cap cc n kk np pp cp sch th Hcc Hn s. apply (producer_tickets_increase cap cc n kk np Hcc Hn pp cp). exists sch. reflexivity.
Qed.

Example C02_k3ticket_ex :
  tk ex_s 0 = TSet (0%nat, 1) /\ tk ex_s 1 = TSkip /\ tk ex_s 2 = TSet (0%nat, 3) /\ tk ex_s 3 = TSet (1%nat, 3) /\
  tk ex_s 4 = TSet (0%nat, 4) /\ gtail ex_s = 5 /\ hpos ex_s = 4 /\ buffered ex_s = [(0%nat, 4)] /\
  accepted ex_s = [(0%nat, 1); (0%nat, 3); (1%nat, 3); (0%nat, 4)].
Proof. exact ex_tickets. Qed.
