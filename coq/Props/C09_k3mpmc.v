(* Props/C09_k3mpmc.v — pinned statements: C09 (record liveness) for the K3' model of the bounded MPMC
   channel's sync paths, repaired configuration: a waiter-queue entry never points to a finished
   frame, so the wake CAS of a lock holder never touches a dead `done_flag` (`bad = false`); with
   the F-02 repair no unreachable!() either.  Every capacity, thread count, program, schedule. *)
From Coq Require Import List Arith.
From Fibre Require Import Common.Conc Chan.MpmcK3 Proofs.MpmcK3Base Proofs.MpmcK3Wake4 Proofs.MpmcK3Examples.
Import ListNotations.

Theorem C09_k3mpmc_no_bad :
  forall cap cf th sch, rearm_after_steal cf = true -> redrain_on_close cf = true ->
  let s := fst (run (sys cap cf th) (init th) sch) in bad s = false.
Proof. intros cap cf th sch H1 H2 s. apply (no_bad cap cf th s H1 H2). exists sch. reflexivity. Qed.

(* every linked record (u, g) is the CURRENT done_flag (generation g) of thread u, whose stack frame
   holding it is alive; nobody is linked twice *)
Theorem C09_k3mpmc_linked_records_live :
  forall cap cf th sch, rearm_after_steal cf = true -> redrain_on_close cf = true ->
  let s := fst (run (sys cap cf th) (init th) sch) in
  (forall u g, In (u, g) (wr s) -> g = gen s u /\ in_frame (pcs s u) = true) /\
  (forall u g, In (u, g) (ws s) -> g = gen s u /\ in_frame (pcs s u) = true) /\
  NoDup (map fst (wr s)) /\ NoDup (map fst (ws s)).
Proof. intros cap cf th sch H1 H2 s. apply (linked_records_live cap cf th s H1 H2). exists sch. reflexivity. Qed.

(* regression witness (F-02): without re-arming the deadline path of the old recv_timeout reaches
   unreachable!() (modelled as bad := true) *)
Theorem C09_k3mpmc_refuted_without_rearm :
  ~ (forall cap th sch, bad (fst (run (sys cap (mkCfg false true) th) (init th) sch)) = false).
Proof. intros H. specialize (H 1 w02p_th w02p_sch). vm_compute in H. discriminate H. Qed.

Example C09_k3mpmc_ex_clean : bad ex_s3 = false /\ discbad ex_s3 = false /\ q ex_s3 = [].
Proof. destruct ex_completes as (_ & A & B & C & _). auto. Qed.
