(* Props/C01_oneshot.v — pinned theorems: C01 for fibre::oneshot (K2 model Chan/OneshotOps.v). *)
From Coq Require Import List Arith Permutation.
From Fibre Require Import Chan.OneshotOps Proofs.OneshotOpsProofs Proofs.OneshotOpsTheorems.
Import ListNotations.
Open Scope nat_scope.

(* every id is in exactly one place: received, in the slot (STATE_SENT), handed back, dropped *)
Theorem C01_oneshot_conservation : forall cf ops,
  let s := oreach cf ops in
  Permutation (orecv s ++ sent_val (ostate s) ++ oret s ++ odrop s) (seq 0 (onext s)).
Proof. exact oneshot_conservation. Qed.

(* received at most once, only the accepted value, at most one value is ever accepted *)
Theorem C01_oneshot_received_once : forall cf ops,
  let s := oreach cf ops in
  NoDup (orecv s) /\ (orecv s = [] \/ orecv s = oacc s) /\ length (oacc s) <= 1.
Proof. exact oneshot_received_once. Qed.

(* a failed send hands its value back and accepts nothing (receiver gone; the other failure, Sent, is
   characterised by C03_oneshot_send_ok_iff) *)
Theorem C01_oneshot_failed_send_hands_back : forall cf s h c,
  rdrop s = true -> find_h h (snd_h s) = Some c ->
  ores_of (ostep cf s (OSend h)) = OClosedV (onext s) /\ oacc (fst (ostep cf s (OSend h))) = oacc s.
Proof. exact oneshot_send_after_receiver_left. Qed.

Example C01_oneshot_example :
  map fst (orun_case ocfg_repo [OClone 0; OSend 0; OSend 1; OTryRecv; OTryRecv])
  = [OOk; OOk; OSentV 1; OVal 0; OEmptyR; OOk].
Proof. vm_compute. reflexivity. Qed.
