(* Props/C04_mpscb.v — pinned theorems, property C04 (disconnect protocol) for the bounded MPSC
   channel. *)
From Fibre Require Import Common.Base Chan.MpscB Chan.MpscBSpec Proofs.MpscBProofs.

(** a receive form reports Disconnected only with nothing buffered and the sender count at zero
    (or on a receiver handle that was itself closed) *)
Theorem C04_mpscb_drain_then_disc : forall s o,
  fut_ok s ->
  snd (exec s o) = RDisc \/ snd (exec s o) = RReady RDisc ->
  (q s = [] /\ scount s = 0)
  \/ (exists h r, aget h (hs s) = Some r /\ htx r = false /\ hclosed r = true).
Proof. exact disc_means_drained. Qed.

(** the sender count is exactly the number of sender handles whose close() has not succeeded *)
Theorem C04_mpscb_no_open_sender : forall s h r,
  GS s -> scount s = 0 -> aget h (hs s) = Some r -> htx r = true -> hclosed r = true.
Proof. exact no_open_sender. Qed.

(** once disconnected, always disconnected and no receive form yields a value - for every op
    except a Clone taken from a closed sender (F-M1) *)
Theorem C04_mpscb_disc_stable_except_FM1 : forall s o,
  GS s -> disc_state s -> (fixcl s = true \/ ~ clones_closed s o) ->
  disc_state (fst (exec s o)) /\ has_value (snd (exec s o)) = false.
Proof. exact disc_stable. Qed.

Theorem C04_mpscb_disc_is_final_refuted_FM1 : ~ disc_is_final.
Proof. exact disc_is_final_refuted_FM1. Qed.

(** the full statement for the repaired Clone (model switch fixcl) *)
Theorem C04_mpscb_disc_is_final_fixed : forall a c f3 ops o,
  let s := final (init a c f3 true) ops in
  disc_state s -> disc_state (fst (exec s o)) /\ has_value (snd (exec s o)) = false.
Proof. exact disc_is_final_fixed. Qed.

(** after the receiver is closed or dropped every send form reports Closed with its value *)
Theorem C04_mpscb_receiver_gone : forall s, GS s ->
  (forall r, aget 1 (hs s) = Some r -> htx r = true \/ hclosed r = true) -> rdrop s = true.
Proof. exact receiver_gone. Qed.

Theorem C04_mpscb_send_after_rx_gone : forall s o r h,
  rdrop s = true -> aget h (hs s) = Some r -> htx r = true ->
  match o with
  | TrySend h' v => h' = h /\ fresh [v] s = true
  | Send h' v => h' = h /\ hasync r = false /\ fresh [v] s = true
  | TrySendB h' vs _ => h' = h /\ fresh vs s = true /\ vs <> []
  | SendB h' vs _ => h' = h /\ hasync r = false /\ fresh vs s = true /\ vs <> []
  | _ => False
  end ->
  closed_with_value o (snd (exec s o)).
Proof. exact send_after_rx_gone. Qed.

Theorem C04_mpscb_poll_after_rx_gone : forall s f w fr r item,
  rdrop s = true -> aget f (fs s) = Some fr -> aget (fh fr) (hs s) = Some r -> fk fr = FSend item ->
  snd (exec s (Poll f w)) = RReady RClosed.
Proof. exact poll_after_rx_gone. Qed.

(** closing one of several sender clones changes nothing any other handle can observe *)
Theorem C04_mpscb_clone_isolation : forall s h r h' r',
  GS s -> aget h (hs s) = Some r -> htx r = true -> hclosed r = false ->
  aget h' (hs s) = Some r' -> h' <> h -> isopen r' = true ->
  let s' := fst (exec s (Close h)) in
  0 < scount s' /\ q s' = q s /\ rdrop s' = rdrop s /\ unpub s' = unpub s /\ sq s' = sq s
  /\ rw s' = rw s /\ evw s' = evw s /\ fs s' = fs s
  /\ (forall k, k <> h -> aget k (hs s') = aget k (hs s)).
Proof. exact clone_isolation. Qed.

(** every operation on a handle whose close() returned Ok fails and leaves the queue alone;
    recv_timeout only in the repaired model (F-03) *)
Theorem C04_mpscb_closed_handle_rejects_except_F03 : forall s h r o,
  aget h (hs s) = Some r -> hclosed r = true ->
  match o with
  | TrySend h' v => h' = h /\ htx r = true /\ fresh [v] s = true
  | Send h' v => h' = h /\ htx r = true /\ hasync r = false /\ fresh [v] s = true
  | TrySendB h' vs _ => h' = h /\ htx r = true /\ fresh vs s = true /\ vs <> []
  | SendB h' vs _ => h' = h /\ htx r = true /\ hasync r = false /\ fresh vs s = true /\ vs <> []
  | TryRecv h' => h' = h /\ htx r = false
  | Recv h' => h' = h /\ htx r = false /\ hasync r = false
  | RecvT0 h' => h' = h /\ htx r = false /\ hasync r = false /\ fix03 s = true
  | TryRecvB h' m => h' = h /\ htx r = false /\ m <> 0
  | RecvB h' m => h' = h /\ htx r = false /\ hasync r = false /\ m <> 0
  | PollNext h' _ => h' = h /\ htx r = false /\ hasync r = true /\ has_futs h s = false
  | Close h' => h' = h
  | _ => False
  end ->
  failed (snd (exec s o)) = true /\ q (fst (exec s o)) = q s.
Proof. exact closed_handle_rejects. Qed.

Theorem C04_mpscb_closed_recv_timeout_refuted_F03 : ~ closed_recv_timeout_rejects.
Proof. exact closed_recv_timeout_refuted_F03. Qed.

Theorem C04_mpscb_closed_recv_timeout_fixed : forall a c fc ops h r,
  let s := final (init a c true fc) ops in
  aget h (hs s) = Some r -> htx r = false -> hasync r = false -> hclosed r = true ->
  failed (snd (exec s (RecvT0 h))) = true /\ q (fst (exec s (RecvT0 h))) = q s.
Proof. exact closed_recv_timeout_fixed. Qed.

(** close is idempotent: the second call reports CloseError and changes nothing *)
Theorem C04_mpscb_double_close : forall s h r,
  aget h (hs s) = Some r -> hclosed r = true -> exec s (Close h) = (s, RCloseErr).
Proof. exact double_close. Qed.

Theorem C04_mpscb_first_close : forall s h r,
  aget h (hs s) = Some r -> hclosed r = false ->
  snd (exec s (Close h)) = ROk /\
  exists r', aget h (hs (fst (exec s (Close h)))) = Some r' /\ hclosed r' = true.
Proof. exact first_close. Qed.

Example C04_mpscb_example :
  let '(s, outs) := run (init false 2 false false)
      [Clone 0 2; TrySend 0 1; Close 0; Close 0; TrySend 0 2; TryRecv 1; TryRecv 1; DropH 2; TryRecv 1;
       Close 1; TryRecv 1; Clone 2 3] in
  map out_res outs = [ROk; ROk; ROk; RCloseErr; RClosedV 2; RVal 1; REmpty; ROk; RDisc; ROk; RDisc; RBad].
Proof. vm_compute. reflexivity. Qed.
