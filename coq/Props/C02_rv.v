(* Props/C02_rv.v — pinned theorems of property C02 (FIFO) for the rendezvous channels (engine rv). *)
From Fibre Require Import Common.Base Chan.Rendezvous Proofs.RendezvousBase Proofs.RendezvousWF
     Proofs.RendezvousProofs Proofs.RendezvousFifo.

(* the values that crossed the channel, in crossing order, followed by the values of the senders
   still parked, in queue order, form a subsequence of the offers in offer order: no overtaking, no
   reordering, for every configuration and every history (cancellations and disconnects included) *)
Theorem C02_rv_fifo : forall c a ops s tr,
  run c (init a) ops = (s, tr) ->
  subseq (hand_of (evs_of tr) ++ pend (fs s) (sq s)) (offer_of (evs_of tr))
  /\ subseq (hand_of (evs_of tr)) (offer_of (evs_of tr)).
Proof. exact rv_fifo. Qed.

(* receives take from the oldest parked sender *)
Theorem C02_rv_recv_takes_oldest : forall c k s s' v e,
  WF s -> core_recv c k s = (s', OVal v, e) ->
  exists g w rest, sq s = (g, w) :: rest /\ valof (fs s) g = v /\ sq s' = rest /\ rq s' = rq s
                   /\ e = [EHand v; ERecv v; EWake w].
Proof. exact rv_recv_takes_oldest. Qed.

(* a sender parks only when no receiver is parked and vice versa, so a direct handoff never
   overtakes a parked sender *)
Theorem C02_rv_never_both_parked : forall c a ops s tr,
  run c (init a) ops = (s, tr) -> sq s = [] \/ rq s = [].
Proof. exact rv_direct_handoff_only_when_no_sender_parked. Qed.

Example C02_rv_example :
  let '(s, tr) := run mpmc_cfg (init true)
        [MkSend 10 0 100; MkSend 11 0 101; MkSend 12 0 102; Poll 11 0; Poll 10 1; Poll 12 2;
         DropF 10; TryRecv 1; TryRecv 1; TryRecv 1] in
  (offer_of (evs_of tr), hand_of (evs_of tr)) = ([101; 100; 102], [101; 102]).
Proof. vm_compute. reflexivity. Qed.
