(* Props/C08.v — pinned theorems for property C08 (topic pub/sub routes by subscription; only full
   mailboxes drop; disconnect semantics).  Only statements, `exact`, and Examples.

   Model:      Chan/TopicOps.v   (K2, one API call / poll / drop = one step; faithful incl. defects;
                                  cfg switches select the behaviour of the proposed patches)
   Reference:  Chan/TopicSpec.v  (what C08 demands, as a monitor over (operation, result) traces)
   `violations c async cap h` = the reference's complaints when the model (switches c) runs history h on
   a channel created by topic::channel(cap) / channel_async(cap). *)
From Fibre Require Import Common.Base Chan.TopicOps Chan.TopicSpec
     Proofs.TopicInv Proofs.TopicSpecProofs Proofs.TopicOpsProofs.

(** The full statement: for every history the reference has nothing to complain about, i.e.
    every receive returns exactly the head of the ideal mailbox (= accepted publishes to topics the handle
    was subscribed to at publish time, minus those that found the mailbox full, in order, once), never
    reports "nothing" while the ideal mailbox is non-empty, reports Disconnected only when no sender handle
    is open and the mailbox is drained, and does report it then. *)
Theorem C08_full_def : forall c, C08_full c <-> (forall a cap h, violations c a cap h = []).
Proof. intros c. split; intros H; exact H. Qed.

(* current code: refuted three times (known findings F-04, F-05, F-14) *)
Theorem C08_refuted_F04 : ~ C08_full pre_fix.
Proof. exact refuted_F04. Qed.
Theorem C08_refuted_F05 : ~ C08_full pre_fix.
Proof. exact refuted_F05. Qed.
Theorem C08_refuted_F14 : ~ C08_full pre_fix.
Proof. exact refuted_F14. Qed.

(* with the three patches (sender count, mailbox registry, unsubscribe-before-clear) the full statement holds *)
Theorem C08_holds_postfix : forall c, fix04 c = true -> fix05 c = true -> fix14 c = true -> C08_full c.
Proof. exact full_postfix. Qed.

(** Routing clause.  Holds for every handle with patch F-14; on the current code every complaint concerns
    a receiver handle on which close() had returned Ok before the offending operation. *)
Theorem C08_routing_postfix_F14 : forall c, fix14 c = true ->
  forall a cap h r, ~ In (VRouting r) (violations c a cap h).
Proof. exact routing_postfix. Qed.

Theorem C08_routing_except_F14 : forall c a cap h r,
  In (VRouting r) (violations c a cap h) ->
  fix14 c = false /\
  exists h1 h2 y, h = h1 ++ h2 /\ find_srx r (sp_rx (spec_after c a cap h1)) = Some y /\ s_closed y = true.
Proof. exact routing_except_F14. Qed.

(** "Disconnected only after every sender handle is gone and the mailbox is drained".  Holds with patch F-04;
    on the current code it holds for every history that never clones a sender. *)
Theorem C08_disc_only_when_senders_gone_postfix_F04 : forall c, fix04 c = true ->
  forall a cap h r, ~ In (VDiscLive r) (violations c a cap h).
Proof. exact disc_sound_postfix. Qed.

Theorem C08_disc_only_when_senders_gone_except_F04 : forall c a cap h,
  Forall not_clone_s h -> forall r, ~ In (VDiscLive r) (violations c a cap h).
Proof. exact disc_sound_except_F04. Qed.

(** "... and it does observe it then, whatever its subscriptions".  Holds with patches F-04 + F-05; on the
    current code every complaint concerns a handle that had no subscription at (or did not exist before)
    the moment the last open sender handle was closed or dropped. *)
Theorem C08_disc_when_senders_gone_postfix_F05 : forall c, fix04 c = true -> fix05 c = true ->
  forall a cap h r, ~ In (VNoDisc r) (violations c a cap h).
Proof. exact disc_complete_postfix. Qed.

Theorem C08_disc_when_senders_gone_except_F05 : forall c a cap h r,
  In (VNoDisc r) (violations c a cap h) ->
  fix04 c && fix05 c = false /\
  exists h1 h2 y, h = h1 ++ h2 /\ find_srx r (sp_rx (spec_after c a cap h1)) = Some y /\ s_reach y = false.
Proof. exact disc_complete_except_F05. Qed.

(** The model's mailbox IS the ideal one, and its dropped counter counts exactly the full-mailbox omissions
    (for every handle with patch F-14, otherwise for every handle that was never closed). *)
Theorem C08_mailbox_is_reference : forall c a cap h r x y,
  find_rx r (rxs (state_from c (init a cap) h)) = Some x ->
  find_srx r (sp_rx (spec_after c a cap h)) = Some y ->
  r_live x = true -> good c y = true ->
  m_buf (r_mb x) = s_q y /\ m_dropped (r_mb x) = s_full y.
Proof. exact mailbox_is_reference. Qed.

(** What the reference's logs mean, for EVERY trace of (operation, result) pairs: per handle,
    expected-and-not-omitted = received ++ queued (in order, exactly once), the omission counter counts the
    expected publishes that found the ideal mailbox full, and the queue never exceeds the capacity. *)
Theorem C08_reference_logs : forall cap tr,
  NoDup (map s_id (sp_rx (sp_run (sp_init cap) tr))) /\
  Forall (fun y => kept (s_exp y) = s_got y ++ s_q y /\
                   s_full y = N.of_nat (length (omitted (s_exp y))) /\
                   N.of_nat (length (s_q y)) <= s_cap y) (sp_rx (sp_run (sp_init cap) tr)).
Proof. exact reference_logs. Qed.

(** publish is one step, never blocks, and touches nothing but mailboxes *)
Theorem C08_publish_nonblocking : forall c s h t v,
  exists s' rs w, step c s (Publish h t v) = (s', (rs, w)) /\ (rs = ROk \/ rs = RClosed \/ rs = RNoHandle) /\
    txs s' = txs s /\ lists s' = lists s /\ rcount s' = rcount s /\ futs s' = futs s.
Proof. exact publish_nonblocking. Qed.

(** model and reference stay related by the invariant after every history (used by all of the above) *)
Theorem C08_invariant : forall c a cap h, Inv c (state_from c (init a cap) h) (spec_after c a cap h).
Proof. exact inv_after. Qed.

(** witnesses (replayed on the implementation by ./check C08) and non-vacuity *)
Example C08_witness_F04 : violations pre_fix false 4 w_F04 = [VDiscLive 0].
Proof. exact witness_F04. Qed.
Example C08_witness_F05 : violations pre_fix false 4 w_F05 = [VNoDisc 0].
Proof. exact witness_F05. Qed.
Example C08_witness_F14 : violations pre_fix false 4 w_F14 = [VRouting 0].
Proof. exact witness_F14. Qed.
Example C08_witnesses_postfix :
  violations post_fix false 4 w_F04 = [] /\ violations post_fix false 4 w_F05 = [] /\ violations post_fix false 4 w_F14 = [].
Proof. exact witnesses_postfix. Qed.

(* subscription churn, a clone inheriting subscriptions, a full mailbox (capacity 2) dropping the newest *)
Example C08_example_routing :
  map fst (snd (run pre_fix false 2
    [Subscribe 0 0; Subscribe 0 1; CloneR 0 1; Unsubscribe 0 0;
     Publish 0 0 1; Publish 0 1 2; Publish 0 1 3; Publish 0 1 4;
     TryRecv 0; TryRecv 0; TryRecv 0; TryRecv 1; TryRecv 1; TryRecv 1]))
  = [ROk; ROk; ROk; ROk; ROk; ROk; ROk; ROk;
     RVal 1 2; RVal 1 3; REmpty; RVal 0 1; RVal 1 2; REmpty].
Proof. vm_compute. reflexivity. Qed.
