(* Props/C11.v — pinned theorems for property C11 (cache reads return only the
   latest live value of their own key), sequential (K2) part.
   Only statements, `exact`, examples. *)
From Fibre Require Import Common.Base Cache.PolicySpec Cache.PolicyLru Cache.PolicySieve Cache.AMap
     Cache.CacheOps Cache.CacheSpec Proofs.CacheC11Proofs.

(* For EVERY policy, configuration (shard count, capacity, TTL/TTI, listener,
   opportunistic/introspective maintenance, each fix switch) and operation
   sequence — including run_maintenance and the janitor's passes as operations
   at any point — the (operation, result) trace is accepted by the per-key
   register that may forget ([reg_step]): a read returns None or the register's
   content for that key, i.e. the value of the latest write/compute of that key
   not followed by remove/invalidate/clear; compute succeeds only on the
   register's content and replaces it; remove hands back the register's
   content. *)
Theorem C11_seq : forall (P : policy) (c : cfg) (now0 : N) (ops : list op),
  0 < c_shards c ->
  accepts (fun _ => None) (combine ops (snd (run P c (init P now0) ops))).
Proof. intros P c now0 ops Hn. exact (c11_seq P c Hn now0 ops). Qed.

(* compute / try_compute / compute_val are a read-modify-write of one key on one
   state: the value the closure saw is the resident one, exactly that entry's
   value is replaced, nothing else changes *)
Theorem C11_compute_atomic : forall (P : policy) (c : cfg) (s : state P) (k : N) (f : cfun),
  0 < c_shards c ->
  match snd (do_compute P c s k f) with
  | Some old =>
      exists e, find P c s k = Some e /\ e_val e = old
                /\ find P c (fst (do_compute P c s k f)) k
                   = Some (mkE (capply f old) (e_cost e) (e_exp e) (e_la e) (e_timer e) (e_id e))
                /\ forall k', k' <> k -> find P c (fst (do_compute P c s k f)) k' = find P c s k'
  | None => fst (do_compute P c s k f) = s
  end.
Proof. intros P c s k f Hn. exact (c11_compute_rmw P c Hn s k f). Qed.

(* or_insert inserts at most once: when a read of k would return a value,
   entry(k).or_insert returns that value and changes nothing *)
Theorem C11_or_insert_once : forall (P : policy) (c : cfg) (s : state P) (k v cost : N) (hit : bool) (old : N),
  0 < c_shards c ->
  snd (do_read P c hit s k) = Some old ->
  do_or_insert P c s k v cost = (s, RVal old).
Proof. intros P c s k v cost hit old Hn. exact (c11_or_insert_once P c Hn s k v cost hit old). Qed.

(* non-vacuity: a history with overwrite, compute, eviction by capacity, removal *)
Definition c11_cfg : cfg :=
  mkCfg 2 3 None None 60 1000000000 true true false false impl_fixes.
Definition c11_ops : list op :=
  [OInsert 1 100 1; OInsert 1 101 2; OGet 1; OComputeVal 1 (FSet 102); OEntryOrInsert 1 103 1;
   OInsert 2 104 5; OMaint []; OGet 1; OPeek 2; ORemove 1; OFetch 1].
Example C11_example :
  snd (run LruP c11_cfg (init LruP 1000) c11_ops)
  = [RUnit; RUnit; ROpt (Some 101); ROpt (Some 101); RVal 102; RUnit; RUnit;
     ROpt (Some 102); ROpt None; ROpt (Some 102); ROpt None].
Proof. vm_compute. reflexivity. Qed.
