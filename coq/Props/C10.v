(* Props/C10.v — pinned statements for property C10, HybridMutex part.
   Model: Sync/HMutex.v (one step per traced atomic event of channels/src/sync/mutex.rs and
   wait_queue.rs; sequentially consistent semantics; any number of threads (tids are nat), any
   program per thread, any schedule incl. any finite spin / poll-attempt budgets).
   "Eventually acquires under fair scheduling" is NOT proved; C10_wake_owed /
   C10_mutex_deadlock_free are its safety core (no reachable quiescent state has a waiter). *)
From Coq Require Import List NArith Arith Bool.
From Fibre Require Import Common.Conc Sync.HMutex Proofs.HMutexBase Proofs.HMutexGuard
     Proofs.HMutexQueue Proofs.HMutexWake Proofs.HMutexProofs.
Import ListNotations.

(* Guard accounting: the LOCKED bit is set iff exactly one thread holds a guard; the holders are
   exactly the threads between a successful CAS and their unlock fetch_and; never two of them. *)
Theorem C10_mutex_excl : forall progs s,
  reachable (sys progs) s ->
  (locked s = true <-> exists h, holders s = [h])
  /\ (locked s = false <-> holders s = [])
  /\ (forall u, In u (holders s) <-> holds (pcs s u) = true)
  /\ (forall t u, holds (pcs s t) = true -> holds (pcs s u) = true -> t = u).
Proof. exact mutex_excl. Qed.

Theorem C10_mutex_critical_section : forall progs s t u,
  reachable (sys progs) s -> pcs s t = CS -> pcs s u = CS -> t = u.
Proof. exact critical_section_excl. Qed.

(* try_lock never blocks: in ANY state a thread inside try_lock is enabled under every choice, its
   step is a load/CAS of the state word (no park, yield, spin, list lock), and the call returns
   after at most two of its own steps. *)
Theorem C10_try_nonblocking : forall s t c,
  try_pc (pcs s t) = true ->
  exists s' e, mstep s t c = Some (s', e) /\ state_access e /\
    match pcs s t with
    | TALoad ATry => (exists sq, pcs s' t = TACas ATry sq) \/ pcs s' t = Idle
    | _ => pcs s' t = CS \/ pcs s' t = Idle
    end.
Proof. exact try_lock_nonblocking. Qed.

(* Wake owed (safety core of "acquirers eventually acquire" and of "dropping a pending future
   does not lose the wake-up owed to the next waiter"): a reachable state in which no thread can
   take a step has the lock free, the wait list empty and nobody parked... *)
Theorem C10_wake_owed : forall progs s,
  reachable (sys progs) s -> quiescent (sys progs) s ->
  locked s = false /\ queue s = [] /\ holders s = [] /\ llock s = None
  /\ forall t, pcs s t <> Park /\ pcs s t <> BPark.
Proof. exact mutex_wake_owed. Qed.

(* ... indeed every thread has finished its program and dropped its future (deadlock freedom) *)
Theorem C10_mutex_deadlock_free : forall progs s,
  reachable (sys progs) s -> quiescent (sys progs) s ->
  forall t, pcs s t = Idle /\ fut s t = None.
Proof. exact mutex_deadlock_free. Qed.

(* Wait-list well-formedness: no node is linked twice, and the owner of every linked node is alive
   (inside lock_slow, or owning an un-dropped future): a future drop leaves no dangling node. *)
Theorem C10_list_wf : forall progs s,
  reachable (sys progs) s ->
  NoDup (queue s) /\ forall u, In u (queue s) -> insync (pcs s u) = true \/ fut s u <> None.
Proof. exact mutex_list_wf. Qed.

(* A cancelled future whose node was already WOKEN passes the wake on (its drop runs wake_next). *)
Theorem C10_cancel_forwards_wake : forall s t c,
  pcs s t = DLoad -> nwk s t = true ->
  exists s' e, mstep s t c = Some (s', e) /\ pcs s' t = LLSwap LWake /\ fut s' t = None.
Proof. exact cancel_forwards_wake. Qed.

(* ---- non-vacuity *)
Definition rep (n : nat) (x : nat * mch) := repeat x n.

(* two blocking lockers: thread 1 really parks (disabled, linked, lock held) and is then woken by
   thread 0's unlock -> wake_next; both finish *)
Definition progs2 (t : nat) : list op := match t with 0 => [OLock] | 1 => [OLock] | _ => [] end.
Definition sch_park := rep 2 (0, ChGo) ++ rep 9 (1, ChGo).
Definition sch_wake := sch_park ++ rep 6 (0, ChGo) ++ rep 9 (1, ChGo).

Example C10_ex_parks :
  let s := fst (run (sys progs2) (minit progs2) sch_park) in
  pcs s 1 = Park /\ mstep s 1 ChGo = None /\ queue s = [1] /\ locked s = true /\ holders s = [0].
Proof. vm_compute. repeat split. Qed.

Example C10_ex_woken :
  let s := fst (run (sys progs2) (minit progs2) sch_wake) in
  pcs s 0 = Idle /\ pcs s 1 = Idle /\ queue s = [] /\ locked s = false /\ hasq s = false
  /\ results s = [(0, RL); (1, RL)]
  /\ quiescent (sys progs2) s.
Proof.
  vm_compute. repeat split. intros t c.
  destruct t as [|[|t]]; reflexivity.
Qed.

(* holder 0; thread 1 polls a lock future once (Pending, queue head) and cancels it AFTER it was
   WOKEN by the unlock; thread 2 blocks in lock_async behind it.  The drop forwards the wake and
   thread 2 acquires. *)
Definition progs3 (t : nat) : list op :=
  match t with 0 => [OLock] | 1 => [OPoll; ODropFut] | 2 => [OAsync] | _ => [] end.
Definition sch_queued := rep 2 (0, ChGo) ++ rep 7 (1, ChGo) ++ rep 7 (2, ChGo) ++ rep 5 (0, ChGo).
Definition sch_cancel := sch_queued ++ rep 8 (1, ChGo) ++ rep 8 (2, ChGo).

Example C10_ex_woken_future_pending :
  let s := fst (run (sys progs3) (minit progs3) sch_queued) in
  locked s = false /\ queue s = [1; 2] /\ nwk s 1 = true /\ pcs s 1 = Idle /\ fut s 1 = Some false
  /\ pcs s 2 = BPark /\ mstep s 2 ChGo = None.
Proof. vm_compute. repeat split. Qed.

Example C10_ex_cancel_forwards :
  let s := fst (run (sys progs3) (minit progs3) sch_cancel) in
  pcs s 0 = Idle /\ pcs s 1 = Idle /\ pcs s 2 = Idle /\ queue s = [] /\ locked s = false
  /\ fut s 1 = None /\ fut s 2 = None
  /\ results s = [(0, RL); (1, RP false); (2, RA)].
Proof. vm_compute. repeat split. Qed.
