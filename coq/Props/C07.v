(* Props/C07.v — pinned theorems for property C07 (broadcast SPMC channel, K2 op-level model
   Chan/SpmcOps.v of /repo/channels/src/spmc/{mod.rs,ring_buffer.rs}).
   Only statements, `exact`, and Examples.  `run fx c a ops` executes an arbitrary op history from
   `bounded(c)` / `bounded_async(c)`; fx = false is the code as it is, fx = true the patched code. *)
From Fibre Require Import Common.Base Chan.SpmcOps Proofs.SpmcOpsProofs.

(* Every receiver's outputs, over the whole history, are exactly the accepted values from its creation
   position up to its cursor: each once, in send order, nothing else — for every receiver handle not
   derived from a closed handle (r_taint, see C07_delivery_except_clone_closed for the history-level form) *)
Theorem C07_delivery : forall fx c a ops s outs r x,
  0 < c -> run fx c a ops = (s, outs) -> get (rxs s) r = Some x -> r_taint x = false ->
  recvd r outs = slice (log s) (r_start x) (r_cur x) /\ r_start x <= r_cur x /\ r_cur x <= head s.
Proof. exact spmc_delivery. Qed.

(* full statement (all receivers of all histories), refuted on the faithful model by the known finding
   "Clone of a closed receiver registers a stale cursor", proved for the patched model, and proved for the
   faithful model on every history that never clones/converts a closed handle *)
Theorem C07_delivery_refuted_clone_closed : ~ spmc_delivery_full false.
Proof. exact spmc_delivery_refuted_clone_closed. Qed.

Theorem C07_delivery_fixed : spmc_delivery_full true.
Proof. exact spmc_delivery_fixed. Qed.

Theorem C07_delivery_except_clone_closed : forall fx c a ops s outs r x,
  0 < c -> clean_from (init fx c a) ops = true -> run fx c a ops = (s, outs) ->
  get (rxs s) r = Some x ->
  recvd r outs = slice (log s) (r_start x) (r_cur x) /\ r_start x <= r_cur x /\ r_cur x <= head s.
Proof. exact spmc_delivery_clean. Qed.

(* a clone starts at its parent's current position *)
Theorem C07_clone_position : forall s p cid s',
  step s (RClone p cid) = (s', OOk) ->
  exists xp xc, get (rxs s) p = Some xp /\ get (rxs s') cid = Some xc /\
                r_start xc = r_cur xp /\ r_cur xc = r_cur xp /\ get (rxs s) cid = None.
Proof. exact spmc_clone_position. Qed.

(* an unread value is never overwritten: in every reachable state, every open receiver is in the cursor
   list, at most `cap` behind head, and the slot of each index it has not read yet still holds that index *)
Theorem C07_no_overwrite : forall fx c a ops s outs r x,
  0 < c -> run fx c a ops = (s, outs) -> get (rxs s) r = Some x ->
  r_taint x = false -> r_closed x = false ->
  r_reg x = true /\ r_live x = true /\ head s <= r_cur x + cap s /\
  forall i, r_cur x <= i -> i < head s -> slot_index s i = i.
Proof. exact spmc_no_overwrite. Qed.

(* try_send: Ok iff head - min cursor < cap, Full iff >=, Closed iff no receiver is registered *)
Theorem C07_try_send_exact : forall s v,
  s_alive s = true -> s_closed s = false ->
  match minl (cursors s) with
  | None => step s (TrySend v) = (add_drops s [v], OClosedV v)
  | Some m =>
      if N.ltb (head s - m) (cap s)
      then snd (step s (TrySend v)) = OOk /\ log (fst (step s (TrySend v))) = log s ++ [v]
      else step s (TrySend v) = (add_drops s [v], OFull v)
  end.
Proof. exact spmc_try_send_exact. Qed.

(* whatever the send form (single, batch, in-place, blocking, a poll of any send future): if a step
   appends values to the log, they fitted below the slowest registered cursor *)
Theorem C07_send_needs_space : forall s op s' o vs,
  step s op = (s', o) -> log s' = log s ++ vs -> vs <> [] ->
  exists m, minl (cursors s) = Some m /\ head s + lenN vs - m <= cap s /\
            s_alive s = true /\ s_closed s = false.
Proof. exact spmc_send_ok_means_space. Qed.

(* closing or dropping the receiver that holds the sender back releases the backpressure (the next
   try_send succeeds, or reports Closed if it was the last receiver) and invokes the registered
   producer waker *)
Theorem C07_close_releases : forall fx c a ops s outs r x v o,
  0 < c -> run fx c a ops = (s, outs) ->
  s_alive s = true -> s_closed s = false ->
  get (rxs s) r = Some x -> r_live x = true -> r_closed x = false -> rx_busy s r = false ->
  (forall r' x', r' <> r -> get (rxs s) r' = Some x' -> r_reg x' = true -> head s - r_cur x' < cap s) ->
  o = RClose r \/ o = RDrop r ->
  let s1 := fst (step s o) in
  snd (step s o) = OOk /\
  (snd (step s1 (TrySend v)) = OOk \/ (snd (step s1 (TrySend v)) = OClosedV v /\ cursors s1 = [])) /\
  (forall w, pw s = Some w -> wlog s1 = w :: wlog s).
Proof. exact spmc_close_releases. Qed.

(* Disconnected only from a closed handle, or once the sender is gone AND the receiver has obtained
   everything that was ever sent from its creation position on *)
Theorem C07_disconnected_only_when_drained : forall fx c a ops s outs r s',
  0 < c -> run fx c a ops = (s, outs) -> step s (TryRecv r) = (s', ODisc r) ->
  exists x, get (rxs s) r = Some x /\ r_live x = true /\
    (r_closed x = true \/
     (pdrop s = true /\ r_cur x = head s /\
      (s_alive s = false \/ s_closed s = true \/ s_taint s = true) /\
      (r_taint x = false -> recvd r outs = slice (log s) (r_start x) (head s)))).
Proof. exact spmc_try_recv_disc. Qed.

Theorem C07_disconnected_when_gone_and_drained : forall s r x,
  get (rxs s) r = Some x -> r_live x = true -> r_closed x = false ->
  pdrop s = true -> r_cur x = head s -> step s (TryRecv r) = (s, ODisc r).
Proof. exact spmc_try_recv_when_gone_and_drained. Qed.

Theorem C07_producer_dropped_iff_sender_gone : forall fx c a ops s outs,
  0 < c -> run fx c a ops = (s, outs) ->
  (s_closed s = true \/ s_alive s = false -> pdrop s = true) /\
  (pdrop s = true -> s_closed s = true \/ s_alive s = false \/ s_taint s = true).
Proof. exact spmc_pdrop_iff_sender_gone. Qed.

(* in the patched model no handle is ever tainted, so every theorem above holds for every receiver *)
Theorem C07_fixed_untainted : forall c a ops s outs,
  0 < c -> run true c a ops = (s, outs) ->
  s_taint s = false /\ forall r x, get (rxs s) r = Some x -> r_taint x = false.
Proof. exact spmc_fixed_untainted. Qed.

(* non-vacuity: concrete histories on which the clauses bite *)
Example C07_example_delivery :
  let '(s, outs) := run false 2 false
      [TrySend 1; TryRecv 0; RClone 0 1; TrySend 2; TrySend 3; TrySend 4; TryRecv 0; TryRecv 1; TrySend 4;
       SDrop; TryRecvB 1 5; TryRecv 1; TryRecvB 0 1] in
  recvd 0 outs = [1; 2; 3] /\ recvd 1 outs = [2; 3; 4] /\ log s = [1; 2; 3; 4] /\
  outs = [OOk; OVal 0 1; OOk; OOk; OOk; OFull 4; OVal 0 2; OVal 1 2; OOk; OOk; OVals 1 [3; 4]; ODisc 1;
          OVals 0 [3]].
Proof. vm_compute. repeat split. Qed.

Example C07_example_close_releases :
  snd (run false 1 true
      [RClone 0 1; TrySend 1; TryRecv 0; TrySend 2; MkSend 0 2; Poll 0 3; RClose 1; Poll 0 3; TryRecv 0])
  = [OOk; OOk; OVal 0 1; OFull 2; OOk; OPending; OOk; OReady OOk; OVal 0 2]
  /\ wlog (fst (run false 1 true
      [RClone 0 1; TrySend 1; TryRecv 0; TrySend 2; MkSend 0 2; Poll 0 3; RClose 1])) = [3].
Proof. vm_compute. split; reflexivity. Qed.

Example C07_example_clean :
  clean_from (init false 3 false)
    [TrySendB [1; 2; 3; 4]; TryRecvB 0 2; RClone 0 1; RDrop 0; TrySendB [4; 5]; TryRecvB 1 9; SClose; TryRecv 1] = true
  /\ snd (run false 3 false
    [TrySendB [1; 2; 3; 4]; TryRecvB 0 2; RClone 0 1; RDrop 0; TrySendB [4; 5]; TryRecvB 1 9; SClose; TryRecv 1])
   = [OBatch BFull 3 [4]; OVals 0 [1; 2]; OOk; OOk; OBatch BOk 2 []; OVals 1 [3; 4; 5]; OOk; ODisc 1].
Proof. vm_compute. split; reflexivity. Qed.
