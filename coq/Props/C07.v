(* Props/C07.v — pinned theorems for property C07 (broadcast SPMC).  Placeholder, filled below. *)
From Fibre Require Import Common.Base Chan.SpmcOps.
