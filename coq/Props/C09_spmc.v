(* Props/C09_spmc.v — pinned theorems for property C09 (every value dropped exactly once) on the
   broadcast SPMC channel, K2 model Chan/SpmcOps.v.  `dlog` is the log of every payload drop the model
   performs (the harness counts the same with instrumented payloads and both are diffed on every case);
   `T: Clone`: a receive hands out a clone, the original stays in its slot until the slot is overwritten
   one lap later or the last handle goes. *)
From Fibre Require Import Common.Base Chan.SpmcOps Proofs.SpmcOpsProofs Proofs.SpmcDropProofs.

(* at any point of ANY history nothing is lost and nothing is duplicated: drops so far + values resident in
   slots + values held by live send futures = (as multisets) everything entrusted to the channel (arguments
   of executed send forms / send-future constructors) + every clone handed to a receiver *)
Theorem C09_spmc_conservation : forall fx c a ops,
  0 < c ->
  let s := end_of (init fx c a) ops in
  Permutation (dlog s ++ resident' s ++ held_all s)
              (offered (init fx c a) ops ++ delivered (outs_from (init fx c a) ops)).
Proof. exact spmc_conservation. Qed.

(* for EVERY teardown order (the history is arbitrary): once all handles are gone and no future is alive,
   every payload instance and every clone has been dropped exactly once — never leaked, never twice *)
Theorem C09_spmc_drop_exactly_once : forall fx c a ops,
  0 < c ->
  let s := end_of (init fx c a) ops in
  all_dead s = true -> held_all s = [] ->
  Permutation (dlog s) (offered (init fx c a) ops ++ delivered (outs_from (init fx c a) ops)).
Proof. exact spmc_drop_exactly_once. Qed.

(* the slot protocol: writing index head drops exactly the original of index head - cap (if any) *)
Theorem C09_spmc_overwrite_drops_previous_lap : forall s v,
  s_alive s = true -> 0 < cap s ->
  dlog (write1 v s) = (if N.leb (cap s) (head s) then [nth (N.to_nat (head s - cap s)) (log s) 0] else []) ++ dlog s
  /\ log (write1 v s) = log s ++ [v].
Proof. exact spmc_overwrite_drops_previous_lap. Qed.

(* non-vacuity: three laps of a 2-slot ring, a rejected value, a pending send future dropped with its
   value, receivers and sender dropped in a non-trivial order *)
Definition C09_spmc_example_ops : list op :=
  [RClone 0 1; TrySend 1; TrySend 2; TrySend 3; TryRecvB 0 2; TryRecv 1; TryRecv 1;
   TrySend 3; TrySend 4; TryRecvB 0 5; TryRecvB 1 5; TrySend 5; SConv; MkSendB 0 [6; 7; 8]; Poll 0 0;
   RDrop 1; DropF 0; SDrop; TryRecv 0; RDrop 0].

Example C09_spmc_example_run :
  outs_from (init false 2 false) C09_spmc_example_ops =
    [OOk; OOk; OOk; OFull 3; OVals 0 [1; 2]; OVal 1 1; OVal 1 2; OOk; OOk; OVals 0 [3; 4]; OVals 1 [3; 4];
     OOk; OOk; OOk; OPending; OOk; OOk; OOk; OVal 0 5; OOk].
Proof. vm_compute. reflexivity. Qed.

Example C09_spmc_example_teardown :
  let s := end_of (init false 2 false) C09_spmc_example_ops in all_dead s = true /\ held_all s = [].
Proof. vm_compute. split; reflexivity. Qed.

Example C09_spmc_example_counts :
  let s := end_of (init false 2 false) C09_spmc_example_ops in
  map (fun v => count_occ N.eq_dec (dlog s) v) [1; 2; 3; 4; 5; 6; 7; 8] = [3; 3; 4; 3; 2; 1; 1; 1]%nat /\
  forallb (fun v => Nat.eqb (count_occ N.eq_dec (dlog s) v)
      (count_occ N.eq_dec (offered (init false 2 false) C09_spmc_example_ops ++
                           delivered (outs_from (init false 2 false) C09_spmc_example_ops)) v))
    [1; 2; 3; 4; 5; 6; 7; 8] = true.
Proof. vm_compute. split; reflexivity. Qed.
