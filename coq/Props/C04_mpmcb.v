(* Props/C04_mpmcb.v — pinned theorems for property C04 (disconnect protocol) on the bounded MPMC K2
   model.  The model is faithful to /repo: clauses that the code violates are refuted on the model with
   the repairs off ([no_fixes]), proved outside the recorded event ("_except_", the event is a ghost
   taint of the history), and proved outright for the model with the repair switched on ("_fixed"). *)
From Fibre Require Import Common.Base Chan.MpmcB Proofs.MpmcBBase Proofs.MpmcBInv Proofs.MpmcBStep Proofs.MpmcBProofs.

(** receivers drain before Disconnected: a receive form on an open handle reports Disconnected only
    when the buffer is empty and the sender count is 0; a value is always the head of the queue
    (C01_mpmcb_recv_results has the same statement with all result cases) *)
Theorem C04_mpmcb_recv_disc_drained : forall c a f os h x,
  let s := state_after c a f os in
  getH h s = Some x -> h_live x = true -> h_tx x = false -> h_closed x = false ->
  o_res (snd (step s (TryRecv h))) = RDisc -> q s = [] /\ sc s = 0.
Proof.
  intros c a f os h x. cbv zeta. intros Hg Hl Htx Hc Ho.
  pose proof (try_recv_spec _ h (Inv_reachable c a f os) x Hg Hl Htx (fun E => match E eq_refl with end)) as P.
  rewrite Ho in P. destruct P as (_ & [P|P]); [congruence | exact P].
Qed.

(** the counts the code keeps are the numbers of open handles (so: dropping/closing one clone
    disconnects nothing while another is open; after the last one the count is 0) — F-07 *)
Theorem C04_mpmcb_counts_except_F07 : forall c a f os,
  let s := state_after c a f os in
  t07 (tn s) = false ->
  sc s = N.of_nat (cnt open_tx (hs s)) /\ rc s = N.of_nat (cnt open_rx (hs s)).
Proof. exact P_counts. Qed.

Theorem C04_mpmcb_counts_refuted_F07 : ~ counts_exact no_fixes.
Proof. exact counts_refuted_F07. Qed.

Theorem C04_mpmcb_counts_fixed : forall f, fx07 f = true -> counts_exact f.
Proof. exact counts_fixed. Qed.

Theorem C04_mpmcb_open_clone_keeps_connected : forall c a f os h x,
  let s := state_after c a f os in
  t07 (tn s) = false -> getH h s = Some x -> h_live x = true -> h_closed x = false ->
  if h_tx x then sc s <> 0 else rc s <> 0.
Proof.
  intros c a f os h x. cbv zeta. intros T Hg Hl Hc. destruct (h_tx x) eqn:E.
  - eapply open_tx_alive; eauto. apply Inv_reachable.
  - eapply open_rx_alive; eauto. apply Inv_reachable.
Qed.

(** after the last receiver is gone every send form fails and hands the value back
    (C01_mpmcb_send_results: rc = 0 gives Closed(value) / Closed) *)
Theorem C04_mpmcb_send_after_last_rx : forall c a f os h x,
  let s := state_after c a f os in
  getH h s = Some x -> h_live x = true -> h_tx x = true -> rc s = 0 ->
  exists v, o_res (snd (step s (TrySend h))) = RClosedV v /\ v = next s
            /\ unchanged_data s (fst (step s (TrySend h))).
Proof.
  intros c a f os h x. cbv zeta. intros Hg Hl Htx Hrc.
  pose proof (try_send_spec _ h (Inv_reachable c a f os) x Hg Hl Htx (fun E => match Bool.diff_false_true E with end)) as P.
  destruct (o_res (snd (step (state_after c a f os) (TrySend h)))); try contradiction.
  - destruct P as (_ & P & _). contradiction.
  - destruct P as (_ & _ & _ & P & _). contradiction.
  - destruct P as (_ & P1 & _ & P2 & _). exists v. auto.
  - destruct P as (P & _). discriminate.
  - destruct P as (P & _). discriminate.
Qed.

(** close is idempotent: Ok once, then CloseError; it never panics outside F-07 *)
Theorem C04_mpmcb_close : forall c a f os h,
  let s := state_after c a f os in
  close_spec s h (fst (step s (Close h))) (snd (step s (Close h))).
Proof. intros c a f os h. apply close_step_spec, Inv_reachable. Qed.

(** a closed handle rejects further operations: try_send / send / try_recv / recv by
    C01_mpmcb_send_results / C01_mpmcb_recv_results (Ok and Full need h_closed = false, a value or
    Empty need h_closed = false); recv_timeout — F-03 *)
Theorem C04_mpmcb_rt_closed_except_F03 : forall c a f os h x,
  let s := state_after c a f os in
  getH h s = Some x -> h_live x = true -> h_tx x = false -> h_async x = false -> h_closed x = true ->
  o_res (snd (step s (RecvTimeout h))) = RDisc \/ t03 (tn (fst (step s (RecvTimeout h)))) = true.
Proof. exact rt_closed_except_F03. Qed.

Theorem C04_mpmcb_rt_closed_refuted_F03 : ~ rt_closed_rejects no_fixes.
Proof. exact rt_closed_refuted_F03. Qed.

Theorem C04_mpmcb_rt_closed_fixed : forall f, fx03 f = true -> rt_closed_rejects f.
Proof. exact rt_closed_fixed. Qed.

(** ... and the futures of a closed handle — F-03f *)
Theorem C04_mpmcb_poll_closed_except_F03f : forall c a f os fid w x,
  let s := state_after c a f os in
  getF fid s = Some x -> f_live x = true -> f_done x = false -> handle_closed (f_h x) s = true ->
  o_res (snd (step s (Poll fid w))) = (if f_recv x then RReadyDisc else RReadyClosed)
  \/ t03f (tn (fst (step s (Poll fid w)))) = true.
Proof. exact poll_closed_except_F03f. Qed.

Theorem C04_mpmcb_poll_closed_refuted_F03f : ~ poll_closed_rejects no_fixes.
Proof. exact poll_closed_refuted_F03f. Qed.

Theorem C04_mpmcb_poll_closed_fixed : forall f, fx03f f = true -> poll_closed_rejects f.
Proof. exact poll_closed_fixed. Qed.

(** a receiver that has observed Disconnected (no sender counted, buffer drained) never obtains a
    value afterwards: that state is stable under every step — F-33, F-07, F-03f *)
Theorem C04_mpmcb_disc_final_except : forall c a f os o,
  let s := state_after c a f os in
  sc s = 0 -> q s = [] ->
  let s' := fst (step s o) in
  t07 (tn s') = false -> t33 (tn s') = false -> t03f (tn s') = false ->
  sc s' = 0 /\ q s' = [] /\ recvd s' = recvd s.
Proof. exact disc_final_except. Qed.

Theorem C04_mpmcb_disc_final_refuted_F33 : ~ disc_is_final no_fixes.
Proof. exact disc_final_refuted_F33. Qed.

Theorem C04_mpmcb_disc_final_refuted_F03f : ~ disc_is_final no_fixes.
Proof. exact disc_final_refuted_F03f. Qed.

Theorem C04_mpmcb_disc_final_refuted_F07 : ~ disc_is_final no_fixes.
Proof. exact disc_final_refuted_F07. Qed.

Theorem C04_mpmcb_disc_final_fixed : forall f,
  fx07 f = true -> fx33 f = true -> fx03f f = true -> disc_is_final f.
Proof. exact disc_final_fixed. Qed.

(** a future reports Disconnected only after the buffer is drained — F-08 *)
Theorem C04_mpmcb_future_disc_except_F08 : forall c a f os fid w x,
  let s := state_after c a f os in
  getF fid s = Some x -> f_live x = true -> f_done x = false -> f_recv x = true ->
  handle_closed (f_h x) s = false ->
  o_res (snd (step s (Poll fid w))) = RReadyDisc ->
  q s = [] \/ (fx08 f = false /\ t08 (tn (fst (step s (Poll fid w)))) = true).
Proof. exact future_disc_except_F08. Qed.

Theorem C04_mpmcb_future_disc_refuted_F08 : ~ future_disc_drained no_fixes.
Proof. exact future_disc_refuted_F08. Qed.

Theorem C04_mpmcb_future_disc_fixed : forall f, fx08 f = true -> future_disc_drained f.
Proof. exact future_disc_fixed. Qed.

(** with every repair on, no recorded event can occur in any history *)
Theorem C04_mpmcb_all_fixed_clean : forall c a os,
  let s := state_after c a all_fixes os in
  t03 (tn s) = false /\ t03f (tn s) = false /\ t06 (tn s) = false /\ t07 (tn s) = false /\
  t08 (tn s) = false /\ t12 (tn s) = false /\ t33 (tn s) = false.
Proof. exact all_fixed_clean. Qed.

(* non-vacuity: a lifecycle history (clone, close, drain, Disconnected, double close, drop) *)
Example C04_mpmcb_example :
  map o_res (snd (run (init 2 false no_fixes)
     [Clone 0 2; TrySend 0; Close 0; TrySend 0; TrySend 2; Close 2; Close 2; TryRecv 1; TryRecv 1; TryRecv 1;
      DropH 1; TrySend 2]))
  = [ROk; ROk; ROk; RClosedV 1; ROk; ROk; RCloseErr; RVal 0; RVal 2; RDisc; ROk; RClosedV 3].
Proof. vm_compute. reflexivity. Qed.

(* the same F-07 history on the faithful and on the repaired model *)
Example C04_mpmcb_example_F07 :
  map o_res (snd (run (init 2 false no_fixes) [Clone 0 2; Close 0; Convert 0 3; DropH 3; TryRecv 1; TrySend 2; DropH 2]))
  = [ROk; ROk; ROk; ROk; RDisc; ROk; RPanic]
  /\ map o_res (snd (run (init 2 false all_fixes) [Clone 0 2; Close 0; Convert 0 3; DropH 3; TryRecv 1; TrySend 2; DropH 2]))
  = [ROk; ROk; ROk; ROk; REmpty; ROk; ROk].
Proof. vm_compute. split; reflexivity. Qed.
