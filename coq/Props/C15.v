(* Props/C15.v — pinned theorems for property C15 (loader single-flight).
   Model: Cache/Loader.v (K3' section-level machine).  Every theorem quantifies over ALL caller
   programs [progs : nat -> list op] (any number of callers), ALL schedules [sch] (through
   [reachable]) and all configurations.  Only statements, `exact`, and Examples. *)
From Fibre Require Import Common.Base Cache.Loader Proofs.LoaderProofs.
Import ListNotations.
Open Scope N_scope.

(* (a) each LoadFuture is completed exactly once ... *)
Theorem C15_complete_exactly_once : forall cf t0 progs s f F,
  reachable cf t0 progs s -> futs s f = Some F ->
  f_ncomplete F = match f_state F with Computing => 0%nat | Complete _ => 1%nat end.
Proof. exact complete_once. Qed.

(* ... and its completion wakes every registered waiter *)
Theorem C15_complete_wakes_all : forall cf s f F v b,
  futs s f = Some F -> f_tpc F = TComplete v ->
  exists s', step cf s (Task f) b = Some s'
    /\ (forall c, In c (f_waiters F) -> c_token (callers s' c) = true)
    /\ exists F', futs s' f = Some F' /\ f_state F' = Complete v /\ f_waiters F' = []
                  /\ f_ncomplete F' = S (f_ncomplete F) /\ f_tpc F' = TDone.
Proof. exact complete_wakes_all. Qed.

(* no_waiter_left: a caller blocked in park waits on a future of its own key that is still
   Computing, is on its waiter list, and that future's loader task can step *)
Theorem C15_no_waiter_left : forall cf t0 progs s c k f,
  reachable cf t0 progs s ->
  c_pc (callers s c) = CPark k f -> c_token (callers s c) = false ->
  exists F, futs s f = Some F /\ f_key F = k /\ f_state F = Computing /\ In c (f_waiters F)
            /\ exists s', step cf s (Task f) false = Some s'.
Proof. exact no_waiter_left. Qed.

Theorem C15_no_waiter_on_completed_future : forall cf t0 progs s c k f F v,
  reachable cf t0 progs s ->
  c_pc (callers s c) = CPark k f -> futs s f = Some F -> f_state F = Complete v ->
  c_token (callers s c) = true.
Proof. exact no_waiter_on_completed. Qed.

(* quiescent reachable states have no caller inside fetch_with or with calls left *)
Theorem C15_quiescent_all_returned : forall cf t0 progs s,
  reachable cf t0 progs s -> (forall t, step cf s t false = None) ->
  forall c, c_pc (callers s c) = CIdle /\ c_prog (callers s c) = [].
Proof. exact no_deadlock. Qed.

(* (b) callers that joined one future return its value = the loader's result = what the task
   wrote to the map with its cost *)
Theorem C15_joined_return_loaded_value : forall cf t0 progs s r f,
  reachable cf t0 progs s -> In r (rets s) -> r_via r = Some f ->
  exists F c, futs s f = Some F /\ f_key F = r_key r /\ f_state F = Complete (r_val r)
              /\ f_loaded F = Some (r_val r, c) /\ In (mkwr f (r_key r) (r_val r) c) (writes s).
Proof. exact joined_return_loaded. Qed.

Theorem C15_same_future_same_value : forall cf t0 progs s r1 r2 f,
  reachable cf t0 progs s ->
  In r1 (rets s) -> In r2 (rets s) -> r_via r1 = Some f -> r_via r2 = Some f ->
  r_val r1 = r_val r2 /\ r_key r1 = r_key r2.
Proof. exact same_future_same_value. Qed.

Theorem C15_write_makes_resident : forall cf s f F v c b,
  futs s f = Some F -> f_tpc F = TWrite v c ->
  exists s', step cf s (Task f) b = Some s'
    /\ map s' (f_key F) = Some (new_entry cf (clock s) v c None) /\ clock s' = clock s
    /\ (c_ttl cf <> Some 0 -> is_fresh (clock s') (map s' (f_key F)) = true).
Proof. exact write_makes_resident. Qed.

(* (c) futures are per key; the loader runs outside every lock *)
Theorem C15_futures_are_per_key : forall cf t0 progs s,
  reachable cf t0 progs s ->
  (forall k f, pending s k = Some f -> exists F, futs s f = Some F /\ f_key F = k)
  /\ (forall c k f, c_pc (callers s c) = CWait k f \/ c_pc (callers s c) = CPark k f ->
        exists F, futs s f = Some F /\ f_key F = k).
Proof. exact futures_are_per_key. Qed.

Theorem C15_loader_outside_locks : forall cf s f F b s',
  futs s f = Some F -> f_tpc F = TLoad -> step cf s (Task f) b = Some s' ->
  map s' = map s /\ pending s' = pending s /\ callers s' = callers s /\ clock s' = clock s
  /\ timers s' = timers s /\ nfut s' = nfut s /\ (forall f', f' <> f -> futs s' f' = futs s f')
  /\ runs s' (f_key F) = S (runs s (f_key F)).
Proof. exact loader_outside_locks. Qed.

(* the marker is removed BEFORE the future is completed: a future still registered as the in-flight
   load of k is Computing, so a caller can only join a load whose completion has not happened *)
Theorem C15_no_join_after_completion : forall cf t0 progs s k f,
  reachable cf t0 progs s -> pending s k = Some f ->
  exists F, futs s f = Some F /\ f_key F = k /\ f_state F = Computing /\ f_ncomplete F = 0%nat
            /\ premark (f_tpc F) = true.
Proof. exact no_join_after_completion. Qed.

Theorem C15_stripe_joins_only_uncompleted : forall cf t0 progs s c k r rs b s',
  reachable cf t0 progs s ->
  c_pc (callers s c) = CStripe k r rs -> step cf s (Caller c) b = Some s' ->
  exists f F, c_pc (callers s' c) = CWait k f /\ futs s' f = Some F /\ f_key F = k
              /\ f_state F = Computing /\ f_ncomplete F = 0%nat.
Proof. exact stripe_joins_only_uncompleted. Qed.

(* "a later miss after invalidation or expiry triggers exactly one new load": once every load of k
   has completed, a missing caller creates a new future (never joins an old one) *)
Theorem C15_miss_after_completion_starts_new_load : forall cf t0 progs s c k r rs b s',
  reachable cf t0 progs s ->
  c_pc (callers s c) = CStripe k r rs ->
  (forall f F, futs s f = Some F -> f_key F = k -> f_state F <> Computing) ->
  step cf s (Caller c) b = Some s' ->
  nfut s' = S (nfut s) /\ c_pc (callers s' c) = CWait k (nfut s)
  /\ exists F, futs s' (nfut s) = Some F /\ f_key F = k /\ f_tpc F = TLoad /\ f_state F = Computing
               /\ pending s' k = Some (nfut s).
Proof. exact miss_after_completion_starts_new_load. Qed.

(* (d) the full single-flight statement is FALSE of the faithful model (late arrival, F-22) *)
Theorem C15_single_flight_refuted_F22 : ~ single_flight_full.
Proof. exact single_flight_refuted_F22. Qed.

(* what holds instead *)
Theorem C15_loads_never_overlap : forall cf t0 progs s f1 f2 F1 F2,
  reachable cf t0 progs s ->
  (f1 < f2)%nat -> futs s f1 = Some F1 -> futs s f2 = Some F2 -> f_key F1 = f_key F2 ->
  exists u, f_unmarked F1 = Some u /\ (u < f_created F2)%nat.
Proof. exact loads_never_overlap. Qed.

Theorem C15_single_flight_except_late_arrival : forall cf t0 progs s f1 f2 F1 F2,
  c_ttl cf <> Some 0 -> reachable cf t0 progs s ->
  (f1 < f2)%nat -> futs s f1 = Some F1 -> futs s f2 = Some F2 -> f_key F1 = f_key F2 ->
  exists w u, f_written F1 = Some w /\ f_unmarked F1 = Some u /\ (u < f_created F2)%nat
    /\ ((f_read_at F2 <= w)%nat \/ (w < f_reset_seen F2)%nat).
Proof. exact single_flight_except_late_arrival. Qed.

(* ---------------------------------------------------------------- non-vacuity *)
Definition ex_cfg : config := {| c_ttl := Some 10; c_grace := Some 5; c_wheel := 4 |}.
Definition ex_progs : nat -> list op :=
  fun c => match c with
           | 0%nat | 1%nat | 2%nat => [OFetch 3; OFetch 3]
           | 3%nat => [OFetch 4]
           | _ => []
           end.
Definition cl (c : nat) := (Caller c, false).
Definition tk (f : nat) := (Task f, false).
(* three callers miss on key 3 and join one future; a fourth loads key 4 meanwhile *)
Definition ex_sched : sched :=
  [cl 0; cl 1; cl 2; cl 3; cl 0; cl 1; cl 2; cl 3; cl 0; cl 1; cl 3; cl 3;
   tk 1; tk 0; tk 0; cl 2; tk 0; tk 1; tk 0; tk 1; tk 1;
   cl 0; cl 1; cl 2; cl 3; cl 0; cl 1; cl 2; cl 3; cl 0; cl 1; cl 2].

Example C15_example_three_join_one_future :
  let s := run ex_cfg (init 1 ex_progs) ex_sched in
  (runs s 3, runs s 4, nfut s,
   List.map (fun r => (r_caller r, r_via r, r_val r)) (rev (rets s)),
   List.map (fun w => (w_fut w, w_key w, w_val w, w_cost w)) (rev (writes s)))
  = (1%nat, 1%nat, 2%nat,
     [(0%nat, Some 0%nat, 1001); (1%nat, Some 0%nat, 1001); (2%nat, Some 0%nat, 1001);
      (3%nat, Some 1%nat, 1000);
      (0%nat, None, 1001); (1%nat, None, 1001); (2%nat, None, 1001)],
     [(0%nat, 3, 1001, 1 + (3 + 1001) mod 5); (1%nat, 4, 1000, 1 + (4 + 1000) mod 5)]).
Proof. vm_compute. reflexivity. Qed.

(* the F-22 schedule: two loads of key 7, the callers return different values *)
Example C15_example_F22_two_loads :
  let s := run f22_cfg (init 1 f22_progs)
               (f22_sched ++ [tk 1; tk 1; tk 1; tk 0; cl 0; cl 1; cl 0; cl 1]) in
  (runs s 7, runs_since s 7, List.map (fun r => (r_caller r, r_via r, r_val r)) (rev (rets s)))
  = (2%nat, 2%nat, [(0%nat, Some 0%nat, 1000); (1%nat, Some 1%nat, 1001)]).
Proof. vm_compute. reflexivity. Qed.

(* fetch; invalidate; fetch by one caller: the second call starts a second load and returns ITS value *)
Example C15_example_reload_after_invalidate :
  let '(s, ok) := seq_run ex_cfg (init 1 (fun _ => [])) [OFetch 2; OInvalidate 2; OFetch 2] in
  (ok, rev (outs s), runs s 2, nfut s) = (true, [ORet 1000; OInv true; ORet 1001], 2%nat, 2%nat).
Proof. vm_compute. reflexivity. Qed.
