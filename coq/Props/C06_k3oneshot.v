(* Props/C06_k3oneshot.v — pinned statements: C06 for the oneshot recv future driven by a block_on
   executor (woken when a send lands or the last sender leaves), K3 model, every N >= 1, all programs
   and all schedules.  Liveness is stated as safety: no reachable state in which nobody can step has a
   parked receiver. *)
From Coq Require Import List.
From Fibre Require Import Common.Conc Chan.OneshotK3 Proofs.OneshotK3Base Proofs.OneshotK3Life
  Proofs.OneshotK3Slot Proofs.OneshotK3Vals Proofs.OneshotK3Wake Proofs.OneshotK3Examples.
Import ListNotations.

(* repaired code (F-37): once every sender thread has finished the receiver is not parked *)
Theorem C06_k3oneshot_no_lost_wake :
  forall C n sprog rp sch, 1 <= n -> fixB C = true ->
  let s := fst (run (sys C n sprog rp) (init n rp) sch) in
  (forall t, inr n t -> spc s t = SDone) -> ~ (rpc s = BPark /\ token s = false).
Proof.
  intros C n sprog rp sch Hn F s. apply (k3_no_lost_wake C n sprog Hn rp); [exists sch; reflexivity|exact F].
Qed.

(* repaired code: a state in which no thread can take a step is a final state *)
Theorem C06_k3oneshot_deadlock_free :
  forall C n sprog rp sch, 1 <= n -> fixB C = true ->
  let s := fst (run (sys C n sprog rp) (init n rp) sch) in
  quiescent (sys C n sprog rp) s -> all_done n s.
Proof.
  intros C n sprog rp sch Hn F s. apply (k3_deadlock_free C n sprog Hn rp); [exists sch; reflexivity|exact F].
Qed.

(* the code before the repair: F-37-oneshot (lost wake after the value was taken) *)
Theorem C06_k3oneshot_lost_wake_refuted :
  ~ (forall n sprog rp s, 1 <= n -> reachable (sys (mkCfg false false) n sprog rp) s ->
       quiescent (sys (mkCfg false false) n sprog rp) s -> all_done n s).
Proof. exact k3_deadlock_free_refuted_cfg0. Qed.

Example C06_k3oneshot_ex_f37 :
  rpc st_f37 = BPark /\ token st_f37 = false /\ spc st_f37 1 = SDone /\ spc st_f37 2 = SDone /\
  rlog st_f37 = [RFVal 1] /\ cnt st_f37 = 0 /\ cs st_f37 = Taken.
Proof. exact f37_witness. Qed.

(* the receiver really parks (registration intact, no token) and is woken by the send *)
Example C06_k3oneshot_ex_parked :
  rpc st_park = BPark /\ token st_park = false /\ wk st_park = Some 1 /\ woken st_park = false.
Proof. exact ex_parked. Qed.

Example C06_k3oneshot_ex_woken :
  rpc st_pw = RDone /\ spc st_pw 1 = SDone /\ rlog st_pw = [RFVal 1] /\ slog st_pw = [(1, SOk)] /\
  drops st_pw = [] /\ slot st_pw = None /\ cs st_pw = Taken.
Proof. exact ex_woken. Qed.
