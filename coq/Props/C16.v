(* Props/C16.v — pinned theorems for property C16 (eviction listener notifications
   are truthful and never duplicated; complete when the listener keeps up),
   sequential (K2) part.  Only statements, `exact`, examples. *)
From Fibre Require Import Common.Base Cache.PolicySpec Cache.PolicyLru Cache.AMap
     Cache.CacheOps Cache.CacheSpec Proofs.CacheCoreProofs Proofs.CacheStepProofs Proofs.CacheC16Proofs.

(* [sent s] = listener log ++ notifier queue: everything handed to the bounded
   channel and not dropped by try_send, in order.  [e_id] numbers the
   incarnations (one per CacheEntry allocation). *)

(* For EVERY policy, configuration, reachable state and operation (maintenance
   passes included): the notifications the operation hands to the channel
   ([C16_step], CacheSpec.v)
   - each name an entry that was resident with exactly that value, is no longer
     resident afterwards, with the reason of what removed it: Invalidated only
     from remove/invalidate/multi_remove/multi_invalidate of that key, Expired
     only from a maintenance pass (and, with the F-16 patch, only for an entry
     that is expired), Capacity only from a maintenance pass of a bounded cache;
   - and, when the channel dropped nothing during the operation and a listener
     is configured, include every entry the operation made disappear other than
     by overwrite or clear. *)
Theorem C16_seq : forall (P : policy) (c : cfg) (s : state P) (o : op),
  0 < c_shards c -> reachable P c s -> C16_step P c s o.
Proof.
  intros P c s o Hn Hr. destruct (c16_reachable P c Hn s Hr) as [Hw Hi].
  exact (proj2 (c16_step_gen P c Hn s o Hw Hi)).
Qed.

(* no incarnation is notified twice, ever (listener log and queue together) *)
Theorem C16_no_duplicates : forall (P : policy) (c : cfg) (s : state P),
  0 < c_shards c -> reachable P c s -> NoDup (map n_id (sent P s)).
Proof.
  intros P c s Hn Hr. destruct (c16_reachable P c Hn s Hr) as [_ [_ [_ [_ D]]]]. exact D.
Qed.

(* a notified incarnation is never resident again: reads no longer return it *)
Theorem C16_never_resident : forall (P : policy) (c : cfg) (s : state P) (n : notif) (k : N) (e : entry),
  0 < c_shards c -> reachable P c s -> In n (sent P s) -> find P c s k = Some e -> e_id e <> n_id n.
Proof.
  intros P c s n k e Hn Hr Hi Hf. destruct (c16_reachable P c Hn s Hr) as [_ [_ [_ [C _]]]].
  exact (proj2 (C n Hi) k e Hf).
Qed.

(* what the listener has been called with is a prefix of [sent] *)
Theorem C16_log_prefix : forall (P : policy) (s : state P), sent P s = st_log P s ++ st_nq P s.
Proof. reflexivity. Qed.

(* non-vacuity: remove, capacity eviction and expiry each notify once *)
Definition c16_cfg : cfg := mkCfg 1 3 (Some 5) None 60 1 true true false false all_fixes.
Example C16_example :
  map (fun n => (n_key n, n_val n, n_reason n))
      (st_log LruP (state_after LruP c16_cfg 1000
         [OInsert 1 100 1; ORemove 1; OInsert 2 101 2; OInsert 3 102 2; OMaint [];
          OAdvance 5; OMaint []; OMaint []; OMaint []; OMaint []; OMaint []; ODeliver 10]))
  = [(1, 100, Invalidated); (2, 101, Capacity); (3, 102, Expired)].
Proof. vm_compute. reflexivity. Qed.
