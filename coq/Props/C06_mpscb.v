(* Props/C06_mpscb.v — pinned theorems, property C06 (async wake-ups and cancellation) for the
   bounded MPSC channel (model Chan/MpscB.v; vocabulary Chan/MpscBSpec.v). *)
From Fibre Require Import Common.Base Chan.MpscB Chan.MpscBSpec
  Proofs.MpscBProofs Proofs.MpscBWakeThm Proofs.MpscBSend.

(* ---- receive side: the full clause (single-consumer usage) ---- *)

(** after every op of every history: a receive future whose last poll returned Pending has been woken
    as soon as its own poll would return Ready because of the channel (a value is buffered or no
    sender is left); [multi = false]: no second receive-side waiter was ever outstanding *)
Theorem C06_mpscb_recv_wake : forall s f w c,
  reach s -> multi s = false -> rpend s f w c -> (q s <> [] \/ scount s = 0) -> c < wk s w.
Proof. exact recv_wake. Qed.

Theorem C06_mpscb_stream_wake : forall s h w c,
  reach s -> multi s = false -> spend s h w c -> (q s <> [] \/ scount s = 0) -> c < wk s w.
Proof. exact stream_wake. Qed.

Theorem C06_mpscb_poll_recv_pending_iff : forall s f w fr r reg,
  aget f (fs s) = Some fr -> aget (fh fr) (hs s) = Some r -> fk fr = FRecv reg ->
  (snd (exec s (Poll f w)) = RPending <-> hclosed r = false /\ q s = [] /\ scount s <> 0).
Proof. exact poll_recv_pending_iff. Qed.

Theorem C06_mpscb_recv_no_dangling : forall s f w, reach s -> rw s = Some (OF f, w) ->
  exists fr, aget f (fs s) = Some fr /\ reg_of (fk fr) = true.
Proof. exact no_dangling. Qed.

(* ---- send side ---- *)

(** disconnect: once the receiver is closed or dropped every pending send future has been woken *)
Theorem C06_mpscb_send_disconnect_wake : forall s f w c,
  reach s -> rdrop s = true -> psend s f w c -> c < wk s w.
Proof. exact send_disconnect_wake. Qed.

(** every pending send future is still queued for a wake, or has been woken *)
Theorem C06_mpscb_send_parked_or_woken : forall s f w c,
  reach s -> psend s f w c -> In (f, w) (sq s) \/ c < wk s w.
Proof. exact send_parked_or_woken. Qed.

(** no dangling registration: every entry of the async send-waiter queue is a live pending send
    future with that waker (dropping a future removes its entry) *)
Theorem C06_mpscb_send_no_dangling : forall s f w,
  reach s -> In (f, w) (sq s) -> exists c, psend s f w c.
Proof. exact send_no_dangling. Qed.

(** the literal clause "its poll would return Ready => it has been woken" is refuted on the faithful
    model (F-11: one async sender is woken per progress publication), with and without a cancellation *)
Theorem C06_mpscb_send_wake_refuted_F11 : ~ send_wake_clause.
Proof. exact send_wake_refuted_F11. Qed.

Theorem C06_mpscb_send_wake_refuted_F11_drip : ~ send_wake_clause.
Proof. exact send_wake_refuted_F11_drip. Qed.

(** what holds instead: unless a future that had been handed the publication's single wake left
    without sending (dropped, or resolved Closed: ghost flag [lost]), parked senders always have a
    wake on its way - something is buffered or unpublished (the consumer's next call publishes and
    wakes the front waiter), or a woken sender has not been polled yet *)
Theorem C06_mpscb_send_wake_held_except_F11 : forall s,
  reach s -> lost s = false -> sq s <> [] ->
  q s <> [] \/ 0 < unpub s \/ (exists g w c, psend s g w c /\ in_sq g s = false /\ c < wk s w).
Proof. exact send_wake_held_except_F11. Qed.

(** F-30: reading "able to complete" as "space is available" (len < cap) the clause fails too: the
    drained credit is unpublished; the model's own poll still returns Pending there (C03_mpscb_poll_send_admission) *)
Theorem C06_mpscb_send_space_refuted_F30 : ~ send_space_clause.
Proof. exact send_space_refuted_F30. Qed.

(** cancellation is harmless for the data: dropping futures are ops of the history, and conservation
    and order hold in every history *)
Theorem C06_mpscb_cancel_conserves : forall s, reach s ->
  (NoDup (used s) /\ Permutation (used s) (rcv s ++ q s ++ fitems (fs s) ++ back s ++ drp s))
  /\ acc s = rcv s ++ q s ++ qdrp s.
Proof. intros s R. split; [exact (conservation s R) | exact (fifo_all s R)]. Qed.

Example C06_mpscb_example :
  let '(s, outs) := run (init true 1 false false)
      [MkRecv 0 1; Poll 0 3; TrySend 0 1; MkSend 1 0 2; Poll 1 2; Poll 0 3; Poll 1 2; DropF 1; DropF 0] in
  map out_res outs = [ROk; RPending; ROk; ROk; RPending; RReady (RVal 1); RReady ROk; ROk; ROk]
  /\ map out_wakes outs = [[]; []; [3]; []; []; [2]; []; []; []].
Proof. vm_compute. split; reflexivity. Qed.
