(* Props/C14_more.v — pinned theorems for property C14 (eviction policy contract),
   policies Slru, Random, Arc, TinyLfu.  Only statements, `exact`, Examples.

   [contractG access admit evict P] is the C14 contract of PolicySpec.v with the
   per-call clauses named explicitly.  The FULL statement for these policies is
   [C14_full P]; it holds for Slru, Random (with access_keep) and TinyLfu; for Arc
   the faithful model refutes it (F-20-arc-admit) and the refutation and the exact
   part that holds are both pinned.  Slru/Arc/TinyLfu store the cost passed to
   on_access as the key's recorded cost ([access_update]); when the cache passes
   the recorded cost (the entry's cost) that is [access_keep]
   (C14_access_same_cost). *)
From Fibre Require Import Common.Base Cache.PolicySpec Cache.PolicyLru Cache.PolicySieve
     Cache.PolicySlru Cache.PolicyRandom Cache.PolicyArc Cache.PolicyTinyLfu
     Proofs.PolicyCommon Proofs.PolicySlruProofs Proofs.PolicyRandomProofs
     Proofs.PolicyArcProofs Proofs.PolicyTinyLfuProofs.

Definition C14_full (P : policy) : Prop := contractG access_update admit_full evict_ok P.

Theorem C14_access_same_cost : forall T T' k c,
  NoDup (keys T) -> lookup k T = Some c -> access_update T T' k c -> access_keep T T' k c.
Proof. exact access_update_same. Qed.

(** ---- Slru: the full contract, every capacity *)
Theorem C14_Slru_contract : forall cap, C14_full (SlruP cap).
Proof. exact slru_contract. Qed.

(* probationary tail first, then protected tail, no more than needed; the
   segments are rebalanced first *)
Theorem C14_Slru_order : forall pcap n s,
  let s1 := slru_maintain_all pcap s in
  let '(s', vs, f) := slru_evict pcap n s in
  exists V1 V2, vs = keys V1 ++ keys V2 /\ f = total V1 + total V2
    /\ sl_prob s1 = sl_prob s' ++ rev V1 /\ sl_prot s1 = sl_prot s' ++ rev V2
    /\ (V2 <> [] -> sl_prob s' = [])
    /\ (n <= f \/ (sl_prob s' = [] /\ sl_prot s' = [])).
Proof. exact slru_evict_order. Qed.

(* the fuel of the maintain_capacities loop suffices: on return its condition is false *)
Theorem C14_Slru_maintain_fuel : forall pcap s,
  total (sl_prot (slru_maintain_all pcap s)) <= pcap \/ sl_prot (slru_maintain_all pcap s) = [].
Proof. exact slru_maintain_all_done. Qed.

(** ---- Random: the full contract, for every RNG (state type, choice function, seed) *)
Theorem C14_Random_contract : forall (rs : Type) (choose : rs -> list N -> nat * rs) (r0 : rs),
  contract admit_full (RandomP rs choose r0).
Proof. exact random_contract. Qed.

(** ---- Arc (finding F-20-arc-admit), every capacity: victims tracked/distinct/
    exact costs, evict frees enough whenever possible, tracking ends only via
    victim/remove/clear EXCEPT that an admission may silently drop one other
    resident ([admit_demote]) *)
Theorem C14_Arc_contract_except_F20_admit : forall cap,
  contractG access_update admit_demote evict_ok (ArcP cap).
Proof. exact arc_contract_except_F20_admit. Qed.

(* refuted even without the sufficiency clause ... *)
Theorem C14_Arc_refuted_F20_admit : ~ contractG access_update admit_full evict_nosuff (ArcP 2).
Proof. exact arc_admit_refuted. Qed.

(* ... hence the full statement *)
Theorem C14_Arc_refuted_F20_admit_full : ~ C14_full (ArcP 2).
Proof.
  intros H. apply arc_admit_refuted. revert H. apply contractG_mono; auto.
  intros T T' n vs c. apply evict_ok_core.
Qed.

(** ---- TinyLfu: the full contract (including AdmitAndEvict admissions, cost update
    on re-admission, sufficiency), every sketch and capacity *)
Theorem C14_TinyLfu_contract :
  forall (sk : Type) (sk_incr : sk -> N -> sk) (sk_est : sk -> N -> N) (sk_clear : sk -> sk)
         (sk0 : sk) (cap : N),
  C14_full (TinyLfuP sk sk_incr sk_est sk_clear sk0 cap).
Proof. exact tinylfu_contract. Qed.

(* on_admit leaves the window within its target (fuel of the window loop suffices) *)
Theorem C14_TinyLfu_window_fuel :
  forall (sk : Type) (sk_incr : sk -> N -> sk) (sk_est : sk -> N -> N) (sk_clear : sk -> sk)
         fuel wt s win m rej win' m' rj,
  (length win <= fuel)%nat ->
  tl_window_loop sk sk_est fuel wt s win m rej = (win', m', rj) ->
  total win' <= wt \/ win' = [].
Proof. exact tl_window_loop_done. Qed.

(** the D1 replay instances are instances of the quantified components *)
Theorem C14_replay_instances : forall choices rejects cap,
  contract admit_full (RandomReplayP choices)
  /\ C14_full (TinyLfuReplayP rejects cap).
Proof. intros. split; [apply random_replay_contract | apply tinylfu_replay_contract]. Qed.

(** non-vacuity: concrete histories on which the clauses bite *)
Example C14_example_slru :
  snd (prun (SlruP 5) (pinit (SlruP 5))
         [Admit 1 1; Access 1 1; Admit 2 1; Access 2 1; Admit 3 1; Access 3 1; Admit 4 1; Evict 3])
  = [OAdmit; ODone; OAdmit; ODone; OAdmit; ODone; OAdmit; OVictims [4; 1; 2] 3].
Proof. vm_compute. reflexivity. Qed.

(* re-admission records the new cost (was F-19-slru) *)
Example C14_example_slru_readmit :
  snd (prun (SlruP 10) (pinit (SlruP 10)) [Admit 1 1; Admit 1 50; Evict 1])
  = [OAdmit; OAdmit; OVictims [1] 50].
Proof. vm_compute. reflexivity. Qed.

Example C14_example_random :
  snd (prun (RandomReplayP [2; 3]) (pinit (RandomReplayP [2; 3]))
         [Admit 1 1; Admit 2 1; Admit 3 1; Evict 2; Evict 0])
  = [OAdmit; OAdmit; OAdmit; OVictims [2; 3] 2; OVictims [] 0].
Proof. vm_compute. reflexivity. Qed.

Example C14_example_arc_F20_admit :
  snd (prun (ArcP 2) (pinit (ArcP 2)) [Admit 1 1; Admit 2 1; Admit 3 1; Evict 100])
  = [OAdmit; OAdmit; OAdmit; OVictims [2; 3] 2].
Proof. vm_compute. reflexivity. Qed.

(* p = 2 > T1's cost 1 and T2 empty: replace falls back to T1's tail (was F-20-arc-evict) *)
Example C14_example_arc_fallback :
  snd (prun (ArcP 10) (pinit (ArcP 10)) [Admit 1 1; Evict 1; Admit 1 1; Evict 1; Admit 1 1; Evict 1])
  = [OAdmit; OVictims [1] 1; OAdmit; OVictims [1] 1; OAdmit; OVictims [1] 1].
Proof. vm_compute. reflexivity. Qed.

(* window target 1: key 1 overflows into main; key 2 is then rejected by the sketch *)
Example C14_example_tinylfu :
  snd (prun (TinyLfuReplayP [[]; []; [2]] 101) (pinit (TinyLfuReplayP [[]; []; [2]] 101))
         [Admit 1 1; Admit 2 1; Admit 3 1; Evict 5])
  = [OAdmit; OAdmit; OAdmitEvict [2]; OVictims [1; 3] 2].
Proof. vm_compute. reflexivity. Qed.

(* a key still in the window is evictable once main is drained (was F-21) *)
Example C14_example_tinylfu_window :
  snd (prun (TinyLfuReplayP [] 100) (pinit (TinyLfuReplayP [] 100)) [Admit 1 1; Evict 1])
  = [OAdmit; OVictims [1] 1].
Proof. vm_compute. reflexivity. Qed.
