(* Props/C05_k3rv.v — pinned statements: C05 (no lost wakeup, safety form) for the K3' rendezvous
   model: park_until_terminal / the recv_timeout loop versus fulfill_* / disconnect under the
   lock followed by wake() after the unlock, with stale park tokens and spurious park returns.
   Partial with respect to the property text: "eventually under fair scheduling" is not stated;
   what is proved is that no reachable state is stuck. *)
From Coq Require Import List.
From Fibre Require Import Common.Conc Chan.RvK3 Proofs.RvK3Wake Proofs.RvK3Examples Proofs.RvK3Final.
Import ListNotations.

(* in EVERY reachable state: a thread standing at park() whose state is already terminal has its
   park token, or the thread that published the state still holds the wake handle and can move *)
Theorem C05_k3rv_wake_owed :
  forall cfg sch u, let s := final true cfg sch in
  (pcs s u = SPark \/ pcs s u = RPark) -> wstate s u <> W ->
  token s u = true \/ exists t, owes (pcs s t) u /\ step true cfg s t CGo <> None.
Proof. intros cfg sch u s. exact (F_wake_owed cfg sch u). Qed.

(* quiescent_ns: no thread can take a step (spurious park returns aside).  Then a parked thread's
   state is still WAITING and its record is linked: nobody sleeps on a terminal state *)
Theorem C05_k3rv_no_lost_wakeup :
  forall cfg sch u, let s := final true cfg sch in
  quiescent_ns true cfg s -> parked s u -> wstate s u = W /\ (In u (sq s) \/ In u (rq s)).
Proof. intros cfg sch u s HQ. exact (F_quiescent_parked_waiting cfg sch HQ u). Qed.

(* senders and receivers are never parked against each other: the two queues are never both
   non-empty (in every reachable state) *)
Theorem C05_k3rv_never_both_waiting :
  forall cfg sch, let s := final true cfg sch in sq s = [] \/ rq s = [].
Proof. intros cfg sch s. exact (proj1 (proj2 (proj2 (F_queues_ok cfg sch)))). Qed.

(* deadlock freedom, for ALL programs (matching or not): the only quiescent states are the final
   ones -- every thread has finished and dropped its handle; the last handle of a side releases
   every parked waiter of the other side *)
Theorem C05_k3rv_deadlock_free :
  forall cfg sch, let s := final true cfg sch in quiescent_ns true cfg s -> all_done cfg s.
Proof. intros cfg sch s. exact (F_deadlock_free cfg sch). Qed.

Example C05_k3rv_ex_parks : parked ex_s1 1 /\ rq ex_s1 = [1] /\ wstate ex_s1 1 = W /\ lock ex_s1 = None.
Proof. exact ex_receiver_parks. Qed.
Example C05_k3rv_ex_disconnect_wakes :
  parked ex3_s1 0 /\ sq ex3_s1 = [0] /\ rcount ex3_s1 = 1 /\
  results ex3_s2 0 = [PGone (0, 1)] /\ all_done ex3_cfg ex3_s2 /\ handed ex3_s2 = [].
Proof. exact ex3_disconnect. Qed.
