(* Props/C09_mpmcb.v — pinned theorems for property C09 (every value dropped exactly once) on the
   bounded MPMC K2 model.  Locations of a payload id: received ([recvd]) or handed back inside an
   error ([back]) = Returned; destroyed by the API ([dropped]: a value-less error, a future dropped
   with its item) or left in the ring when the shared state is freed ([q] once [freed]) = Dropped;
   in between: buffered ([q]) or held by a live SendFuture. *)
From Fibre Require Import Common.Base Chan.MpmcB Proofs.MpmcBBase Proofs.MpmcBInv Proofs.MpmcBStep Proofs.MpmcBProofs.

(** at every point of every history every id created so far is in exactly one location, and no id
    that was not created is anywhere *)
Theorem C09_mpmcb_one_location : forall c a f os v,
  let s := state_after c a f os in
  (occ v (recvd s) + occ v (q s) + cells s v + occ v (back s) + occ v (dropped s))%nat
  = if v <? next s then 1%nat else 0%nat.
Proof.
  intros c a f os v. cbv zeta. pose proof (d_cons _ _ (proj1 (Inv_reachable c a f os)) v) as C.
  unfold tot in C. cbn [occ] in C. rewrite Nat.add_0_r in C. exact C.
Qed.

(** after all handles are gone — in whatever order handles and futures were dropped — the shared
    state is freed, no future is left holding an item, and every id is Returned or Dropped, once *)
Theorem C09_mpmcb_teardown : forall c a f os,
  let s := state_after c a f os in
  all_gone s ->
  freed s = true /\
  forall v, (occ v (recvd s) + occ v (back s) + occ v (dropped s) + occ v (q s))%nat
            = if v <? next s then 1%nat else 0%nat.
Proof. intros c a f os. apply Inv_teardown, Inv_reachable. Qed.

(* non-vacuity: two teardown orders of the same traffic (receiver first / sender first), a future
   dropped with its item, the ring residue destroyed by the last handle *)
Example C09_mpmcb_example :
  let ops := [TrySend 0; TrySend 0; MkSend 10 0; Poll 10 7; TryRecv 1] in
  map o_drops (snd (run (init 2 true no_fixes) (ops ++ [DropF 10; DropH 1; DropH 0])))
  = [[]; []; []; []; []; [2]; []; [1]]
  /\ map o_drops (snd (run (init 2 true no_fixes) (ops ++ [DropH 1; DropF 10; DropH 0])))
  = [[]; []; []; []; []; []; [2]; [1]]
  /\ map o_res (snd (run (init 2 true no_fixes) (ops ++ [DropH 0; DropF 10; DropH 0; DropH 1])))
  = [ROk; ROk; ROk; RPending; RVal 0; RBorrowed; ROk; ROk; ROk].
Proof. vm_compute. repeat split; reflexivity. Qed.
