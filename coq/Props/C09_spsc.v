(* Props/C09_spsc.v — pinned theorems: C09 (every value dropped exactly once) for the bounded SPSC channel. *)
From Coq Require Import List Arith Permutation.
From Fibre Require Import Chan.SpscOps Proofs.SpscOpsProofs Proofs.SpscOpsTheorems.
Import ListNotations.
Open Scope nat_scope.

(* at every point of every history each id is in exactly one place (never duplicated, never lost) *)
Theorem C09_spsc_one_place : forall cf c k ops,
  let s := reach cf c k ops in
  Permutation (received s ++ q s ++ held s ++ returned s ++ dropped s ++ drained s) (seq 0 (next s)).
Proof. exact spsc_conservation. Qed.

(* for every teardown order: once both handles are gone (futures are gone before their handle) nothing is
   buffered or held, and every id is exactly one of: handed to the receiver, handed back to the sender,
   dropped by an operation / a cancelled future, drained by Ring::drop *)
Theorem C09_spsc_teardown : forall cf c k ops,
  let s := reach cf c k ops in
  sh s = HGone -> rh s = HGone ->
  q s = [] /\ sf s = None /\ rf s = None /\
  Permutation (received s ++ returned s ++ dropped s ++ drained s) (seq 0 (next s)) /\
  NoDup (received s ++ returned s ++ dropped s ++ drained s).
Proof. exact spsc_teardown. Qed.

(* non-vacuity: wrapped ring, a value left in the ring, one in a cancelled future, one refused *)
Example C09_spsc_example :
  run_case cfg_repo 2 KAsync
    [TrySend; TrySend; TryRecv; TrySend; MkSend; PollS 0; DropR; PollS 0; TrySend; DropS]
  = [(ROk, []); (ROk, []); (RVal 0, []); (ROk, []); (ROk, []); (RPending, []); (ROk, [EWake 0]);
     (RClosed, [EDrop 3]); (RClosedV 4, []); (ROk, [EDrop 1; EDrop 2]);
     (RNoFut, []); (RNoFut, []); (RGone, []); (RGone, [])].
Proof. vm_compute. reflexivity. Qed.
