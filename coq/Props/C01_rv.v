(* Props/C01_rv.v — pinned theorems of property C01 (exactly-once delivery, failed operations have
   no effect) for the rendezvous channels (engine rv; model Chan/Rendezvous.v).
   Only statements, `exact`, and Examples. *)
From Fibre Require Import Common.Base Chan.Rendezvous Proofs.RendezvousBase Proofs.RendezvousWF
     Proofs.RendezvousProofs Proofs.RendezvousAck.

(* conservation, for every configuration (spsc/mpsc/mpmc, shipped or repaired), constructor mode and
   history of API calls, polls and drops *)
Theorem C01_rv_conservation : forall c a ops s tr,
  run c (init a) ops = (s, tr) ->
  Permutation (intro_of (evs_of tr))
              (back_of (evs_of tr) ++ recv_of (evs_of tr) ++ drop_of (evs_of tr) ++ cells (fs s)).
Proof. exact rv_conservation. Qed.

Theorem C01_rv_exactly_once : forall c a ops s tr,
  run c (init a) ops = (s, tr) -> NoDup (intro_of (evs_of tr)) ->
  NoDup (recv_of (evs_of tr))
  /\ incl (recv_of (evs_of tr)) (intro_of (evs_of tr))
  /\ (forall v, In v (recv_of (evs_of tr)) ->
        ~ In v (back_of (evs_of tr)) /\ ~ In v (drop_of (evs_of tr)) /\ ~ In v (cells (fs s))).
Proof. exact rv_exactly_once. Qed.

(* the history lists above are exactly what the callers observe *)
Theorem C01_rv_events_are_outputs : forall c s o s' r e,
  step c s o = (s', r, e) ->
  intro_of e = op_intro o r /\ back_of e = out_back r /\ recv_of e = out_recv r.
Proof. exact step_events_out. Qed.

(* a failed operation leaves the whole state unchanged and hands back exactly its input; a failed
   poll only clears the future's own `registered` flag; the zero-timeout receive leaves the deque
   store unchanged (single-slot store: see C06, finding F-33) *)
Theorem C01_rv_failed_no_effect : forall c s o s' r e,
  step c s o = (s', r, e) ->
  match r with
  | OFull x | OClosedV x =>
      s' = s /\ (forall h v, o = TrySend h v -> x = v)
  | OClosed => s' = s /\ (forall h v, o = Send h v -> drop_of e = [v])
  | OEmpty | ODisc | OCloseErr | ONa | OBlock => s' = s
  | OTimeout => s' = set_rq s (if multi_rx c then rq s else [])
  | OReadyClosed | OReadyDisc =>
      chan_same s s' /\ (exists f w, o = Poll f w /\
                          (fs s' = fs s \/ exists r0, aget f (fs s) = Some r0 /\
                                           fs s' = aupd f (fut_unreg (f_cell r0)) (fs s)))
  | _ => True
  end.
Proof. exact rv_failed_no_effect. Qed.

(* Acknowledged sends are delivered -- except finding F-31.  The full statement ("a payload whose
   send reported success is received or still held for a receiver") is refuted on the faithful model
   for every configuration; what holds is the same statement with the third alternative, and that
   alternative arises only from dropping a receive future that had completed and was not polled. *)
Theorem C01_rv_acked_delivered_refuted_F31 : forall c, ~ rv_acked_delivered_full c.
Proof. exact rv_acked_delivered_refuted_F31. Qed.

Theorem C01_rv_acked_delivered_except_F31 : forall c a ops s tr v,
  run c (init a) ops = (s, tr) -> In (EAck v) (evs_of tr) ->
  In (ERecv v) (evs_of tr) \/ in_dest (fs s) v \/ In (EDropDest v) (evs_of tr).
Proof. exact rv_acked_delivered_except_F31. Qed.

Theorem C01_rv_F31_only_completed_recv_future : forall c s o s' r e v,
  WF s -> step c s o = (s', r, e) -> In (EDropDest v) e ->
  exists f r0, o = DropF f /\ aget f (fs s) = Some r0 /\ f_side r0 = Rx /\ f_cell r0 = Some v
               /\ f_st r0 = DONE /\ f_reg r0 = true.
Proof. exact rv_drop_dest_only_completed_recv. Qed.

(* non-vacuity: a handoff to a parked receive future, a parked send taken by try_recv, a cancelled
   send that is not ghost-delivered *)
Example C01_rv_example :
  map (fun t => snd (fst t))
      (snd (run mpmc_cfg (init true)
             [MkRecv 10 1; Poll 10 0; TrySend 0 100; Poll 10 0;
              MkSend 11 0 101; Poll 11 1; TryRecv 1; Poll 11 1;
              MkSend 12 0 102; Poll 12 2; DropF 12; TryRecv 1; TrySend 0 103]))
  = [ONone; OPending; OOk; OReadyVal 100; ONone; OPending; OVal 101; OReadyOk;
     ONone; OPending; ONone; OEmpty; OFull 103].
Proof. vm_compute. reflexivity. Qed.
