(* Props/C06_spsc.v — pinned theorems: C06 (async wake-ups, cancellation) for the bounded SPSC channel. *)
From Coq Require Import List Arith Bool.
From Fibre Require Import Chan.SpscOps Proofs.SpscOpsProofs Proofs.SpscOpsTheorems.
Import ListNotations.
Open Scope nat_scope.

(* after every history: a send / send_batch / send_batch_mut future whose last poll returned Pending and
   that could now complete (`would_be_ready` = the model's own poll is Ready) has been woken since *)
Theorem C06_spsc_wake_sender : forall cf c k ops w0,
  let s := reach cf c k ops in
  s_pend s = Some w0 ->
  (exists w, is_ready (res_of (step cf s (PollS w))) = true) -> s_woken s = true.
Proof. exact spsc_wake_sender. Qed.

(* same for recv / recv_batch / recv_batch_mut futures and Stream::poll_next; the obligation follows the
   most recent Pending poll on the receiver; a receiver that closed itself is excluded *)
Theorem C06_spsc_wake_receiver : forall cf c k ops o w0,
  let s := reach cf c k ops in
  r_pend s = Some (o, w0) -> closed_of (rh s) = false ->
  (exists w, is_ready (res_of (step cf s (match o with OFut => PollR w | OStream => StreamNext w end))) = true) ->
  r_woken s = true.
Proof. exact spsc_wake_receiver. Qed.

(* no_dangling: a waker in a waiter slot belongs to a live registered future (or to the live async
   receiver's Stream registration), and the sender slot holds the waker of the pending poll *)
Theorem C06_spsc_no_dangling : forall cf c k ops,
  let s := reach cf c k ops in
  (forall w, pw s = Some w -> s_pend s = Some w /\ exists f, sf s = Some (f, true)) /\
  (forall w, cw s = Some w ->
     (exists f, rf s = Some (f, true)) \/ (rreg s = true /\ exists c, rh s = HLive KAsync c)).
Proof. exact spsc_no_dangling. Qed.

(* dropping a future clears its registration ... *)
Theorem C06_spsc_drop_future_unregisters : forall cf s,
  Inv s ->
  pw (fst (step cf s DropFutS)) = None /\
  (forall w, cw (fst (step cf s DropFutR)) = Some w -> rreg s = true).
Proof. exact spsc_drop_future_unregisters. Qed.

(* ... and, like every other op, preserves the invariant: conservation of ids, FIFO order, capacity *)
Theorem C06_spsc_cancel_preserves_invariant : forall cf s o, Inv s -> Inv (fst (step cf s o)).
Proof. exact inv_step. Qed.

(* SPSC has one waiter slot per side, so "a consumed wake is passed on to another waiter" is vacuous. *)

(* strict per-poll form for Stream::poll_next: refuted (F-33-spsc) for the code as it is and for the
   repaired code; what holds instead is C06_spsc_wake_receiver with owner OStream *)
Theorem C06_spsc_stream_strict_refuted_F33 : forall cf, ~ C06_stream_strict cf.
Proof. exact spsc_stream_strict_refuted_F33. Qed.

Theorem C06_spsc_stream_except_F33 : forall cf c k ops w0,
  let s := reach cf c k ops in
  r_pend s = Some (OStream, w0) -> closed_of (rh s) = false ->
  (exists w, is_ready (res_of (step cf s (StreamNext w))) = true) -> r_woken s = true.
Proof. exact spsc_stream_except_F33. Qed.

(* non-vacuity: two pending futures, each woken by the op that enables it; a cancelled send future
   drops its value and leaves no registration *)
Example C06_spsc_example :
  run_case cfg_repo 1 KAsync
    [MkRecv; PollR 1; TrySend; PollR 1; TrySend; MkSend; PollS 2; TryRecv; PollS 2; MkSend; PollS 3; DropFutS; TryRecv]
  = [(ROk, []); (RPending, []); (ROk, [EWake 1]); (RVal 0, []); (ROk, []); (ROk, []); (RPending, []);
     (RVal 1, [EWake 2]); (ROk, []); (ROk, []); (RPending, []); (ROk, [EDrop 3]); (RVal 2, []);
     (RNoFut, []); (RNoFut, []); (ROk, []); (ROk, [])].
Proof. vm_compute. reflexivity. Qed.
