(* Props/C14.v — pinned theorems for property C14 (eviction policy contract).
   Only statements, `exact`, and Print Assumptions. *)
From Fibre Require Import Common.Base Cache.PolicySpec Cache.PolicyLru Cache.PolicySieve
     Proofs.PolicyLruProofs Proofs.PolicySieveProofs.

(* Full contract (incl. "re-admitting a key updates its cost"): LRU, SIEVE, CLOCK *)
Theorem C14_Lru_contract : contract admit_full LruP.
Proof. exact lru_contract. Qed.

Theorem C14_Sieve_contract : contract admit_full SieveP.
Proof. exact sieve_contract. Qed.

Theorem C14_Clock_contract : contract admit_full ClockP.
Proof. exact clock_contract. Qed.

(* FIFO satisfies every clause except re-admission (finding F-19-fifo, pinned by an
   upstream unit test): the full statement is refuted on the faithful model, the
   weaker holds. *)
Theorem C14_Fifo_contract_except_F19 : contract admit_keep_old FifoP.
Proof. exact fifo_contract_keep_old. Qed.

Theorem C14_Fifo_refuted_F19 : ~ contract admit_full FifoP.
Proof. exact fifo_readmit_refuted. Qed.

(* LRU evicts least-recently-used first; FIFO oldest-inserted first *)
Theorem C14_Lru_order : forall l n,
  let '(l', o) := lru_step l (Evict n) in
  exists V, o = OVictims (keys V) (total V) /\ l = l' ++ rev V
    /\ (n <= total V \/ l' = [])
    /\ (forall pre x, V = pre ++ [x] -> total pre < n).
Proof. exact lru_evict_least_recent. Qed.

Theorem C14_Lru_touch : forall l k c,
  lookup k l = Some c -> fst (lru_step l (Access k 0)) = (k, c) :: rm k l.
Proof. exact lru_touch_front. Qed.

Theorem C14_Lru_admit_front : forall l k c, fst (lru_step l (Admit k c)) = (k, c) :: rm k l.
Proof. exact lru_admit_front. Qed.

Theorem C14_Fifo_order : forall l n,
  let '(l', o) := fifo_step l (Evict n) in
  exists V, o = OVictims (keys V) (total V) /\ l = l' ++ rev V
    /\ (n <= total V \/ l' = [])
    /\ (forall pre x, V = pre ++ [x] -> total pre < n).
Proof. exact fifo_evict_oldest. Qed.

Theorem C14_Fifo_insertion_order : forall l k c,
  (lookup k l = None -> fst (fifo_step l (Admit k c)) = (k, c) :: l)
  /\ (forall c0, lookup k l = Some c0 -> fst (fifo_step l (Admit k c)) = l)
  /\ fst (fifo_step l (Access k c)) = l.
Proof.
  intros l k c. split; [apply fifo_admit_fresh|]. split; [intros c0; apply fifo_admit_tracked|].
  apply fifo_access_noop.
Qed.

(* non-vacuity: a concrete history on which the clauses bite *)
Example C14_example_lru :
  snd (prun LruP (pinit LruP) [Admit 1 2; Admit 2 3; Admit 3 4; Access 1 0; Evict 4])
  = [OAdmit; OAdmit; OAdmit; ODone; OVictims [2; 3] 7].
Proof. vm_compute. reflexivity. Qed.
