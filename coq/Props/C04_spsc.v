(* Props/C04_spsc.v — pinned theorems: C04 (disconnect protocol) for the bounded SPSC channel (K2 model).
   The SPSC handles cannot be cloned, so the clause "closing one of several clones changes nothing for
   the others" is vacuous here.  Two confirmed defects of the code as it is make four clauses false:
     F-03-spsc  sync `send_batch` does not test the handle's own `closed` flag;
     F-07-spsc  `to_sync`/`to_async` build the new handle with `closed = false`.
   cfg_repo = the code as it is, cfg_fixed = both one-line repairs applied (docs/spsc.md). *)
From Coq Require Import List Arith Bool.
From Fibre Require Import Chan.SpscOps Proofs.SpscOpsProofs Proofs.SpscOpsTheorems.
Import ListNotations.
Open Scope nat_scope.

(* ---- clauses that hold for the code as it is AND for the repaired code *)
(* a receiver that did not close itself sees Disconnected only after every accepted id was received *)
Theorem C04_spsc_drain_before_disconnected : forall cf s o k,
  Inv s -> rh s = HLive k false -> is_recv_op o = true ->
  is_disc (res_of (step cf s o)) = true -> accepted s = received s.
Proof. exact spsc_drain_before_disc. Qed.

(* after the receiver was closed or dropped every send form fails with Closed and accepts nothing *)
Theorem C04_spsc_send_after_receiver_left : forall cf s o,
  cdrop s = true -> is_send_op o = true ->
  closed_class (res_of (step cf s o)) = true /\
  accepted (fst (step cf s o)) = accepted s /\ q (fst (step cf s o)) = q s.
Proof. exact spsc_send_after_receiver_left. Qed.

Theorem C04_spsc_poll_after_receiver_left : forall cf s w,
  cdrop s = true ->
  (closed_class (res_of (step cf s (PollS w))) = true \/ exists n, res_of (step cf s (PollS w)) = ROkN n) /\
  accepted (fst (step cf s (PollS w))) = accepted s /\ q (fst (step cf s (PollS w))) = q s.
Proof. exact spsc_poll_after_receiver_left. Qed.

(* ... handing the value back wherever the error type carries it *)
Theorem C04_spsc_closed_hands_back : forall cf s,
  cdrop s = true -> forall k c, sh s = HLive k c -> sf s = None ->
  res_of (step cf s TrySend) = RClosedV (next s) /\
  (forall n, n <> 0 -> res_of (step cf s (TrySendBatch n)) = RTryBatchErr 0 (seq (next s) n) true) /\
  (forall n, n <> 0 -> res_of (step cf s (TrySendBatchMut n)) = RMutClosed (seq (next s) n)).
Proof. exact spsc_closed_hands_back. Qed.

(* consumer_dropped / producer_dropped are exactly "that endpoint was closed or dropped" *)
Theorem C04_spsc_flags : forall cf c k ops,
  let s := reach cf c k ops in
  cdrop s = r_ever s || is_gone (rh s) /\ pdrop s = s_ever s || is_gone (sh s).
Proof. intros cf c k ops. exact (spsc_flags_inv _ (reach_inv cf c k ops)). Qed.

(* ---- the full statement: closed handles reject every form, close is idempotent, Disconnected is
   reported once drained, no value after Disconnected *)
Theorem C04_spsc_full_fixed : C04_full cfg_fixed.
Proof. exact spsc_fixed_C04_full. Qed.

(* ---- refuted on the code as it is, by explicit witnesses (replayed on the implementation by the check) *)
Theorem C04_spsc_full_refuted_repo : ~ C04_full cfg_repo.
Proof. exact spsc_repo_C04_full_refuted. Qed.

Theorem C04_spsc_closed_sender_rejects_refuted_F03 : ~ C04_closed_sender_rejects cfg_repo.
Proof. exact spsc_repo_closed_sender_rejects_refuted_F03. Qed.

Theorem C04_spsc_closed_sender_rejects_refuted_F07 :
  ~ C04_closed_sender_rejects {| fix_f03 := true; fix_conv := false |}.
Proof. exact spsc_repo_closed_sender_rejects_refuted_F07. Qed.

Theorem C04_spsc_closed_sender_rejects_needs_F03_fix :
  ~ C04_closed_sender_rejects {| fix_f03 := false; fix_conv := true |}.
Proof. exact spsc_closed_sender_rejects_needs_f03. Qed.

Theorem C04_spsc_closed_receiver_rejects_refuted_F07 : ~ C04_closed_receiver_rejects cfg_repo.
Proof. exact spsc_repo_closed_receiver_rejects_refuted_F07. Qed.

Theorem C04_spsc_close_idempotent_refuted_F07 : ~ C04_close_idempotent cfg_repo.
Proof. exact spsc_repo_close_idempotent_refuted_F07. Qed.

Theorem C04_spsc_disc_when_drained_refuted_F07 : ~ C04_disc_when_drained cfg_repo.
Proof. exact spsc_repo_disc_when_drained_refuted_F07. Qed.

Theorem C04_spsc_no_value_after_disc_refuted_F03 : ~ C04_no_value_after_disc cfg_repo.
Proof. exact spsc_repo_no_value_after_disc_refuted_F03. Qed.

(* ---- what holds of the code as it is: on every history that never calls sync send_batch on a
   self-closed sender (F-03) and never converts a self-closed handle (F-07) it behaves exactly like the
   repaired code, to which C04_spsc_full_fixed applies *)
Theorem C04_spsc_except_F03_F07 : forall c k ops,
  trig_free (init c k) ops ->
  run cfg_repo (init c k) ops = run cfg_fixed (init c k) ops.
Proof. exact spsc_repo_except_F03_F07. Qed.

(* non-vacuity *)
Example C04_spsc_example_drain_then_disc :
  map fst (run_case cfg_repo 2 KSync [TrySend; TrySend; DropS; TryRecv; TryRecv; TryRecv; TrySend])
  = [ROk; ROk; ROk; RVal 0; RVal 1; RDisc; RGone; RNoFut; RNoFut; RGone; ROk].
Proof. vm_compute. reflexivity. Qed.

Example C04_spsc_example_trig_free :
  trig_free (init 2 KSync) [TrySend; ConvS; CloseS; TrySend; TrySendBatchMut 2; CloseS; TryRecv; ConvR; TryRecv; CloseR].
Proof. vm_compute. repeat split; reflexivity. Qed.

Example C04_spsc_example_F03_witness :
  map fst (run_case cfg_repo 2 KSync [CloseS; SendBatch 2; TryRecv; TryRecv; TryRecv])
  = [ROk; ROkN 2; RVal 0; RVal 1; RDisc; RNoFut; RNoFut; ROk; ROk].
Proof. vm_compute. reflexivity. Qed.

Example C04_spsc_example_F03_fixed :
  map fst (run_case cfg_fixed 2 KSync [CloseS; SendBatch 2; TryRecv; TryRecv; TryRecv])
  = [ROk; RBatchErr 0 [0; 1]; RDisc; RDisc; RDisc; RNoFut; RNoFut; ROk; ROk].
Proof. vm_compute. reflexivity. Qed.
