(* Props/C04_spmc.v — pinned theorems for property C04 (disconnect protocol) on the broadcast SPMC
   channel, K2 model Chan/SpmcOps.v.  fx = false: the code as it is; fx = true: the patched code. *)
From Fibre Require Import Common.Base Chan.SpmcOps Proofs.SpmcOpsProofs.

(* receivers obtain every accepted value before Disconnected: Disconnected comes from a closed handle
   or when producer_dropped is set and the cursor has reached head, and then the receiver's outputs
   are the whole log from its creation position (C07_disconnected_only_when_drained restated) *)
Theorem C04_spmc_drain_then_disconnected : forall fx c a ops s outs r s',
  0 < c -> run fx c a ops = (s, outs) -> step s (TryRecv r) = (s', ODisc r) ->
  exists x, get (rxs s) r = Some x /\ r_live x = true /\
    (r_closed x = true \/
     (pdrop s = true /\ r_cur x = head s /\
      (s_alive s = false \/ s_closed s = true \/ s_taint s = true) /\
      (r_taint x = false -> recvd r outs = slice (log s) (r_start x) (head s)))).
Proof. exact spmc_try_recv_disc. Qed.

(* whatever the receive form (single, batch, timed, poll of a future): a Disconnected result for r
   means r is closed or (producer_dropped and r has nothing left) *)
Theorem C04_spmc_disconnected_means_frozen : forall s o s' x r,
  step s o = (s', x) -> is_disc r x = true -> frozen s r.
Proof. exact step_disc. Qed.

(* Disconnected is final: once a receiver got Disconnected, no later output carries a value for it.
   Full statement refuted on the faithful model (sender re-opened by to_sync/to_async after close),
   proved for the patched model and for histories that never convert/clone a closed handle. *)
Theorem C04_spmc_disc_final_refuted_reopen_tx : ~ spmc_disc_final_full false.
Proof. exact spmc_disc_final_refuted_reopen_tx. Qed.

Theorem C04_spmc_disc_final_fixed : spmc_disc_final_full true.
Proof. exact spmc_disc_final_fixed. Qed.

Theorem C04_spmc_disc_final_except_reopen : forall fx c a ops r,
  0 < c -> clean_from (init fx c a) ops = true -> nvad r false (snd (run fx c a ops)).
Proof. exact spmc_disc_final_clean. Qed.

(* after the last receiver is dropped or closed every send form fails with Closed and hands back the
   values where the error type carries them *)
Theorem C04_spmc_all_receivers_gone : forall fx c a ops s outs,
  0 < c -> run fx c a ops = (s, outs) -> s_alive s = true ->
  (forall r x, get (rxs s) r = Some x -> r_live x = false \/ r_closed x = true) ->
  (forall v, snd (step s (TrySend v)) = OClosedV v) /\
  (forall v, s_async s = false -> snd (step s (Send v)) = OClosed) /\
  (forall vs, vs <> [] -> snd (step s (TrySendB vs)) = OBatch BClosed 0 vs) /\
  (forall vs, vs <> [] -> snd (step s (TrySendM vs)) = OMut false 0 vs) /\
  (forall vs, vs <> [] -> s_async s = false -> snd (step s (SendB vs)) = OBErr 0 vs) /\
  (forall vs, vs <> [] -> s_async s = false -> snd (step s (SendM vs)) = OMut false 0 vs) /\
  snd (step s SObs) = OObs 0 true false true (cap s).
Proof. exact spmc_all_receivers_gone. Qed.

(* closing or dropping one receiver changes no other receiver's outcomes and does not disconnect the
   sender while another receiver is registered *)
Theorem C04_spmc_close_isolated : forall s r x o r',
  get (rxs s) r = Some x -> r_live x = true -> r_closed x = false -> rx_busy s r = false ->
  o = RClose r \/ o = RDrop r -> r' <> r ->
  let s1 := fst (step s o) in
  get (rxs s1) r' = get (rxs s) r' /\
  snd (step s1 (TryRecv r')) = snd (step s (TryRecv r')) /\
  (forall n, snd (step s1 (TryRecvB r' n)) = snd (step s (TryRecvB r' n))) /\
  snd (step s1 (RObs r')) = snd (step s (RObs r')) /\
  (forall x', get (rxs s) r' = Some x' -> r_reg x' = true -> minl (cursors s1) <> None).
Proof. exact spmc_close_isolated. Qed.

(* a closed handle rejects every operation on it (try_recv_batch(0) excepted: it returns Ok(vec![])
   before looking at the flag); the second close reports CloseError *)
Theorem C04_spmc_closed_receiver_rejects : forall s r x,
  get (rxs s) r = Some x -> r_live x = true -> r_closed x = true ->
  step s (TryRecv r) = (s, ODisc r) /\
  (r_async x = false -> step s (Recv r) = (s, ODisc r) /\ step s (RecvT r) = (s, ODisc r)) /\
  (forall n, n <> 0 -> step s (TryRecvB r n) = (s, ODisc r)) /\
  (forall n, n <> 0 -> r_async x = false -> step s (RecvB r n) = (s, ODisc r)) /\
  step s (RClose r) = (s, OCloseErr) /\
  (forall f y w, get (futs s) f = Some y -> f_live y = true -> fut_rx (f_kind y) = Some r ->
                 snd (step s (Poll f w)) = OReady (ODisc r)) /\
  (r_async x = true -> rx_busy s r = false -> forall w, step s (PollNext r w) = (s, OReady ONone)).
Proof. exact spmc_closed_rx_rejects. Qed.

Theorem C04_spmc_closed_sender_rejects : forall s,
  s_alive s = true -> s_closed s = true ->
  (forall v, step s (TrySend v) = (add_drops s [v], OClosedV v)) /\
  (forall v, s_async s = false -> step s (Send v) = (add_drops s [v], OClosed)) /\
  (forall vs, vs <> [] -> step s (TrySendB vs) = (add_drops s vs, OBatch BClosed 0 vs)) /\
  (forall vs, vs <> [] -> step s (TrySendM vs) = (add_drops s vs, OMut false 0 vs)) /\
  (tx_busy s = false -> step s SClose = (s, OCloseErr)) /\
  (forall f y w v, get (futs s) f = Some y -> f_live y = true -> f_kind y = FSend v ->
                   snd (step s (Poll f w)) = OReady OClosed).
Proof. exact spmc_closed_tx_rejects. Qed.

Theorem C04_spmc_close_sets_flag : forall s r s',
  step s (RClose r) = (s', OOk) ->
  exists x x', get (rxs s) r = Some x /\ r_closed x = false /\ get (rxs s') r = Some x' /\
               r_closed x' = true /\ r_reg x' = false.
Proof. exact spmc_close_sets_flag. Qed.

(* close is final: after close() returned Ok on a receiver, no continuation yields a value on it.
   Refuted on the faithful model (to_sync/to_async build the new handle with closed = false), proved
   for the patched model and for continuations that do not convert/clone closed handles. *)
Theorem C04_spmc_close_final_refuted_reopen_rx : ~ spmc_close_final_full false.
Proof. exact spmc_close_final_refuted_reopen_rx. Qed.

Theorem C04_spmc_close_final_fixed : spmc_close_final_full true.
Proof. exact spmc_close_final_fixed. Qed.

Theorem C04_spmc_close_final_except_reopen : forall fx c a ops1 r ops2,
  0 < c -> let s1 := end_of (init fx c a) ops1 in
  snd (step s1 (RClose r)) = OOk -> clean_from (fst (step s1 (RClose r))) ops2 = true ->
  recvd r (outs_from (fst (step s1 (RClose r))) ops2) = [].
Proof. exact spmc_close_final_clean. Qed.

(* non-vacuity *)
Example C04_spmc_example_drain :
  snd (run false 4 false [TrySend 1; TrySend 2; RClone 0 1; SClose; SClose; TrySend 3; TryRecv 0; TryRecv 0;
                          TryRecv 0; RClose 1; RClose 1; TryRecv 1; RDrop 0; RDrop 1; TrySend 4])
  = [OOk; OOk; OOk; OOk; OCloseErr; OClosedV 3; OVal 0 1; OVal 0 2; ODisc 0; OOk; OCloseErr; ODisc 1;
     OOk; OOk; OClosedV 4].
Proof. vm_compute. reflexivity. Qed.

Example C04_spmc_example_reopen :
  snd (run false 2 false [SClose; TryRecv 0; SConv; TrySend 1; TryRecv 0])
  = [OOk; ODisc 0; OOk; OOk; OVal 0 1]
  /\ snd (run true 2 false [SClose; TryRecv 0; SConv; TrySend 1; TryRecv 0])
  = [OOk; ODisc 0; OOk; OClosedV 1; ODisc 0].
Proof. vm_compute. split; reflexivity. Qed.
