(* Props/C06_topic.v — pinned theorems for property C06 (async wake-ups and cancellation), topic flavour.
   Only statements, `exact`, and Examples.

   Ghost (Chan/TopicSpec06.v): for every live RecvFuture, from the calls / results / wakers woken per call:
   did its last poll return Pending (with which waker), was that waker woken since, was its registration
   overwritten by a later Pending poll of ANOTHER future of the same receiver handle.
   `violations6 c async cap h` lists, after every call of history h, each future that is pending, not woken, and
   whose poll would be Ready in the model state (mailbox non-empty or disconnected): a missed wake-up. *)
From Fibre Require Import Common.Base Chan.TopicOps Chan.TopicSpec06 Proofs.TopicC06Proofs.

(** full statement: no missed wake-up, ever.  Refuted (the mailbox has ONE waiter slot): two futures on one
    receiver handle -- finding F-T1, no patch proposed, same with the other patches applied *)
Theorem C06_topic_refuted_FT1 : ~ C06_topic_full pre_fix /\ ~ C06_topic_full post_fix.
Proof. exact c06_refuted_two_futures. Qed.

(** what holds, for all histories and all fix switches: every missed wake-up concerns a future whose
    registration was overwritten by a later Pending poll of another future of the same receiver handle.
    In particular a receiver polled through one future at a time never misses a wake-up, whatever the mix
    of try_recv / recv_timeout / publishes / closes / drops / re-polls with other wakers around it. *)
Theorem C06_topic_except_FT1 : forall c a cap h f b, In (V6Missed f b) (violations6 c a cap h) -> b = true.
Proof. exact c06_except_overwritten. Qed.

(** cancellation: dropping a future changes nothing but the set of live futures (no message lost or duplicated,
    mailbox order untouched, nobody woken); the waker it registered stays in the mailbox's slot and is woken
    (harmlessly) by the next delivery unless another poll replaces it first *)
Theorem C06_topic_drop_future_harmless : forall c s f s1 rs wk,
  step c s (DropF f) = (s1, (rs, wk)) ->
  rxs s1 = rxs s /\ txs s1 = txs s /\ lists s1 = lists s /\ rcount s1 = rcount s /\ wk = [] /\
  forall f' r, In (f', r) (futs s1) -> f' <> f /\ In (f', r) (futs s).
Proof. exact c06_drop_future_harmless. Qed.

Example C06_topic_witness_FT1 :
  violations6 pre_fix true 2 w_two_futures = [V6Missed 0 true; V6Missed 0 true; V6Missed 0 true].
Proof. exact witness_two_futures. Qed.

(* one future at a time, re-polled with a different waker, woken by the publish and by the disconnect *)
Example C06_topic_example :
  snd (run pre_fix true 2
    [Subscribe 0 0; MkRecv 0 0; Poll 0 0; Poll 0 1; Publish 0 0 1; Poll 0 1; Poll 0 2; DropS 0; Poll 0 2])
  = [(ROk, []); (ROk, []); (RPending, []); (RPending, []); (ROk, [1]); (RVal 0 1, []); (RPending, []);
     (ROk, [2]); (RDisc, [])]
  /\ violations6 pre_fix true 2
    [Subscribe 0 0; MkRecv 0 0; Poll 0 0; Poll 0 1; Publish 0 0 1; Poll 0 1; Poll 0 2; DropS 0; Poll 0 2] = [].
Proof. vm_compute. auto. Qed.
