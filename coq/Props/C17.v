(* Props/C17.v — pinned theorems for property C17 (iteration and snapshots).
   Only statements, `exact`, Examples.  Models: Cache/Iter.v, Cache/Snapshot.v. *)
From Fibre Require Import Common.Base Cache.PolicySpec Cache.PolicyLru Cache.Iter Cache.Snapshot
     Proofs.IterProofs Proofs.SnapshotProofs Proofs.RestoreCapacityProofs.

(* ======================================================================== *)
(** 1. iter / iter_with_batch_size / iter_stream (the same cursor loop)      *)

(* At quiescence (frozen clock, unchanged maps), for EVERY shard content in
   EVERY per-shard enumeration order and every batch size >= 1, the cursor
   iteration yields exactly the live entries, each once, with its value, in
   shard order — and never runs out of fuel. *)
Theorem C17_iter : forall (shards : list (list entry)) (tti : option N) (batch : nat) (now : N),
  (1 <= batch)%nat ->
  iterate shards tti batch now = (map item_of (filter (live tti now) (concat shards)), true).
Proof. exact iterate_exact. Qed.

Theorem C17_iter_each_once : forall shards tti batch now,
  (1 <= batch)%nat -> NoDup (map ekey (concat shards)) ->
  let out := fst (iterate shards tti batch now) in
  snd (iterate shards tti batch now) = true
  /\ NoDup (map fst out)
  /\ Permutation out (map item_of (filter (live tti now) (concat shards)))
  /\ forall k v, In (k, v) out <->
       exists e, In e (concat shards) /\ live tti now e = true /\ ekey e = k /\ eval e = v.
Proof. exact iterate_each_once. Qed.

(* The clock may advance between calls of next (clk c = clock during call c).
   What the code guarantees: no key twice; everything yielded was live when the
   iteration began; everything still live when it ended was yielded.  (An entry
   that expires in between may or may not be yielded: expiry is checked when a
   batch is fetched, not when an item is handed out.) *)
Theorem C17_iter_clock : forall shards tti batch (clk : nat -> N),
  (1 <= batch)%nat -> (forall a b, (a <= b)%nat -> clk a <= clk b) ->
  NoDup (map ekey (concat shards)) ->
  exists out, iterate_clk shards tti batch clk = (out, true)
    /\ NoDup (map fst out)
    /\ (forall x, In x out ->
          exists e, In e (concat shards) /\ x = item_of e /\ live tti (clk 0%nat) e = true)
    /\ (forall e, In e (concat shards) -> live tti (clk (length out)) e = true -> In (item_of e) out).
Proof. exact iterate_clock. Qed.

(* the clock schedule the D1 harness uses is monotone *)
Theorem C17_iter_adv_monotone : forall now d K (a b : nat), (a <= b)%nat ->
  now + N.of_nat (Nat.min a K) * d <= now + N.of_nat (Nat.min b K) * d.
Proof. exact adv_mono. Qed.

(* ======================================================================== *)
(** 2. iter_snapshot / iter_snapshot_async                                   *)

(* keys cloned per shard, each fetched through the hash: requires every key to
   sit in the shard its hash selects, once (wf_from 0) *)
Theorem C17_iter_snapshot : forall (tti : option N) (now : N) (shards : list (list entry)),
  wf_from 0 shards ->
  fst (snap_iterate tti now shards) = map item_of (filter (live tti now) (concat shards)).
Proof. exact snap_iterate_exact. Qed.

(* ======================================================================== *)
(** 3. to_snapshot and build_from_snapshot                                   *)

(* to_snapshot lists exactly the live entries, each once (by construction of
   the model, which D1 ties to the code), with value, cost and TTL left *)
Theorem C17_to_snapshot : forall c,
  s_entries (snapshot c)
  = map (pentry_of (c_now c)) (filter (live (c_tti c) (c_now c)) (concat (maps c)))
  /\ s_cap (snapshot c) = c_cap c /\ s_shards (snapshot c) = length (c_shs c).
Proof. intros c. repeat split. Qed.

(* build_from_snapshot of the snapshot's entries in ANY order [ps] (a serialized
   snapshot is a bag of entries; serde/bincode are trusted to return that bag;
   the D1 harness sorts it by key): same key -> (value, cost) mapping as the live
   part of c *)
Theorem C17_snapshot_mapping : forall c ps now' ttl' tti', wf c ->
  Permutation ps (s_entries (snapshot c)) ->
  Permutation (map kvc (concat (maps (restore (mkSnap ps (c_cap c) (length (c_shs c))) now' ttl' tti'))))
              (map kvc (filter (live (c_tti c) (c_now c)) (concat (maps c)))).
Proof. exact restore_mapping. Qed.

(* the two orders that occur: the snapshot as produced, and as the harness reorders it *)
Theorem C17_snapshot_mapping_plain : forall c now' ttl' tti', wf c ->
  Permutation (map kvc (concat (maps (restore (snapshot c) now' ttl' tti'))))
              (map kvc (filter (live (c_tti c) (c_now c)) (concat (maps c)))).
Proof. exact (fun c now' ttl' tti' H => restore_mapping c _ now' ttl' tti' H (Permutation_refl _)). Qed.

Theorem C17_snapshot_mapping_reordered : forall c now' ttl' tti', wf c ->
  Permutation (map kvc (concat (maps (restore (reorder (snapshot c)) now' ttl' tti'))))
              (map kvc (filter (live (c_tti c) (c_now c)) (concat (maps c)))).
Proof. exact (fun c now' ttl' tti' H => restore_mapping c _ now' ttl' tti' H (sort_by_key_perm _)). Qed.

Theorem C17_snapshot_wf : forall c ps now' ttl' tti', wf c ->
  Permutation ps (s_entries (snapshot c)) ->
  wf (restore (mkSnap ps (c_cap c) (length (c_shs c))) now' ttl' tti').
Proof. exact restore_wf. Qed.

Theorem C17_snapshot_all_live : forall c ps now' ttl' tti', wf c ->
  Permutation ps (s_entries (snapshot c)) -> tti' <> Some 0 ->
  forall e', In e' (concat (maps (restore (mkSnap ps (c_cap c) (length (c_shs c))) now' ttl' tti'))) ->
  live tti' now' e' = true.
Proof. exact restore_all_live. Qed.

(* current_cost of the restored cache is the sum of the restored costs *)
Theorem C17_snapshot_cost : forall c ps now' ttl' tti', wf c ->
  Permutation ps (s_entries (snapshot c)) ->
  let c' := restore (mkSnap ps (c_cap c) (length (c_shs c))) now' ttl' tti' in
  c_cost c' = sumN (map ecost (concat (maps c')))
  /\ c_cost c' = sumN (map ecost (filter (live (c_tti c) (c_now c)) (concat (maps c)))).
Proof. exact restore_cost. Qed.

(* the TTL lifetime left is carried over exactly (hence "no longer") *)
Theorem C17_snapshot_ttl : forall c now' tti' e,
  In e (filter (live (c_tti c) (c_now c)) (concat (maps c))) ->
  ttl_left now' (entry_of_p now' tti' (pentry_of (c_now c) e)) = ttl_left (c_now c) e.
Proof. exact restore_ttl. Qed.

(* ... for EVERY configuration of the restoring builder (its own time_to_live ttl'
   and time_to_idle tti' apply to later inserts only): each entry of the restored
   cache stems from a live entry of the original with the same key, value and
   cost and has exactly that entry's TTL left — the persisted remaining TTL wins,
   an entry persisted without a TTL gets none *)
Theorem C17_snapshot_ttl_any_builder : forall c ps now' ttl' tti', wf c ->
  Permutation ps (s_entries (snapshot c)) ->
  forall e', In e' (concat (maps (restore (mkSnap ps (c_cap c) (length (c_shs c))) now' ttl' tti'))) ->
  exists e, In e (filter (live (c_tti c) (c_now c)) (concat (maps c)))
            /\ kvc e' = kvc e /\ ttl_left now' e' = ttl_left (c_now c) e.
Proof. exact restore_ttl_any_builder. Qed.

(* full clause "remaining lifetimes no longer than the originals", all causes of
   expiry: REFUTED — the snapshot does not carry last_accessed, the restore
   stamps it with the restore time, so an idle timeout starts afresh *)
Theorem C17_snapshot_lifetime_refuted_tti : ~ snapshot_lifetime_full.
Proof. exact snapshot_lifetime_refuted. Qed.

(* ... and it holds whenever the original cache has no idle timeout *)
Theorem C17_snapshot_lifetime_except_tti : forall c now' tti' e, c_tti c = None ->
  In e (filter (live (c_tti c) (c_now c)) (concat (maps c))) ->
  ole (life_left tti' now' (entry_of_p now' tti' (pentry_of (c_now c) e)))
      (life_left (c_tti c) (c_now c) e).
Proof. exact (fun c now' tti' => restore_life_no_tti c [] now' None tti'). Qed.

(* since the repair of F-23: the restore admits every restored entry to its
   shard's policy — every resident key is tracked with its cost (hence a possible
   eviction victim), nothing else is, no write is pending, and the cost of
   residents unknown to a policy is 0 *)
Theorem C17_restore_admits_all : forall c ps now' ttl' tti' cp, wf c -> c_cap c = Some cp ->
  Permutation ps (s_entries (snapshot c)) ->
  sumN (map ecost (filter (live (c_tti c) (c_now c)) (concat (maps c)))) < W64 ->
  let c' := restore (mkSnap ps (c_cap c) (length (c_shs c))) now' ttl' tti' in
  Inv c' /\ Forall all_tracked (c_shs c') /\ U (c_shs c') = 0.
Proof. exact Inv_restore. Qed.

(* ======================================================================== *)
(** 4. "from then on honours its capacity like any other cache"              *)

(* any cache state satisfying the accounting invariant, any admissible history
   (inserts, clock, peeks, iterations, fully draining run_maintenance) ending
   in run_maintenance: current_cost is exact, and within capacity unless what
   is left consists of entries the policy was never told about *)
Theorem C17_maint_capacity : forall c cp os,
  Inv c -> c_cap c = Some cp -> ok_run c (os ++ [OMaint]) ->
  let cf := fst (run c (os ++ [OMaint])) in
  c_cost cf = total_res (c_shs cf) /\ (c_cost cf <= cp \/ c_cost cf <= U (c_shs c)).
Proof. exact maint_capacity. Qed.

(* the baseline: a cache built empty always ends within capacity *)
Theorem C17_fresh_capacity : forall n cp ttl tti now os, (0 < n)%nat ->
  let c := new_cache n (Some cp) ttl tti now in
  ok_run c (os ++ [OMaint]) ->
  let cf := fst (run c (os ++ [OMaint])) in
  c_cost cf <= cp /\ c_cost cf = total_res (c_shs cf).
Proof. exact fresh_capacity. Qed.

(* the FULL clause for caches built from a snapshot (code repaired for F-23):
   from any consistent state c — over capacity or not — and any ordering of its
   snapshot, exactly the guarantee of a fresh cache *)
Theorem C17_restored_capacity : restored_capacity_full.
Proof. exact restored_capacity_holds. Qed.

(* ======================================================================== *)
(** non-vacuity                                                              *)

Definition ex_shards : list (list entry) :=
  [ [mkE 8 80 1 0 0; mkE 0 10 1 1005 0; mkE 16 160 1 1003 0];
    [];
    [mkE 2 11 1 0 0; mkE 10 90 2 1020 0];
    [] ].

(* batch 2 over 4 shards, two of them empty, one entry already expired at t=1004 *)
Example C17_example_iter :
  iterate ex_shards None 2 1004 = ([(8, 80); (0, 10); (2, 11); (10, 90)], true)
  /\ fst (snap_iterate None 1004 ex_shards) = [(8, 80); (0, 10); (2, 11); (10, 90)]
  /\ wf_from 0 ex_shards.
Proof.
  split; [vm_compute; reflexivity|]. split; [vm_compute; reflexivity|].
  intros j Hj. cbn [ex_shards length] in Hj.
  destruct j as [|[|[|[|j]]]]; try lia; cbn [nth ex_shards]; (split; [repeat constructor; cbn; intuition discriminate|]);
    intros e He; cbn [In] in He; intuition (subst; reflexivity).
Qed.

(* clock advancing by 1 per call from t=1002; key 16 expires at 1003.  Batch 3: it is
   fetched in the first batch (t=1002) and handed out by the third call, at t=1004,
   after its expiry.  Batch 2: it is reached by the refill at t=1004 and dropped. *)
Example C17_example_iter_clock :
  fst (iterate_adv ex_shards None 3 1002 1 100) = [(8, 80); (0, 10); (16, 160); (2, 11); (10, 90)]
  /\ fst (iterate_adv ex_shards None 2 1002 1 100) = [(8, 80); (0, 10); (2, 11); (10, 90)].
Proof. split; vm_compute; reflexivity. Qed.

(* snapshot at t=1009 of a cache holding an expired, a TTL'd and a plain entry;
   restored 7 ticks later: same mapping, same TTL left, cost 3 *)
Definition ex_cache : cache :=
  fst (run (new_cache 2 (Some 100) None None 1000)
           [OInsTtl 1 11 1 5; OInsTtl 2 12 2 40; OIns 3 13 1; OAdv 9]).

Example C17_example_restore :
  s_entries (snapshot ex_cache) = [mkP 2 12 2 (Some 31); mkP 3 13 1 None]
  /\ c_cost ex_cache = 4
  /\ c_cost (restore (snapshot ex_cache) 1016 None None) = 3
  /\ concat (maps (restore (snapshot ex_cache) 1016 None None)) = [mkE 2 12 2 1047 0; mkE 3 13 1 0 0].
Proof. repeat split; vm_compute; reflexivity. Qed.

(* restoring builder with time_to_live 100: the restored TTL entry keeps its 31 ticks
   (deadline 1016 + 31), the entry without a TTL gets none; a later insert gets 100 *)
Example C17_example_builder_ttl :
  concat (maps (fst (run ex_cache [OSnap 7 (Some 100) None; OIns 5 15 1])))
  = [mkE 2 12 2 1047 0; mkE 3 13 1 0 0; mkE 5 15 1 1116 0].
Proof. vm_compute. reflexivity. Qed.

(* the former witness of F-23 (snapshot taken at cost 12 > capacity 10): the
   restored cache, in either entry order, ends run_maintenance at 8 like the original *)
Example C17_example_former_F23 :
  c_cost w_cap = 12
  /\ c_cost (fst (run w_cap [OMaint])) = 8
  /\ c_cost (fst (run (restore (snapshot w_cap) 1000 None None) [OMaint])) = 8
  /\ c_cost (fst (run (restore (reorder (snapshot w_cap)) 1000 None None) [OMaint])) = 8.
Proof. exact former_F23_witness. Qed.

(* a fresh cache of capacity 10: the hypotheses of C17_fresh_capacity hold for a
   history with an overwrite and an eviction *)
Example C17_example_capacity :
  let c := new_cache 2 (Some 10) None None 1000 in
  let os := [OIns 1 1 4; OIns 2 2 4; OIns 1 3 5; OIns 3 4 4; OMaint; OIns 4 5 3] in
  ok_run c (os ++ [OMaint]) /\ c_cost (fst (run c (os ++ [OMaint]))) = 9.
Proof.
  cbv zeta. split; [solve_ok_run|vm_compute; reflexivity].
Qed.
