(* Props/C04_k3oneshot.v — pinned statements: C04 for oneshot (disconnect protocol), K3 model, every
   number N of sender clones, all programs and all schedules. *)
From Coq Require Import List.
From Fibre Require Import Common.Conc Chan.OneshotK3 Proofs.OneshotK3Base Proofs.OneshotK3Life
  Proofs.OneshotK3Slot Proofs.OneshotK3Vals Proofs.OneshotK3Disc.
Import ListNotations.

(* every cfg: Disconnected is reported on the open receiver handle only after the LAST sender left
   (every sender thread is past its fetch_sub): dropping one of several clones disconnects nothing *)
Theorem C04_k3oneshot_disc_after_last_sender :
  forall C n sprog rp sch,
  let s := fst (run (sys C n sprog rp) (init n rp) sch) in
  dseen s = true -> cnt s = 0 /\ forall t, inr n t -> pre_fsub (spc s t) = false.
Proof.
  intros C n sprog rp sch s. apply (k3_disc_after_last_sender C n sprog rp). exists sch. reflexivity.
Qed.

(* every cfg: the state machine is CLOSED only once one side is entirely gone *)
Theorem C04_k3oneshot_closed_side_gone :
  forall C n sprog rp sch,
  let s := fst (run (sys C n sprog rp) (init n rp) sch) in
  cs s = Closed -> cnt s = 0 \/ rd s = true.
Proof.
  intros C n sprog rp sch s. apply (k3_closed_side_gone C n sprog rp). exists sch. reflexivity.
Qed.

(* every cfg: a send answers Closed(value) only after the receiver was closed / dropped, and channel
   code destroys a value only after that *)
Theorem C04_k3oneshot_closed_err_receiver_gone :
  forall C n sprog rp sch t,
  let s := fst (run (sys C n sprog rp) (init n rp) sch) in
  In (t, SClosedE) (slog s) -> rd s = true.
Proof.
  intros C n sprog rp sch t s. apply (k3_closed_err_receiver_gone C n sprog rp). exists sch. reflexivity.
Qed.

Theorem C04_k3oneshot_drop_only_after_receiver_gone :
  forall C n sprog rp sch,
  let s := fst (run (sys C n sprog rp) (init n rp) sch) in
  drops s <> [] -> rd s = true.
Proof.
  intros C n sprog rp sch s. apply (k3_drop_only_after_receiver_gone C n sprog rp). exists sch. reflexivity.
Qed.

(* repaired code (F-36): Disconnected only once everything ever written has been returned to the
   receiver and the state machine is terminal (TAKEN / CLOSED: no send can succeed any more) *)
Theorem C04_k3oneshot_disc_drained :
  forall C n sprog rp sch, fixA C = true ->
  let s := fst (run (sys C n sprog rp) (init n rp) sch) in
  dseen s = true -> wrote s = returned s /\ (cs s = Taken \/ cs s = Closed) /\ incl (oks s) (returned s).
Proof.
  intros C n sprog rp sch F s. apply (k3_disc_drained C n sprog rp); [exists sch; reflexivity|exact F].
Qed.

(* repaired code: a receiver that observed Disconnected never obtains a value afterwards *)
Theorem C04_k3oneshot_no_value_after_disc :
  forall C n sprog rp sch, fixA C = true ->
  let s := fst (run (sys C n sprog rp) (init n rp) sch) in
  nvad false (rlog s) = true.
Proof.
  intros C n sprog rp sch F s. apply (k3_no_value_after_disc C n sprog rp); [exists sch; reflexivity|exact F].
Qed.

(* the code before the repair: F-36-oneshot (Disconnected while a sent value is pending; a value after
   Disconnected) *)
Theorem C04_k3oneshot_disc_refuted_cfg0 :
  ~ (forall n sprog rp s, reachable (sys cfg0 n sprog rp) s ->
       nvad false (rlog s) = true /\ (dseen s = true -> incl (oks s) (returned s))).
Proof. exact k3_disc_full_refuted_cfg0. Qed.

Example C04_k3oneshot_ex_f36 :
  rlog st_f36 = [RDisc; RVal 1] /\ oks st_f36 = [1] /\ slog st_f36 = [(1, SOk)] /\ nvad false (rlog st_f36) = false.
Proof. exact f36_witness. Qed.
