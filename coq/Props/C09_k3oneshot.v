(* Props/C09_k3oneshot.v — pinned statements: C09 for oneshot (the value is dropped exactly once by
   exactly one owner), K3 model, every cfg, every N, all programs and all schedules. *)
From Coq Require Import List.
From Fibre Require Import Common.Conc Chan.OneshotK3 Proofs.OneshotK3Base Proofs.OneshotK3Life
  Proofs.OneshotK3Slot Proofs.OneshotK3Vals Proofs.OneshotK3Examples.
Import ListNotations.

(* the slot is occupied exactly as the state machine says: never in EMPTY / CLOSED, always in SENT
   (until Drop for OneShotShared has run), in WRITING only after the winner's write, in TAKEN only
   while the unique taker (receiver take / receiver close / last sender) has not emptied it yet *)
Theorem C09_k3oneshot_slot_state :
  forall C n sprog rp sch,
  let s := fst (run (sys C n sprog rp) (init n rp) sch) in
  (cs s = Empty \/ cs s = Closed -> slot s = None) /\
  (cs s = Sent -> slot s <> None \/ shdone s) /\
  (cs s = Writing -> slot s = None \/ exists t, spc s t = SSwap /\ slot s = Some t) /\
  (cs s = Taken -> slot s <> None -> rtaker (rpc s) = true \/ exists t, spc s t = DLock).
Proof.
  intros C n sprog rp sch s. apply (k3_slot_state C n sprog rp). exists sch. reflexivity.
Qed.

(* after teardown the slot is empty and the written value was consumed exactly once: returned to the
   receiver's caller, or destroyed by exactly one of receiver close/drop, last sender, shared drop *)
Theorem C09_k3oneshot_final_accounting :
  forall C n sprog rp sch,
  let s := fst (run (sys C n sprog rp) (init n rp) sch) in
  all_done n s ->
  slot s = None /\ returned s ++ dropped s = wrote s /\ length (returned s) + length (drops s) = length (wrote s).
Proof.
  intros C n sprog rp sch s. apply (k3_final_accounting C n sprog rp). exists sch. reflexivity.
Qed.

Theorem C09_k3oneshot_value_consumed_once :
  forall C n sprog rp sch v,
  let s := fst (run (sys C n sprog rp) (init n rp) sch) in
  all_done n s -> In v (oks s) ->
  (returned s = [v] /\ drops s = []) \/ (returned s = [] /\ exists d, drops s = [(v, d)]).
Proof.
  intros C n sprog rp sch v s. apply (k3_ok_value_consumed_once C n sprog rp). exists sch. reflexivity.
Qed.

(* a value handed back in an error is never touched by the channel's destructors *)
Theorem C09_k3oneshot_handed_back_not_dropped :
  forall C n sprog rp sch t,
  let s := fst (run (sys C n sprog rp) (init n rp) sch) in
  In t (back s) -> ~ In t (wrote s) /\ ~ In t (oks s).
Proof.
  intros C n sprog rp sch t s. apply (k3_failed_send_no_effect C n sprog rp). exists sch. reflexivity.
Qed.

Example C09_k3oneshot_ex :
  rpc st_cl = RDone /\ spc st_cl 1 = SDone /\ rlog st_cl = [RCloseOk] /\ slog st_cl = [(1, SOk)] /\
  drops st_cl = [(1, BySender)] /\ slot st_cl = None /\ got st_cl = [].
Proof. exact ex_sender_cleanup. Qed.
