(* Props/C03_k3mpmc.v — pinned statements: C03 (capacity) for the K3' model of the bounded MPMC
   channel's sync paths (coq/Chan/MpmcK3.v): every capacity, any number of producer / consumer
   threads, every program, every schedule. *)
From Coq Require Import List Arith.
From Fibre Require Import Common.Conc Chan.MpmcK3 Proofs.MpmcK3Base Proofs.MpmcK3Proofs Proofs.MpmcK3Examples.
Import ListNotations.

(* queue_len is the ring length and never exceeds the capacity, in every reachable state *)
Theorem C03_k3mpmc_occupancy :
  forall cap cf th sch,
  let s := fst (run (sys cap cf th) (init th) sch) in
  qlen s = length (q s) /\ length (q s) <= cap.
Proof. intros cap cf th sch s. apply (occupancy cap cf th s). exists sch. reflexivity. Qed.

(* try_send_core answers Full (try_send: hands the value back; send: goes to register and park)
   only from a critical section in which the ring held exactly `cap` values *)
Theorem C03_k3mpmc_full_is_exact :
  forall cap cf th sch,
  let s := fst (run (sys cap cf th) (init th) sch) in
  forall u k, pcs s u = SUnlock k SFull -> lk s = Some u /\ length (q s) = cap.
Proof. intros cap cf th sch s. apply (full_is_exact cap cf th s). exists sch. reflexivity. Qed.

(* non-vacuity: cap 1, the second send finds the ring full and parks; the run completes *)
Example C03_k3mpmc_ex_full :
  q ex_s2 = [(0, 1)] /\ parked ex_s2 0 /\ ws ex_s2 = [(0, 1)].
Proof. destruct ex_signalled_then_full as (_ & _ & _ & A & B & C & _). auto. Qed.
