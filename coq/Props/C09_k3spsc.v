(* Props/C09_k3spsc.v — pinned statements: C09 (slot ownership, teardown) for the K3 SPSC model. *)
From Fibre Require Import Common.Base Common.Conc Chan.SpscK3 Proofs.SpscK3Proofs Proofs.SpscK3Values
  Proofs.SpscK3Examples.

(* In every state of every schedule: no payload cell was ever read while empty or overwritten while
   live (`bad` flag), every cell of the window [lo, hi) (mod phys) holds exactly the payload written
   at that position, every other cell is empty. *)
Theorem C09_k3spsc_slot_ownership :
  forall cap phys pp cp sch, 0 < cap -> cap <= phys ->
  let s := fst (run (sys cap phys pp cp) (init pp cp) sch) in
  bad s = false /\
  (forall j, lo s <= j < hi s -> slots s (j mod phys) = nth_error (written s) (N.to_nat j)) /\
  (forall k, (forall j, lo s <= j < hi s -> j mod phys <> k) -> slots s k = None).
Proof.
  intros cap phys pp cp sch Hc Hp s. apply (slot_ownership cap phys Hc Hp pp cp). exists sch. reflexivity.
Qed.

(* Ring::drop drains exactly the residue: once both threads are done every cell is empty and every
   accepted payload was received or dropped exactly once *)
Theorem C09_k3spsc_teardown :
  forall cap phys pp cp sch, 0 < cap -> cap <= phys ->
  let s := fst (run (sys cap phys pp cp) (init pp cp) sch) in
  ppc s = PDone -> cpc s = CDone ->
  (forall k, slots s k = None) /\ received s ++ dropped s = accepted s.
Proof.
  intros cap phys pp cp sch Hc Hp s. apply (teardown_drains_residue cap phys Hc Hp pp cp). exists sch. reflexivity.
Qed.

Example C09_k3spsc_ex : presults ex_t = [POk 1; POk 2; POk 3; PFull 4; PGone 5] /\ cresults ex_t = [RVal 1] /\
  dropped ex_t = [2; 3] /\ ppc ex_t = PDone /\ cpc ex_t = CDone.
Proof. exact ex_teardown. Qed.
