(* Props/C02_spsc.v — pinned theorems: C02 (FIFO order) for the bounded SPSC channel (K2 model). *)
From Coq Require Import List Arith.
From Fibre Require Import Chan.SpscOps Proofs.SpscOpsProofs Proofs.SpscOpsTheorems.
Import ListNotations.
Open Scope nat_scope.

(* for every history: the values returned by all receive forms, in order, followed by what is still
   buffered (or was drained at teardown), are exactly the ids in the order their sends were accepted *)
Theorem C02_spsc_fifo : forall cf c k ops,
  let s := reach cf c k ops in
  accepted s = all_vals (snd (run cf (init c k) ops)) ++ q s ++ drained s.
Proof. exact spsc_fifo. Qed.

(* forward simulation to the FIFO specification, step by step: what an op returns is the front of the
   queue, what it accepts goes to the back, batches in order *)
Theorem C02_spsc_step_refines_fifo : forall cf s o,
  Inv s -> alive (fst (step cf s o)) = true ->
  exists pushed,
    accepted (fst (step cf s o)) = accepted s ++ pushed /\
    q s ++ pushed = vals_of (res_of (step cf s o)) ++ q (fst (step cf s o)).
Proof. exact spsc_step_fifo. Qed.

Theorem C02_spsc_inv_reachable : forall cf c k ops, Inv (reach cf c k ops).
Proof. exact reach_inv. Qed.

(* non-vacuity: single and batch forms mixed over a wrapping ring of capacity 3 *)
Example C02_spsc_example :
  all_vals (run_case cfg_repo 3 KAsync
    [TrySendBatch 2; TryRecv; MkSendBatch 4; PollS 0; TryRecvBatch 2; PollS 0; TryRecvBatch 9; StreamNext 1])
  = [0; 1; 2; 3; 4; 5].
Proof. vm_compute. reflexivity. Qed.
