(* Props/C04_k3mpmc.v — pinned statements: C04 (straggler / disconnect protocol) for the K3' model
   of the bounded MPMC channel's sync paths: any number of threads, every program, every schedule. *)
From Coq Require Import List Arith.
From Fibre Require Import Common.Conc Chan.MpmcK3 Proofs.MpmcK3Base Proofs.MpmcK3Life Proofs.MpmcK3Examples.
Import ListNotations.

(* sender_count / receiver_count = the number of producer / consumer threads whose handle has not
   yet been closed under the lock (for every thread count) *)
Theorem C04_k3mpmc_counts :
  forall cap cf th sch,
  let s := fst (run (sys cap cf th) (init th) sch) in
  scnt s = cnt (alive_p s) (length th) /\ rcnt s = cnt (alive_c s) (length th).
Proof. intros cap cf th sch s. apply (counts cap cf th s). exists sch. reflexivity. Qed.

(* with the F-08 repair (re-drain after a close wake-up): a receiver is told Disconnected only
   from a critical section in which the ring was empty and sender_count = 0 (`discbad` is the
   ghost that records a Disconnected answer given in any other state) *)
Theorem C04_k3mpmc_disconnected_is_justified :
  forall cap cf th sch, redrain_on_close cf = true ->
  let s := fst (run (sys cap cf th) (init th) sch) in
  discbad s = false /\
  (forall u k, pcs s u = RUnlock k RDisc -> lk s = Some u /\ q s = [] /\ scnt s = 0) /\
  (forall u tm, pcs s u = RRegUnlock tm GoClosed -> lk s = Some u /\ q s = [] /\ scnt s = 0).
Proof.
  intros cap cf th sch Hcf s. apply (disconnected_is_justified cap cf th s); [|exact Hcf]. exists sch. reflexivity.
Qed.

(* ... and such a state is final: no continuation of the schedule ever puts a value into the ring
   again, so no receiver obtains a value after a (justified) Disconnected *)
Theorem C04_k3mpmc_disconnected_is_final :
  forall cap cf th sch sch',
  let s := fst (run (sys cap cf th) (init th) sch) in
  q s = [] -> scnt s = 0 ->
  let s' := fst (run (sys cap cf th) s sch') in q s' = [] /\ scnt s' = 0.
Proof.
  intros cap cf th sch sch' s Hq Hs. apply (disconnected_is_final cap cf th s); [|exact Hq|exact Hs]. exists sch. reflexivity.
Qed.

(* regression witness (F-08, /repo commit ed6cbe3): with the re-drain switched off the statement
   fails - a receiver woken by the last sender's close answers Disconnected while the value handed
   to the other receiver is still buffered *)
Theorem C04_k3mpmc_refuted_without_redrain :
  ~ (forall cap th sch, discbad (fst (run (sys cap (mkCfg true false) th) (init th) sch)) = false).
Proof.
  intros H. specialize (H 1 w08_th w08_sch). vm_compute in H. discriminate H.
Qed.

Example C04_k3mpmc_ex_with_redrain : discbad (w08 cfg_fixed) = false.
Proof. exact w08_with_redrain. Qed.
