(* Props/C06_mpmcb.v — pinned theorems for property C06 (async wake-ups and cancellation) on the
   bounded MPMC K2 model (SendFuture / RecvFuture: create, poll with a waker id, drop).
   pw_r / pw_s count registered futures whose last poll returned Pending and that have not been woken
   since (state byte WAITING); pi_r / pi_s count registered futures that have been woken and not
   polled since (state byte SUCCESS_SPACE). *)
From Fibre Require Import Common.Base Chan.MpmcB Proofs.MpmcBBase Proofs.MpmcBInv Proofs.MpmcBStep Proofs.MpmcBProofs.

(** wake accounting, for every history: if a receiver is parked-unwoken while the buffer is non-empty,
    a woken receiver is on its way (same for senders and free slots); disconnection leaves nobody
    parked-unwoken — F-06, F-12 *)
Theorem C06_mpmcb_wake_except_F06_F12 : forall c a f os, wake_ok (state_after c a f os).
Proof. exact wake_except. Qed.

Theorem C06_mpmcb_wake_refuted_F12 : ~ wake_full no_fixes.
Proof. exact wake_refuted_F12. Qed.

Theorem C06_mpmcb_wake_refuted_F06 : ~ wake_full no_fixes.
Proof. exact wake_refuted_F06. Qed.

Theorem C06_mpmcb_wake_fixed : forall f, fx06 f = true -> fx12 f = true -> wake_full f.
Proof. exact wake_fixed. Qed.

(** no registration points at a future that has completed or been dropped — F-06 *)
Theorem C06_mpmcb_no_dangling_except_F06 : forall c a f os, no_dangling (state_after c a f os).
Proof. exact no_dangling_except. Qed.

Theorem C06_mpmcb_no_dangling_refuted_F06 : ~ no_dangling_full no_fixes.
Proof. exact no_dangling_refuted_F06. Qed.

Theorem C06_mpmcb_bad_write_witness_F06 :
  o_bad (snd (step (state_after 2 true no_fixes
                      [Clone 1 2; MkRecv 10 1; MkRecv 11 2; Poll 10 100; Poll 11 101; TrySend 0; Poll 11 101; DropF 11])
                   (TrySend 0))) = true.
Proof. exact bad_write_witness_F06. Qed.

Theorem C06_mpmcb_no_dangling_fixed : forall f, fx06 f = true -> no_dangling_full f.
Proof. exact no_dangling_fixed. Qed.

(** a registered future that is still WAITING always has its waiter queued (it cannot be forgotten),
    and dropping a future leaves no registration of it behind *)
Theorem C06_mpmcb_registered_queued : forall c a f os fid x,
  let s := state_after c a f os in
  getF fid s = Some x -> f_reg x = true -> is_waiting (f_state x) = true ->
  In fid (akeys (if f_recv x then arq s else asq s)).
Proof. intros c a f os fid x. apply Inv_registered_queued, Inv_reachable. Qed.

Theorem C06_mpmcb_drop_unlinks : forall c a f os fid x,
  let s := state_after c a f os in
  getF fid s = Some x -> f_live x = true ->
  let s' := fst (step s (DropF fid)) in
  ~ In fid (akeys (asq s')) /\ (t06 (tn s') = false -> ~ In fid (akeys (arq s'))).
Proof. exact P_dropf_unlinked. Qed.

(** cancelling a future at any point preserves conservation and FIFO order: those are invariants of
    every step (C01_mpmcb_conservation, C02_mpmcb_fifo quantify over histories containing DropF) *)
Theorem C06_mpmcb_cancel_preserves : forall c a f os fid,
  let s := fst (step (state_after c a f os) (DropF fid)) in
  conservation s /\ acc s = recvd s ++ q s.
Proof.
  intros c a f os fid. cbv zeta.
  pose proof (Inv_step _ (DropF fid) (Inv_reachable c a f os)) as H.
  split; [apply Inv_conservation; exact H | apply (d_fifo _ _ (proj1 H))].
Qed.

(* non-vacuity: cap 1, two parked senders, a receive wakes the first; re-poll with another waker; the
   second is woken by the next receive *)
Example C06_mpmcb_example :
  map (fun o => (o_res o, o_wakes o))
      (snd (run (init 1 true no_fixes)
        [TrySend 0; Clone 0 2; MkSend 10 0; MkSend 11 2; Poll 10 100; Poll 11 101; Poll 11 201; TryRecv 1;
         Poll 10 100; TryRecv 1; Poll 11 201]))
  = [(ROk, []); (ROk, []); (ROk, []); (ROk, []); (RPending, []); (RPending, []); (RPending, []);
     (RVal 0, [100]); (RReadyOk, []); (RVal 1, [201]); (RReadyOk, [])].
Proof. vm_compute. reflexivity. Qed.

(* the F-12 history on the faithful and on the repaired model: the dropped woken sender passes the wake on *)
Example C06_mpmcb_example_F12 :
  map o_wakes (snd (run (init 1 true no_fixes)
        [TrySend 0; Clone 0 2; MkSend 10 0; MkSend 11 2; Poll 10 100; Poll 11 101; TryRecv 1; DropF 10]))
  = [[]; []; []; []; []; []; [100]; []]
  /\ map o_wakes (snd (run (init 1 true all_fixes)
        [TrySend 0; Clone 0 2; MkSend 10 0; MkSend 11 2; Poll 10 100; Poll 11 101; TryRecv 1; DropF 10]))
  = [[]; []; []; []; []; []; [100]; [101]].
Proof. vm_compute. split; reflexivity. Qed.
