(* Props/C03_oneshot.v — pinned theorems: C03 for fibre::oneshot — only the first send ever succeeds. *)
From Coq Require Import List Arith.
From Fibre Require Import Chan.OneshotOps Proofs.OneshotOpsProofs Proofs.OneshotOpsTheorems.
Import ListNotations.
Open Scope nat_scope.

(* a send succeeds exactly when its handle is open, the receiver is there and nothing was sent before *)
Theorem C03_oneshot_send_ok_iff : forall cf s h,
  ores_of (ostep cf s (OSend h)) = OOk <->
  (find_h h (snd_h s) = Some false /\ rdrop s = false /\ ostate s = OEmpty).
Proof. exact oneshot_send_ok_iff. Qed.

(* in every history, after one send has succeeded no later send (through any clone) succeeds *)
Theorem C03_oneshot_only_first_send : forall cf ops1 h1 ops2 h2,
  ores_of (ostep cf (oreach cf ops1) (OSend h1)) = OOk ->
  ores_of (ostep cf (oreach cf (ops1 ++ OSend h1 :: ops2)) (OSend h2)) <> OOk.
Proof. exact oneshot_only_first_send. Qed.

Theorem C03_oneshot_at_most_one_accepted : forall cf ops,
  let s := oreach cf ops in
  NoDup (orecv s) /\ (orecv s = [] \/ orecv s = oacc s) /\ length (oacc s) <= 1.
Proof. exact oneshot_received_once. Qed.

Example C03_oneshot_example :
  map fst (orun_case ocfg_repo [OClone 0; OClone 0; OSend 1; OSend 0; OTryRecv; OSend 2])
  = [OOk; OOk; OOk; OSentV 1; OVal 0; OSentV 2; OOk].
Proof. vm_compute. reflexivity. Qed.
