(* Props/C01_k3ticket.v — pinned statements: C01 (exactly-once delivery, failed operations have no
   effect) for the K3 model of the bounded MPSC ticket protocol (mpsc::bounded_v3), for every
   capacity, chunk size, table size, cadence, number of producers, programs and schedule. *)
From Fibre Require Import Common.Base Common.Conc Chan.TicketK3 Proofs.TicketK3Base Proofs.TicketK3Values
  Proofs.TicketK3Theorems Proofs.TicketK3Examples.

(* conservation: the accepted payloads (SET tickets, in ticket order) are exactly the ones the
   consumer has taken followed by the ones still buffered; nothing is lost, nothing invented *)
Theorem C01_k3ticket_conservation :
  forall cap cc n kk np pp cp sch, 0 < cc -> 0 < n ->
  let s := fst (Conc.run (sys cap cc n kk np pp cp) (init np pp cp) sch) in
  accepted s = received s ++ vals_in s (rpos s) (gtail s).
Proof.
  intros cap cc n kk np pp cp sch Hcc Hn s. apply (accepted_is_received_then_buffered cap cc n kk np Hcc Hn pp cp). exists sch. reflexivity.
Qed.

(* exactly once: no payload is taken twice, no payload is accepted twice *)
Theorem C01_k3ticket_no_duplicate :
  forall cap cc n kk np pp cp sch, 0 < cc -> 0 < n ->
  let s := fst (Conc.run (sys cap cc n kk np pp cp) (init np pp cp) sch) in
  NoDup (received s) /\ NoDup (accepted s).
Proof.
  intros cap cc n kk np pp cp sch Hcc Hn s.
  assert (Hr : reachable (sys cap cc n kk np pp cp) s) by (exists sch; reflexivity).
  split; [exact (received_nodup cap cc n kk np Hcc Hn pp cp s Hr) | exact (accepted_nodup cap cc n kk np Hcc Hn pp cp s Hr)].
Qed.

(* API level: what the receive calls returned (+ the payloads in the consumer's hand) is what was taken *)
Theorem C01_k3ticket_got_is_received :
  forall cap cc n kk np pp cp sch, 0 < cc -> 0 < n ->
  let s := fst (Conc.run (sys cap cc n kk np pp cp) (init np pp cp) sch) in
  got s ++ chand s = received s.
Proof.
  intros cap cc n kk np pp cp sch Hcc Hn s. apply (got_is_received cap cc n kk np Hcc Hn pp cp). exists sch. reflexivity.
Qed.

(* API level: a try_send that returned Ok put its payload into the channel; every payload in the
   channel belongs to such a call, or to one whose SET store is done and that is about to return Ok *)
Theorem C01_k3ticket_sent_ok_accepted :
  forall cap cc n kk np pp cp sch th v, 0 < cc -> 0 < n ->
  let s := fst (Conc.run (sys cap cc n kk np pp cp) (init np pp cp) sch) in
  In v (sent_ok s th) -> In v (accepted s).
Proof.
  intros cap cc n kk np pp cp sch th v Hcc Hn s. apply (sent_ok_is_accepted cap cc n kk np Hcc Hn pp cp). exists sch. reflexivity.
Qed.

Theorem C01_k3ticket_accepted_sent_or_in_flight :
  forall cap cc n kk np pp cp sch th k, 0 < cc -> 0 < n ->
  let s := fst (Conc.run (sys cap cc n kk np pp cp) (init np pp cp) sch) in
  In (th, k) (accepted s) -> In (th, k) (sent_ok s th) \/ (pseq s th < k <= pseq s th + done_of (ppc s th)).
Proof.
  intros cap cc n kk np pp cp sch th k Hcc Hn s. apply (accepted_is_sent_or_in_flight cap cc n kk np Hcc Hn pp cp). exists sch. reflexivity.
Qed.

Theorem C01_k3ticket_in_flight_accepted :
  forall cap cc n kk np pp cp sch th i, 0 < cc -> 0 < n ->
  let s := fst (Conc.run (sys cap cc n kk np pp cp) (init np pp cp) sch) in
  i < done_of (ppc s th) -> In (th, pseq s th + 1 + i) (accepted s).
Proof.
  intros cap cc n kk np pp cp sch th i Hcc Hn s. apply (in_flight_is_accepted cap cc n kk np Hcc Hn pp cp). exists sch. reflexivity.
Qed.

(* a try_send / an item of a try_send_batch that was answered Full (or Closed) was handed back and
   left no SET in the channel *)
Theorem C01_k3ticket_failed_send_no_effect :
  forall cap cc n kk np pp cp sch th v, 0 < cc -> 0 < n ->
  let s := fst (Conc.run (sys cap cc n kk np pp cp) (init np pp cp) sch) in
  In v (failed s th) -> ~ In v (accepted s).
Proof.
  intros cap cc n kk np pp cp sch th v Hcc Hn s. apply (failed_send_no_effect cap cc n kk np Hcc Hn pp cp). exists sch. reflexivity.
Qed.

(* every call of a producer returns one result carrying its own op number *)
Theorem C01_k3ticket_results_are_own_ops :
  forall cap cc n kk np pp cp sch th r, 0 < cc -> 0 < n ->
  let s := fst (Conc.run (sys cap cc n kk np pp cp) (init np pp cp) sch) in
  In r (presl s th) ->
  exists k, 1 <= k <= pseq s th /\ (r = POk (th, k) \/ r = PFull (th, k) \/ r = PClosed (th, k)).
Proof.
  intros cap cc n kk np pp cp sch th r Hcc Hn s. apply (results_are_own_ops cap cc n kk np Hcc Hn pp cp). exists sch. reflexivity.
Qed.

(* a SKIP tombstone never carries a payload *)
Theorem C01_k3ticket_skip_has_no_payload :
  forall cap cc n kk np pp cp sch j i, 0 < cc -> 0 < n ->
  let s := fst (Conc.run (sys cap cc n kk np pp cp) (init np pp cp) sch) in
  j < n -> i < cc -> sstate s (j * cc + i) = sSKIP -> sdata s (j * cc + i) = None.
Proof.
  intros cap cc n kk np pp cp sch j i Hcc Hn s. apply (skip_has_no_payload cap cc n kk np Hcc Hn pp cp). exists sch. reflexivity.
Qed.

Example C01_k3ticket_ex :
  presl ex_s 0 = [POk (0%nat, 1); PFull (0%nat, 2); POk (0%nat, 3); POk (0%nat, 4); PFull (0%nat, 5)] /\
  presl ex_s 1 = [PFull (1%nat, 1); PFull (1%nat, 2); POk (1%nat, 3); PClosed (1%nat, 4); PClosed (1%nat, 5)] /\
  got ex_s = [(0%nat, 1); (0%nat, 3); (1%nat, 3)] /\
  ppc ex_s 0 = PDone /\ ppc ex_s 1 = PDone /\ cpc ex_s = CDone.
Proof. exact ex_results. Qed.

Example C01_k3ticket_ex_batch :
  presl exb_s 0 = [POk (0%nat, 1); POk (0%nat, 2); PFull (0%nat, 3); PFull (0%nat, 4); PFull (0%nat, 5);
                   POk (0%nat, 6); POk (0%nat, 7)] /\
  cresl exb_s = [REmpty; RVal (0%nat, 1); RVal (0%nat, 2); REmpty; REmpty; RVal (0%nat, 6); RVal (0%nat, 7); RDisc; RDisc; RDisc] /\
  tk exb_s 2 = TSkip /\ tk exb_s 3 = TSkip /\ ids exb_s 0 = 2 /\ bad exb_s = false.
Proof. pose proof exb_results as H. tauto. Qed.
