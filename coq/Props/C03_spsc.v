(* Props/C03_spsc.v — pinned theorems: C03 (capacity) for the bounded SPSC channel (K2 model). *)
From Coq Require Import List Arith Bool.
From Fibre Require Import Chan.SpscOps Proofs.SpscOpsProofs Proofs.SpscOpsTheorems.
Import ListNotations.
Open Scope nat_scope.

(* never more than the requested capacity buffered, for every history (the logical capacity, whatever
   power of two the physical ring was rounded to) *)
Theorem C03_spsc_len_le_cap : forall cf c k ops,
  let s := reach cf c k ops in length (q s) <= c.
Proof. exact spsc_len_le_cap. Qed.

(* try_send succeeds exactly when the channel is neither full nor closed/disconnected *)
Theorem C03_spsc_try_send_iff : forall cf s k c,
  sh s = HLive k c -> sf s = None ->
  (res_of (step cf s TrySend) = ROk <-> (length (q s) < cap s /\ c = false /\ cdrop s = false)).
Proof. exact spsc_try_send_iff. Qed.

(* len / is_empty / is_full / capacity are exact *)
Theorem C03_spsc_observers : forall cf s k c,
  sh s = HLive k c -> sf s = None ->
  res_of (step cf s ObsS) =
    RObs (length (q s)) (length (q s) =? 0) (cap s <=? length (q s)) (c || cdrop s) (cap s).
Proof. exact spsc_observers. Qed.

(* a pending async send is pending because the channel is full (it never overwrites or drops):
   if it is not yet woken, the ring holds exactly `cap` values *)
Theorem C03_spsc_pending_send_means_full : forall cf c k ops w,
  let s := reach cf c k ops in
  s_pend s = Some w -> s_woken s = false -> length (q s) = cap s.
Proof. exact spsc_pending_send_means_full. Qed.

Example C03_spsc_example :
  map fst (run_case cfg_repo 2 KSync [TrySend; ObsS; TrySend; ObsS; TrySend; TryRecv; TrySend; ObsR])
  = [ROk; RObs 1 false false false 2; ROk; RObs 2 false true false 2; RFull 2; RVal 0; ROk;
     RObs 2 false true false 2; RNoFut; RNoFut; ROk; ROk].
Proof. vm_compute. reflexivity. Qed.
