(* Props/C20_enc.v — pinned theorems for the ENCODER half of property C20
   (JSON-lines records are one valid line that round-trips; the pattern encoder renders every
   event and reproduces the message verbatim).  Only statements, `exact`, Examples.
   The rolling-file half of C20 lives elsewhere. *)
From Fibre Require Import Common.Base Log.Json Log.Pattern Proofs.JsonProofs Proofs.PatternProofs.
Open Scope N_scope.

(** * JSON string escaping (serde_json's rules), for ALL byte lists *)

(* (a) decode . encode = id *)
Theorem C20_json_escape_roundtrip : forall s : list N, unescape (escape s) = Some s.
Proof. exact unescape_escape. Qed.

(* (b) a reader scanning  quote ++ escape s ++ quote ++ rest  consumes exactly the literal: no
   unescaped quote inside, no early termination, whatever follows *)
Theorem C20_json_escape_scanned : forall (s rest : list N),
  scan_str (escape s ++ 34 :: rest) = Some (s, rest).
Proof. exact scan_escape. Qed.

(* (b) no raw byte below 0x20 — in particular no raw newline / carriage return *)
Theorem C20_json_escape_no_control : forall (s : list N) x, In x (escape s) -> 32 <= x.
Proof. exact escape_no_control. Qed.

Theorem C20_json_escape_no_newline : forall s : list N, ~ In 10 (escape s).
Proof. exact escape_no_newline. Qed.

(* bytes stay bytes, and the non-ASCII bytes (all bytes of multi-byte UTF-8 sequences) are passed
   through unchanged and in order; only ASCII is inserted *)
Theorem C20_json_escape_bytes : forall s, Forall (fun b => b < 256) s -> Forall (fun b => b < 256) (escape s).
Proof. exact escape_bytes. Qed.

Theorem C20_json_escape_high_bytes : forall s,
  filter (fun b => 128 <=? b) (escape s) = filter (fun b => 128 <=? b) s.
Proof. exact escape_high_bytes. Qed.

(** * the record *)

(* (c) exactly one line: body ++ newline, and the body has no byte < 0x20 at all *)
Theorem C20_json_one_line : forall flat ev, fields_ok ev ->
  exists body, render flat ev = body ++ [10] /\ forall x, In x body -> 32 <= x.
Proof. exact render_one_line. Qed.

(* (c) the model reader parses the line back to exactly the assembled key/value map *)
Theorem C20_json_parse_back : forall flat ev, fields_ok ev ->
  parse_line (render flat ev) = Some (assemble flat ev).
Proof. exact parse_render. Qed.

(* keys are strictly increasing (BTreeMap order): no duplicate key in the object *)
Theorem C20_json_keys_sorted : forall flat ev, keys_sorted (assemble flat ev).
Proof. exact assemble_sorted. Qed.

Theorem C20_json_keys_unique : forall flat ev, NoDup (map fst (assemble flat ev)).
Proof. intros flat ev. apply keys_sorted_NoDup, assemble_sorted. Qed.

(* (c) level, target, timestamp text, name and — when present — message, span/parent/thread ids
   round-trip in both modes, for arbitrary strings *)
Theorem C20_json_core_roundtrip : forall flat ev, fields_ok ev ->
  exists m, parse_line (render flat ev) = Some m
    /\ get_str K_level m = Some (level_str (e_level ev))
    /\ get_str K_target m = Some (e_target ev)
    /\ get_str K_timestamp m = Some (e_ts ev)
    /\ get_str K_name m = Some (e_name ev)
    /\ (forall s, e_message ev = Some s -> get_str K_message m = Some s)
    /\ (forall s, e_span ev = Some s -> get_str K_span_id m = Some s)
    /\ (forall s, e_parent ev = Some s -> get_str K_parent_id m = Some s)
    /\ (forall s, e_tid ev = Some s -> get_str K_thread_id m = Some s)
    /\ (forall s, e_tname ev = Some s -> get_str K_thread_name m = Some s).
Proof. exact core_roundtrip. Qed.

(* (c) custom fields.  The full statement: *)
Definition C20_json_fields_full : Prop :=
  forall flat ev, fields_ok ev -> forall k v, In (k, v) (e_fields ev) ->
  exists m, parse_line (render flat ev) = Some m /\ get_field flat k m = Some (atom_of v).

(* ... is FALSE of the code (finding F-27): flatten mode, a custom field named like a core key *)
Theorem C20_json_fields_refuted_F27 : ~ C20_json_fields_full.
Proof. exact fields_roundtrip_refuted. Qed.

(* ... and holds whenever the field's name does not collide with a core key of that record
   (always, in nested mode) *)
Theorem C20_json_fields_except_F27 : forall flat ev, fields_ok ev ->
  forall k v, In (k, v) (e_fields ev) ->
  (flat = true -> bt_mem k (core_map ev) = false) ->
  exists m, parse_line (render flat ev) = Some m /\ get_field flat k m = Some (atom_of v).
Proof. exact fields_roundtrip_except_collision. Qed.

Theorem C20_json_fields_nested : forall ev, fields_ok ev ->
  forall k v, In (k, v) (e_fields ev) ->
  exists m, parse_line (render false ev) = Some m /\ get_field false k m = Some (atom_of v).
Proof. exact fields_roundtrip_nested. Qed.

(* the hypothesis of _except_F27 holds for every name outside the nine core key names *)
Theorem C20_json_no_collision_outside_core : forall ev k,
  ~ In k [K_timestamp; K_level; K_target; K_message; K_name; K_span_id; K_parent_id; K_thread_id; K_thread_name] ->
  bt_mem k (core_map ev) = false.
Proof. exact not_core_key_no_collision. Qed.

(* F-27 characterised: on a collision the reader sees the core value, whatever the field held *)
Theorem C20_json_collision_keeps_core : forall ev k x,
  bt_lookup k (core_map ev) = Some x -> bt_lookup k (assemble true ev) = Some x.
Proof. exact flatten_collision_drops. Qed.

(* nothing is invented *)
Theorem C20_json_flatten_no_junk : forall ev k x, bt_lookup k (assemble true ev) = Some x ->
  bt_lookup k (core_map ev) = Some x \/ exists v, In (k, v) (e_fields ev) /\ x = JAtom (atom_of v).
Proof. exact flatten_no_junk. Qed.

Theorem C20_json_nested_no_junk : forall fs k a, bt_lookup k (nested_obj fs) = Some a ->
  exists v, In (k, v) fs /\ a = atom_of v.
Proof. exact nested_no_junk. Qed.

(* integer fields: the decimal token written for an i64 reads back as that integer *)
Theorem C20_json_int_roundtrip : forall z : Z, undec_Z (dec_Z z) = z.
Proof. exact undec_dec_Z. Qed.

Theorem C20_json_int_injective : forall a b : Z, dec_Z a = dec_Z b -> a = b.
Proof. exact dec_Z_inj. Qed.

(** * the pattern encoder *)

(* padding never truncates: the content is a prefix or a suffix of the padded text, the rest is spaces *)
Theorem C20_pattern_padding_never_truncates : forall content p out,
  apply_padding content p = Rendered out ->
  exists fill, Forall (fun b => b = 32) fill /\ (out = fill ++ content \/ out = content ++ fill).
Proof. exact padding_never_truncates. Qed.

Theorem C20_pattern_padding_length : forall content p out,
  apply_padding content p = Rendered out -> (length content <= length out)%nat.
Proof. exact padding_length. Qed.

Theorem C20_pattern_padding_width : forall content p out,
  apply_padding content p = Rendered out -> len content < Z.abs_N p -> nchars out = Z.abs_N p.
Proof. exact padding_width. Qed.

(* totality.  The full statement: every event renders under every pattern string *)
Definition C20_pattern_total_full : Prop :=
  forall ev pat, exists out, format_pattern pat ev = Rendered out.

(* ... is FALSE of the code on the current toolchain (finding F-33): %65536m panics *)
Theorem C20_pattern_total_refuted_F33 : ~ C20_pattern_total_full.
Proof. exact format_total_refuted. Qed.

(* ... and holds for every pattern whose padding widths are at most 65535 *)
Theorem C20_pattern_total_except_F33 : forall ev pat,
  (forall c p o, In (Spec c (Some p) o) (scan_pattern pat) -> (Z.abs p <= 65535)%Z) ->
  exists out, format_pattern pat ev = Rendered out.
Proof. intros ev pat H. apply format_total_small_pads. exact H. Qed.

(* exactly when a padding panics *)
Theorem C20_pattern_padding_panics_iff : forall content p,
  apply_padding content p = Panicked <-> (len content < Z.abs_N p /\ 65535 < Z.abs_N p).
Proof. exact padding_panics_iff. Qed.

(* the message is reproduced verbatim (contiguous) whenever the parsed pattern has a %m segment,
   with any padding / options; likewise level and target *)
Theorem C20_pattern_message_verbatim : forall ev pat p o out,
  In (Spec 109 p o) (scan_pattern pat) -> format_pattern pat ev = Rendered out ->
  exists pre post, out = pre ++ opt_bytes (e_message ev) ++ post.
Proof. intros ev pat p o out. apply message_verbatim. Qed.

Theorem C20_pattern_level_target_verbatim : forall ev segs p o out,
  format_segs ev segs = Rendered out ->
  ((In (Spec 112 p o) segs \/ In (Spec 108 p o) segs) -> contains out (level_str (e_level ev)))
  /\ (In (Spec 116 p o) segs -> contains out (e_target ev)).
Proof. exact level_target_verbatim. Qed.

Theorem C20_pattern_ends_newline : forall ev segs out, format_segs ev segs = Rendered out ->
  exists body, out = body ++ [10].
Proof. exact format_ends_newline. Qed.

(* a pattern without any % is one literal, rendered verbatim *)
Theorem C20_pattern_literal : forall pat ev, ~ In 37 pat -> pat <> [] ->
  scan_pattern pat = [Lit pat]
  /\ format_pattern pat ev = Rendered (if ends_nl pat then pat else pat ++ [10]).
Proof. exact literal_pattern. Qed.

(** * non-vacuity: concrete cases (the byte strings are what the real encoders print; D1 compares) *)

(* message: q, quote, b, backslash, newline, U+0001, e-acute; one string field (v, quote), one integer field *)
Definition ex_event : event :=
  mkEvent [50; 48; 50; 51] [] Info [116] [110]
    (Some [113; 34; 98; 92; 10; 1; 195; 169]) None None None (Some [109; 97; 105; 110])
    [([107], VStr [118; 34]); ([105], VInt (-5))].

Example C20_example_fields_ok : fields_ok ex_event.
Proof. split; [cbn; repeat constructor; cbn; intuition discriminate|reflexivity]. Qed.

(* the JSON text of the nested record: fields object first (i:-5, k:v\quote), then level, message
   (escaped as q\quote b\\ \n \u0001 and the two raw UTF-8 bytes of e-acute), name, target, thread_name,
   timestamp — byte for byte what JsonLinesFormatter prints for this event *)
Example C20_example_render_nested :
  render false ex_event =
  [123; 34; 102; 105; 101; 108; 100; 115; 34; 58; 123; 34; 105; 34; 58; 45; 53; 44; 34; 107; 34; 58; 34; 118; 92; 34; 34; 125; 44;
   34; 108; 101; 118; 101; 108; 34; 58; 34; 73; 78; 70; 79; 34; 44;
   34; 109; 101; 115; 115; 97; 103; 101; 34; 58; 34; 113; 92; 34; 98; 92; 92; 92; 110; 92; 117; 48; 48; 48; 49; 195; 169; 34; 44;
   34; 110; 97; 109; 101; 34; 58; 34; 110; 34; 44; 34; 116; 97; 114; 103; 101; 116; 34; 58; 34; 116; 34; 44;
   34; 116; 104; 114; 101; 97; 100; 95; 110; 97; 109; 101; 34; 58; 34; 109; 97; 105; 110; 34; 44;
   34; 116; 105; 109; 101; 115; 116; 97; 109; 112; 34; 58; 34; 50; 48; 50; 51; 34; 125; 10].
Proof. vm_compute. reflexivity. Qed.

Example C20_example_roundtrip :
  match parse_line (render true ex_event) with
  | Some m => get_str K_message m = Some [113; 34; 98; 92; 10; 1; 195; 169]
              /\ get_field true [107] m = Some (AStr [118; 34])
              /\ get_field true [105] m = Some (ARaw [45; 53])
  | None => False
  end.
Proof. vm_compute. repeat split. Qed.

(* F-27 on the witness: flattened, the custom field level=x reads back as INFO *)
Example C20_example_F27 :
  get_field true K_level (assemble true f27_event) = Some (AStr (level_str Info))
  /\ In (K_level, VStr [120]) (e_fields f27_event).
Proof. split; [vm_compute; reflexivity|left; reflexivity]. Qed.

(* the pattern  [%5p] %-8t %m%n  scans to 7 segments and renders  [ INFO] t        hi *)
Definition ex_pattern : list N :=
  [91; 37; 53; 112; 93; 32; 37; 45; 56; 116; 32; 37; 109; 37; 110].

Example C20_example_pattern :
  scan_pattern ex_pattern =
    [Lit [91]; Spec 112 (Some 5%Z) None; Lit [93; 32]; Spec 116 (Some (-8)%Z) None; Lit [32];
     Spec 109 None None; Spec 110 None None]
  /\ format_pattern ex_pattern f33_event =
     Rendered [91; 32; 73; 78; 70; 79; 93; 32; 116; 32; 32; 32; 32; 32; 32; 32; 32; 104; 105; 10].
Proof. vm_compute. split; reflexivity. Qed.

Example C20_example_F33 : format_pattern f33_pattern f33_event = Panicked.
Proof. vm_compute. reflexivity. Qed.
