(* Props/C03_mpscb.v — pinned theorems, property C03 (capacity; sends wait, never drop) for the
   bounded MPSC channel. *)
From Fibre Require Import Common.Base Chan.MpscB Chan.MpscBSpec Proofs.MpscBProofs.

(** never more than capacity buffered, in every history *)
Theorem C03_mpscb_capacity : forall s, reach s -> 1 <= cap s /\ len (q s) <= cap s.
Proof. exact capacity_all. Qed.

(** len() is exact in a sequential history *)
Theorem C03_mpscb_len_exact : forall s h r,
  G1 s -> aget h (hs s) = Some r -> exec s (Len h) = (s, RNum (len (q s))).
Proof. exact len_exact. Qed.

(** try_send succeeds exactly when the channel is neither full nor closed (the cold path reads
    `drained`, so unpublished credit never produces a false Full) *)
Theorem C03_mpscb_try_send_exact : forall s h v r,
  aget h (hs s) = Some r -> htx r = true -> fresh [v] s = true ->
  snd (exec s (TrySend h v)) =
    if hclosed r || rdrop s then RClosedV v else if len (q s) <? cap s then ROk else RFull v.
Proof. exact try_send_exact. Qed.

(** the waiting forms are admitted by the hot window g_tail - progress < cap, i.e. len + unpublished *)
Theorem C03_mpscb_send_admission : forall s h v r,
  aget h (hs s) = Some r -> htx r = true -> hasync r = false -> fresh [v] s = true ->
  snd (exec s (Send h v)) =
    if hclosed r || rdrop s then RClosed else if len (q s) + unpub s <? cap s then ROk else RBlock.
Proof. exact send_admission. Qed.

Theorem C03_mpscb_poll_send_admission : forall s f w fr r v,
  aget f (fs s) = Some fr -> aget (fh fr) (hs s) = Some r -> fk fr = FSend (Some v) ->
  snd (exec s (Poll f w)) =
    if hclosed r || rdrop s then RReady RClosed
    else if len (q s) + unpub s <? cap s then RReady ROk else RPending.
Proof. exact poll_send_admission. Qed.

(** "blocking sends wait (only) for space": refuted on the faithful model by the K-cadenced
    publication (F-30); it holds whenever no drained credit is unpublished *)
Theorem C03_mpscb_send_waits_refuted_F30 : ~ send_waits_only_for_space.
Proof. exact send_waits_refuted_F30. Qed.

Theorem C03_mpscb_send_waits_except_F30 : forall s h v r,
  aget h (hs s) = Some r -> htx r = true -> hasync r = false -> hclosed r = false ->
  rdrop s = false -> fresh [v] s = true -> len (q s) < cap s -> unpub s = 0 ->
  snd (exec s (Send h v)) = ROk.
Proof. exact send_waits_except_F30. Qed.

Example C03_mpscb_example :
  let '(s, outs) := run (init false 2 false false)
      [TrySend 0 1; TrySend 0 2; TrySend 0 3; TryRecv 1; Len 0; Send 0 4; TrySend 0 5; IsFull 0] in
  map out_res outs = [ROk; ROk; RFull 3; RVal 1; RNum 1; RBlock; ROk; RBool true].
Proof. vm_compute. reflexivity. Qed.
