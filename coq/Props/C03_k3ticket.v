(* Props/C03_k3ticket.v — pinned statements: C03 (capacity) for the K3 model of the bounded MPSC
   ticket protocol (mpsc::bounded_v3), for every capacity, chunk size, table size, publish cadence,
   number of producers, programs and schedule. *)
From Fibre Require Import Common.Base Common.Conc Chan.TicketK3 Proofs.TicketK3Base Proofs.TicketK3Safety
  Proofs.TicketK3Examples.

(* every SET (published) and undrained ticket lies in the window [pos, pos + cap) *)
Theorem C03_k3ticket_window :
  forall cap cc n kk np pp cp sch t v, 0 < cc -> 0 < n ->
  let s := fst (Conc.run (sys cap cc n kk np pp cp) (init np pp cp) sch) in
  tk s t = TSet v -> hpos s <= t -> t < hpos s + cap.
Proof.
  intros cap cc n kk np pp cp sch t v Hcc Hn s. apply (capacity_window cap cc n kk np Hcc Hn pp cp). exists sch. reflexivity.
Qed.

(* never more than cap payloads are buffered (SET and not yet drained), in every state of every schedule *)
Theorem C03_k3ticket_occupancy :
  forall cap cc n kk np pp cp sch, 0 < cc -> 0 < n ->
  let s := fst (Conc.run (sys cap cc n kk np pp cp) (init np pp cp) sch) in
  (length (buffered s) <= N.to_nat cap)%nat.
Proof.
  intros cap cc n kk np pp cp sch Hcc Hn s. apply (buffered_le_cap cap cc n kk np Hcc Hn pp cp). exists sch. reflexivity.
Qed.

(* the published counters never run ahead of the cursor, the cursor never passes a ticket that is
   still owned (claimed, not yet written) *)
Theorem C03_k3ticket_counters :
  forall cap cc n kk np pp cp sch, 0 < cc -> 0 < n ->
  let s := fst (Conc.run (sys cap cc n kk np pp cp) (init np pp cp) sch) in
  progress s <= hpos s /\ drained s <= hpos s /\ hpos s <= gtail s /\
  hpos s = hcid s * cc + hidx s /\ retired s = hcid s /\
  (forall t th, tk s t = TOwn th -> hpos s <= t).
Proof.
  intros cap cc n kk np pp cp sch Hcc Hn s. apply (counters_ordered cap cc n kk np Hcc Hn pp cp). exists sch. reflexivity.
Qed.

Example C03_k3ticket_ex : gtail ex_s = 5 /\ hpos ex_s = 4 /\ buffered ex_s = [(0%nat, 4)].
Proof. pose proof ex_tickets as H. tauto. Qed.
