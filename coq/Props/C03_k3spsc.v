(* Props/C03_k3spsc.v — pinned statements: C03 (capacity) for the K3 SPSC model, every capacity,
   every physical length >= cap (in particular the one Ring::new computes), every pair of programs,
   every schedule. *)
From Fibre Require Import Common.Base Common.Conc Chan.SpscK3 Proofs.SpscK3Proofs Proofs.SpscK3Values
  Proofs.SpscK3Examples.

(* occupancy never exceeds the LOGICAL capacity, in every state of every schedule *)
Theorem C03_k3spsc_occupancy :
  forall cap phys pp cp sch, 0 < cap -> cap <= phys ->
  let s := fst (run (sys cap phys pp cp) (init pp cp) sch) in
  head s <= tail s /\ tail s - head s <= cap.
Proof.
  intros cap phys pp cp sch Hc Hp s. apply (occupancy_bounded cap phys Hc Hp pp cp). exists sch. reflexivity.
Qed.

(* push reports Err (try_send -> Full, send -> wait) only if the ring held exactly cap payloads at
   the refresh read of `head` *)
Theorem C03_k3spsc_full_is_exact :
  forall cap phys pp cp sch k, 0 < cap -> cap <= phys ->
  let s := fst (run (sys cap phys pp cp) (init pp cp) sch) in
  ppc s = PPush k LdB -> N.leb cap (tail s - head s) = true -> tail s = head s + cap.
Proof.
  intros cap phys pp cp sch k Hc Hp s. apply (push_err_only_when_full cap phys Hc Hp pp cp). exists sch. reflexivity.
Qed.

(* the physical length the code uses is covered by the quantifier *)
Theorem C03_k3spsc_real_phys : forall cap, cap <= phys_of cap.
Proof. exact phys_of_ge. Qed.

Example C03_k3spsc_ex_full : presults ex_t = [POk 1; POk 2; POk 3; PFull 4; PGone 5] /\ cresults ex_t = [RVal 1] /\
  dropped ex_t = [2; 3] /\ ppc ex_t = PDone /\ cpc ex_t = CDone.
Proof. exact ex_teardown. Qed.
