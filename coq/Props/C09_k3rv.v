(* Props/C09_k3rv.v — pinned statements: C09 (every payload is in exactly one place; a waiter's
   cell is only touched under the lock while its record is linked) for the K3' rendezvous model.
   `bad` is set by the model if a cell / state of a frame that is not live is touched through a
   record, a payload is overwritten, an empty slot is taken, or a frame ends while its record is
   still linked (a dangling record). *)
From Coq Require Import List.
From Fibre Require Import Common.Conc Chan.RvK3 Proofs.RvK3Queue Proofs.RvK3Cell Proofs.RvK3Examples
  Proofs.RvK3Final.
Import ListNotations.

Theorem C09_k3rv_record_liveness : forall cfg sch, bad (final true cfg sch) = false.
Proof. exact F_never_bad. Qed.

(* a linked record always points at a live frame whose state is WAITING *)
Theorem C09_k3rv_linked_is_live :
  forall cfg sch u, let s := final true cfg sch in
  In u (sq s) \/ In u (rq s) -> live (pcs s u) = true /\ wstate s u = W.
Proof. intros cfg sch u s. exact (F_linked_is_live cfg sch u). Qed.

(* the content of every cell is determined by the owner's state: a parked sender holds its payload
   until DONE (then the slot is empty); a receiver's destination holds a payload iff DONE; outside
   a registered frame there is no cell content *)
Theorem C09_k3rv_cells : forall cfg sch u, cellok (final true cfg sch) u.
Proof. exact F_cells_ok. Qed.

Theorem C09_k3rv_queues :
  forall cfg sch, let s := final true cfg sch in
  NoDup (sq s) /\ NoDup (rq s) /\ (sq s = [] \/ rq s = []) /\ forall u, qok s u.
Proof. intros cfg sch s. exact (F_queues_ok cfg sch). Qed.

(* the single-slot receiver store (`Option<RecvRec>`, mpsc / spsc) is this list model: with at
   most one receiver thread at most one record is ever linked *)
Theorem C09_k3rv_single_slot_store :
  forall cfg sch, (forall u u', is_receiver cfg u = true -> is_receiver cfg u' = true -> u = u') ->
  length (rq (final true cfg sch)) <= 1.
Proof. exact F_single_receiver_store. Qed.

Example C09_k3rv_ex :
  all_done ex2_cfg ex2_s /\
  results ex2_s 0 = [PFull (0, 1); POk (0, 2); PGone (0, 3)] /\
  results ex2_s 1 = [RVal (0, 2); RTimeout None; RTimeout None] /\
  handed ex2_s = [((0, 2), 1)] /\ bad ex2_s = false.
Proof. exact ex2_results. Qed.
