(* Props/C04_oneshot.v — pinned theorems: C04 (disconnect protocol) for fibre::oneshot. *)
From Coq Require Import List Arith.
From Fibre Require Import Chan.OneshotOps Proofs.OneshotOpsProofs Proofs.OneshotOpsTheorems.
Import ListNotations.
Open Scope nat_scope.

Theorem C04_oneshot_no_value_after_disc : forall cf ops o,
  let s := oreach cf ops in o_disc s = true -> o_is_val (ores_of (ostep cf s o)) = false.
Proof. exact oneshot_no_value_after_disc. Qed.

Theorem C04_oneshot_value_before_disc : forall cf s o,
  OInv cf s -> rcv s = RcvLive false -> ores_of (ostep cf s o) = ODisc -> oacc s = orecv s.
Proof. exact oneshot_value_before_disc. Qed.

Theorem C04_oneshot_send_after_receiver_left : forall cf s h c,
  rdrop s = true -> find_h h (snd_h s) = Some c ->
  ores_of (ostep cf s (OSend h)) = OClosedV (onext s) /\ oacc (fst (ostep cf s (OSend h))) = oacc s.
Proof. exact oneshot_send_after_receiver_left. Qed.

Theorem C04_oneshot_rdrop_is_receiver_left : forall cf ops,
  rdrop (oreach cf ops) = rcv_closed (rcv (oreach cf ops)).
Proof. intros cf ops. exact (oneshot_rdrop_inv cf _ (oreach_inv cf ops)). Qed.

(* closing / dropping one of several open clones disconnects nothing *)
Theorem C04_oneshot_clone_isolation : forall cf s h h' (o : oop),
  OInv cf s -> h <> h' ->
  find_h h (snd_h s) = Some false -> find_h h' (snd_h s) = Some false ->
  o = OCloseS h \/ o = ODropS h ->
  ostate (fst (ostep cf s o)) = ostate s /\ rdrop (fst (ostep cf s o)) = rdrop s /\
  find_h h' (snd_h (fst (ostep cf s o))) = Some false.
Proof. exact oneshot_clone_isolation. Qed.

Theorem C04_oneshot_closed_handle_rejects : forall cf s,
  (forall h, find_h h (snd_h s) = Some true ->
     ores_of (ostep cf s (OSend h)) = OClosedV (onext s) /\
     oacc (fst (ostep cf s (OSend h))) = oacc s /\
     ores_of (ostep cf s (OCloseS h)) = OCloseErr) /\
  (rcv s = RcvLive true ->
     ores_of (ostep cf s OTryRecv) = ODisc /\ ores_of (ostep cf s OCloseR) = OCloseErr /\
     forall f w, mem_f f (futs s) = true -> ores_of (ostep cf s (OPoll f w)) = ODisc).
Proof. exact oneshot_closed_handle_rejects. Qed.

Theorem C04_oneshot_inv_reachable : forall cf ops, OInv cf (oreach cf ops).
Proof. exact oreach_inv. Qed.

Example C04_oneshot_example :
  map fst (orun_case ocfg_repo [OClone 0; OCloseS 0; OCloseS 0; OTryRecv; OSend 0; ODropS 1; OTryRecv; OTryRecv])
  = [OOk; OOk; OCloseErr; OEmptyR; OClosedV 0; OOk; ODisc; ODisc; OOk].
Proof. vm_compute. reflexivity. Qed.
