(* Props/C01_mpscu.v — pinned theorems, property C01 for the unbounded MPSC channel (model Chan/MpscU.v). *)
From Fibre Require Import Common.Base Chan.MpscU Chan.MpscUSpec Proofs.MpscUProofs.

Theorem C01_mpscu_conservation : forall s, reach s ->
  NoDup (used s) /\ Permutation (used s) (rcv s ++ q s ++ fitems (fs s) ++ back s ++ drp s).
Proof. exact conservation. Qed.

Theorem C01_mpscu_received_once : forall s, reach s -> NoDup (rcv s) /\ incl (rcv s) (acc s).
Proof. exact received_once. Qed.

Theorem C01_mpscu_failed_no_effect : forall s o,
  failed (snd (exec s o)) = true ->
  q (fst (exec s o)) = q s /\ rcv (fst (exec s o)) = rcv s /\ acc (fst (exec s o)) = acc s.
Proof. exact failed_no_effect. Qed.

(** try_send never reports Full; Closed hands the value back *)
Theorem C01_mpscu_try_send_result : forall s h v r,
  has_futs h s = false -> aget h (hs s) = Some r -> htx r = true -> fresh [v] s = true ->
  snd (exec s (TrySend h v)) = if hclosed r || rdrop s then RClosedV v else ROk.
Proof. exact try_send_exact. Qed.

(** batch sends (all four names) are all-or-nothing: everything queued in order, or everything handed back *)
Theorem C01_mpscu_batch_all_or_nothing : forall s h vs ip so,
  match snd (exec s (SendB h vs ip so)) with
  | RBatchOk k | RMutOk k [] => k = len vs /\ q (fst (exec s (SendB h vs ip so))) = q s ++ vs
  | RBatchErr k l => k = 0 /\ l = vs /\ q (fst (exec s (SendB h vs ip so))) = q s
  | RMutClosed l => l = vs /\ q (fst (exec s (SendB h vs ip so))) = q s
  | RMutOk _ (_ :: _) => False
  | _ => True
  end.
Proof. exact send_batch_all_or_nothing. Qed.

Theorem C01_mpscu_drained : forall s,
  reach s -> rdrop s = false -> hs s <> [] -> q s = [] -> rcv s = acc s.
Proof. exact drained_all_received. Qed.

Example C01_mpscu_example :
  let s := final (init true false)
             [Clone 0 2; TrySend 0 1; SendB 2 [2; 3] false false; MkSend 0 2 4; Poll 0 0; TryRecv 1;
              TryRecvB 1 5; DropF 0; Close 1; TrySend 0 5; DropH 0; DropH 2; DropH 1] in
  rcv s = [1; 2; 3; 4] /\ back s = [5] /\ drp s = [] /\ hs s = [].
Proof. vm_compute. repeat split; reflexivity. Qed.
