(* Props/C02_mpscb.v — pinned theorems, property C02 (FIFO) for the bounded MPSC channel. *)
From Fibre Require Import Common.Base Chan.MpscB Chan.MpscBSpec Proofs.MpscBProofs.

(** for every history: accepted ids (in send order) = received ++ buffered ++ destroyed-at-teardown *)
Theorem C02_mpscb_fifo : forall s, reach s -> acc s = rcv s ++ q s ++ qdrp s.
Proof. exact fifo_all. Qed.

(** the ghost list rcv is exactly what the receive forms returned, in order (single, batch,
    timed, future and stream forms; batches keep element order) *)
Theorem C02_mpscb_recv_trace : forall ops s,
  rcv (final s ops) = rcv s ++ flat_map (fun x => recv_ids (out_res x)) (snd (run s ops)).
Proof. exact recv_trace. Qed.

(** batch sends enter the queue as the in-order prefix firstn k of the input *)
Theorem C02_mpscb_batch_order : forall s h vs ip,
  match snd (exec s (TrySendB h vs ip)) with
  | RBatchErr k _ rest | RMutOk k rest =>
      exists j, k = N.of_nat j /\ firstn j vs ++ rest = vs /\ q (fst (exec s (TrySendB h vs ip))) = q s ++ firstn j vs
  | RBatchOk k => k = len vs /\ q (fst (exec s (TrySendB h vs ip))) = q s ++ vs
  | RMutClosed l => l = vs /\ q (fst (exec s (TrySendB h vs ip))) = q s
  | _ => True
  end.
Proof. exact try_send_batch_split. Qed.

Example C02_mpscb_example :
  let '(s, outs) := run (init false 3 false false)
      [TrySendB 0 [1; 2; 3; 4] false; Clone 0 2; TryRecv 1; TrySend 2 5; TryRecvB 1 9; TryRecv 1] in
  map out_res outs = [RBatchErr 3 true [4]; ROk; RVal 1; ROk; RVals [2; 3; 5]; REmpty]
  /\ acc s = [1; 2; 3; 5] /\ rcv s = [1; 2; 3; 5].
Proof. vm_compute. repeat split; reflexivity. Qed.
