(* Props/C12_stale.v — the stale-while-revalidate clause of property C12, on the E-LOADER model
   (Cache/Loader.v): fetch_with serves a value from the map only if it is fresh, or stale inside
   [expires_at, expires_at + grace); in the stale case a load is pending afterwards (unless the
   non-blocking stripe try_lock failed, b = true), and outside the window the call takes the
   miss path.  The pending load's task then replaces the entry (C15_write_makes_resident). *)
From Fibre Require Import Common.Base Cache.Loader Proofs.LoaderProofs.
Import ListNotations.
Open Scope N_scope.

Theorem C12_stale : forall cf s c k rest b s',
  c_pc (callers s c) = CIdle -> c_prog (callers s c) = OFetch k :: rest ->
  step cf s (Caller c) b = Some s' ->
  match map s k with
  | None => rets s' = rets s /\ exists r rs, c_pc (callers s' c) = CStripe k r rs
  | Some e =>
      if is_fresh (clock s) (Some e)
      then rets s' = {| r_caller := c; r_key := k; r_via := None; r_val := e_val e |} :: rets s
           /\ pending s' = pending s
      else match c_grace cf with
           | Some g =>
               if clock s <? e_exp e + g
               then rets s' = {| r_caller := c; r_key := k; r_via := None; r_val := e_val e |} :: rets s
                    /\ e_exp e <= clock s
                    /\ (b = false -> exists f, pending s' k = Some f)
               else rets s' = rets s /\ exists r rs, c_pc (callers s' c) = CStripe k r rs
           | None => rets s' = rets s /\ exists r rs, c_pc (callers s' c) = CStripe k r rs
           end
  end.
Proof. exact stale_only_in_grace. Qed.

(* non-vacuity: load at t=1 (ttl 10), stale at t=12 (grace 5): served + refreshed; miss at t=30 *)
Example C12_stale_example :
  let cf := {| c_ttl := Some 10; c_grace := Some 5; c_wheel := 4 |} in
  let '(s, ok) := seq_run cf (init 1 (fun _ => []))
        [OFetch 1; OAdvance 11; OFetch 1; OFetch 1; OAdvance 18; OFetch 1] in
  (ok, rev (outs s), runs s 1) =
  (true, [ORet 1000; OOk; ORet 1000; ORet 1001; OOk; ORet 1002], 3%nat).
Proof. vm_compute. reflexivity. Qed.
