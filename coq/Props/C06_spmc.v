(* Props/C06_spmc.v — pinned theorems for property C06 (async wake-ups and cancellation) on the
   broadcast SPMC channel, K2 model Chan/SpmcOps.v: one poll / one drop of a future = one step. *)
From Fibre Require Import Common.Base Chan.SpmcOps Proofs.SpmcOpsProofs Proofs.SpmcWakeProofs.

(* After EVERY history: each live future whose last poll returned Pending with waker w, and whose waker
   was not invoked since, is still registered where the notifier looks and cannot make progress:
   - receive futures (RecvFuture, RecvBatchFuture) on receiver r: w sits in the waker list of the slot of
     r's cursor, nothing is readable (head <= cursor) and producer_dropped is unset — unless r's handle
     was closed meanwhile (finding: close() wakes none of the handle's own futures) or r is derived from
     a closed handle (r_taint; impossible on the patched model, C07_fixed_untainted);
   - send futures (SendFuture, SendBatchFuture, SendBatchMutFuture): w is the registered producer waker,
     the sender handle is open and the ring is full for the slowest receiver (space = 0) — unless another
     send future's poll replaced the single producer waker slot (finding f_disp).
   Contrapositive: whenever such a future becomes able to progress, its waker has been invoked. *)
Theorem C06_spmc_wake_invariant : forall fx c a ops s outs,
  0 < c -> run fx c a ops = (s, outs) ->
  forall f x, get (futs s) f = Some x -> f_live x = true ->
    fut_wf (f_kind x) /\
    (forall w, f_wait x = Some w -> f_woken x = false ->
       match fut_rx (f_kind x) with
       | Some r => exists y, get (rxs s) r = Some y /\
                    (r_closed y = true \/ r_taint y = true \/
                     (has_reg (r_cur y mod cap s) w (regs s) = true /\ head s <= r_cur y /\ pdrop s = false))
       | None => f_disp x = true \/ (pw s = Some w /\ s_closed s = false /\ space s = Some 0)
       end).
Proof. exact spmc_wake_invariant. Qed.

(* in terms of the model's own poll: a sleeping receive / send future would get Pending again *)
Theorem C06_spmc_recv_asleep_means_pending : forall fx c a ops s outs f x w r y w2,
  0 < c -> run fx c a ops = (s, outs) ->
  get (futs s) f = Some x -> f_live x = true -> f_wait x = Some w -> f_woken x = false ->
  f_kind x = FRecv r -> get (rxs s) r = Some y -> r_closed y = false -> r_taint y = false ->
  snd (poll_fut s f x w2) = OPending /\ has_reg (r_cur y mod cap s) w (regs s) = true.
Proof. exact spmc_recv_future_asleep_means_pending. Qed.

Theorem C06_spmc_send_asleep_means_pending : forall fx c a ops s outs f x w v w2,
  0 < c -> run fx c a ops = (s, outs) ->
  get (futs s) f = Some x -> f_live x = true -> f_wait x = Some w -> f_woken x = false ->
  f_kind x = FSend v -> f_disp x = false -> s_alive s = true ->
  snd (poll_fut s f x w2) = OPending /\ pw s = Some w.
Proof. exact spmc_send_future_asleep_means_pending. Qed.

(* the full statement (no exceptions) is refuted by the two recorded defects, on the current code and
   on the patched code alike (the patch of docs/spmc.md does not touch them) *)
Theorem C06_spmc_wake_refuted_rx_close : forall fx, ~ spmc_wake_full fx.
Proof. exact spmc_wake_refuted_rx_close. Qed.

Theorem C06_spmc_wake_refuted_send_waker_displaced : forall fx, ~ spmc_wake_full fx.
Proof. exact spmc_wake_refuted_displaced. Qed.

(* cancellation: dropping a future at any point changes nothing in the channel (log, cursors, flags:
   no value lost, duplicated or reordered), removes no waker registration, touches no other future and
   preserves the invariant above, so nobody else's wake-up is swallowed *)
Theorem C06_spmc_drop_future_harmless : forall s f,
  let s' := fst (step s (DropF f)) in
  proj s' = proj s /\ regs s' = regs s /\ pw s' = pw s /\ wlog s' = wlog s /\
  (forall g, g <> f -> get (futs s') g = get (futs s) g) /\
  (Jg true s -> Jg true s').
Proof. exact spmc_drop_future_harmless. Qed.

(* who gets woken by what: a write drains the slot it fills; the sender's close wakes every registered
   waker; a successful receive and a receiver's close invoke the producer waker (C07_close_releases) *)
Example C06_spmc_example_wakes :
  let '(s, outs) := run false 1 true
      [RClone 0 1; MkRecv 0 0; Poll 0 0; MkRecv 1 1; Poll 1 1; TrySend 7; Poll 0 0; MkSend 2 8; Poll 2 2;
       Poll 1 1; Poll 2 2; MkRecv 3 0; Poll 3 3; DropF 3; SDrop] in
  outs = [OOk; OOk; OPending; OOk; OPending; OOk; OReady (OVal 0 7); OOk; OPending;
          OReady (OVal 1 7); OReady OOk; OOk; OReady (OVal 0 8); ONA; OOk]
  /\ rev (wlog s) = [0; 1; 2].
Proof. vm_compute. split; reflexivity. Qed.
