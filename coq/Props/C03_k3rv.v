(* Props/C03_k3rv.v — pinned statements: C03 for the zero-capacity rendezvous core (K3' model):
   there is no buffer, so "capacity is never exceeded" reads: a send completes (reports Ok) only
   by pairing with a receive, and every pairing completes its send. *)
From Coq Require Import List.
From Fibre Require Import Common.Conc Chan.RvK3 Proofs.RvK3Val Proofs.RvK3Examples Proofs.RvK3Final.
Import ListNotations.

(* an Ok send has been handed into a receiver (its cell or its hand) *)
Theorem C03_k3rv_ok_only_by_pairing :
  forall cfg sch p v, let s := final true cfg sch in
  is_sender cfg p = true -> In v (sent_ok s p) -> exists r, In (v, r) (handed s) /\ is_receiver cfg r = true.
Proof. intros cfg sch p v s. exact (F_ok_is_handed cfg sch p v). Qed.

(* and conversely every handoff commits its send: the sender has reported Ok or is inside the call
   in a committed position (it will report Ok: it never reports Full / Closed for that payload, see
   C01_k3rv_failed_send_no_effect).  So at every point: #handoffs = #Ok sends + #committed senders. *)
Theorem C03_k3rv_pairing_commits_send :
  forall cfg sch v r, let s := final true cfg sch in
  In (v, r) (handed s) ->
  In v (sent_ok s (fst v)) \/ (cur s (fst v) = v /\ committed s (fst v) = true).
Proof. intros cfg sch v r s. exact (F_handed_commits cfg sch v r). Qed.

(* a payload still sitting in its sender's slot (parked sender) has been handed to nobody: the
   channel never holds a payload of its own, and never two copies *)
Theorem C03_k3rv_no_buffering :
  forall cfg sch p v, let s := final true cfg sch in
  is_sender cfg p = true -> cell s p = Some v -> v = cur s p /\ ~ was_handed s v.
Proof. intros cfg sch p v s. exact (F_sender_slot_not_handed cfg sch p v). Qed.

Example C03_k3rv_ex_sender_waits :
  results ex_s2 0 = [POk (0, 1)] /\ cell ex_s2 1 = Some (0, 1) /\ wstate ex_s2 1 = D /\ token ex_s2 1 = true /\
  parked ex_s2 0 /\ sq ex_s2 = [0] /\ cell ex_s2 0 = Some (0, 2) /\ handed ex_s2 = [((0, 1), 1)].
Proof. exact ex_handoff_and_sender_parks. Qed.
