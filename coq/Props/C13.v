(* Props/C13.v — pinned theorems for property C13 (capacity is enforced and
   current_cost matches residency), sequential (K2) part.
   Only statements, `exact`, examples. *)
From Fibre Require Import Common.Base Cache.PolicySpec Cache.PolicyLru Cache.AMap
     Cache.CacheOps Cache.CacheSpec Proofs.CacheCoreProofs Proofs.CacheStepProofs Proofs.CacheC13Proofs.

(** * current_cost = cost of the resident entries, after every sequential operation *)

(* [st_cc] is metrics.current_cost as a mathematical integer (the u64 is st_cc mod
   2^64: the code's fetch_sub wraps); [resident_cost] sums the cost of every entry
   of every shard map. *)

(* FULL statement [C13_cost_full] for every policy and operation sequence, when
   capacity cleanup's accounting is exact: with the F-18 patch (subtract the cost
   of the entries actually removed), or on an unbounded cache *)
Theorem C13_cost_fixed : forall (P : policy) (c : cfg),
  0 < c_shards c -> exact_cost c -> C13_cost_full P c.
Proof. intros P c Hn Hx now0 ops. exact (c13_cost P c Hn now0 ops Hx). Qed.

(* the code as found refutes it, three ways *)
Theorem C13_cost_refuted_F28 : ~ C13_cost_full LruP (c13_cfg 3).
Proof. exact c13_cost_refuted_F28. Qed.

Theorem C13_cost_refuted_F29 : ~ C13_cost_full FifoP (c13_cfg 10).
Proof. exact c13_cost_refuted_F29. Qed.

Theorem C13_cost_refuted_F34 : ~ C13_cost_full LruP (c13_cfg 4).
Proof. exact c13_cost_refuted_F34. Qed.

(* what holds of the code as found: no operation other than a maintenance pass
   (capacity cleanup) moves current_cost away from the resident cost; clear resets both *)
Theorem C13_cost_except : forall (P : policy) (c : cfg) (s : state P) (o : op),
  0 < c_shards c -> wfp P c s -> is_maint o = false ->
  drift P c (fst (step P c s o)) = (match o with OClear => 0 | _ => drift P c s end)%Z.
Proof. intros P c s o Hn Hw Hm. exact (c13_step P c Hn s o Hw (or_intror Hm)). Qed.

(* non-vacuity: overwrites with new costs, removal, capacity eviction, an item larger than capacity *)
Definition c13_ex_cfg : cfg := mkCfg 2 3 None None 60 1 false true false false all_fixes.
Example C13_example :
  let s := state_after LruP c13_ex_cfg 1000
             [OInsert 1 100 1; OInsert 1 101 2; OInsert 2 102 2; ORemove 2; OMaint [];
              OInsert 3 103 4; OInsert 4 104 1; OMaint []; OInsert 5 105 1] in
  (st_cc LruP s, resident_cost LruP c13_ex_cfg s) = (1%Z, 1%Z).
Proof. vm_compute. reflexivity. Qed.
