(* Props/C13.v — pinned theorems for property C13 (capacity is enforced and
   current_cost matches residency), sequential (K2) part.
   Only statements, `exact`, examples. *)
From Fibre Require Import Common.Base Cache.PolicySpec Cache.PolicyLru Cache.AMap
     Cache.CacheOps Cache.CacheSpec Proofs.CacheCoreProofs Proofs.CacheStepProofs Proofs.CacheC13Proofs.

(** * current_cost = cost of the resident entries, after every sequential operation *)

(* [st_cc] is metrics.current_cost as a mathematical integer (the u64 is st_cc mod
   2^64: the code's fetch_sub wraps); [resident_cost] sums the cost of every entry
   of every shard map. *)

(* FULL statement [C13_cost_full] for every policy and operation sequence, when
   capacity cleanup's accounting is exact: with the F-18 patch (subtract the cost
   of the entries actually removed), or on an unbounded cache *)
Theorem C13_cost_fixed : forall (P : policy) (c : cfg),
  0 < c_shards c -> exact_cost c -> C13_cost_full P c.
Proof. intros P c Hn Hx now0 ops. exact (c13_cost P c Hn now0 ops Hx). Qed.

(* the code as found refutes it, four ways (stale event, Fifo old cost, partial drain, dropped event) *)
Theorem C13_cost_refuted_F28 : ~ C13_cost_full LruP (c13_cfg 3).
Proof. exact c13_cost_refuted_F28. Qed.

Theorem C13_cost_refuted_F29 : ~ C13_cost_full FifoP (c13_cfg 10).
Proof. exact c13_cost_refuted_F29. Qed.

Theorem C13_cost_refuted_F34 : ~ C13_cost_full LruP (c13_cfg 4).
Proof. exact c13_cost_refuted_F34. Qed.

Theorem C13_cost_refuted_lossy : ~ C13_cost_full LruP (c13_cfg_intro 4).
Proof. exact c13_cost_refuted_lossy. Qed.

(* what holds of the code as found: no operation other than a maintenance pass
   (capacity cleanup) moves current_cost away from the resident cost; clear resets both *)
Theorem C13_cost_except : forall (P : policy) (c : cfg) (s : state P) (o : op),
  0 < c_shards c -> wfp P c s -> is_maint o = false ->
  drift P c (fst (step P c s o)) = (match o with OClear => 0 | _ => drift P c s end)%Z.
Proof. intros P c s o Hn Hw Hm. exact (c13_step P c Hn s o Hw (or_intror Hm)). Qed.

(** * capacity after maintenance *)

(* The run-level statement [C13_capacity_full]: after run_maintenance, with every
   Write event drained and none ever dropped, resident cost <= capacity.  The code
   as found refutes it (the policy tracks a key that is no longer resident, F-28;
   Fifo believes an old cost, F-29): *)
Theorem C13_capacity_refuted_F28 : ~ C13_capacity_full LruP (c13_cfg 3).
Proof. exact c13_capacity_refuted_F28. Qed.

Theorem C13_capacity_refuted_F29 : ~ C13_capacity_full FifoP (c13_cfg 10).
Proof. exact c13_capacity_refuted_F29. Qed.

(* What is proved: capacity cleanup on a shard whose policy is IN SYNC with its map
   (tracks exactly the resident entries at their costs — the precise content of
   "every write event reached the policy", and of F-28/F-29 being absent), for any
   policy satisfying C14's evict clause: the accounting stays exact, the shard
   stays in sync, and afterwards the cache is within capacity or this shard is
   empty.  (With one shard: within capacity.)  Holds with or without the patches. *)
Theorem C13_capacity_shard : forall (P : policy) (c : cfg) (s : state P) (i : N),
  0 < c_shards c -> wfp P c s -> i < c_shards c ->
  st_cc P s = resident_cost P c s -> (resident_cost P c s < Z.of_N U64)%Z ->
  in_sync P s i -> evict_ok_at P s i ->
  let s' := cleanup_cap P c i s in
  st_cc P s' = resident_cost P c s'
  /\ in_sync P s' i
  /\ (forall j, j <> i -> smap P s' j = smap P s j)
  /\ ((resident_cost P c s' <= Z.of_N (c_cap c))%Z \/ smap P s' i = []).
Proof. intros P c s i Hn. exact (c13_capacity_shard P c Hn s i). Qed.

(* the evict clause holds at every in-sync state of the recency-list policies *)
Theorem C13_Lru_evict_ok : forall (c : cfg) (s : state LruP) (i : N), in_sync LruP s i -> evict_ok_at LruP s i.
Proof. exact lru_evict_ok_at. Qed.

Theorem C13_Fifo_evict_ok : forall (c : cfg) (s : state FifoP) (i : N), in_sync FifoP s i -> evict_ok_at FifoP s i.
Proof. exact fifo_evict_ok_at. Qed.

(* non-vacuity of the capacity lemma: three inserts, one pass; the shard is in sync
   before capacity cleanup, and within capacity after *)
Definition c13_cap_cfg : cfg := mkCfg 1 3 None None 60 1 false true false false no_fixes.
Definition c13_cap_s : state LruP :=
  perform LruP c13_cap_cfg 0 COOP_LIMIT []
          (state_after LruP c13_cap_cfg 1000 [OInsert 1 100 2; OInsert 2 101 2; OInsert 3 102 1]).
Example C13_capacity_example :
  in_sync LruP c13_cap_s 0
  /\ resident_cost LruP c13_cap_cfg c13_cap_s = 5%Z
  /\ resident_cost LruP c13_cap_cfg (cleanup_cap LruP c13_cap_cfg 0 c13_cap_s) = 3%Z.
Proof.
  split; [|split; vm_compute; reflexivity].
  split; [vm_compute; repeat constructor; cbn; intuition discriminate|].
  intros k. vm_compute.
  destruct k as [|[[p|p|]|[p|p|]|]]; reflexivity.
Qed.

(* non-vacuity: overwrites with new costs, removal, capacity eviction, an item larger than capacity *)
Definition c13_ex_cfg : cfg := mkCfg 2 3 None None 60 1 false true false false all_fixes.
Example C13_example :
  let s := state_after LruP c13_ex_cfg 1000
             [OInsert 1 100 1; OInsert 1 101 2; OInsert 2 102 2; ORemove 2; OMaint [];
              OInsert 3 103 4; OInsert 4 104 1; OMaint []; OInsert 5 105 1] in
  (st_cc LruP s, resident_cost LruP c13_ex_cfg s) = (1%Z, 1%Z).
Proof. vm_compute. reflexivity. Qed.
