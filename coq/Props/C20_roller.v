(* Props/C20_roller.v — pinned theorems for the rolling-file half of property C20
   ("the rolling file appender never loses, duplicates, reorders or tears a record across a size- or
   time-triggered roll, with or without compression, never clobbers an existing rolled file, and
   retains at most the configured number of rolled files, always the newest").
   Model: Log/Roller.v (faithful to /repo/logging/src/roller.rs, tied by D1 engine `roller`).
   Only statements, `exact`, Examples. *)
From Fibre Require Import Common.Base Log.Roller Proofs.RollerProofs.

(* ---- (a) no loss / duplication / reordering.
   `logical st` = rolled files read in ascending (period, sequence) order, then the active file
   (disk part, then BufWriter part).  With a clock that never goes backwards it is a suffix of the
   written stream, and the whole stream when retention is unlimited — for every policy (size limit,
   retention, compression, granularity) and every sequence of writes, empty writes, flushes and
   restarts.  This is the `_except_` form: see C20_roller_stream_refuted_backward_clock. *)
Theorem C20_roller_stream_except_backward_clock : forall pol fs p0 ops,
  monotone pol p0 ops ->
  exists lost, written ops = lost ++ logical (run pol fs p0 ops)
               /\ (p_max_retained pol = None -> lost = []).
Proof. exact run_stream. Qed.

(* the full statement (no hypothesis on the clock) is false of the faithful model:
   finding F-roller-clock, replayed on the implementation by ./check *)
Theorem C20_roller_stream_refuted_backward_clock : ~ stream_full.
Proof. exact stream_refuted_backward_clock. Qed.

(* ... but even with an arbitrary clock nothing is lost or duplicated while retention is unlimited *)
Theorem C20_roller_no_loss_no_dup_any_clock : forall pol fs p0 ops,
  p_max_retained pol = None -> Permutation (written ops) (all_records (run pol fs p0 ops)).
Proof. exact run_perm. Qed.

(* the order used by `logical`: the directory never holds two rolled files with the same
   (period, sequence) — plain or compressed — and `rolled` lists them strictly newest first *)
Theorem C20_roller_names_unique_sorted : forall pol st,
  reach pol st -> descK (map key (rolled st)) /\ NoDup (map key (rolled st)).
Proof.
  intros pol st H. pose proof (inv_sorted _ _ (reach_inv pol st H)) as Hs.
  split; [exact Hs | apply descK_NoDup; exact Hs].
Qed.

Theorem C20_roller_run_reachable : forall pol fs p0 ops, reach pol (run pol fs p0 ops).
Proof. exact run_reach. Qed.

(* ---- (b) no tear: a roll happens only between writes.  One write call = optional time roll,
   then the WHOLE record is appended to the then-current file (after everything already in it),
   then optionally that file — the record being its last — is rolled. *)
Theorem C20_roller_write_atomic : forall pol st p r,
  reach pol st -> posrec r ->
  exists st1, (st1 = st \/ st1 = roll pol st p) /\
    let st2 := append st1 r in
    adisk st2 ++ abuf st2 = adisk st1 ++ abuf st1 ++ [r] /\
    rdata (roll_file st2) = adisk st1 ++ abuf st1 ++ [r] /\
    (write pol st p r = st2 \/ write pol st p r = roll pol st2 p).
Proof. exact write_atomic. Qed.

(* the size rule: current_size is the true size; between API calls the active file is empty or
   below the limit; no rolled file had reached the limit before its last record (a file is rolled by
   the very write that reaches the limit, so it overshoots by less than one record) *)
Theorem C20_roller_size_rule : forall pol fs p0 ops,
  let st := run pol fs p0 ops in
  cur_size st = bytes (adisk st ++ abuf st) /\
  (forall m, p_max_size pol = Some m -> cur_size st = 0 \/ cur_size st < m) /\
  (forall m f i r, p_max_size pol = Some m -> In f (rolled st) -> rdata f = i ++ [r] ->
                   bytes i = 0 \/ bytes i < m).
Proof.
  intros pol fs p0 ops. destruct (run_size pol fs p0 ops) as [A B C]. split; [exact A|]. split; [exact B|].
  intros m f i r Em Hf Ed. exact (C m f Em Hf i r Ed).
Qed.

(* ---- (c) never clobbers.  In EVERY state (reachable or not) the name a roll renames the active
   file onto is absent from the directory, plain and compressed, so the rename replaces nothing;
   and in every reachable state the files handed to cleanup have pairwise distinct
   (period, sequence), so compress_file's target `<name><compressed suffix>` does not exist either. *)
Theorem C20_roller_never_clobbers : forall st,
  (forall f, In f (rolled st) -> key f <> key (roll_file st)) /\
  fs_remove (roll_file st) (rolled st) = rolled st.
Proof. intros st. split; [apply roll_file_fresh | apply roll_no_clobber]. Qed.

Theorem C20_roller_compress_never_clobbers : forall pol st,
  reach pol st -> NoDup (map key (insert_desc (roll_file st) (rolled st))).
Proof.
  intros pol st H. apply descK_NoDup. apply insert_desc_sorted.
  - exact (inv_sorted _ _ (reach_inv pol st H)).
  - apply roll_file_fresh_keys.
Qed.

(* ---- (d) retention.  At most max_retained rolled files exist, and every rolled file deleted so far
   (ghost field `gone`) is older than every file still there: the retained ones are the newest. *)
Theorem C20_roller_retention : forall pol st m,
  reach pol st -> p_max_retained pol = Some m ->
  (length (rolled st) <= N.to_nat m)%nat /\
  (forall k f, In k (gone st) -> In f (rolled st) -> klt k (key f)).
Proof.
  intros pol st m H Em. pose proof (reach_inv pol st H) as I. split.
  - exact (inv_count _ _ I m Em).
  - exact (inv_gone _ _ I).
Qed.

(* `gone` is complete: a roll keeps every file (same period, sequence, content) or records it in
   `gone`; nothing else removes rolled files; with unlimited retention nothing is ever deleted *)
Theorem C20_roller_deleted_only_by_retention : forall pol st now g,
  g = roll_file st \/ In g (rolled st) ->
  (exists f, In f (rolled (roll pol st now)) /\ key f = key g /\ rdata f = rdata g)
  \/ In (key g) (gone (roll pol st now)).
Proof. exact roll_accounts. Qed.

Theorem C20_roller_unlimited_never_deletes : forall pol st,
  reach pol st -> p_max_retained pol = None -> gone st = [].
Proof.
  intros pol st H En. pose proof (inv_full _ _ (reach_inv pol st H)) as F.
  destruct (gone st); [reflexivity|]. destruct F as (m & Em & _); congruence.
Qed.

Theorem C20_roller_other_steps_keep_files : forall pol st r p,
  rolled (flush st) = rolled st /\ rolled (append st r) = rolled st /\
  rolled (restart pol st p) = rolled st.
Proof.
  intros pol st r p. split; [reflexivity|]. split; [|reflexivity].
  unfold append. cbn [rolled]. apply bufwrite_rolled.
Qed.

(* ---- foreign files.  `fs` = files in the directory that are not named "<prefix>.<period>.<seq>...":
   rolled files of a sibling appender whose prefix extends this one, unrelated files.  Every theorem
   above holds with any `fs` present (they quantify over it).  No step ever touches them, and the
   roller's own behaviour (sequence numbers, retention, compression, contents) is the same whatever
   foreign files exist.  (/repo before commit 95e064e violated this: F-roller-prefix, fixed.) *)
Theorem C20_roller_foreign_untouched : forall pol fs p0 ops,
  foreign (run pol fs p0 ops) = fs /\
  (forall fs', run pol fs' p0 ops = with_foreign (run pol fs p0 ops) fs').
Proof. exact run_foreign. Qed.

Theorem C20_roller_foreign_untouched_step : forall pol st o, foreign (step pol st o) = foreign st.
Proof. exact step_foreign. Qed.

(* ---- non-vacuity *)
(* size rolls 1,2 in minute 0, a time roll (sequence continues with 3), compression of all but the
   newest rolled file, retention of 3: the oldest file is deleted, the rest reads back in order *)
Example C20_roller_example_run :
  let pol := mkPolicy false (Some 10) (Some 3) (Some 1) in
  let ops := [Write 0 (1, 12); Write 0 (2, 12); Write 0 (3, 4); Write 1 (4, 12); Restart 1; Write 2 (5, 3); Flush] in
  let fs := [(0, [(900, 5)]); (1, [(901, 5)])] in
  monotone pol 0 ops /\
  run pol fs 0 ops = mkState [mkFile 1 2 false []; mkFile 1 1 true [(4, 12)]; mkFile 0 3 true [(3, 4)]]
                             [(5, 3)] [] 3 2 [(0, 2); (0, 1)] fs /\
  logical (run pol fs 0 ops) = [(3, 4); (4, 12); (5, 3)].
Proof. vm_compute. repeat split; discriminate. Qed.

(* the witness of the refutation, as replayed on the implementation:
   "daily 6 1 - app .log _ 5 0 w 3 0 1 7 w 3 0 2 7 f" *)
Example C20_roller_example_backward_clock :
  run clock_witness_pol [] 5 clock_witness_ops = mkState [mkFile 5 1 false [(1, 7)]] [] [] 0 3 [(3, 1)] []
  /\ ~ monotone clock_witness_pol 5 clock_witness_ops.
Proof. split; [exact clock_witness_state|]. vm_compute. intros [H _]. apply H. reflexivity. Qed.

Example C20_roller_example_backward_clock_reorder :
  logical (run (mkPolicy false (Some 6) None None) [] 5 clock_witness_ops) = [(2, 7); (1, 7)].
Proof. exact clock_witness_reorder. Qed.
