(* Props/C09_mpscb.v — pinned theorems, property C09 (every value dropped exactly once) for the
   bounded MPSC channel. *)
From Fibre Require Import Common.Base Chan.MpscB Chan.MpscBSpec Proofs.MpscBProofs.

(** location accounting: in every history each id is in exactly one of Returned-to-a-receiver (rcv),
    Buffered (q), held by a live send future, Returned-in-an-error (back), Dropped (drp) *)
Theorem C09_mpscb_locations : forall s, reach s ->
  NoDup (used s) /\ Permutation (used s) (rcv s ++ q s ++ fitems (fs s) ++ back s ++ drp s).
Proof. exact conservation. Qed.

(** the terminal locations only grow (an id never leaves Returned/Dropped), and the drop events a
    call reports are exactly the ids it moved to Dropped *)
Theorem C09_mpscb_terminal : forall s o,
  let s' := fst (exec s o) in let r := snd (exec s o) in
  rcv s' = rcv s ++ recv_ids r
  /\ (exists d, drp s' = drp s ++ d /\ evd s' = evd s ++ d)
  /\ (exists b, back s' = back s ++ b)
  /\ (exists d, acc s' = acc s ++ d)
  /\ (exists u, used s' = u ++ used s)
  /\ (rdrop s = true -> rdrop s' = true)
  /\ cap s' = cap s /\ fix03 s' = fix03 s /\ fixcl s' = fixcl s.
Proof. exact exec_frame. Qed.

Theorem C09_mpscb_drop_events : forall s o, exists d,
  drp (fst (step s o)) = drp s ++ d /\ out_drops (snd (step s o)) = d.
Proof. exact drop_events. Qed.

(** after all handles (and therefore all futures) are gone, in whatever order they went, nothing is
    buffered and every id has been returned or dropped exactly once *)
Theorem C09_mpscb_teardown : forall s, reach s -> hs s = [] ->
  q s = [] /\ fs s = [] /\ NoDup (used s) /\ Permutation (used s) (rcv s ++ back s ++ drp s).
Proof. exact teardown. Qed.

Example C09_mpscb_example :
  let s := final (init true 2 false false)
             [TrySend 0 1; TrySend 0 2; MkSend 0 0 3; Poll 0 1; Close 1; DropH 1; DropF 0; DropH 0] in
  hs s = [] /\ rcv s = [] /\ drp s = [3; 1; 2] /\ used s = [3; 2; 1].
Proof. vm_compute. repeat split; reflexivity. Qed.
