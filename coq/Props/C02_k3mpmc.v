(* Props/C02_k3mpmc.v — pinned statements: C02 (queue order) for the K3' model of the bounded MPMC
   channel's sync paths: every capacity, thread count, program and schedule. *)
From Coq Require Import List Arith Sorted.
From Fibre Require Import Common.Conc Chan.MpmcK3 Proofs.MpmcK3Base Proofs.MpmcK3Proofs Proofs.MpmcK3Examples.
Import ListNotations.

(* the ring is FIFO: (ids popped so far, in pop order) ++ (ring contents) = ids pushed, in push order *)
Theorem C02_k3mpmc_fifo :
  forall cap cf th sch,
  let s := fst (run (sys cap cf th) (init th) sch) in
  map snd (popped s) ++ q s = accepted s.
Proof. intros cap cf th sch s. apply (fifo cap cf th s). exists sch. reflexivity. Qed.

(* a producer's values enter the ring in its send order (sequence numbers strictly increase) *)
Theorem C02_k3mpmc_producer_order :
  forall cap cf th sch,
  let s := fst (run (sys cap cf th) (init th) sch) in
  forall p, StronglySorted lt (map snd (from_prod p (accepted s))).
Proof. intros cap cf th sch s. apply (producer_order cap cf th s). exists sch. reflexivity. Qed.

(* each consumer's subsequence of values from one producer is in that producer's send order *)
Theorem C02_k3mpmc_consumer_order :
  forall cap cf th sch,
  let s := fst (run (sys cap cf th) (init th) sch) in
  forall c p, StronglySorted lt (map snd (from_prod p (of_thread c (popped s)))).
Proof. intros cap cf th sch s. apply (consumer_order cap cf th s). exists sch. reflexivity. Qed.

Example C02_k3mpmc_ex_order :
  accepted ex_s3 = [(0, 1); (0, 2)] /\ map snd (popped ex_s3) = [(0, 1); (0, 2)].
Proof. destruct ex_completes as (_ & _ & _ & _ & A & B & _). auto. Qed.
