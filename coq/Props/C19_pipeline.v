(* Props/C19_pipeline.v — pinned theorems for property C19, pipeline / shutdown clauses.
   Model: Log/Pipeline.v (one byte-appender pipeline: emitters -> bounded FIFO -> writer thread,
   shutdown_impl), all schedules.  Only statements, `exact`, and Examples. *)
From Coq Require Import List Arith Bool.
Import ListNotations.
From Fibre Require Import Log.Pipeline Proofs.PipelineProofs.

(* ORDER PER EMITTING THREAD, for every capacity, script and schedule: the events of thread e
   already written, followed by those still queued, are exactly e's accepted sends in emission
   order; hence what is written for e is an order-preserving sub-list of e's program *)
Theorem C19_pipeline_order : forall cap sc sch e,
  let s := run cap sc sch in
  filter (from e) (written s) ++ filter (from e) (queue s) = accepted s e
  /\ Subseq (map snd (filter (from e) (written s))) (sc e).
Proof. exact pipe_order. Qed.

Theorem C19_pipeline_exactly_once : forall cap sc sch,
  (forall e, NoDup (sc e)) -> NoDup (written (run cap sc sch) ++ queue (run cap sc sch)).
Proof. exact pipe_exactly_once. Qed.

(* BLOCK POLICY: sends wait for room (capacity is never exceeded) and, until shutdown begins, no
   send fails and every accepted event is either written or still queued *)
Theorem C19_pipeline_capacity : forall cap sc sch, length (queue (run cap sc sch)) <= cap.
Proof. exact pipe_capacity. Qed.

Theorem C19_pipeline_block_no_drop : forall cap sc sch e,
  let s := run cap sc sch in
  flag s = false ->
  accepted s e = map (pair e) (map fst (hist (ems s e)))
  /\ (forall x, In x (accepted s e) -> In x (written s ++ queue s)).
Proof. exact pipe_block_no_drop. Qed.

(* NO LOSS AT SHUTDOWN, except F-26: when the writer thread has exited - in particular when
   shutdown()/Drop has returned - every event accepted before the shutdown flag was stored has
   been written ([early] collects the events pushed while the flag was still false) *)
Theorem C19_pipeline_no_loss_except_F26 : forall cap sc sch,
  let s := run cap sc sch in
  (wpc s = WDone \/ spc s = SDone) -> incl (early s) (written s).
Proof. exact pipe_no_loss_except_F26. Qed.

Theorem C19_pipeline_early_are_accepted : forall cap sc sch x,
  let s := run cap sc sch in In x (early s) -> In x (accepted s (fst x)).
Proof. exact pipe_early_accepted. Qed.

(* the unrestricted statement "every accepted event is written once the writer has exited" is
   false of the model: a send that passed the closed check can still push after the writer's
   final drain (candidate F-26; a schedule of the MODEL, not reproduced on the implementation) *)
Theorem C19_pipeline_refuted_F26 :
  ~ (forall cap sc sch e x,
       wpc (run cap sc sch) = WDone -> In x (accepted (run cap sc sch) e) -> In x (written (run cap sc sch))).
Proof. exact pipe_refuted_F26. Qed.

(* non-vacuity: two emitters, capacity 1, the second send has to wait; full shutdown *)
Definition C19_ex_scripts (e : nat) : list nat := match e with 0 => [1; 2] | 1 => [5] | _ => [] end.
Definition C19_ex_schedule : list label :=
  [LEmit 0; LEmit 0;            (* (0,1) pushed *)
   LEmit 1; LEmit 1;            (* thread 1 finds the channel full, goes back to the check *)
   LWriter false; LWriter false;    (* WTop -> WRecv -> pops (0,1) *)
   LEmit 1; LEmit 1;            (* (1,5) pushed *)
   LWriter false;               (* batch pops (1,5) *)
   LEmit 0; LEmit 0;            (* (0,2) pushed *)
   LShut;                       (* flag *)
   LWriter false; LWriter false;    (* batch pops (0,2); batch sees Empty -> WTop *)
   LShut;                       (* close *)
   LWriter false; LWriter false; LWriter false;  (* WTop -> WFinal -> WFlush -> WDone *)
   LShut].                      (* join returns *)

Example C19_example_pipeline :
  let s := run 1 C19_ex_scripts C19_ex_schedule in
  spc s = SDone /\ written s = [(0, 1); (1, 5); (0, 2)] /\ early s = [(0, 1); (1, 5); (0, 2)]
  /\ queue s = [] /\ accepted s 0 = [(0, 1); (0, 2)] /\ accepted s 1 = [(1, 5)].
Proof. vm_compute. repeat split. Qed.

(* F-26 as it shows on the implementation (custom streams, capacity <= 4): the spinning sender's
   try_send_now succeeds after close_channels and after the consumer drained to Empty *)
Example C19_example_F26_spin :
  let s := run 1 F26_scripts_spin F26_schedule_spin in
  wpc s = WDone /\ closed s = true /\ accepted s 0 = [(0, 7)] /\ written s = [(1, 9)] /\ queue s = [(0, 7)].
Proof. exact F26_witness_spin. Qed.
