(* Props/C01_k3oneshot.v — pinned statements: C01 for oneshot (exactly-once, failed sends have no
   effect), K3 model, every number N of sender clones, all programs and all schedules. *)
From Coq Require Import List.
From Fibre Require Import Common.Conc Chan.OneshotK3 Proofs.OneshotK3Base Proofs.OneshotK3Life
  Proofs.OneshotK3Slot Proofs.OneshotK3Vals Proofs.OneshotK3Disc Proofs.OneshotK3Examples.
Import ListNotations.

(* conservation: values returned by the receiver's calls ++ in its hand ++ destroyed by channel code
   ++ in the slot = values written (at most one) *)
Theorem C01_k3oneshot_conservation :
  forall C n sprog rp sch,
  let s := fst (run (sys C n sprog rp) (init n rp) sch) in
  (returned s ++ inhand s) ++ dropped s ++ slot_l s = wrote s.
Proof.
  intros C n sprog rp sch s. apply (k3_conservation C n sprog rp). exists sch. reflexivity.
Qed.

(* no value is returned twice, none that was never written *)
Theorem C01_k3oneshot_no_dup_no_phantom :
  forall C n sprog rp sch,
  let s := fst (run (sys C n sprog rp) (init n rp) sch) in
  NoDup (returned s) /\ incl (returned s) (wrote s) /\ length (returned s) <= 1.
Proof.
  intros C n sprog rp sch s. apply (k3_no_dup_no_phantom C n sprog rp). exists sch. reflexivity.
Qed.

(* a send that reported Sent / Closed handed its value back: it was never written, never Ok *)
Theorem C01_k3oneshot_failed_send_no_effect :
  forall C n sprog rp sch t,
  let s := fst (run (sys C n sprog rp) (init n rp) sch) in
  In t (back s) -> ~ In t (wrote s) /\ ~ In t (oks s).
Proof.
  intros C n sprog rp sch t s. apply (k3_failed_send_no_effect C n sprog rp). exists sch. reflexivity.
Qed.

(* after teardown every written value was consumed exactly once *)
Theorem C01_k3oneshot_final_accounting :
  forall C n sprog rp sch,
  let s := fst (run (sys C n sprog rp) (init n rp) sch) in
  all_done n s ->
  slot s = None /\ returned s ++ dropped s = wrote s /\ length (returned s) + length (drops s) = length (wrote s).
Proof.
  intros C n sprog rp sch s. apply (k3_final_accounting C n sprog rp). exists sch. reflexivity.
Qed.

(* repaired code (F-36): a receiver that received until it observed Disconnected has been handed
   every value whose send reported Ok *)
Theorem C01_k3oneshot_received_before_disc :
  forall C n sprog rp sch, fixA C = true ->
  let s := fst (run (sys C n sprog rp) (init n rp) sch) in
  dseen s = true -> incl (oks s) (returned s).
Proof.
  intros C n sprog rp sch F s H.
  assert (R : reachable (sys C n sprog rp) s) by (exists sch; reflexivity).
  exact (proj2 (proj2 (k3_disc_drained C n sprog rp s R F H))).
Qed.

(* the code before the repair: F-36-oneshot *)
Theorem C01_k3oneshot_received_before_disc_refuted_cfg0 :
  ~ (forall n sprog rp s, reachable (sys cfg0 n sprog rp) s ->
       nvad false (rlog s) = true /\ (dseen s = true -> incl (oks s) (returned s))).
Proof. exact k3_disc_full_refuted_cfg0. Qed.

Example C01_k3oneshot_ex_f36 :
  dseen st_f36a = true /\ cs st_f36a = Sent /\ slot st_f36a = Some 1 /\ oks st_f36a = [1] /\ returned st_f36a = [].
Proof. exact f36a_witness. Qed.

Example C01_k3oneshot_ex :
  rpc st_pw = RDone /\ spc st_pw 1 = SDone /\ rlog st_pw = [RFVal 1] /\ slog st_pw = [(1, SOk)] /\
  drops st_pw = [] /\ slot st_pw = None /\ cs st_pw = Taken.
Proof. exact ex_woken. Qed.
