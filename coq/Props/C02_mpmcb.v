(* Props/C02_mpmcb.v — pinned theorems for property C02 (FIFO order) on the bounded MPMC K2 model. *)
From Fibre Require Import Common.Base Chan.MpmcB Proofs.MpmcBBase Proofs.MpmcBInv Proofs.MpmcBStep Proofs.MpmcBProofs.

(* forward simulation to the FIFO spec: in every history, the ids accepted so far, in acceptance
   order, are exactly the ids received so far, in receive order, followed by the buffer content *)
Theorem C02_mpmcb_fifo : forall c a f os,
  let s := state_after c a f os in acc s = recvd s ++ q s.
Proof. exact mpmcb_fifo. Qed.

(* every successful receive form returns the head of the queue (handles: see C01_mpmcb_recv_results;
   futures: ) and every successful send appends at the tail *)
Theorem C02_mpmcb_future_recv_head : forall fid w x s,
  let r := poll_recv fid w x s in
  match snd r with
  | RReadyVal v => q s = v :: q (fst r) /\ recvd (fst r) = recvd s ++ [v]
  | RReadyDisc => q (fst r) = q s /\ recvd (fst r) = recvd s /\
                  ((q s = [] /\ sc s = 0) \/ (fx08 (fx s) = false /\ (q s <> [] -> t08 (tn (fst r)) = true)))
  | RPending => q (fst r) = q s /\ recvd (fst r) = recvd s /\ q s = [] /\ sc s <> 0
  | _ => False
  end.
Proof. exact poll_recv_out. Qed.

Theorem C02_mpmcb_future_send_tail : forall fid w x s,
  let r := poll_send fid w x s in
  sc (fst r) = sc s /\ recvd (fst r) = recvd s /\ (q (fst r) = q s \/ exists v, q (fst r) = q s ++ [v]).
Proof. exact push_poll_send. Qed.

(* non-vacuity: wrap-around on a non-power-of-two capacity, two senders, a future in between *)
Example C02_mpmcb_example :
  let r := run (init 3 true no_fixes)
               [Clone 0 2; TrySend 0; TrySend 2; TrySend 0; TryRecv 1; TrySend 2; MkRecv 10 1; Poll 10 5;
                TryRecv 1; TryRecv 1; TrySend 0; TryRecv 1] in
  recvd (fst r) = [0; 1; 2; 3; 4] /\ acc (fst r) = [0; 1; 2; 3; 4] /\ q (fst r) = [].
Proof. vm_compute. repeat split; reflexivity. Qed.
