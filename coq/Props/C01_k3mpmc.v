(* Props/C01_k3mpmc.v — pinned statements: C01 (conservation, exactly once, failed operations have no
   effect) for the K3' model of the bounded MPMC channel's sync paths: every capacity, any number
   of producer / consumer threads, every program, every schedule (both settings of the two
   repair switches). *)
From Coq Require Import List Arith.
From Fibre Require Import Common.Conc Chan.MpmcK3 Proofs.MpmcK3Base Proofs.MpmcK3Proofs Proofs.MpmcK3Examples.
Import ListNotations.

(* conservation: accepted = popped ++ still buffered (list equality, hence multiset equality) ... *)
Theorem C01_k3mpmc_conservation :
  forall cap cf th sch,
  let s := fst (run (sys cap cf th) (init th) sch) in
  map snd (popped s) ++ q s = accepted s /\
  (* ... every consumer's pops = the values its calls returned ++ the one in its hand ... *)
  (forall c, of_thread c (popped s) = got s c ++ in_hand (pcs s c)) /\
  (* ... every producer's accepted ids = its Ok results ++ the one whose call is still in flight *)
  (forall p, from_prod p (accepted s) = sent_ok s p ++ (if in_flight (pcs s p) then [(p, pseq s p)] else [])).
Proof.
  intros cap cf th sch s. assert (Hr : reachable (sys cap cf th) s) by (exists sch; reflexivity).
  split; [apply (fifo cap cf th s Hr)|split].
  - apply (consumer_account cap cf th s Hr).
  - apply (producer_account cap cf th s Hr).
Qed.

(* exactly once: no id is accepted twice, none is popped twice (by any consumers) or popped and
   still buffered; what one consumer returned has no duplicates *)
Theorem C01_k3mpmc_exactly_once :
  forall cap cf th sch,
  let s := fst (run (sys cap cf th) (init th) sch) in
  NoDup (accepted s) /\ NoDup (map snd (popped s) ++ q s) /\ (forall c, NoDup (got s c)) /\
  (forall c v, In v (got s c) -> In v (accepted s)).
Proof.
  intros cap cf th sch s. assert (Hr : reachable (sys cap cf th) s) by (exists sch; reflexivity).
  split; [apply (accepted_nodup cap cf th s Hr)|split; [apply (popped_once cap cf th s Hr)|split]].
  - apply (got_nodup cap cf th s Hr).
  - apply (got_accepted cap cf th s Hr).
Qed.

(* failed operations have no effect: the id of a Full / Closed try_send or a failed send never
   entered the ring and is never received *)
Theorem C01_k3mpmc_failed_no_effect :
  forall cap cf th sch,
  let s := fst (run (sys cap cf th) (init th) sch) in
  forall p r v, In (p, r) (results s) -> In v (res_failed r) ->
  ~ In v (accepted s) /\ (forall c, ~ In v (got s c)).
Proof.
  intros cap cf th sch s p r v H1 H2. assert (Hr : reachable (sys cap cf th) s) by (exists sch; reflexivity).
  split; [eapply (failed_no_effect cap cf th s Hr); eassumption|].
  intros c. eapply (failed_never_received cap cf th s Hr); eassumption.
Qed.

(* non-vacuity: the cap-1 run with parks in both directions; send, send, try_send(Closed) *)
Example C01_k3mpmc_ex_run :
  (forall t, pcs ex_s3 t = Done) /\ q ex_s3 = [] /\ accepted ex_s3 = [(0, 1); (0, 2)] /\
  map snd (popped ex_s3) = [(0, 1); (0, 2)].
Proof. destruct ex_completes as (A & B & _ & _ & C & D & _). auto. Qed.
