(* Props/C06_oneshot.v — pinned theorems: C06 (async wake-up, cancellation) for fibre::oneshot.
   The AtomicWaker is one slot: the obligation follows the most recent Pending poll.
   ocfg_repo = the code as it is; ocfg_fixed = with the one-line repair of F-34-oneshot. *)
From Coq Require Import List Arith.
From Fibre Require Import Chan.OneshotOps Proofs.OneshotOpsProofs Proofs.OneshotOpsTheorems.
Import ListNotations.
Open Scope nat_scope.

Theorem C06_oneshot_wake_fixed : C06_oneshot_wake ocfg_fixed.
Proof. exact oneshot_fixed_wake. Qed.

Theorem C06_oneshot_wake_refuted_F34 : ~ C06_oneshot_wake ocfg_repo.
Proof. exact oneshot_repo_wake_refuted_F34. Qed.

Theorem C06_oneshot_wake_except_F34 : forall ops f w0,
  let s := oreach ocfg_repo ops in
  o_pend s = Some (f, w0) -> rcv s = RcvLive false -> ostate s <> OTaken ->
  (exists w, ores_of (ostep ocfg_repo s (OPoll f w)) <> OPending) -> o_woken s = true.
Proof. exact oneshot_repo_wake_except_F34. Qed.

Theorem C06_oneshot_drop_future_harmless : forall cf s f,
  let s' := fst (ostep cf s (ODropFut f)) in
  ostate s' = ostate s /\ rdrop s' = rdrop s /\ ocount s' = ocount s /\ wk s' = wk s /\
  snd_h s' = snd_h s /\ rcv s' = rcv s /\
  oacc s' = oacc s /\ orecv s' = orecv s /\ oret s' = oret s /\ odrop s' = odrop s.
Proof. exact oneshot_drop_future_harmless. Qed.

Example C06_oneshot_example :
  orun_case ocfg_repo [OMkRecv 0; OPoll 0 7; OClone 0; ODropS 0; OSend 1; OPoll 0 7]
  = [(OOk, []); (OPending, []); (OOk, []); (OOk, []); (OOk, [OWake 7]); (OVal 0, []); (OOk, [])].
Proof. vm_compute. reflexivity. Qed.

Example C06_oneshot_example_F34_fixed :
  orun_case ocfg_fixed [OClone 0; OSend 0; OTryRecv; OMkRecv 1; OPoll 1 5; ODropS 1; OPoll 1 5]
  = [(OOk, []); (OOk, []); (OVal 0, []); (OOk, []); (OPending, []); (OOk, [OWake 5]); (ODisc, []); (OOk, [])].
Proof. vm_compute. reflexivity. Qed.
