(* Props/C03_rv.v — pinned theorems of property C03 (capacity) for the rendezvous channels: capacity
   0 means nothing is ever buffered; a send completes only by pairing with a receive. *)
From Fibre Require Import Common.Base Chan.Rendezvous Proofs.RendezvousBase Proofs.RendezvousWF
     Proofs.RendezvousProofs Proofs.RendezvousAck Proofs.RendezvousLife.

(* try_send succeeds iff the handle is an open sender, a receiver handle is counted, and a receive
   is parked *)
Theorem C03_rv_try_send_ok_iff : forall c s h v,
  snd (fst (step c s (TrySend h v))) = OOk <->
  exists hd, h_live_side s h Tx = Some hd /\ h_closed hd = false /\ rcnt s <> 0 /\ rq s <> [].
Proof. exact rv_try_send_ok_iff. Qed.

(* and then it consumes exactly the oldest parked receive, whose dest now holds the value *)
Theorem C03_rv_try_send_pairs : forall c s h v s' e,
  step c s (TrySend h v) = (s', OOk, e) ->
  exists g w rest, rq s = (g, w) :: rest /\ rq s' = rest /\ sq s' = sq s
                   /\ fs s' = aupd g (fut_done (Some v)) (fs s)
                   /\ e = [EIntro v; EOffer v; EHand v; EAck v; EWake w].
Proof. exact rv_try_send_pairs. Qed.

(* no buffer: in every reachable state a value on the receiving side sits in the dest of a receive
   future that completed and is still registered; a parked sender still owns its value; senders and
   receivers are never parked at the same time *)
Theorem C03_rv_nothing_buffered : forall c a ops s tr,
  run c (init a) ops = (s, tr) ->
  (forall f r v, aget f (fs s) = Some r -> f_side r = Rx -> f_cell r = Some v ->
                 f_st r = DONE /\ f_reg r = true)
  /\ (forall f w, In (f, w) (sq s) -> exists r, aget f (fs s) = Some r /\ f_cell r = Some (f_val r))
  /\ (sq s = [] \/ rq s = []).
Proof.
  intros c a ops s tr Hr. pose proof (run_WF c ops _ _ _ (WF_init a) Hr) as W.
  split; [|split; [|exact (wf_excl _ _ _ _ W)]].
  - intros f r v Hg Hs Hc. destruct (wf_fut _ _ _ _ W f r Hg) as [Hk _]. rewrite Hs in Hk.
    destruct Hk as [Hk _]. exact (Hk v Hc).
  - intros f w Hi. destruct (wf_sq _ _ _ _ W f w Hi) as [r [Hg [_ [_ [_ Hc]]]]]. exists r. auto.
Qed.

(* a send whose success was reported has been paired with a receive (F-31: the receive future may
   then have been dropped with the value inside) *)
Theorem C03_rv_send_completes_only_by_pairing : forall c a ops s tr v,
  run c (init a) ops = (s, tr) -> In (EAck v) (evs_of tr) ->
  In (ERecv v) (evs_of tr) \/ in_dest (fs s) v \/ In (EDropDest v) (evs_of tr).
Proof. exact rv_acked_delivered_except_F31. Qed.

(* len / is_empty / is_full / capacity *)
Theorem C03_rv_observers : forall c s h s' b l em fu cap e,
  step c s (Obs h) = (s', OObs b l em fu cap, e) ->
  l = 0 /\ em = true /\ fu = true /\ cap = 0 /\ s' = s /\
  exists hd, aget h (hs s) = Some hd /\
             b = match h_side hd with Tx => N.eqb (rcnt s) 0 | Rx => N.eqb (scnt s) 0 end.
Proof. exact rv_observers. Qed.

Example C03_rv_example :
  map (fun t => snd (fst t))
      (snd (run spsc_cfg (init true)
             [TrySend 0 100; Obs 0; MkRecv 10 1; Poll 10 0; TrySend 0 101; TrySend 0 102; Poll 10 0]))
  = [OFull 100; OObs false 0 true true 0; ONone; OPending; OOk; OFull 102; OReadyVal 101].
Proof. vm_compute. reflexivity. Qed.
