(* Props/C01_spsc.v — pinned theorems: C01 (exactly-once, failed ops have no effect) for the bounded SPSC
   channel, K2 op-level model Chan/SpscOps.v.  `cf` ranges over the code as it is (cfg_repo) and the
   repaired code (cfg_fixed); `ops` over ALL histories of API calls, polls and drops. *)
From Coq Require Import List Arith Permutation.
From Fibre Require Import Chan.SpscOps Proofs.SpscOpsProofs Proofs.SpscOpsTheorems.
Import ListNotations.
Open Scope nat_scope.

(* every id ever allocated is in exactly one place: received, buffered, held by a live send future,
   handed back to the caller, dropped by an op, or drained by Ring::drop *)
Theorem C01_spsc_conservation : forall cf c k ops,
  let s := reach cf c k ops in
  Permutation (received s ++ q s ++ held s ++ returned s ++ dropped s ++ drained s) (seq 0 (next s)).
Proof. exact spsc_conservation. Qed.

(* no id is received twice, only accepted ids are received *)
Theorem C01_spsc_received_once : forall cf c k ops,
  let s := reach cf c k ops in
  NoDup (received s) /\ incl (received s) (accepted s) /\ accepted s = received s ++ q s ++ drained s.
Proof. exact spsc_received_once. Qed.

(* the ghost `received` is exactly the concatenation of the values the receive forms returned *)
Theorem C01_spsc_received_is_output : forall cf ops s,
  received (fst (run cf s ops)) = received s ++ all_vals (snd (run cf s ops)).
Proof. exact run_received. Qed.

(* an op that reports Full / Closed / Empty / Disconnected / Timeout / CloseError (or is not executed)
   leaves queue, accepted and received unchanged *)
Theorem C01_spsc_failed_no_effect : forall cf s o,
  failed (res_of (step cf s o)) = true ->
  q (fst (step cf s o)) = q s /\ accepted (fst (step cf s o)) = accepted s /\
  received (fst (step cf s o)) = received s.
Proof. exact spsc_failed_no_effect. Qed.

(* try_send hands its value back; a batch error hands back exactly the unsent tail, in order *)
Theorem C01_spsc_try_send_effect : forall cf s,
  let '(s', (r, _)) := step cf s TrySend in
  match r with
  | ROk => q s' = q s ++ [next s] /\ accepted s' = accepted s ++ [next s]
  | RFull v | RClosedV v => v = next s /\ q s' = q s /\ accepted s' = accepted s /\ returned s' = returned s ++ [v]
  | _ => s' = set_ev [] s
  end.
Proof. exact spsc_try_send_effect. Qed.

Theorem C01_spsc_batch_handback : forall cf s n,
  let '(s', (r, _)) := step cf s (TrySendBatch n) in
  match r with
  | ROkN m => m = n /\ q s' = q s ++ seq (next s) n /\ accepted s' = accepted s ++ seq (next s) n
  | RTryBatchErr sent unsent _ =>
      exists done, done ++ unsent = seq (next s) n /\ length done = sent /\
                   q s' = q s ++ done /\ accepted s' = accepted s ++ done /\ returned s' = returned s ++ unsent
  | _ => s' = set_ev [] s
  end.
Proof. exact spsc_try_send_batch_effect. Qed.

(* a receiver that keeps receiving until Disconnected has received every accepted id *)
Theorem C01_spsc_drained_at_disc : forall cf s o k,
  Inv s -> rh s = HLive k false -> is_recv_op o = true ->
  is_disc (res_of (step cf s o)) = true -> accepted s = received s.
Proof. exact spsc_drain_before_disc. Qed.

(* non-vacuity: cap 3 (physical ring 4) wraps; a full try_send and a partial batch hand their input back *)
Example C01_spsc_example :
  map fst (run_case cfg_repo 3 KSync
    [TrySend; TrySend; TrySend; TrySend; TryRecv; TrySendBatch 3; TryRecvBatch 5; TryRecv])
  = [ROk; ROk; ROk; RFull 3; RVal 0; RTryBatchErr 1 [5; 6] false; RVals [1; 2; 4]; REmpty;
     RNoFut; RNoFut; ROk; ROk].
Proof. vm_compute. reflexivity. Qed.
