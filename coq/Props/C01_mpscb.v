(* Props/C01_mpscb.v — pinned theorems, property C01 (exactly-once delivery, failed operations
   have no effect) for the bounded MPSC channel (model Chan/MpscB.v).  Statements + `exact` only. *)
From Fibre Require Import Common.Base Chan.MpscB Chan.MpscBSpec Proofs.MpscBProofs.

(** every id ever passed to the API is in exactly one place: received, buffered, held by a live
    send future, handed back inside an error, or dropped - for every op history *)
Theorem C01_mpscb_conservation : forall s, reach s ->
  NoDup (used s) /\ Permutation (used s) (rcv s ++ q s ++ fitems (fs s) ++ back s ++ drp s).
Proof. exact conservation. Qed.

(** no value is received twice, and only accepted values are received *)
Theorem C01_mpscb_received_once : forall s, reach s -> NoDup (rcv s) /\ incl (rcv s) (acc s).
Proof. exact received_once. Qed.

(** an operation that reports failure leaves the queue, the received and the accepted lists unchanged *)
Theorem C01_mpscb_failed_no_effect : forall s o,
  failed (snd (exec s o)) = true ->
  q (fst (exec s o)) = q s /\ rcv (fst (exec s o)) = rcv s /\ acc (fst (exec s o)) = acc s.
Proof. exact failed_no_effect. Qed.

(** try_send hands back exactly its input on Full/Closed (and says which) *)
Theorem C01_mpscb_try_send_result : forall s h v r,
  aget h (hs s) = Some r -> htx r = true -> fresh [v] s = true ->
  snd (exec s (TrySend h v)) =
    if hclosed r || rdrop s then RClosedV v else if len (q s) <? cap s then ROk else RFull v.
Proof. exact try_send_exact. Qed.

(** batch errors: sent ++ unsent = input, in order; the sent prefix is what entered the queue *)
Theorem C01_mpscb_batch_split : forall s h vs ip,
  match snd (exec s (TrySendB h vs ip)) with
  | RBatchErr k _ rest | RMutOk k rest =>
      exists j, k = N.of_nat j /\ firstn j vs ++ rest = vs /\ q (fst (exec s (TrySendB h vs ip))) = q s ++ firstn j vs
  | RBatchOk k => k = len vs /\ q (fst (exec s (TrySendB h vs ip))) = q s ++ vs
  | RMutClosed l => l = vs /\ q (fst (exec s (TrySendB h vs ip))) = q s
  | _ => True
  end.
Proof. exact try_send_batch_split. Qed.

(** a receiver that drained the channel (handles still alive) has received everything accepted *)
Theorem C01_mpscb_drained : forall s, reach s -> hs s <> [] -> q s = [] -> rcv s = acc s.
Proof. exact drained_all_received. Qed.

(** non-vacuity: a history with clones, a failed try_send, a batch, async futures and a teardown *)
Example C01_mpscb_example :
  let s := final (init true 2 false false)
             [Clone 0 2; TrySend 0 1; TrySend 2 2; TrySend 0 3; MkSend 0 2 4; Poll 0 0; TryRecv 1;
              Poll 0 0; TryRecvB 1 5; Poll 0 0; TryRecv 1; DropF 0; DropH 0; DropH 2; DropH 1] in
  rcv s = [1; 2; 4] /\ back s = [3] /\ drp s = [] /\ used s = [4; 3; 2; 1] /\ hs s = [].
Proof. vm_compute. repeat split; reflexivity. Qed.
