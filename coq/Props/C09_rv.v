(* Props/C09_rv.v — pinned theorems of property C09 (every value dropped exactly once) for the
   rendezvous channels (engine rv). *)
From Fibre Require Import Common.Base Chan.Rendezvous Proofs.RendezvousBase Proofs.RendezvousWF
     Proofs.RendezvousProofs.

(* at every point of every history each payload is in exactly one place (with distinct ids the
   right-hand side has no duplicates, so the four places are disjoint) *)
Theorem C09_rv_one_place : forall c a ops s tr,
  run c (init a) ops = (s, tr) -> NoDup (intro_of (evs_of tr)) ->
  Permutation (intro_of (evs_of tr))
              (back_of (evs_of tr) ++ recv_of (evs_of tr) ++ drop_of (evs_of tr) ++ cells (fs s))
  /\ NoDup (back_of (evs_of tr) ++ recv_of (evs_of tr) ++ drop_of (evs_of tr) ++ cells (fs s)).
Proof.
  intros c a ops s tr Hr Hn. split; [exact (rv_conservation _ _ _ _ _ Hr)|].
  exact (Permutation_NoDup (rv_conservation _ _ _ _ _ Hr) Hn).
Qed.

(* after every future is gone (handles hold no payload), in whatever order things were torn down,
   every payload was handed back, returned to a receiver or destroyed -- exactly once *)
Theorem C09_rv_teardown : forall c a ops s tr,
  run c (init a) ops = (s, tr) -> fs s = [] ->
  Permutation (intro_of (evs_of tr)) (back_of (evs_of tr) ++ recv_of (evs_of tr) ++ drop_of (evs_of tr))
  /\ (NoDup (intro_of (evs_of tr)) ->
      NoDup (back_of (evs_of tr) ++ recv_of (evs_of tr) ++ drop_of (evs_of tr))).
Proof. exact rv_dropped_exactly_once. Qed.

(* the structural invariant behind it: cells of parked senders hold their payload, cells of parked
   receivers are empty, a filled receive cell belongs to a completed registered receive *)
Theorem C09_rv_wf : forall c a ops s tr, run c (init a) ops = (s, tr) -> WF s.
Proof. intros c a ops s tr Hr. exact (run_WF c ops _ _ _ (WF_init a) Hr). Qed.

Example C09_rv_example :
  let '(s, tr) := run spsc_cfg (init true)
        [MkSend 10 0 100; Poll 10 0; MkRecv 11 1; Poll 11 1; MkSend 12 0 101; Poll 12 2;
         DropF 12; DropF 11; DropF 10; DropH 0; DropH 1] in
  (fs s, hs s, drop_of (evs_of tr), recv_of (evs_of tr)) = ([], [], [101], [100]).
Proof. vm_compute. reflexivity. Qed.
