(* Props/C04_rv.v — pinned theorems of property C04 (disconnect protocol) for the rendezvous
   channels (engine rv).  The shipped wrappers break it in three ways, each with a refuted/except
   pair and a proposed repair (docs/rv.md) selected by a switch of the model:
     F-07  to_sync/to_async build the new handle with closed=false (fix_conv)
     F-34  clone of a closed handle is an open handle and increments the count (fix_clone)
     F-35  SendFuture/RecvFuture never look at the handle's closed flag (fix_fut) *)
From Fibre Require Import Common.Base Chan.Rendezvous Proofs.RendezvousBase Proofs.RendezvousWF
     Proofs.RendezvousProofs Proofs.RendezvousLife.

(** the counters are the numbers of open handles, and nothing panics *)
Theorem C04_rv_counts_exact_fixed : forall c, fix_conv c = true -> rv_counts_exact_full c.
Proof. exact rv_counts_exact_fixed. Qed.

Theorem C04_rv_counts_exact_refuted_F07 : forall c, fix_conv c = false -> ~ rv_counts_exact_full c.
Proof. exact rv_counts_exact_refuted_F07. Qed.

Theorem C04_rv_counts_exact_except_F07 : forall c a ops s tr,
  run_sat conv_ok c (init a) ops -> run c (init a) ops = (s, tr) ->
  CE s /\ (forall o r e, In (o, r, e) tr -> r <> OPanic).
Proof. exact rv_counts_exact_except_F07. Qed.

(** with exact counters (any state satisfying WF and CE): *)
(* Disconnected is reported on an open receiver exactly when no sender handle is open and no send is
   pending; a pending send is always delivered first *)
Theorem C04_rv_disconnected_iff : forall c s, WF s -> CE s -> forall k hd h s' r e,
  h_live_side s h Rx = Some hd -> h_closed hd = false ->
  core_recv c k s = (s', r, e) ->
  (r = ODisc <-> nopen Tx (hs s) = 0 /\ sq s = []) /\
  (sq s <> [] -> exists v, r = OVal v).
Proof. exact rv_disc_iff. Qed.

(* after the last receiver is gone every send form fails and the value comes back (try_send) or is
   destroyed by the failing call (blocking send: SendError carries no value) *)
Theorem C04_rv_send_after_last_receiver : forall c s, CE s -> forall h hd v,
  h_live_side s h Tx = Some hd -> nopen Rx (hs s) = 0 ->
  step c s (TrySend h v) = (s, OClosedV v, [EIntro v; EBack v])
  /\ (h_async hd = false -> step c s (Send h v) = (s, OClosed, [EIntro v; EDropArg v])).
Proof. exact rv_send_after_last_rx. Qed.

Theorem C04_rv_poll_send_after_last_receiver : forall c s f w r0 v,
  CE s -> nopen Rx (hs s) = 0 ->
  aget f (fs s) = Some r0 -> f_side r0 = Tx -> f_reg r0 = false -> f_cell r0 = Some v ->
  step c s (Poll f w) = (s, OReadyClosed, []).
Proof. exact rv_poll_send_after_last_rx. Qed.

Theorem C04_rv_try_send_closed_iff : forall c s, WF s -> CE s -> forall h hd v s' r e,
  h_live_side s h Tx = Some hd -> h_closed hd = false ->
  step c s (TrySend h v) = (s', r, e) ->
  (r = OClosedV v <-> nopen Rx (hs s) = 0).
Proof. exact rv_try_send_closed_iff. Qed.

(* closing or dropping one of several open clones changes nothing for anybody else *)
Theorem C04_rv_clone_isolation : forall s, CE s -> forall h hd s' r e,
  aget h (hs s) = Some hd -> h_closed hd = false -> 2 <= nopen (h_side hd) (hs s) ->
  do_close s h hd = (s', r, e) ->
  r = OOk /\ e = [] /\ fs s' = fs s /\ sq s' = sq s /\ rq s' = rq s
  /\ hs s' = aupd h h_close (hs s).
Proof. exact rv_clone_isolation. Qed.

(** every operation on a handle whose close() returned Ok fails; the second close is CloseError *)
Theorem C04_rv_closed_handle_fails : forall c s h hd,
  aget h (hs s) = Some hd -> h_closed hd = true ->
  (forall v s' r e, step c s (TrySend h v) = (s', r, e) -> r = OClosedV v \/ r = ONa) /\
  (forall v s' r e, step c s (Send h v) = (s', r, e) -> r = OClosed \/ r = ONa) /\
  (forall s' r e, step c s (TryRecv h) = (s', r, e) -> r = ODisc \/ r = ONa) /\
  (forall s' r e, step c s (Recv h) = (s', r, e) -> r = ODisc \/ r = ONa) /\
  (forall s' r e, step c s (RecvTimeout0 h) = (s', r, e) -> r = ODisc \/ r = ONa) /\
  (forall s' r e, step c s (Close h) = (s', r, e) -> r = OCloseErr /\ s' = s) /\
  (fix_fut c = true -> forall f w r0 s' r e,
     aget f (fs s) = Some r0 -> f_h r0 = h -> f_reg r0 = false ->
     step c s (Poll f w) = (s', r, e) ->
     s' = s /\ match f_side r0 with
               | Tx => r = OReadyClosed \/ (f_cell r0 = None /\ r = OReadyOk)
               | Rx => r = OReadyDisc
               end).
Proof. exact rv_closed_handle_fails. Qed.

Theorem C04_rv_closed_future_fails_refuted_F35 : forall c,
  fix_fut c = false -> ~ rv_closed_future_fails_full c.
Proof. exact rv_closed_future_fails_refuted_F35. Qed.

(** once no sender is open and no send is pending nothing is ever handed over again (so: after
    Disconnected, never a new value) *)
Theorem C04_rv_dead_sticky_fixed : forall c,
  fix_conv c = true -> fix_fut c = true -> fix_clone c = true -> rv_dead_sticky_full c.
Proof. exact rv_dead_sticky_fixed. Qed.

Theorem C04_rv_dead_sticky_refuted_F35 : forall c, fix_fut c = false -> ~ rv_dead_sticky_full c.
Proof. exact rv_dead_sticky_refuted_F35. Qed.

Theorem C04_rv_dead_sticky_refuted_F34 : forall c,
  fix_clone c = false -> tx_clone c = true -> ~ rv_dead_sticky_full c.
Proof. exact rv_dead_sticky_refuted_F34. Qed.

Theorem C04_rv_dead_sticky_except_F07_F34_F35 : forall c a ops1 s1 tr1 ops2 s2 tr2,
  run_sat conv_ok c (init a) ops1 -> run c (init a) ops1 = (s1, tr1) -> dead s1 ->
  run_sat op_ok c s1 ops2 -> run c s1 ops2 = (s2, tr2) ->
  dead s2 /\ (forall v, ~ In (EHand v) (evs_of tr2))
  /\ (forall o r e, In (o, r, e) tr2 -> forall v, r <> OVal v).
Proof. exact rv_dead_sticky_except. Qed.

(* the hypotheses of the except-theorems are satisfiable on histories that do convert, clone and
   poll -- just not on a closed handle *)
Example C04_rv_except_example :
  run_sat op_ok mpmc_cfg (init false)
    [Clone 0 2; Conv 0; Conv 1; MkRecv 10 1; Poll 10 0; MkSend 11 0 100; Poll 11 1; Close 0; Conv 2;
     Close 2; Poll 10 0; Clone 1 3; DropH 1]
  /\ snd (fst (step mpmc_cfg (fst (run mpmc_cfg (init false)
        [Clone 0 2; Conv 0; Conv 1; MkRecv 10 1; Poll 10 0; MkSend 11 0 100; Poll 11 1; Close 0; Conv 2;
         Close 2; Poll 10 0; Clone 1 3; DropH 1])) (TryRecv 3))) = ODisc.
Proof.
  vm_compute. repeat split; auto;
    right; intros x Hx Hr; inversion Hx; subst; try discriminate; reflexivity.
Qed.

(* non-vacuity: two sender clones, one closes (invisible), the other still hands off; after the last
   one closes the parked receiver is woken with Disconnected and try_send on the closed handle fails *)
Example C04_rv_example :
  map (fun t => (snd (fst t), snd t))
      (snd (run (fixed mpmc_cfg) (init true)
             [Clone 0 2; MkRecv 10 1; Poll 10 7; Close 0; TrySend 2 100; Poll 10 7; Poll 10 7;
              Close 2; Poll 10 7; TrySend 2 101; Close 2]))
  = [(ONone, []); (ONone, []); (OPending, []); (OOk, []);
     (OOk, [EIntro 100; EOffer 100; EHand 100; EAck 100; EWake 7]); (OReadyVal 100, [ERecv 100]);
     (OPending, []); (OOk, [EWake 7]); (OReadyDisc, []); (OClosedV 101, [EIntro 101; EBack 101]);
     (OCloseErr, [])].
Proof. vm_compute. reflexivity. Qed.
