(* Props/C01_k3spsc.v — pinned statements: C01 (exactly-once, failed ops have no effect) for the
   K3 SPSC model. *)
From Fibre Require Import Common.Base Common.Conc Chan.SpscK3 Proofs.SpscK3Proofs Proofs.SpscK3Values
  Proofs.SpscK3Examples.

(* conservation, in terms of the API results the two threads have seen:
   returned by receives ++ in the consumer's hand ++ dropped by Ring::drop ++ owned by the ring
     = sends that returned Ok ++ in the producer's hand (written / published, call not yet returned) *)
Theorem C01_k3spsc_conservation :
  forall cap phys pp cp sch, 0 < cap -> cap <= phys ->
  let s := fst (run (sys cap phys pp cp) (init pp cp) sch) in
  (got s ++ hand_c s) ++ dropped s ++ buffered s = sent_ok s ++ hand_p s.
Proof.
  intros cap phys pp cp sch Hc Hp s. apply (results_conservation cap phys Hc Hp pp cp). exists sch. reflexivity.
Qed.

Theorem C01_k3spsc_no_duplicate :
  forall cap phys pp cp sch, 0 < cap -> cap <= phys ->
  let s := fst (run (sys cap phys pp cp) (init pp cp) sch) in
  NoDup (got s) /\ NoDup (accepted s).
Proof.
  intros cap phys pp cp sch Hc Hp s.
  assert (Hr : reachable (sys cap phys pp cp) s) by (exists sch; reflexivity).
  split.
  - exact (proj1 (delivered_once_in_order cap phys Hc Hp pp cp s Hr)).
  - exact (proj2 (accepted_strictly_increasing cap phys pp cp s Hr)).
Qed.

(* a send that failed (try_send -> Full/Closed with the value handed back; send -> Closed) never
   put its value into the ring *)
Theorem C01_k3spsc_failed_send_no_effect :
  forall cap phys pp cp sch v,
  let s := fst (run (sys cap phys pp cp) (init pp cp) sch) in
  In v (failed s) -> ~ In v (accepted s).
Proof.
  intros cap phys pp cp sch v s. apply (failed_send_not_accepted cap phys pp cp). exists sch. reflexivity.
Qed.

(* after both handles are gone: every Ok-sent value was returned by a receive or dropped by the
   teardown, exactly once, in order *)
Theorem C01_k3spsc_final_accounting :
  forall cap phys pp cp sch, 0 < cap -> cap <= phys ->
  let s := fst (run (sys cap phys pp cp) (init pp cp) sch) in
  ppc s = PDone -> cpc s = CDone -> got s ++ dropped s = sent_ok s.
Proof.
  intros cap phys pp cp sch Hc Hp s. apply (final_accounting cap phys Hc Hp pp cp). exists sch. reflexivity.
Qed.

Example C01_k3spsc_ex : presults ex_t = [POk 1; POk 2; POk 3; PFull 4; PGone 5] /\ cresults ex_t = [RVal 1] /\
  dropped ex_t = [2; 3] /\ ppc ex_t = PDone /\ cpc ex_t = CDone.
Proof. exact ex_teardown. Qed.
