(* Props/C05_k3spsc.v — pinned statements: C05 (no lost wakeup, safety form) for the K3 SPSC model:
   register -> SeqCst fence -> re-check -> park   versus   publish -> SeqCst fence -> read the
   waiters gate -> wake_one, including the `notified` handshake, `unregister`, stale park tokens,
   spurious park returns, and the drop_sender / drop_receiver wake-ups.
   Partial with respect to the property text: "eventually under fair scheduling" is not stated;
   what is proved is that no reachable state is stuck. *)
From Fibre Require Import Common.Base Common.Conc Chan.SpscK3 Proofs.SpscK3Proofs Proofs.SpscK3Values
  Proofs.SpscK3Examples.

(* quiescent_ns: no thread can take a step (spurious park returns aside).
   Then a parked consumer faces an empty ring and a live sender; a parked producer faces a full
   ring and a live receiver. *)
Theorem C05_k3spsc_no_lost_wakeup :
  forall cap phys pp cp sch, 0 < cap -> cap <= phys ->
  let s := fst (run (sys cap phys pp cp) (init pp cp) sch) in
  quiescent_ns cap phys s ->
  (consumer_parked s -> head s = tail s /\ scount s <> 0) /\
  (producer_parked s -> tail s = head s + cap /\ cdropped s = false).
Proof.
  intros cap phys pp cp sch Hc Hp s. apply (no_lost_wakeup cap phys Hc Hp pp cp). exists sch. reflexivity.
Qed.

(* consequently nobody is ever parked in a quiescent state: the only states of any schedule in
   which no thread can move are the final ones (both programs finished, both handles dropped) *)
Theorem C05_k3spsc_deadlock_free :
  forall cap phys pp cp sch, 0 < cap -> cap <= phys ->
  let s := fst (run (sys cap phys pp cp) (init pp cp) sch) in
  quiescent_ns cap phys s -> ppc s = PDone /\ cpc s = CDone.
Proof.
  intros cap phys pp cp sch Hc Hp s. apply (deadlock_free cap phys Hc Hp pp cp). exists sch. reflexivity.
Qed.

(* the waker's store through the registered `notified` pointer always targets the stack frame of a
   receive call that is still registered (it cannot have returned: it needs the cell's mutex) *)
Theorem C05_k3spsc_notified_store_live :
  forall cap phys pp cp sch, 0 < cap -> cap <= phys ->
  let s := fst (run (sys cap phys pp cp) (init pp cp) sch) in
  (p_taking (ppc s) = true -> c_reg (cpc s) || c_unreg0 (cpc s) = true) /\
  (c_taking (cpc s) = true -> p_reg (ppc s) || p_unreg0 (ppc s) = true).
Proof.
  intros cap phys pp cp sch Hc Hp s.
  assert (Hr : reachable (sys cap phys pp cp) s) by (exists sch; reflexivity).
  pose proof (Inv_reachable cap phys Hc Hp pp cp s Hr) as HI. split; intros X.
  - exact (proj1 (W_Lv _ (I_wca _ _ _ HI) X)).
  - exact (proj1 (V_Lv _ (I_wpa _ _ _ HI) X)).
Qed.

(* non-vacuity: a schedule that really parks (registered, gate = 1), is really woken through the
   notified flag + token while the producer then blocks on the full ring, and completes *)
Example C05_k3spsc_ex_parks : consumer_parked ex_s1 /\ cw_slot ex_s1 = true /\ recv_w ex_s1 = 1.
Proof. exact ex_parks. Qed.
Example C05_k3spsc_ex_woken : tok_c ex_s2 = true /\ c_notif ex_s2 = true /\ producer_parked ex_s2 /\ tail ex_s2 = 1.
Proof. exact ex_wakes_and_blocks. Qed.
Example C05_k3spsc_ex_completes :
  ppc ex_s3 = PDone /\ cpc ex_s3 = CDone /\ cresults ex_s3 = [RVal 1; RVal 2; RVal 3] /\
  presults ex_s3 = [POk 1; POk 2; POk 3] /\ tail ex_s3 = 3 /\ quiescent_ns 1 2 ex_s3.
Proof. exact ex_completes. Qed.
