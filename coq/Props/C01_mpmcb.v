(* Props/C01_mpmcb.v — pinned theorems for property C01 (exactly-once delivery, failed operations have
   no effect) on the K2 model of the bounded MPMC channel (Chan/MpmcB.v).
   All statements quantify over every capacity, handle kind, repair-switch setting and op history. *)
From Fibre Require Import Common.Base Chan.MpmcB Proofs.MpmcBBase Proofs.MpmcBInv Proofs.MpmcBStep Proofs.MpmcBProofs.

(* every payload id ever created is in exactly one place: received, buffered, held by a live
   SendFuture, handed back in an error, or destroyed; nothing is received twice; nothing is received
   that was not accepted *)
Theorem C01_mpmcb_conservation : forall c a f os,
  let s := state_after c a f os in
  Permutation (recvd s ++ q s ++ cell_ids s ++ back s ++ dropped s) (ids (next s))
  /\ NoDup (recvd s) /\ NoDup (acc s) /\ incl (recvd s) (acc s).
Proof. exact mpmcb_conservation. Qed.

(* try_send / send: Ok appends exactly the call's payload; Full / Closed leave queue, accepted and
   received lists untouched and hand back (try_send) or destroy (send, whose error carries no value)
   exactly the call's payload *)
Theorem C01_mpmcb_send_results : forall c a f os h,
  let s := state_after c a f os in
  send_spec false s h (fst (step s (TrySend h))) (snd (step s (TrySend h)))
  /\ send_spec true s h (fst (step s (Send h))) (snd (step s (Send h))).
Proof.
  intros c a f os h. split; [apply try_send_spec | apply send_blocking_spec]; apply Inv_reachable.
Qed.

(* try_recv / recv / recv_timeout: a value is the head of the queue and moves to the received list;
   Empty / Timeout / Disconnected consume nothing *)
Theorem C01_mpmcb_recv_results : forall c a f os h,
  let s := state_after c a f os in
  recv_spec KTry s h (fst (step s (TryRecv h))) (snd (step s (TryRecv h)))
  /\ recv_spec KBlock s h (fst (step s (Recv h))) (snd (step s (Recv h)))
  /\ recv_spec KTimed s h (fst (step s (RecvTimeout h))) (snd (step s (RecvTimeout h))).
Proof.
  intros c a f os h. split; [|split]; [apply try_recv_spec | apply recv_blocking_spec | apply recv_timeout_spec];
    apply Inv_reachable.
Qed.

(* one poll of a future: the queue is untouched, or its head is popped into the received list, or
   (send future) one id is appended; every other step (clone/close/drop/convert/observe/create/drop of
   a future) never appends *)
Theorem C01_mpmcb_poll_and_others : forall c a f os,
  let s := state_after c a f os in
  (forall fid w, poll_eff s fid (fst (step s (Poll fid w))))
  /\ (forall o, pushing o = false -> np s (fst (step s o))).
Proof. intros c a f os. split; [intros; apply poll_structural | intros; apply np_step; assumption]. Qed.

(* batch forms: try_send_batch / try_send_batch_mut accept a prefix of the input, in order, and hand
   back (error / caller's vector) exactly the remaining suffix; try_recv_batch / try_recv_batch_mut
   return a prefix of the queue (min(max, len) items, never an empty batch for max > 0) *)
Theorem C01_mpmcb_batch_results : forall c a f os inplace h n,
  let s := state_after c a f os in
  batch_send_spec inplace s h n (fst (step s (TrySendBatch inplace h n))) (snd (step s (TrySendBatch inplace h n)))
  /\ batch_recv_spec inplace s h n (fst (step s (TryRecvBatch inplace h n))) (snd (step s (TryRecvBatch inplace h n))).
Proof.
  intros c a f os inplace h n. split; [apply try_send_batch_spec, Inv_reachable | apply try_recv_batch_spec].
Qed.

Example C01_mpmcb_example_batch :
  map o_res (snd (run (init 2 false no_fixes)
     [TrySendBatch false 0 3; TryRecvBatch false 1 5; TrySendBatch true 0 0; TryRecvBatch true 1 0;
      TryRecvBatch false 1 2; TrySendBatch true 0 3; TryRecvBatch true 1 1; Close 1; TrySendBatch false 0 2]))
  = [RBErr 2 false [2]; RVals [0; 1]; RMOk 0 []; RNVals []; REmpty; RMOk 2 [5]; RNVals [3]; ROk; RBErr 0 true [6; 7]].
Proof. vm_compute. reflexivity. Qed.

(* non-vacuity: a history with a failed try_send (Full), a parked and a cancelled SendFuture, a steal *)
Example C01_mpmcb_example :
  let r := run (init 1 true no_fixes)
               [TrySend 0; TrySend 0; MkSend 10 0; Poll 10 7; MkSend 11 0; DropF 11; TryRecv 1; Poll 10 7; TryRecv 1] in
  map o_res (snd r) = [ROk; RFull 1; ROk; RPending; ROk; ROk; RVal 0; RReadyOk; RVal 2]
  /\ recvd (fst r) = [0; 2] /\ back (fst r) = [1] /\ dropped (fst r) = [3] /\ q (fst r) = [].
Proof. vm_compute. repeat split; reflexivity. Qed.
