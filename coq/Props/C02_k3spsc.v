(* Props/C02_k3spsc.v — pinned statements: C02 (FIFO) for the K3 SPSC model. *)
From Coq Require Import Sorted.
From Fibre Require Import Common.Base Common.Conc Chan.SpscK3 Proofs.SpscK3Proofs Proofs.SpscK3Values
  Proofs.SpscK3Examples.

(* In every state of every schedule: what the consumer has taken, followed by what Ring::drop
   dropped, followed by what the ring still owns, is exactly the sequence of payloads the producer
   wrote, in send order -- including index wrap-around and non-power-of-two capacities
   (slots are addressed `mod phys`, cap <= phys arbitrary). *)
Theorem C02_k3spsc_fifo :
  forall cap phys pp cp sch, 0 < cap -> cap <= phys ->
  let s := fst (run (sys cap phys pp cp) (init pp cp) sch) in
  received s ++ dropped s ++ buffered s = written s.
Proof.
  intros cap phys pp cp sch Hc Hp s. apply (fifo_conservation cap phys Hc Hp pp cp). exists sch. reflexivity.
Qed.

(* the values the consumer's API calls returned are a prefix of the accepted sequence, which is
   strictly increasing in the producer's op number *)
Theorem C02_k3spsc_delivery_order :
  forall cap phys pp cp sch, 0 < cap -> cap <= phys ->
  let s := fst (run (sys cap phys pp cp) (init pp cp) sch) in
  StronglySorted N.lt (accepted s) /\ exists rest, accepted s = (got s ++ hand_c s) ++ rest.
Proof.
  intros cap phys pp cp sch Hc Hp s.
  assert (Hr : reachable (sys cap phys pp cp) s) by (exists sch; reflexivity).
  split.
  - exact (proj1 (accepted_strictly_increasing cap phys pp cp s Hr)).
  - exact (proj2 (delivered_once_in_order cap phys Hc Hp pp cp s Hr)).
Qed.

Example C02_k3spsc_ex_wrap :
  ppc ex_s3 = PDone /\ cpc ex_s3 = CDone /\ cresults ex_s3 = [RVal 1; RVal 2; RVal 3] /\
  presults ex_s3 = [POk 1; POk 2; POk 3] /\ tail ex_s3 = 3 /\ quiescent_ns 1 2 ex_s3.
Proof. exact ex_completes. Qed.
