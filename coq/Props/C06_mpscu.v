(* Props/C06_mpscu.v — pinned theorems, property C06 (async wake-ups and cancellation) for the
   unbounded MPSC channel.  Sends never wait, so only the receive side has waiters. *)
From Fibre Require Import Common.Base Chan.MpscU Chan.MpscUSpec Proofs.MpscUProofs Proofs.MpscUWake.

(** after every op of every history: a receive future whose last poll returned Pending (with waker w,
    whose wake count was c then) has been woken as soon as its poll would return Ready because of
    the channel (something buffered, or no sender left) - single-consumer usage (multi = false) *)
Theorem C06_mpscu_recv_wake : forall s f w c,
  reach s -> multi s = false -> rpend s f w c -> (q s <> [] \/ scount s = 0) -> c < wk s w.
Proof. exact recv_wake. Qed.

Theorem C06_mpscu_stream_wake : forall s h w c,
  reach s -> multi s = false -> spend s h w c -> (q s <> [] \/ scount s = 0) -> c < wk s w.
Proof. exact stream_wake. Qed.

(** would_be_ready, by running the model's own poll *)
Theorem C06_mpscu_poll_recv_pending_iff : forall s f w fr r reg,
  aget f (fs s) = Some fr -> aget (fh fr) (hs s) = Some r -> fk fr = FRecv reg ->
  (snd (exec s (Poll f w)) = RPending <-> hclosed r = false /\ q s = [] /\ scount s <> 0).
Proof. exact poll_recv_pending_iff. Qed.

(** dropping a future leaves no registration pointing at it: whatever sits in the waiter slot
    belongs to a live, registered receive future *)
Theorem C06_mpscu_no_dangling : forall s f w, reach s -> rw s = Some (OF f, w) ->
  exists fr, aget f (fs s) = Some fr /\ reg_of (fk fr) = true.
Proof. exact no_dangling. Qed.

(** dropping futures at any point preserves conservation and order (they are ops of the history) *)
Theorem C06_mpscu_cancel_conserves : forall s, reach s ->
  (NoDup (used s) /\ Permutation (used s) (rcv s ++ q s ++ fitems (fs s) ++ back s ++ drp s))
  /\ acc s = rcv s ++ q s ++ qdrp s.
Proof. intros s R. split; [exact (conservation s R) | exact (fifo_all s R)]. Qed.

Theorem C06_mpscu_send_never_pending : forall s f w fr,
  aget f (fs s) = Some fr -> is_recv_kind (fk fr) = false -> snd (exec s (Poll f w)) <> RPending.
Proof. exact send_never_pending. Qed.

Example C06_mpscu_example :
  let '(s, outs) := run (init true false)
      [MkRecv 0 1; Poll 0 2; Clone 0 2; TrySend 2 7; Poll 0 3; Poll 0 3; DropF 0; Close 0; Close 2; MkRecv 1 1; Poll 1 1] in
  map out_res outs = [ROk; RPending; ROk; ROk; RReady (RVal 7); RPending; ROk; ROk; ROk; ROk; RReady RDisc]
  /\ map out_wakes outs = [[]; []; []; [2]; []; []; []; []; []; []; []].
Proof. vm_compute. split; reflexivity. Qed.
