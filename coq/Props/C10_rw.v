(* Props/C10_rw.v — pinned statements for property C10, HybridRwLock part.
   Model: Sync/HRwLock.v (one step per traced atomic event of channels/src/sync/rwlock.rs and
   wait_queue.rs; SC semantics; any number of threads, programs, schedules; spurious failure of
   compare_exchange_weak is a schedule choice).
   Proved here: mutual exclusion, the writer gate (safety core of "a queued writer is not starved
   by a stream of readers"), try_read/try_write never block, wake owed / deadlock freedom (no
   reachable quiescent state has a parked or queued waiter: in particular a linked writer is never
   left parked with the lock free), wait-list well-formedness, forwarding of a cancelled wake.
   NOT proved: "eventually under fair scheduling" (only the safety core above), bounded waiting. *)
From Coq Require Import List NArith Arith Bool.
From Fibre Require Import Common.Conc Sync.HMutex Sync.HRwLock Proofs.HMutexBase Proofs.HRwBase
     Proofs.HRwGuard Proofs.HRwProofs Proofs.HRwQueue Proofs.HRwNode Proofs.HRwWake Proofs.HRwOwed Proofs.HRwLive.
Import ListNotations.

(* Guard accounting: WRITE_LOCKED set => zero readers, no read guard, exactly one write guard;
   the reader count equals the number of read guards (which may be many); a write guard never
   coexists with any other guard of the lock. *)
Theorem C10_rw_excl : forall progs s,
  reachable (rwsys progs) s ->
  (wl s = true -> rd s = 0%N /\ rholders s = [] /\ exists h, wholders s = [h])
  /\ (wl s = false -> wholders s = [])
  /\ rd s = N.of_nat (length (rholders s)) /\ NoDup (rholders s)
  /\ (forall u, In u (wholders s) <-> holdsk WR (rpcs s u) = true)
  /\ (forall u, In u (rholders s) <-> holdsk RD (rpcs s u) = true)
  /\ (forall t u k, holdsk WR (rpcs s t) = true -> holdsk k (rpcs s u) = true -> t = u).
Proof. exact rw_excl. Qed.

Theorem C10_rw_critical_sections : forall progs s t u k,
  reachable (rwsys progs) s -> rpcs s t = RCS WR -> rpcs s u = RCS k -> t = u.
Proof. exact rw_critical_sections. Qed.

(* Writer gate: whenever a step creates a read guard (by try_acquire_read, try_read, or the CAS
   of a queue section), the word it replaced had neither WRITE_LOCKED nor WRITER_PENDING, and every
   writer node linked at that moment belongs to a writer that has not yet executed its
   fetch_or(WRITER_PENDING).  So from a queued writer's fetch_or until it is unlinked no NEW reader
   acquires: a continuous stream of readers cannot keep the count above zero forever. *)
Theorem C10_writer_gate : forall progs s t c s' e,
  reachable (rwsys progs) s -> rwstep s t c = Some (s', e) ->
  length (rholders s') = S (length (rholders s)) ->
  wl s = false /\ wp s = false
  /\ forall u, In (u, true) (rqueue s) -> exists q, rpcs s u = RQFor q /\ rkind_q q = WR.
Proof. exact rw_writer_gate. Qed.

Theorem C10_writer_gate_up : forall progs s u,
  reachable (rwsys progs) s -> In (u, true) (rqueue s) -> (forall q, rpcs s u <> RQFor q) -> wp s = true.
Proof. exact rw_gate_up. Qed.

(* try_read / try_write never block (any state, any choice; at most two own steps, only the state word) *)
Theorem C10_rw_try_nonblocking : forall s t c,
  rtry_pc (rpcs s t) = true ->
  exists s' e, rwstep s t c = Some (s', e) /\ rstate_access e /\
    match rpcs s t with
    | RTALoad (RATry k) => (exists a b d, rpcs s' t = RTACas (RATry k) a b d) \/ rpcs s' t = RIdle
    | RTACas (RATry k) _ _ _ => rpcs s' t = RCS k \/ rpcs s' t = RIdle
    | _ => False
    end.
Proof. exact rw_try_nonblocking. Qed.

(* Wake owed (safety core of "blocking and async acquirers eventually acquire after the lock is
   released" and of "a queued writer is not starved"): a reachable state in which no thread can take
   a step has the lock completely free, the wait list empty, and nobody parked ... *)
Theorem C10_rw_wake_owed : forall progs s,
  reachable (rwsys progs) s -> quiescent (rwsys progs) s ->
  wl s = false /\ rd s = 0%N /\ rqueue s = [] /\ wholders s = [] /\ rholders s = [] /\ rllock s = None
  /\ forall t k, rpcs s t <> RPark k /\ rpcs s t <> RBPark.
Proof. exact rw_wake_owed. Qed.

(* ... indeed every thread has finished its program and dropped its futures *)
Theorem C10_rw_deadlock_free : forall progs s,
  reachable (rwsys progs) s -> quiescent (rwsys progs) s ->
  forall t, rpcs s t = RIdle /\ rfut s t = None.
Proof. exact rw_deadlock_free. Qed.

(* Wait-list well-formedness: no owner is linked twice; the owner of every linked node is alive
   (inside read_slow/write_slow, or owning an un-dropped future) and the node's is_writer flag is the
   owner's kind: a dropped read/write future leaves no dangling node. *)
Theorem C10_rw_list_wf : forall progs s,
  reachable (rwsys progs) s ->
  NoDup (map fst (rqueue s))
  /\ forall u b, In (u, b) (rqueue s) ->
       (rinsync (rpcs s u) = true \/ rfut s u <> None)
       /\ exists k, rckind (rpcs s u) (rfut s u) = Some k /\ b = is_wr k.
Proof. exact rw_list_wf. Qed.

(* The invariant behind wake-owed, pinned: while the lock is completely free and the list is non-empty,
   a wake_waiters is on its way (a release that saw HAS_QUEUED, or a dropped WOKEN future from its
   unlink on), or the wake target is awake (first queued writer WOKEN / re-checking; with no writer
   queued, some queued reader re-checking). *)
Theorem C10_rw_wake_in_flight : forall progs s,
  reachable (rwsys progs) s -> wl s = false -> rd s = 0%N -> rqueue s <> [] ->
  (exists w, rprew s w) \/ rtarget_ok s.
Proof. exact rw_wake_in_flight. Qed.

(* A parked waiter whose node was marked WOKEN has its token, or its handle is still in the wake
   list of a wake_waiters that will fire it. *)
Theorem C10_rw_woken_has_token : forall progs s,
  reachable (rwsys progs) s ->
  (forall h k, rpcs s h = RPark k -> rnwk s h = true -> rtoken s h = true \/ exists w, pendT (rpcs s w) h)
  /\ (forall h, rpcs s h = RBPark -> rnwk s h = true ->
        (exists w, pendB (rpcs s w) h)
        \/ (rbwoken s h = true /\ (rtoken s h = true \/ exists w r, rpcs s w = RWWake h r))).
Proof. exact rw_woken_has_token. Qed.

(* A cancelled future whose node was WOKEN passes the wake on: its drop continues into wake_waiters,
   and from its unlink on it counts as the waker in flight of C10_rw_wake_in_flight; that the forwarded
   wake reaches a waiter is C10_rw_woken_has_token + C10_rw_wake_owed (no quiescent state with a
   waiter), instantiated by the Example C10_ex_rw_cancel_forwards below. *)
Theorem C10_rw_cancel_forwards_wake : forall s t c,
  rpcs s t = RDLoad -> rnwk s t = true ->
  (exists s' e, rwstep s t c = Some (s', e) /\ rpcs s' t = RLLSwap RLWake /\ rfut s' t = None)
  /\ rprew s t.
Proof.
  intros s t c Epc Hn. split; [apply rw_cancel_forwards_wake; assumption|].
  apply rw_cancel_is_waker; [rewrite Epc; reflexivity|exact Hn].
Qed.

(* a release that frees the lock while a node past its fetch_or is linked runs wake_waiters *)
Theorem C10_rw_release_wakes : forall progs s t k c u b,
  reachable (rwsys progs) s -> rpcs s t = RURel k ->
  (k = WR \/ rd s = 1%N) ->
  In (u, b) (rqueue s) -> (forall q, rpcs s u <> RQFor q) ->
  exists s' e, rwstep s t c = Some (s', e) /\ rpcs s' t = RLLSwap RLWake.
Proof. exact rw_release_wakes. Qed.

(* ---- non-vacuity *)
Definition rrep (n : nat) (x : nat * rch) := repeat x n.

(* two readers inside their critical sections at once *)
Definition rprogs2 (t : nat) : list rop := match t with 0 => [ROLock RD] | 1 => [ROLock RD] | _ => [] end.
Example C10_ex_readers_coexist :
  let s := fst (run (rwsys rprogs2) (rwinit rprogs2) (rrep 2 (0, RGo) ++ rrep 2 (1, RGo))) in
  rpcs s 0 = RCS RD /\ rpcs s 1 = RCS RD /\ rd s = 2%N /\ rholders s = [1; 0] /\ wl s = false.
Proof. vm_compute. repeat split. Qed.

(* a reader holds; a writer queues (WRITER_PENDING goes up) and parks; a second reader's
   try_read now fails although the lock is only read-held; the first reader's unlock wakes the
   writer, which acquires *)
Definition rprogs3 (t : nat) : list rop :=
  match t with 0 => [ROLock RD] | 1 => [ROLock WR] | 2 => [ROTry RD] | _ => [] end.
Definition rsch_gate := rrep 2 (0, RGo) ++ rrep 9 (1, RGo).
Example C10_ex_writer_pending_gates_reader :
  let s := fst (run (rwsys rprogs3) (rwinit rprogs3) rsch_gate) in
  rpcs s 0 = RCS RD /\ rpcs s 1 = RPark WR /\ rwstep s 1 RGo = None /\ wp s = true /\ rqueue s = [(1, true)]
  /\ let s2 := fst (run (rwsys rprogs3) s (rrep 1 (2, RGo))) in
     rresults s2 = [(0, RRL RD); (2, RRT RD false)] /\ rd s2 = 1%N.
Proof. vm_compute. repeat split. Qed.

Example C10_ex_writer_woken :
  let s := fst (run (rwsys rprogs3) (rwinit rprogs3)
                    (rsch_gate ++ rrep 7 (0, RGo) ++ rrep 11 (1, RGo))) in
  rpcs s 0 = RIdle /\ rpcs s 1 = RIdle /\ rqueue s = [] /\ wl s = false /\ wp s = false /\ hq s = false
  /\ rresults s = [(0, RRL RD); (1, RRL WR)].
Proof. vm_compute. repeat split. Qed.

(* a reader holds; thread 1 polls a WRITE future once (queued, WRITER_PENDING up); thread 2 blocks in
   read_async behind it; the reader's unlock wakes the writer future (WOKEN, still linked), which is
   then CANCELLED: its drop clears WRITER_PENDING, forwards the wake, and the sweep wakes thread 2,
   which acquires the read lock *)
Definition rprogs4 (t : nat) : list rop :=
  match t with 0 => [ROLock RD] | 1 => [ROPoll WR; RODropFut] | 2 => [ROAsync RD] | _ => [] end.
Definition rsch_q := rrep 2 (0, RGo) ++ rrep 7 (1, RGo) ++ rrep 7 (2, RGo) ++ rrep 5 (0, RGo).
Example C10_ex_rw_woken_writer_future :
  let s := fst (run (rwsys rprogs4) (rwinit rprogs4) rsch_q) in
  wl s = false /\ rd s = 0%N /\ wp s = true /\ rqueue s = [(1, true); (2, false)] /\ rnwk s 1 = true
  /\ rpcs s 1 = RIdle /\ rfut s 1 = Some (WR, false) /\ rpcs s 2 = RBPark /\ rwstep s 2 RGo = None.
Proof. vm_compute. repeat split. Qed.

Example C10_ex_rw_cancel_forwards :
  let s := fst (run (rwsys rprogs4) (rwinit rprogs4) (rsch_q ++ rrep 11 (1, RGo) ++ rrep 7 (2, RGo))) in
  rpcs s 0 = RIdle /\ rpcs s 1 = RIdle /\ rpcs s 2 = RIdle /\ rqueue s = [] /\ wl s = false /\ rd s = 0%N
  /\ wp s = false /\ hq s = false /\ rfut s 1 = None /\ rfut s 2 = None
  /\ rresults s = [(0, RRL RD); (1, RRP false); (2, RRA RD)].
Proof. vm_compute. repeat split. Qed.
