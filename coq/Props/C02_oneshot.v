(* Props/C02_oneshot.v — pinned theorem: C02 for fibre::oneshot (trivial order: at most one value). *)
From Coq Require Import List Arith.
From Fibre Require Import Chan.OneshotOps Proofs.OneshotOpsProofs Proofs.OneshotOpsTheorems.
Import ListNotations.
Open Scope nat_scope.

(* what was received is a prefix of what was accepted, and at most one value is accepted *)
Theorem C02_oneshot_prefix : forall cf ops,
  let s := oreach cf ops in
  NoDup (orecv s) /\ (orecv s = [] \/ orecv s = oacc s) /\ length (oacc s) <= 1.
Proof. exact oneshot_received_once. Qed.

Example C02_oneshot_example :
  map fst (orun_case ocfg_repo [OMkRecv 0; OPoll 0 1; OSend 0; OPoll 0 1])
  = [OOk; OPending; OOk; OVal 0; OOk].
Proof. vm_compute. reflexivity. Qed.
