(* Props/C04_topic.v — pinned theorems for property C04 (disconnect protocol / handle lifecycle), topic flavour.
   Only statements, `exact`, and Examples.

   `violations4 c async cap h` = the complaints of the C04 reference (Chan/TopicSpec04.v) when the topic model
   (Chan/TopicOps.v, fix switches c) runs history h.  Clauses:
     V4ValueAfterDisc r    a receive returned a value after handle r had observed Disconnected
     V4SendAfterLastRx s   send returned Ok although no receiver handle is open
     V4ClosedWithLiveRx s  send on an open sender handle returned Closed while a receiver handle is open
     V4ClosedTxAccepts s   send returned Ok on a sender handle whose close() had returned Ok
     V4ClosedRxAccepts r   a receive on a closed receiver handle handed out a value / reported "nothing yet"
     V4DoubleCloseTx/Rx    close() returned Ok twice on one handle
   ("drain before Disconnected" and "closing one sender clone disconnects nobody" are C08's VDiscLive,
    pinned in Props/C08.v.) *)
From Fibre Require Import Common.Base Chan.TopicOps Chan.TopicSpec Chan.TopicSpec04
     Proofs.TopicOpsProofs Proofs.TopicC04Inv Proofs.TopicC04Proofs.

(** everything except the closed-receiver clause, with patches F-04 and F-07 *)
Theorem C04_topic_holds_postfix : forall c, fix04 c = true -> fix07 c = true ->
  forall a cap h v, In v (violations4 c a cap h) -> match v with V4ClosedRxAccepts _ => True | _ => False end.
Proof. exact c04_postfix. Qed.

(** current code: refuted by the receiver count being decremented twice (F-07 and the async Drop) ... *)
Theorem C04_topic_refuted_F07 : ~ C04_full pre_fix.
Proof. exact c04_refuted_F07. Qed.
(** ... and by a value arriving after Disconnected (F-04) *)
Theorem C04_topic_refuted_F04 : ~ C04_full pre_fix.
Proof. exact c04_refuted_F04. Qed.

(** receiver-count clauses (send fails iff no receiver handle is open; second close is an error):
    hold with patch F-07, and on the current code for channels made by `channel()` whose receivers are never
    converted with to_async/to_sync *)
Theorem C04_topic_count_postfix_F07 : forall c, fix07 c = true ->
  forall a cap h v, count_clause v -> ~ In v (violations4 c a cap h).
Proof. exact c04_count_postfix_F07. Qed.

Theorem C04_topic_count_except_F07 : forall c cap h v,
  Forall not_conv_r h -> count_clause v -> ~ In v (violations4 c false cap h).
Proof. exact c04_count_except_F07. Qed.

(** a handle that observed Disconnected never obtains a value afterwards: with patch F-04, and on the current
    code for histories that never clone a sender *)
Theorem C04_topic_value_after_disc_postfix_F04 : forall c, fix04 c = true ->
  forall a cap h r, ~ In (V4ValueAfterDisc r) (violations4 c a cap h).
Proof. exact c04_value_after_disc_postfix_F04. Qed.

Theorem C04_topic_value_after_disc_except_F04 : forall c a cap h r,
  Forall not_clone_s h -> ~ In (V4ValueAfterDisc r) (violations4 c a cap h).
Proof. exact c04_value_after_disc_except_F04. Qed.

(** a closed sender handle rejects sends and a second close, always *)
Theorem C04_topic_closed_sender_rejects : forall c a cap h s,
  ~ In (V4ClosedTxAccepts s) (violations4 c a cap h) /\ ~ In (V4DoubleCloseTx s) (violations4 c a cap h).
Proof. exact c04_closed_sender_rejects. Qed.

(** a closed receiver handle does NOT reject receives (F-03, no patch proposed): refuted with and without patches *)
Theorem C04_topic_closed_rx_refuted_F03 : ~ closed_rx_rejects pre_fix /\ ~ closed_rx_rejects post_fix.
Proof. exact c04_closed_rx_refuted_F03. Qed.

(** witnesses (replayed on the implementation by ./check C04) *)
Example C04_topic_witness_F07_conv : violations4 pre_fix false 2 w_F07_conv = [V4DoubleCloseRx 0; V4ClosedWithLiveRx 0].
Proof. exact witness_F07_conv. Qed.
Example C04_topic_witness_F07_adrop : violations4 pre_fix true 2 w_F07_adrop = [V4ClosedWithLiveRx 0].
Proof. exact witness_F07_adrop. Qed.
Example C04_topic_witness_F07_under : violations4 pre_fix true 2 w_F07_under = [V4SendAfterLastRx 0].
Proof. exact witness_F07_under. Qed.
Example C04_topic_witness_F04_val : violations4 pre_fix false 2 w_F04_val = [V4ValueAfterDisc 0].
Proof. exact witness_F04_val. Qed.
Example C04_topic_witness_F04_zombie : violations4 pre_fix false 2 w_F04_zombie = [V4ValueAfterDisc 0].
Proof. exact witness_F04_zombie. Qed.
Example C04_topic_witnesses_postfix :
  violations4 post_fix false 2 w_F07_conv = [] /\ violations4 post_fix true 2 w_F07_adrop = [] /\
  violations4 post_fix true 2 w_F07_under = [] /\ violations4 post_fix false 2 w_F04_val = [] /\
  violations4 post_fix false 2 w_F04_zombie = [].
Proof. exact witnesses4_postfix. Qed.
