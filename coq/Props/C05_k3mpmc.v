(* Props/C05_k3mpmc.v — pinned statements: C05 (wake accounting, safety form) for the K3' model of the
   bounded MPMC channel's sync paths, repaired configuration (`rearm_after_steal`, `redrain_on_close`):
   every capacity >= 1, any number of producer / consumer threads, every program, every schedule.
   quiescent_go: no thread can take a normal step (one more spin / yield round, a spurious park
   return or the recv_timeout deadline aside).
   Partial with respect to the property text: "eventually under fair scheduling" is not stated;
   what is proved is that no reachable state is stuck. *)
From Coq Require Import List Arith.
From Fibre Require Import Common.Conc Chan.MpmcK3 Proofs.MpmcK3Base Proofs.MpmcK3Wake4 Proofs.MpmcK3Examples.
Import ListNotations.

(* no lost wakeup: in a quiescent state a parked receiver (recv or recv_timeout) faces an empty ring
   and a live sender; a parked sender faces a full ring and a live receiver *)
Theorem C05_k3mpmc_no_lost_wakeup :
  forall cap cf th sch, 0 < cap -> rearm_after_steal cf = true -> redrain_on_close cf = true ->
  let s := fst (run (sys cap cf th) (init th) sch) in
  quiescent_go cap cf s ->
  (forall u, pcs s u = RWNext \/ pcs s u = TWNext -> tok s u = false -> q s = [] /\ scnt s <> 0) /\
  (forall u, pcs s u = SWNext -> tok s u = false -> length (q s) = cap /\ rcnt s <> 0).
Proof.
  intros cap cf th sch Hc H1 H2 s Hq.
  assert (Hr : reachable (sys cap cf th) s) by (exists sch; reflexivity).
  split; intros u.
  - apply (parked_receiver cap cf th s Hc H1 H2 Hr Hq).
  - apply (parked_sender cap cf th s Hc H1 H2 Hr Hq).
Qed.

(* consequently nobody is ever parked in a quiescent state - in particular not after the other side
   is gone: the only states in which no thread can move are the final ones *)
Theorem C05_k3mpmc_deadlock_free :
  forall cap cf th sch, 0 < cap -> rearm_after_steal cf = true -> redrain_on_close cf = true ->
  let s := fst (run (sys cap cf th) (init th) sch) in
  quiescent_go cap cf s -> forall t, pcs s t = Done.
Proof.
  intros cap cf th sch Hc H1 H2 s Hq. apply (deadlock_free cap cf th s Hc H1 H2); [|exact Hq]. exists sch. reflexivity.
Qed.

(* regression witness (F-02, /repo commit b9b6953): without re-arming, a timed receiver that was
   signalled but lost the item to a try_recv stays parked without a linked record; the next send
   wakes nobody: a quiescent state with a parked receiver and a buffered value *)
Theorem C05_k3mpmc_refuted_without_rearm :
  ~ (forall cap th sch,
       let s := fst (run (sys cap (mkCfg false true) th) (init th) sch) in
       quiescent_go cap (mkCfg false true) s -> forall u, parked s u -> q s = []).
Proof.
  intros H. specialize (H 1 w02_th w02_sch). cbv zeta in H.
  assert (Q : quiescent_go 1 (mkCfg false true) (fst (run (sys 1 (mkCfg false true) w02_th) (init w02_th) w02_sch))).
  { intros t. destruct t as [|[|[|t]]]; vm_compute; reflexivity. }
  assert (P : parked (fst (run (sys 1 (mkCfg false true) w02_th) (init w02_th) w02_sch)) 1).
  { vm_compute. split; [right; right; right; reflexivity|reflexivity]. }
  specialize (H Q 1 P). vm_compute in H. discriminate H.
Qed.

(* non-vacuity: both receivers really park (registered, WAITING); the send signals one of them by
   CAS + unpark and then itself parks on the full ring; the whole run completes *)
Example C05_k3mpmc_ex_parks : parked ex_s1 1 /\ parked ex_s1 2 /\ wr ex_s1 = [(1, 1); (2, 1)] /\ lk ex_s1 = None.
Proof. exact ex_both_parked. Qed.
Example C05_k3mpmc_ex_signalled :
  flag ex_s2 1 = FSuccess /\ tok ex_s2 1 = true /\ parked ex_s2 0 /\ ws ex_s2 = [(0, 1)] /\ owedR ex_s2 = [1].
Proof. destruct ex_signalled_then_full as (A & B & _ & _ & C & D & E). auto. Qed.
Example C05_k3mpmc_ex_completes : forall t, pcs ex_s3 t = Done.
Proof. exact (proj1 ex_completes). Qed.
Example C05_k3mpmc_ex_rearmed : gen (w02 cfg_fixed) 1 = 2 /\ ~ parked (w02 cfg_fixed) 1.
Proof. destruct w02_with_rearm as (A & _ & _ & _ & _ & B). auto. Qed.
