(* Props/C01_k3rv.v — pinned statements: C01 (exactly-once delivery, failed operations have no
   effect) for the K3' model of the queued rendezvous core (internal/rendezvous.rs, sync API of
   mpmc / mpsc / spsc ::rendezvous).  `cfg` = any number of sender and receiver threads with
   arbitrary programs; `sch` = any schedule (timeouts firing and spurious park returns are
   schedule choices).  `final true cfg sch` is the state the repaired code (cancel CAS under the
   lock, /repo commit 2e08297) reaches; `final false` is the pre-fix code (finding F-01). *)
From Coq Require Import List.
From Fibre Require Import Common.Conc Chan.RvK3 Proofs.RvK3Queue Proofs.RvK3Cell Proofs.RvK3Val
  Proofs.RvK3Examples Proofs.RvK3Final.
Import ListNotations.

(* rv_exactly_once: the payload of every send that reported Ok is with exactly one receiver,
   exactly once (returned by one of its receives, or still in its hand / destination cell), and
   no receive reported Timeout over a delivered payload *)
Theorem C01_k3rv_exactly_once : rv_exactly_once true.
Proof. exact rv_exactly_once_fixed. Qed.

(* F-01 (fixed by 2e08297): with the cancel CAS outside the lock the same statement is false *)
Theorem C01_k3rv_prefix_refuted_F01 : ~ rv_exactly_once false.
Proof. exact rv_exactly_once_prefix_refuted. Qed.

Theorem C01_k3rv_prefix_loses_value :
  exists cfg sch p v, let s := final false cfg sch in
  is_sender cfg p = true /\ In v (sent_ok s p) /\ all_done cfg s /\ (forall r, ~ In v (got s r)) /\
  In (RTimeout (Some v)) (results s 1).
Proof. exact rv_prefix_loses_value. Qed.

(* after every thread has finished and dropped its handle: every Ok-sent payload was returned by
   exactly one receive of exactly one receiver *)
Theorem C01_k3rv_final_accounting :
  forall cfg sch p v, let s := final true cfg sch in
  all_done cfg s -> is_sender cfg p = true -> In v (sent_ok s p) ->
  exists r, is_receiver cfg r = true /\ In v (got s r) /\ NoDup (got s r) /\
            forall r', is_receiver cfg r' = true -> In v (got s r') -> r' = r.
Proof. intros cfg sch p v s. exact (F_exactly_once_final cfg sch p v). Qed.

(* conservation over the in-flight cells: what a receiver was handed (in handoff order) = what its
   receives returned (in order) ++ what is in its hand / destination cell; each payload is handed
   off at most once; what a receiver holds or returned was handed to it *)
Theorem C01_k3rv_conservation :
  forall cfg sch, let s := final true cfg sch in
  NoDup (map fst (handed s)) /\
  (forall r, is_receiver cfg r = true -> handed_to s r = got s r ++ r_inflight cfg s r) /\
  (forall r v, is_receiver cfg r = true -> In v (got s r ++ r_inflight cfg s r) -> In (v, r) (handed s)).
Proof.
  intros cfg sch s. split; [exact (F_handed_once cfg sch)|]. split.
  - exact (F_receiver_accounting cfg sch).
  - exact (F_received_was_handed cfg sch).
Qed.

(* a timed receive never returns Timeout after a sender committed the handoff into its cell *)
Theorem C01_k3rv_no_timeout_after_handoff :
  forall cfg sch r v, ~ In (RTimeout (Some v)) (results (final true cfg sch) r).
Proof. intros cfg sch. exact (F_no_timeout_after_handoff cfg sch). Qed.

(* a failed try_send (Full / Closed) or send (Closed) handed its payload to nobody *)
Theorem C01_k3rv_failed_send_no_effect :
  forall cfg sch p v, let s := final true cfg sch in
  is_sender cfg p = true -> In v (failed s p) -> ~ was_handed s v.
Proof. intros cfg sch p v s. exact (F_failed_not_handed cfg sch p v). Qed.

(* non-vacuity: a receiver really parks, is handed a payload and woken; a timed receive really
   times out cleanly; try ops really fail; the F-01 schedule on the repaired code delivers *)
Example C01_k3rv_ex_completes :
  all_done ex_cfg ex_s3 /\ results ex_s3 0 = [POk (0, 1); POk (0, 2)] /\
  results ex_s3 1 = [RVal (0, 1); RVal (0, 2); RDisc] /\ handed ex_s3 = [((0, 1), 1); ((0, 2), 1)] /\
  bad ex_s3 = false /\ quiescent_ns true ex_cfg ex_s3.
Proof. exact ex_completes. Qed.
Example C01_k3rv_ex_try_and_timeout :
  all_done ex2_cfg ex2_s /\
  results ex2_s 0 = [PFull (0, 1); POk (0, 2); PGone (0, 3)] /\
  results ex2_s 1 = [RVal (0, 2); RTimeout None; RTimeout None] /\
  handed ex2_s = [((0, 2), 1)] /\ bad ex2_s = false.
Proof. exact ex2_results. Qed.
Example C01_k3rv_ex_F01_schedule_on_fixed_code :
  results f01_fixed 0 = [POk (0, 1)] /\ results f01_fixed 1 = [RVal (0, 1)] /\ lost f01_fixed 1 = [].
Proof. exact f01_fixed_delivers. Qed.
Example C01_k3rv_ex_F01_witness :
  results f01_s 0 = [POk (0, 1)] /\ results f01_s 1 = [RTimeout (Some (0, 1))] /\
  got f01_s 1 = [] /\ lost f01_s 1 = [(0, 1)] /\ handed f01_s = [((0, 1), 1)] /\ all_done f01_cfg f01_s.
Proof. exact f01_witness. Qed.
