(* Props/C04_mpscu.v — pinned theorems, property C04 (disconnect protocol) for the unbounded MPSC channel. *)
From Fibre Require Import Common.Base Chan.MpscU Chan.MpscUSpec Proofs.MpscUProofs.

Theorem C04_mpscu_drain_then_disc : forall s o,
  fut_ok s ->
  snd (exec s o) = RDisc \/ snd (exec s o) = RReady RDisc ->
  (q s = [] /\ scount s = 0)
  \/ (exists h r, aget h (hs s) = Some r /\ htx r = false /\ hclosed r = true).
Proof. exact disc_means_drained. Qed.

Theorem C04_mpscu_no_open_sender : forall s h r,
  GS s -> scount s = 0 -> aget h (hs s) = Some r -> htx r = true -> hclosed r = true.
Proof. exact no_open_sender. Qed.

Theorem C04_mpscu_disc_stable_except_FM1 : forall s o,
  GS s -> disc_state s -> (fixcl s = true \/ ~ clones_closed s o) ->
  disc_state (fst (exec s o)) /\ has_value (snd (exec s o)) = false.
Proof. exact disc_stable. Qed.

Theorem C04_mpscu_disc_is_final_refuted_FM1 : ~ disc_is_final.
Proof. exact disc_is_final_refuted_FM1. Qed.

Theorem C04_mpscu_disc_is_final_fixed : forall a ops o,
  let s := final (init a true) ops in
  disc_state s -> disc_state (fst (exec s o)) /\ has_value (snd (exec s o)) = false.
Proof. exact disc_is_final_fixed. Qed.

Theorem C04_mpscu_receiver_gone : forall s, GS s ->
  (forall r, aget 1 (hs s) = Some r -> htx r = true \/ hclosed r = true) -> rdrop s = true.
Proof. exact receiver_gone. Qed.

Theorem C04_mpscu_send_after_rx_gone : forall s o r h,
  rdrop s = true -> has_futs h s = false ->
  aget h (hs s) = Some r -> htx r = true ->
  match o with
  | TrySend h' v => h' = h /\ fresh [v] s = true
  | Send h' v => h' = h /\ hasync r = false /\ fresh [v] s = true
  | SendB h' vs _ so => h' = h /\ (so && hasync r) = false /\ fresh vs s = true /\ vs <> []
  | _ => False
  end ->
  closed_with_value o (snd (exec s o)).
Proof. exact send_after_rx_gone. Qed.

Theorem C04_mpscu_poll_after_rx_gone : forall s f w fr r v,
  rdrop s = true -> aget f (fs s) = Some fr -> aget (fh fr) (hs s) = Some r -> fk fr = FSend (Some v) ->
  snd (exec s (Poll f w)) = RReady RClosed.
Proof. exact poll_after_rx_gone. Qed.

Theorem C04_mpscu_clone_isolation : forall s h r h' r',
  GS s -> has_futs h s = false -> aget h (hs s) = Some r -> htx r = true -> hclosed r = false ->
  aget h' (hs s) = Some r' -> h' <> h -> isopen r' = true ->
  let s' := fst (exec s (Close h)) in
  0 < scount s' /\ q s' = q s /\ rdrop s' = rdrop s
  /\ rw s' = rw s /\ evw s' = evw s /\ fs s' = fs s
  /\ (forall k, k <> h -> aget k (hs s') = aget k (hs s)).
Proof. exact clone_isolation. Qed.

(** every form (incl. recv_timeout) on a closed handle fails and leaves the queue alone *)
Theorem C04_mpscu_closed_handle_rejects : forall s h r o,
  has_futs h s = false -> aget h (hs s) = Some r -> hclosed r = true ->
  match o with
  | TrySend h' v => h' = h /\ htx r = true /\ fresh [v] s = true
  | Send h' v => h' = h /\ htx r = true /\ hasync r = false /\ fresh [v] s = true
  | SendB h' vs _ so => h' = h /\ htx r = true /\ (so && hasync r) = false /\ fresh vs s = true /\ vs <> []
  | TryRecv h' => h' = h /\ htx r = false
  | Recv h' => h' = h /\ htx r = false /\ hasync r = false
  | RecvT0 h' => h' = h /\ htx r = false /\ hasync r = false
  | TryRecvB h' m => h' = h /\ htx r = false /\ m <> 0
  | RecvB h' m => h' = h /\ htx r = false /\ hasync r = false /\ m <> 0
  | PollNext h' _ => h' = h /\ htx r = false /\ hasync r = true
  | Close h' => h' = h
  | _ => False
  end ->
  failed (snd (exec s o)) = true /\ q (fst (exec s o)) = q s.
Proof. exact closed_handle_rejects. Qed.

Theorem C04_mpscu_double_close : forall s h r,
  has_futs h s = false -> aget h (hs s) = Some r -> hclosed r = true -> exec s (Close h) = (s, RCloseErr).
Proof. exact double_close. Qed.

Theorem C04_mpscu_first_close : forall s h r,
  has_futs h s = false -> aget h (hs s) = Some r -> hclosed r = false ->
  snd (exec s (Close h)) = ROk /\
  exists r', aget h (hs (fst (exec s (Close h)))) = Some r' /\ hclosed r' = true.
Proof. exact first_close. Qed.

Example C04_mpscu_example :
  let '(s, outs) := run (init false false)
      [Clone 0 2; TrySend 0 1; Close 0; Close 0; TrySend 0 2; TryRecv 1; TryRecv 1; DropH 2; TryRecv 1;
       Close 1; RecvT0 1; TrySend 0 3] in
  map out_res outs = [ROk; ROk; ROk; RCloseErr; RClosedV 2; RVal 1; REmpty; ROk; RDisc; ROk; RDisc; RClosedV 3].
Proof. vm_compute. reflexivity. Qed.
