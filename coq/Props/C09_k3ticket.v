(* Props/C09_k3ticket.v — pinned statements: C09 (slot ownership, reset-on-drain) for the K3 model of
   the bounded MPSC ticket protocol. *)
From Fibre Require Import Common.Base Common.Conc Chan.TicketK3 Proofs.TicketK3Base Proofs.TicketK3Safety
  Proofs.TicketK3Examples.

(* no payload cell is ever overwritten while live, no state byte stored over a non-EMPTY one, no
   empty cell taken (the model's `bad` flag), in every state of every schedule *)
Theorem C09_k3ticket_no_ownership_violation :
  forall cap cc n kk np pp cp sch, 0 < cc -> 0 < n ->
  let s := fst (Conc.run (sys cap cc n kk np pp cp) (init np pp cp) sch) in
  bad s = false.
Proof.
  intros cap cc n kk np pp cp sch Hcc Hn s. apply (no_ownership_violation cap cc n kk np Hcc Hn pp cp). exists sch. reflexivity.
Qed.

(* a ticket has at most one owner (the thread whose claimed run contains it and has not yet stored its state) *)
Theorem C09_k3ticket_owner_unique :
  forall cap cc n kk np pp cp sch t th1 th2, 0 < cc -> 0 < n ->
  let s := fst (Conc.run (sys cap cc n kk np pp cp) (init np pp cp) sch) in
  owns (ppc s th1) t -> owns (ppc s th2) t -> th1 = th2.
Proof.
  intros cap cc n kk np pp cp sch t th1 th2 Hcc Hn s. apply (owner_unique cap cc n kk np Hcc Hn pp cp). exists sch. reflexivity.
Qed.

(* contents of every physical slot: EMPTY / empty unless it stands for a written, undrained ticket
   of the chunk resident in its table entry; then exactly that ticket's state and payload *)
Theorem C09_k3ticket_slot_contents :
  forall cap cc n kk np pp cp sch j i, 0 < cc -> 0 < n ->
  let s := fst (Conc.run (sys cap cc n kk np pp cp) (init np pp cp) sch) in
  j < n -> i < cc ->
  let t := ids s j * cc + i in
  sstate s (j * cc + i) = (if N.ltb t (hpos s) then sEMPTY else code (tk s t)) /\
  sdata s (j * cc + i) = (if N.ltb t (hpos s) then None else dataof (tk s) (ppc s) (pseq s) (taken (cpc s)) (hpos s) t).
Proof.
  intros cap cc n kk np pp cp sch j i Hcc Hn s. apply (slot_contents cap cc n kk np Hcc Hn pp cp). exists sch. reflexivity.
Qed.

(* reset-on-drain: every slot of a retired chunk is EMPTY and its cell empty *)
Theorem C09_k3ticket_retired_chunk_empty :
  forall cap cc n kk np pp cp sch j i, 0 < cc -> 0 < n ->
  let s := fst (Conc.run (sys cap cc n kk np pp cp) (init np pp cp) sch) in
  j < n -> i < cc -> ids s j < retired s ->
  sstate s (j * cc + i) = sEMPTY /\ sdata s (j * cc + i) = None.
Proof.
  intros cap cc n kk np pp cp sch j i Hcc Hn s. apply (retired_chunk_all_empty cap cc n kk np Hcc Hn pp cp). exists sch. reflexivity.
Qed.

(* a table entry is re-labelled only when the chunk it held is retired; a written, undrained ticket
   keeps its chunk resident *)
Theorem C09_k3ticket_reuse_only_retired :
  forall cap cc n kk np pp cp sch u k r cur, 0 < cc -> 0 < n ->
  let s := fst (Conc.run (sys cap cc n kk np pp cp) (init np pp cp) sch) in
  ppc s u = PE3 k r cur -> cur < retired s.
Proof.
  intros cap cc n kk np pp cp sch u k r cur Hcc Hn s. apply (reuse_only_retired cap cc n kk np Hcc Hn pp cp). exists sch. reflexivity.
Qed.

Theorem C09_k3ticket_written_stays_resident :
  forall cap cc n kk np pp cp sch t, 0 < cc -> 0 < n ->
  let s := fst (Conc.run (sys cap cc n kk np pp cp) (init np pp cp) sch) in
  hpos s <= t -> code (tk s t) <> sEMPTY -> ids s (ent n (cid_of cc t)) = cid_of cc t.
Proof.
  intros cap cc n kk np pp cp sch t Hcc Hn s. apply (written_stays_resident cap cc n kk np Hcc Hn pp cp). exists sch. reflexivity.
Qed.

Example C09_k3ticket_ex : retired ex_s = 4 /\ ids ex_s 0 = 4 /\ ids ex_s 1 = 3 /\ bad ex_s = false.
Proof. exact ex_recycled. Qed.
