(* Props/C09_mpscu.v — pinned theorems, property C09 (drop exactly once) for the unbounded MPSC channel. *)
From Fibre Require Import Common.Base Chan.MpscU Chan.MpscUSpec Proofs.MpscUProofs.

Theorem C09_mpscu_locations : forall s, reach s ->
  NoDup (used s) /\ Permutation (used s) (rcv s ++ q s ++ fitems (fs s) ++ back s ++ drp s).
Proof. exact conservation. Qed.

Theorem C09_mpscu_terminal : forall s o,
  let s' := fst (exec s o) in let r := snd (exec s o) in
  rcv s' = rcv s ++ recv_ids r
  /\ (exists d, drp s' = drp s ++ d /\ evd s' = evd s ++ d)
  /\ (exists b, back s' = back s ++ b)
  /\ (exists d, acc s' = acc s ++ d)
  /\ (exists u, used s' = u ++ used s)
  /\ (rdrop s = true -> rdrop s' = true)
  /\ fixcl s' = fixcl s.
Proof. exact exec_frame. Qed.

Theorem C09_mpscu_drop_events : forall s o, exists d,
  drp (fst (step s o)) = drp s ++ d /\ out_drops (snd (step s o)) = d.
Proof. exact drop_events. Qed.

(** closing (or dropping) the receiver destroys exactly what was buffered, at that moment *)
Theorem C09_mpscu_receiver_close_drains : forall s h r,
  has_futs h s = false -> aget h (hs s) = Some r -> htx r = false -> hclosed r = false ->
  let s' := fst (exec s (Close h)) in
  q s' = [] /\ drp s' = drp s ++ q s /\ evd s' = evd s ++ q s /\ rdrop s' = true.
Proof. exact receiver_close_drains. Qed.

Theorem C09_mpscu_teardown : forall s, reach s -> hs s = [] ->
  q s = [] /\ fs s = [] /\ NoDup (used s) /\ Permutation (used s) (rcv s ++ back s ++ drp s).
Proof. exact teardown. Qed.

Example C09_mpscu_example :
  let s := final (init true false)
             [TrySend 0 1; TrySend 0 2; MkSend 0 0 3; Close 1; Poll 0 1; DropH 1; DropF 0; DropH 0] in
  hs s = [] /\ rcv s = [] /\ drp s = [1; 2; 3] /\ used s = [3; 2; 1].
Proof. vm_compute. repeat split; reflexivity. Qed.
