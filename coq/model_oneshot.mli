
val negb : bool -> bool

type nat =
| O
| S of nat

val fst : ('a1 * 'a2) -> 'a1

val snd : ('a1 * 'a2) -> 'a2

val app : 'a1 list -> 'a1 list -> 'a1 list

type positive =
| XI of positive
| XO of positive
| XH

type n =
| N0
| Npos of positive

type z =
| Z0
| Zpos of positive
| Zneg of positive

module Nat :
 sig
  val eqb : nat -> nat -> bool
 end

module Pos :
 sig
  val succ : positive -> positive

  val add : positive -> positive -> positive

  val add_carry : positive -> positive -> positive

  val pred_double : positive -> positive

  val eqb : positive -> positive -> bool

  val of_succ_nat : nat -> positive
 end

module N :
 sig
  val of_nat : nat -> n
 end

val map : ('a1 -> 'a2) -> 'a1 list -> 'a2 list

module Z :
 sig
  val double : z -> z

  val succ_double : z -> z

  val pred_double : z -> z

  val pos_sub : positive -> positive -> z

  val add : z -> z -> z

  val opp : z -> z

  val sub : z -> z -> z

  val eqb : z -> z -> bool
 end

type ocfg = { fix_taken_wake : bool }

val ocfg_repo : ocfg

val ocfg_fixed : ocfg

type ostt =
| OEmpty
| OSent of nat
| OTaken
| OClosed

type orcv =
| RcvGone
| RcvLive of bool

type oevent =
| OWake of nat
| ODrop of nat

type ores =
| OOk
| OVal of nat
| OClosedV of nat
| OSentV of nat
| OEmptyR
| ODisc
| OPending
| OCloseErr
| OObsS of bool * bool
| OObsR of bool
| OGone
| OBusy
| ONoFut

type oop =
| OSend of nat
| OCloseS of nat
| OClone of nat
| ODropS of nat
| OObsSnd of nat
| OTryRecv
| OCloseR
| ODropR
| OObsRcv
| OMkRecv of nat
| OPoll of nat * nat
| ODropFut of nat

type ost = { ostate : ostt; rdrop : bool; ocount : z; wk : nat option;
             snd_h : (nat * bool) list; nexth : nat; rcv : orcv;
             futs : nat list; onext : nat; oacc : nat list; orecv : nat list;
             oret : nat list; odrop : nat list; o_pend : (nat * nat) option;
             o_woken : bool; o_disc : bool; oev : oevent list }

val oinit : ost

val set_ostate : ostt -> ost -> ost

val set_rdrop : bool -> ost -> ost

val set_ocount : z -> ost -> ost

val set_wk : nat option -> ost -> ost

val set_snd_h : (nat * bool) list -> ost -> ost

val set_nexth : nat -> ost -> ost

val set_rcv : orcv -> ost -> ost

val set_futs : nat list -> ost -> ost

val set_onext : nat -> ost -> ost

val set_oacc : nat list -> ost -> ost

val set_orecv : nat list -> ost -> ost

val set_oret : nat list -> ost -> ost

val set_odrop : nat list -> ost -> ost

val set_o_pend : (nat * nat) option -> ost -> ost

val set_o_woken : bool -> ost -> ost

val set_o_disc : bool -> ost -> ost

val set_oev : oevent list -> ost -> ost

val find_h : nat -> (nat * bool) list -> bool option

val remove_h : nat -> (nat * bool) list -> (nat * bool) list

val set_closed_h : nat -> (nat * bool) list -> (nat * bool) list

val mem_f : nat -> nat list -> bool

val remove_f : nat -> nat list -> nat list

val sent_val : ostt -> nat list

val owake : ost -> ost

val oback : nat -> ost -> ost

val odestroy : nat list -> ost -> ost

val dec_senders : ocfg -> ost -> ost

val oshared_drop_if : ost -> ost

val close_int_rcv : ost -> ost

val do_osend : ocfg -> nat -> ost -> ost * ores

val do_oclose_s : ocfg -> nat -> ost -> ost * ores

val do_oclone : nat -> ost -> ost * ores

val do_odrop_s : ocfg -> nat -> ost -> ost * ores

val do_oobs_s : nat -> ost -> ost * ores

val core_try_recv : ost -> ost * ores

val do_otry_recv : ost -> ost * ores

val do_oclose_r : ost -> ost * ores

val do_odrop_r : ost -> ost * ores

val do_oobs_r : ost -> ost * ores

val do_omk : nat -> ost -> ost * ores

val fut_done : nat -> ost -> ost

val do_opoll : nat -> nat -> ost -> ost * ores

val do_odropfut : nat -> ost -> ost * ores

val oexec : ocfg -> ost -> oop -> ost * ores

type oout = ores * oevent list

val ostep : ocfg -> ost -> oop -> ost * oout

val orun : ocfg -> ost -> oop list -> ost * oout list

val oteardown : ost -> oop list

val orun_case : ocfg -> oop list -> oout list
