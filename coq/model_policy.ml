
type __ = Obj.t

(** val negb : bool -> bool **)

let negb = function
| true -> false
| false -> true

type nat =
| O
| S of nat

(** val fst : ('a1 * 'a2) -> 'a1 **)

let fst = function
| (x, _) -> x

(** val snd : ('a1 * 'a2) -> 'a2 **)

let snd = function
| (_, y) -> y

(** val length : 'a1 list -> nat **)

let rec length = function
| [] -> O
| _ :: l' -> S (length l')

(** val app : 'a1 list -> 'a1 list -> 'a1 list **)

let rec app l m =
  match l with
  | [] -> m
  | a :: l1 -> a :: (app l1 m)

type comparison =
| Eq
| Lt
| Gt

(** val pred : nat -> nat **)

let pred n0 = match n0 with
| O -> n0
| S u -> u

(** val add : nat -> nat -> nat **)

let rec add n0 m =
  match n0 with
  | O -> m
  | S p -> S (add p m)

module Nat =
 struct
  (** val sub : nat -> nat -> nat **)

  let rec sub n0 m =
    match n0 with
    | O -> n0
    | S k -> (match m with
              | O -> n0
              | S l -> sub k l)

  (** val leb : nat -> nat -> bool **)

  let rec leb n0 m =
    match n0 with
    | O -> true
    | S n' -> (match m with
               | O -> false
               | S m' -> leb n' m')

  (** val ltb : nat -> nat -> bool **)

  let ltb n0 m =
    leb (S n0) m

  (** val divmod : nat -> nat -> nat -> nat -> nat * nat **)

  let rec divmod x y q u =
    match x with
    | O -> (q, u)
    | S x' ->
      (match u with
       | O -> divmod x' y (S q) y
       | S u' -> divmod x' y q u')

  (** val modulo : nat -> nat -> nat **)

  let modulo x = function
  | O -> x
  | S y' -> sub y' (snd (divmod x y' O y'))
 end

(** val nth : nat -> 'a1 list -> 'a1 -> 'a1 **)

let rec nth n0 l default =
  match n0 with
  | O -> (match l with
          | [] -> default
          | x :: _ -> x)
  | S m -> (match l with
            | [] -> default
            | _ :: t -> nth m t default)

(** val rev : 'a1 list -> 'a1 list **)

let rec rev = function
| [] -> []
| x :: l' -> app (rev l') (x :: [])

(** val map : ('a1 -> 'a2) -> 'a1 list -> 'a2 list **)

let rec map f = function
| [] -> []
| a :: t -> (f a) :: (map f t)

(** val existsb : ('a1 -> bool) -> 'a1 list -> bool **)

let rec existsb f = function
| [] -> false
| a :: l0 -> (||) (f a) (existsb f l0)

(** val firstn : nat -> 'a1 list -> 'a1 list **)

let rec firstn n0 l =
  match n0 with
  | O -> []
  | S n1 -> (match l with
             | [] -> []
             | a :: l0 -> a :: (firstn n1 l0))

(** val skipn : nat -> 'a1 list -> 'a1 list **)

let rec skipn n0 l =
  match n0 with
  | O -> l
  | S n1 -> (match l with
             | [] -> []
             | _ :: l0 -> skipn n1 l0)

type positive =
| XI of positive
| XO of positive
| XH

type n =
| N0
| Npos of positive

module Pos =
 struct
  type mask =
  | IsNul
  | IsPos of positive
  | IsNeg
 end

module Coq_Pos =
 struct
  (** val succ : positive -> positive **)

  let rec succ = function
  | XI p -> XO (succ p)
  | XO p -> XI p
  | XH -> XO XH

  (** val add : positive -> positive -> positive **)

  let rec add x y =
    match x with
    | XI p ->
      (match y with
       | XI q -> XO (add_carry p q)
       | XO q -> XI (add p q)
       | XH -> XO (succ p))
    | XO p ->
      (match y with
       | XI q -> XI (add p q)
       | XO q -> XO (add p q)
       | XH -> XI p)
    | XH -> (match y with
             | XI q -> XO (succ q)
             | XO q -> XI q
             | XH -> XO XH)

  (** val add_carry : positive -> positive -> positive **)

  and add_carry x y =
    match x with
    | XI p ->
      (match y with
       | XI q -> XI (add_carry p q)
       | XO q -> XO (add_carry p q)
       | XH -> XI (succ p))
    | XO p ->
      (match y with
       | XI q -> XO (add_carry p q)
       | XO q -> XI (add p q)
       | XH -> XO (succ p))
    | XH ->
      (match y with
       | XI q -> XI (succ q)
       | XO q -> XO (succ q)
       | XH -> XI XH)

  (** val pred_double : positive -> positive **)

  let rec pred_double = function
  | XI p -> XI (XO p)
  | XO p -> XI (pred_double p)
  | XH -> XH

  type mask = Pos.mask =
  | IsNul
  | IsPos of positive
  | IsNeg

  (** val succ_double_mask : mask -> mask **)

  let succ_double_mask = function
  | IsNul -> IsPos XH
  | IsPos p -> IsPos (XI p)
  | IsNeg -> IsNeg

  (** val double_mask : mask -> mask **)

  let double_mask = function
  | IsPos p -> IsPos (XO p)
  | x0 -> x0

  (** val double_pred_mask : positive -> mask **)

  let double_pred_mask = function
  | XI p -> IsPos (XO (XO p))
  | XO p -> IsPos (XO (pred_double p))
  | XH -> IsNul

  (** val sub_mask : positive -> positive -> mask **)

  let rec sub_mask x y =
    match x with
    | XI p ->
      (match y with
       | XI q -> double_mask (sub_mask p q)
       | XO q -> succ_double_mask (sub_mask p q)
       | XH -> IsPos (XO p))
    | XO p ->
      (match y with
       | XI q -> succ_double_mask (sub_mask_carry p q)
       | XO q -> double_mask (sub_mask p q)
       | XH -> IsPos (pred_double p))
    | XH -> (match y with
             | XH -> IsNul
             | _ -> IsNeg)

  (** val sub_mask_carry : positive -> positive -> mask **)

  and sub_mask_carry x y =
    match x with
    | XI p ->
      (match y with
       | XI q -> succ_double_mask (sub_mask_carry p q)
       | XO q -> double_mask (sub_mask p q)
       | XH -> IsPos (pred_double p))
    | XO p ->
      (match y with
       | XI q -> double_mask (sub_mask_carry p q)
       | XO q -> succ_double_mask (sub_mask_carry p q)
       | XH -> double_pred_mask p)
    | XH -> IsNeg

  (** val mul : positive -> positive -> positive **)

  let rec mul x y =
    match x with
    | XI p -> add y (XO (mul p y))
    | XO p -> XO (mul p y)
    | XH -> y

  (** val compare_cont : comparison -> positive -> positive -> comparison **)

  let rec compare_cont r x y =
    match x with
    | XI p ->
      (match y with
       | XI q -> compare_cont r p q
       | XO q -> compare_cont Gt p q
       | XH -> Gt)
    | XO p ->
      (match y with
       | XI q -> compare_cont Lt p q
       | XO q -> compare_cont r p q
       | XH -> Gt)
    | XH -> (match y with
             | XH -> r
             | _ -> Lt)

  (** val compare : positive -> positive -> comparison **)

  let compare =
    compare_cont Eq

  (** val eqb : positive -> positive -> bool **)

  let rec eqb p q =
    match p with
    | XI p0 -> (match q with
                | XI q0 -> eqb p0 q0
                | _ -> false)
    | XO p0 -> (match q with
                | XO q0 -> eqb p0 q0
                | _ -> false)
    | XH -> (match q with
             | XH -> true
             | _ -> false)
 end

module N =
 struct
  (** val succ_double : n -> n **)

  let succ_double = function
  | N0 -> Npos XH
  | Npos p -> Npos (XI p)

  (** val double : n -> n **)

  let double = function
  | N0 -> N0
  | Npos p -> Npos (XO p)

  (** val add : n -> n -> n **)

  let add n0 m =
    match n0 with
    | N0 -> m
    | Npos p -> (match m with
                 | N0 -> n0
                 | Npos q -> Npos (Coq_Pos.add p q))

  (** val sub : n -> n -> n **)

  let sub n0 m =
    match n0 with
    | N0 -> N0
    | Npos n' ->
      (match m with
       | N0 -> n0
       | Npos m' ->
         (match Coq_Pos.sub_mask n' m' with
          | Coq_Pos.IsPos p -> Npos p
          | _ -> N0))

  (** val mul : n -> n -> n **)

  let mul n0 m =
    match n0 with
    | N0 -> N0
    | Npos p -> (match m with
                 | N0 -> N0
                 | Npos q -> Npos (Coq_Pos.mul p q))

  (** val compare : n -> n -> comparison **)

  let compare n0 m =
    match n0 with
    | N0 -> (match m with
             | N0 -> Eq
             | Npos _ -> Lt)
    | Npos n' -> (match m with
                  | N0 -> Gt
                  | Npos m' -> Coq_Pos.compare n' m')

  (** val eqb : n -> n -> bool **)

  let eqb n0 m =
    match n0 with
    | N0 -> (match m with
             | N0 -> true
             | Npos _ -> false)
    | Npos p -> (match m with
                 | N0 -> false
                 | Npos q -> Coq_Pos.eqb p q)

  (** val leb : n -> n -> bool **)

  let leb x y =
    match compare x y with
    | Gt -> false
    | _ -> true

  (** val ltb : n -> n -> bool **)

  let ltb x y =
    match compare x y with
    | Lt -> true
    | _ -> false

  (** val min : n -> n -> n **)

  let min n0 n' =
    match compare n0 n' with
    | Gt -> n'
    | _ -> n0

  (** val max : n -> n -> n **)

  let max n0 n' =
    match compare n0 n' with
    | Gt -> n0
    | _ -> n'

  (** val pos_div_eucl : positive -> n -> n * n **)

  let rec pos_div_eucl a b =
    match a with
    | XI a' ->
      let (q, r) = pos_div_eucl a' b in
      let r' = succ_double r in
      if leb b r' then ((succ_double q), (sub r' b)) else ((double q), r')
    | XO a' ->
      let (q, r) = pos_div_eucl a' b in
      let r' = double r in
      if leb b r' then ((succ_double q), (sub r' b)) else ((double q), r')
    | XH ->
      (match b with
       | N0 -> (N0, (Npos XH))
       | Npos p -> (match p with
                    | XH -> ((Npos XH), N0)
                    | _ -> (N0, (Npos XH))))

  (** val div_eucl : n -> n -> n * n **)

  let div_eucl a b =
    match a with
    | N0 -> (N0, N0)
    | Npos na -> (match b with
                  | N0 -> (N0, a)
                  | Npos _ -> pos_div_eucl na b)

  (** val div : n -> n -> n **)

  let div a b =
    fst (div_eucl a b)
 end

type kc = n * n

(** val keys : kc list -> n list **)

let keys l =
  map fst l

(** val total : kc list -> n **)

let rec total = function
| [] -> N0
| k :: t -> let (_, c) = k in N.add c (total t)

(** val lookup : n -> kc list -> n option **)

let rec lookup k = function
| [] -> None
| k0 :: t -> let (k', c) = k0 in if N.eqb k k' then Some c else lookup k t

(** val rm : n -> kc list -> kc list **)

let rec rm k = function
| [] -> []
| k0 :: t ->
  let (k', c) = k0 in if N.eqb k k' then rm k t else (k', c) :: (rm k t)

(** val mem : n -> n list -> bool **)

let mem k l =
  existsb (N.eqb k) l

type call =
| Access of n * n
| Admit of n * n
| Remove of n
| Evict of n
| Clear

type out =
| ODone
| OAdmit
| OReject
| OAdmitEvict of n list
| OVictims of n list * n

type policy = { pinit : __; pstep : (__ -> call -> __ * out);
                ptracked : (__ -> kc list) }

type pst = __

(** val prun : policy -> pst -> call list -> pst * out list **)

let rec prun p s = function
| [] -> (s, [])
| c :: r ->
  let (s1, o) = p.pstep s c in let (s2, os) = prun p s1 r in (s2, (o :: os))

(** val round_div : n -> n -> n **)

let round_div a b =
  N.div (N.add (N.mul (Npos (XO XH)) a) b) (N.mul (Npos (XO XH)) b)

type lru_list = kc list

(** val ll_move_to_front : n -> lru_list -> lru_list **)

let ll_move_to_front k l =
  match lookup k l with
  | Some c -> (k, c) :: (rm k l)
  | None -> l

(** val ll_push_front : n -> n -> lru_list -> lru_list **)

let ll_push_front k c l =
  (k, c) :: (rm k l)

(** val ll_remove : n -> lru_list -> lru_list **)

let ll_remove =
  rm

(** val pop_while : n -> n -> kc list -> (n list * n) * kc list **)

let rec pop_while want freed r = match r with
| [] -> (([], freed), [])
| k0 :: t ->
  let (k, c) = k0 in
  if N.ltb freed want
  then let (p, rest) = pop_while want (N.add freed c) t in
       let (vs, f) = p in (((k :: vs), f), rest)
  else (([], freed), r)

(** val ll_evict : n -> lru_list -> (lru_list * n list) * n **)

let ll_evict n0 l =
  let (p, rest) = pop_while n0 N0 (rev l) in
  let (vs, f) = p in (((rev rest), vs), f)

(** val lru_step : lru_list -> call -> lru_list * out **)

let lru_step l = function
| Access (k, _) -> ((ll_move_to_front k l), ODone)
| Admit (k, c) -> ((ll_push_front k c l), OAdmit)
| Remove k -> ((ll_remove k l), ODone)
| Evict n0 ->
  let (p, f) = ll_evict n0 l in let (l', vs) = p in (l', (OVictims (vs, f)))
| Clear -> ([], ODone)

(** val lruP : policy **)

let lruP =
  { pinit = (Obj.magic []); pstep = (Obj.magic lru_step); ptracked =
    (fun l -> Obj.magic l) }

(** val fifo_step : lru_list -> call -> lru_list * out **)

let fifo_step l = function
| Access (_, _) -> (l, ODone)
| Admit (k, c) ->
  ((match lookup k l with
    | Some _ -> l
    | None -> ll_push_front k c l), OAdmit)
| Remove k -> ((ll_remove k l), ODone)
| Evict n0 ->
  let (p, f) = ll_evict n0 l in let (l', vs) = p in (l', (OVictims (vs, f)))
| Clear -> ([], ODone)

(** val fifoP : policy **)

let fifoP =
  { pinit = (Obj.magic []); pstep = (Obj.magic fifo_step); ptracked =
    (fun l -> Obj.magic l) }

type ent = (n * n) * bool

(** val ekey : ent -> n **)

let ekey e =
  fst (fst e)

(** val ecost : ent -> n **)

let ecost e =
  snd (fst e)

(** val eflag : ent -> bool **)

let eflag =
  snd

(** val ekc : ent -> kc **)

let ekc =
  fst

(** val eclear : ent -> ent **)

let eclear e =
  ((fst e), false)

(** val erm : n -> ent list -> ent list **)

let rec erm k = function
| [] -> []
| e :: t -> if N.eqb k (ekey e) then erm k t else e :: (erm k t)

(** val eset : n -> ent list -> ent list **)

let rec eset k = function
| [] -> []
| e :: t ->
  if N.eqb k (ekey e) then ((fst e), true) :: (eset k t) else e :: (eset k t)

(** val ehas : n -> ent list -> bool **)

let rec ehas k = function
| [] -> false
| e :: t -> if N.eqb k (ekey e) then true else ehas k t

(** val eindex : n -> ent list -> nat option **)

let rec eindex k = function
| [] -> None
| e :: t ->
  if N.eqb k (ekey e)
  then Some O
  else (match eindex k t with
        | Some i -> Some (S i)
        | None -> None)

(** val scan : ent list -> ent list * (ent * ent list) option **)

let rec scan = function
| [] -> ([], None)
| e :: t ->
  if eflag e
  then let (cl, r) = scan t in (((eclear e) :: cl), r)
  else ([], (Some (e, t)))

type sieve = { sv_r : ent list; sv_hand : nat }

(** val sieve_admit : n -> n -> sieve -> sieve **)

let sieve_admit k c s =
  { sv_r = (app (erm k s.sv_r) (((k, c), false) :: [])); sv_hand = s.sv_hand }

(** val sieve_remove : n -> sieve -> sieve **)

let sieve_remove k s =
  let r = erm k s.sv_r in
  { sv_r = r; sv_hand =
  (if Nat.leb (length r) s.sv_hand then O else s.sv_hand) }

(** val sieve_evict_one : sieve -> (ent * sieve) option **)

let sieve_evict_one s =
  let pre = firstn s.sv_hand s.sv_r in
  let post = skipn s.sv_hand s.sv_r in
  let (cl, o) = scan post in
  (match o with
   | Some p ->
     let (v, rest) = p in
     Some (v, { sv_r = (app pre (app cl rest)); sv_hand =
     (add s.sv_hand (length cl)) })
   | None ->
     (match app pre cl with
      | [] -> None
      | v :: rest -> Some (v, { sv_r = rest; sv_hand = O })))

(** val evict_loop :
    ('a1 -> (ent * 'a1) option) -> nat -> n -> n -> 'a1 -> n list -> ('a1 * n
    list) * n **)

let rec evict_loop one fuel want freed s acc =
  match fuel with
  | O -> ((s, (rev acc)), freed)
  | S f ->
    if N.ltb freed want
    then (match one s with
          | Some p ->
            let (v, s') = p in
            evict_loop one f want (N.add freed (ecost v)) s' ((ekey v) :: acc)
          | None -> ((s, (rev acc)), freed))
    else ((s, (rev acc)), freed)

(** val sieve_step : sieve -> call -> sieve * out **)

let sieve_step s = function
| Access (k, _) -> ({ sv_r = (eset k s.sv_r); sv_hand = s.sv_hand }, ODone)
| Admit (k, c) -> ((sieve_admit k c s), OAdmit)
| Remove k -> ((sieve_remove k s), ODone)
| Evict n0 ->
  let (p, f) = evict_loop sieve_evict_one (length s.sv_r) n0 N0 s [] in
  let (s', vs) = p in (s', (OVictims (vs, f)))
| Clear -> ({ sv_r = []; sv_hand = O }, ODone)

(** val sieveP : policy **)

let sieveP =
  { pinit = (Obj.magic { sv_r = []; sv_hand = O }); pstep =
    (Obj.magic sieve_step); ptracked = (fun s -> map ekc (Obj.magic s).sv_r) }

type clock = { ck_o : ent list; ck_hand : nat }

(** val clock_admit : n -> n -> clock -> clock **)

let clock_admit k c s =
  if ehas k s.ck_o
  then s
  else { ck_o = (app s.ck_o (((k, c), false) :: [])); ck_hand = s.ck_hand }

(** val clock_remove : n -> clock -> clock **)

let clock_remove k s =
  match eindex k s.ck_o with
  | Some pos ->
    { ck_o = (erm k s.ck_o); ck_hand =
      (if (&&) (Nat.leb pos s.ck_hand) (Nat.ltb O s.ck_hand)
       then pred s.ck_hand
       else s.ck_hand) }
  | None -> s

(** val clock_evict_one : clock -> (ent * clock) option **)

let clock_evict_one s =
  let h = if Nat.leb (length s.ck_o) s.ck_hand then O else s.ck_hand in
  let pre = firstn h s.ck_o in
  let post = skipn h s.ck_o in
  let (cl, o) = scan post in
  (match o with
   | Some p ->
     let (v, rest) = p in
     Some (v, { ck_o = (app pre (app cl rest)); ck_hand =
     (add h (length cl)) })
   | None ->
     let (cl2, o0) = scan (app pre cl) in
     (match o0 with
      | Some p ->
        let (v, rest) = p in
        Some (v, { ck_o = (app cl2 rest); ck_hand = (length cl2) })
      | None -> None))

(** val clock_step : clock -> call -> clock * out **)

let clock_step s = function
| Access (k, _) -> ({ ck_o = (eset k s.ck_o); ck_hand = s.ck_hand }, ODone)
| Admit (k, c) -> ((clock_admit k c s), OAdmit)
| Remove k -> ((clock_remove k s), ODone)
| Evict n0 ->
  let (p, f) = evict_loop clock_evict_one (length s.ck_o) n0 N0 s [] in
  let (s', vs) = p in (s', (OVictims (vs, f)))
| Clear -> ({ ck_o = []; ck_hand = O }, ODone)

(** val clockP : policy **)

let clockP =
  { pinit = (Obj.magic { ck_o = []; ck_hand = O }); pstep =
    (Obj.magic clock_step); ptracked = (fun s -> map ekc (Obj.magic s).ck_o) }

type slru = { sl_prob : lru_list; sl_prot : lru_list }

(** val ll_has : n -> lru_list -> bool **)

let ll_has k l =
  match lookup k l with
  | Some _ -> true
  | None -> false

(** val ll_pop_back : lru_list -> (kc * lru_list) option **)

let ll_pop_back l =
  match rev l with
  | [] -> None
  | x :: r -> Some (x, (rev r))

(** val slru_prob_capacity : n -> n **)

let slru_prob_capacity cap =
  if N.eqb cap N0
  then N0
  else N.max (round_div cap (Npos (XI (XO XH)))) (Npos XH)

(** val slru_prot_capacity : n -> n **)

let slru_prot_capacity cap =
  N.sub cap (slru_prob_capacity cap)

(** val slru_maintain :
    nat -> n -> lru_list -> lru_list -> lru_list * lru_list **)

let rec slru_maintain fuel pcap prob prot =
  match fuel with
  | O -> (prob, prot)
  | S f ->
    if N.ltb pcap (total prot)
    then (match ll_pop_back prot with
          | Some p ->
            let (k0, prot') = p in
            let (k, c) = k0 in
            slru_maintain f pcap (ll_push_front k c prob) prot'
          | None -> (prob, prot))
    else (prob, prot)

(** val slru_maintain_all : n -> slru -> slru **)

let slru_maintain_all pcap s =
  let (pb, pt) = slru_maintain (length s.sl_prot) pcap s.sl_prob s.sl_prot in
  { sl_prob = pb; sl_prot = pt }

(** val slru_access : n -> n -> n -> slru -> slru **)

let slru_access pcap k c s =
  if ll_has k s.sl_prot
  then { sl_prob = s.sl_prob; sl_prot = (ll_push_front k c s.sl_prot) }
  else if ll_has k s.sl_prob
       then slru_maintain_all pcap { sl_prob = (ll_remove k s.sl_prob);
              sl_prot = (ll_push_front k c s.sl_prot) }
       else s

(** val slru_admit_internal : n -> n -> slru -> slru **)

let slru_admit_internal k c s =
  if (&&) (negb (ll_has k s.sl_prot)) (negb (ll_has k s.sl_prob))
  then { sl_prob = (ll_push_front k c s.sl_prob); sl_prot = s.sl_prot }
  else if ll_has k s.sl_prob
       then { sl_prob = (ll_push_front k c s.sl_prob); sl_prot = s.sl_prot }
       else s

(** val slru_peek_lru : slru -> n option **)

let slru_peek_lru s =
  match ll_pop_back s.sl_prob with
  | Some p -> let (k0, _) = p in let (k, _) = k0 in Some k
  | None ->
    (match ll_pop_back s.sl_prot with
     | Some p -> let (k0, _) = p in let (k, _) = k0 in Some k
     | None -> None)

(** val slru_admit : n -> n -> slru -> slru **)

let slru_admit k c s =
  if (&&) (negb (ll_has k s.sl_prot)) (negb (ll_has k s.sl_prob))
  then { sl_prob = (ll_push_front k c s.sl_prob); sl_prot = s.sl_prot }
  else s

(** val slru_remove : n -> slru -> slru **)

let slru_remove k s =
  if ll_has k s.sl_prob
  then { sl_prob = (ll_remove k s.sl_prob); sl_prot = s.sl_prot }
  else { sl_prob = s.sl_prob; sl_prot = (ll_remove k s.sl_prot) }

(** val slru_evict : n -> n -> slru -> (slru * n list) * n **)

let slru_evict pcap n0 s =
  let s1 = slru_maintain_all pcap s in
  let (p, rest1) = pop_while n0 N0 (rev s1.sl_prob) in
  let (vs1, f1) = p in
  let (p0, rest2) = pop_while n0 f1 (rev s1.sl_prot) in
  let (vs2, f2) = p0 in
  (({ sl_prob = (rev rest1); sl_prot = (rev rest2) }, (app vs1 vs2)), f2)

(** val slru_step : n -> slru -> call -> slru * out **)

let slru_step cap s cl =
  let pcap = slru_prot_capacity cap in
  (match cl with
   | Access (k, c) -> ((slru_access pcap k c s), ODone)
   | Admit (k, c) -> ((slru_admit k c s), OAdmit)
   | Remove k -> ((slru_remove k s), ODone)
   | Evict n0 ->
     let (p, f) = slru_evict pcap n0 s in
     let (s', vs) = p in (s', (OVictims (vs, f)))
   | Clear -> ({ sl_prob = []; sl_prot = [] }, ODone))

(** val slru_tr : slru -> kc list **)

let slru_tr s =
  app s.sl_prob s.sl_prot

(** val slruP : n -> policy **)

let slruP cap =
  { pinit = (Obj.magic { sl_prob = []; sl_prot = [] }); pstep =
    (Obj.magic slru_step cap); ptracked = (Obj.magic slru_tr) }

type 'rs rnd = kc list * 'rs

(** val rnd_one :
    ('a1 -> n list -> nat * 'a1) -> 'a1 rnd -> (ent * 'a1 rnd) option **)

let rnd_one choose = function
| (items, r) ->
  (match items with
   | [] -> None
   | d :: _ ->
     let (i, r') = choose r (keys items) in
     let (k, c) = nth (Nat.modulo i (length items)) items d in
     Some (((k, c), false), ((rm k items), r')))

(** val rnd_step :
    ('a1 -> n list -> nat * 'a1) -> 'a1 rnd -> call -> 'a1 rnd * out **)

let rnd_step choose st cl =
  let (items, r) = st in
  (match cl with
   | Access (_, _) -> (st, ODone)
   | Admit (k, c) -> ((((k, c) :: (rm k items)), r), OAdmit)
   | Remove k -> (((rm k items), r), ODone)
   | Evict n0 ->
     let (p, f) = evict_loop (rnd_one choose) (length items) n0 N0 st [] in
     let (st', vs) = p in (st', (OVictims (vs, f)))
   | Clear -> (([], r), ODone))

(** val randomP : ('a1 -> n list -> nat * 'a1) -> 'a1 -> policy **)

let randomP choose r0 =
  { pinit = (Obj.magic ([], r0)); pstep = (Obj.magic rnd_step choose);
    ptracked = (Obj.magic fst) }

(** val index_of : n -> n list -> nat **)

let rec index_of k = function
| [] -> O
| x :: t -> if N.eqb k x then O else S (index_of k t)

(** val replay_choose : n list -> n list -> nat * n list **)

let replay_choose r ks =
  match r with
  | [] -> (O, [])
  | k :: t -> ((if mem k ks then index_of k ks else O), t)

(** val randomReplayP : n list -> policy **)

let randomReplayP choices =
  randomP replay_choose choices

type arc = { a_p : n; a_t1 : lru_list; a_t2 : lru_list; a_b1 : lru_list;
             a_b2 : lru_list }

(** val ghost_push : n -> n -> n -> lru_list -> lru_list **)

let ghost_push cap k c b =
  let b1 = ll_push_front k c b in
  if N.ltb cap (total b1)
  then (match ll_pop_back b1 with
        | Some p -> let (_, b2) = p in b2
        | None -> b1)
  else b1

(** val arc_replace : n -> bool -> arc -> (kc * arc) option **)

let arc_replace cap key_in_b2 s =
  let t1c = total s.a_t1 in
  if (&&) (N.ltb N0 t1c)
       ((||) (N.leb s.a_p t1c) ((&&) key_in_b2 (N.eqb t1c s.a_p)))
  then (match ll_pop_back s.a_t1 with
        | Some p ->
          let (k0, t1') = p in
          let (k, c) = k0 in
          Some ((k, c), { a_p = s.a_p; a_t1 = t1'; a_t2 = s.a_t2; a_b1 =
          (ghost_push cap k c s.a_b1); a_b2 = s.a_b2 })
        | None -> None)
  else (match ll_pop_back s.a_t2 with
        | Some p ->
          let (k0, t2') = p in
          let (k, c) = k0 in
          Some ((k, c), { a_p = s.a_p; a_t1 = s.a_t1; a_t2 = t2'; a_b1 =
          s.a_b1; a_b2 = (ghost_push cap k c s.a_b2) })
        | None -> None)

(** val arc_access : n -> n -> arc -> arc **)

let arc_access k c s =
  if ll_has k s.a_t1
  then { a_p = s.a_p; a_t1 = (ll_remove k s.a_t1); a_t2 =
         (ll_push_front k c s.a_t2); a_b1 = s.a_b1; a_b2 = s.a_b2 }
  else if ll_has k s.a_t2
       then { a_p = s.a_p; a_t1 = s.a_t1; a_t2 = (ll_push_front k c s.a_t2);
              a_b1 = s.a_b1; a_b2 = s.a_b2 }
       else s

(** val arc_delta : n -> n -> n **)

let arc_delta x y =
  N.max (if (&&) (N.ltb N0 y) (N.ltb y x) then round_div x y else Npos XH)
    (Npos XH)

(** val arc_ghost_adapt : n -> n -> arc -> arc * bool **)

let arc_ghost_adapt cap k s =
  if ll_has k s.a_b1
  then let b1' = ll_remove k s.a_b1 in
       let delta = arc_delta (total s.a_b2) (total b1') in
       ({ a_p = (N.min (N.add s.a_p delta) cap); a_t1 = s.a_t1; a_t2 =
       s.a_t2; a_b1 = b1'; a_b2 = s.a_b2 }, false)
  else if ll_has k s.a_b2
       then let b2' = ll_remove k s.a_b2 in
            let delta = arc_delta (total s.a_b1) (total b2') in
            ({ a_p = (N.sub s.a_p delta); a_t1 = s.a_t1; a_t2 = s.a_t2;
            a_b1 = s.a_b1; a_b2 = b2' }, true)
       else (s, false)

(** val arc_admit_fresh : n -> n -> n -> arc -> bool -> arc **)

let arc_admit_fresh cap k c s1 kib2 =
  let s2 =
    if N.leb cap (N.add (total s1.a_t1) (total s1.a_t2))
    then (match arc_replace cap kib2 s1 with
          | Some p -> let (_, s') = p in s'
          | None -> s1)
    else s1
  in
  { a_p = s2.a_p; a_t1 = (ll_push_front k c s2.a_t1); a_t2 = s2.a_t2; a_b1 =
  s2.a_b1; a_b2 = s2.a_b2 }

(** val arc_admit : n -> n -> n -> arc -> arc **)

let arc_admit cap k c s =
  if ll_has k s.a_t1
  then { a_p = s.a_p; a_t1 = (ll_remove k s.a_t1); a_t2 =
         (ll_push_front k c s.a_t2); a_b1 = s.a_b1; a_b2 = s.a_b2 }
  else if ll_has k s.a_t2
       then { a_p = s.a_p; a_t1 = s.a_t1; a_t2 = (ll_push_front k c s.a_t2);
              a_b1 = s.a_b1; a_b2 = s.a_b2 }
       else let (s1, kib2) = arc_ghost_adapt cap k s in
            arc_admit_fresh cap k c s1 kib2

(** val arc_remove : n -> arc -> arc **)

let arc_remove k s =
  if ll_has k s.a_t1
  then { a_p = s.a_p; a_t1 = (ll_remove k s.a_t1); a_t2 = s.a_t2; a_b1 =
         s.a_b1; a_b2 = s.a_b2 }
  else if ll_has k s.a_t2
       then { a_p = s.a_p; a_t1 = s.a_t1; a_t2 = (ll_remove k s.a_t2); a_b1 =
              s.a_b1; a_b2 = s.a_b2 }
       else if ll_has k s.a_b1
            then { a_p = s.a_p; a_t1 = s.a_t1; a_t2 = s.a_t2; a_b1 =
                   (ll_remove k s.a_b1); a_b2 = s.a_b2 }
            else { a_p = s.a_p; a_t1 = s.a_t1; a_t2 = s.a_t2; a_b1 = s.a_b1;
                   a_b2 = (ll_remove k s.a_b2) }

(** val arc_evict_one : n -> arc -> (ent * arc) option **)

let arc_evict_one cap s =
  let kib2 =
    match ll_pop_back s.a_t1 with
    | Some p -> let (k0, _) = p in let (k, _) = k0 in ll_has k s.a_b2
    | None -> false
  in
  (match arc_replace cap kib2 s with
   | Some p -> let (k0, s') = p in Some ((k0, false), s')
   | None -> None)

(** val arc_step : n -> arc -> call -> arc * out **)

let arc_step cap s = function
| Access (k, c) -> ((arc_access k c s), ODone)
| Admit (k, c) -> ((arc_admit cap k c s), OAdmit)
| Remove k -> ((arc_remove k s), ODone)
| Evict n0 ->
  let (p, f) =
    evict_loop (arc_evict_one cap) (add (length s.a_t1) (length s.a_t2)) n0
      N0 s []
  in
  let (s', vs) = p in (s', (OVictims (vs, f)))
| Clear -> ({ a_p = N0; a_t1 = []; a_t2 = []; a_b1 = []; a_b2 = [] }, ODone)

(** val arc_tr : arc -> kc list **)

let arc_tr s =
  app s.a_t1 s.a_t2

(** val arcP : n -> policy **)

let arcP cap =
  { pinit =
    (Obj.magic { a_p = N0; a_t1 = []; a_t2 = []; a_b1 = []; a_b2 = [] });
    pstep = (Obj.magic arc_step cap); ptracked = (Obj.magic arc_tr) }

(** val tl_window_target : n -> n **)

let tl_window_target cap =
  if N.eqb cap N0
  then N0
  else N.max (round_div cap (Npos (XO (XO (XI (XO (XO (XI XH)))))))) (Npos XH)

(** val tl_main_prot_capacity : n -> n **)

let tl_main_prot_capacity cap =
  let main = N.sub cap (tl_window_target cap) in
  if N.eqb main N0
  then N0
  else N.sub main (N.max (round_div main (Npos (XI (XO XH)))) (Npos XH))

type 'sk tlfu = { tl_win : lru_list; tl_main : slru; tl_sk : 'sk }

(** val tl_window_loop :
    ('a1 -> n -> n) -> nat -> n -> 'a1 -> lru_list -> slru -> n list ->
    (lru_list * slru) * n list **)

let rec tl_window_loop sk_est fuel wt s win m rej =
  match fuel with
  | O -> ((win, m), (rev rej))
  | S f ->
    if N.ltb wt (total win)
    then (match ll_pop_back win with
          | Some p ->
            let (k, win') = p in
            let (ck, cc) = k in
            let admit_candidate =
              match slru_peek_lru m with
              | Some v -> N.leb (sk_est s v) (sk_est s ck)
              | None -> true
            in
            if admit_candidate
            then tl_window_loop sk_est f wt s win'
                   (slru_admit_internal ck cc m) rej
            else tl_window_loop sk_est f wt s win' m (ck :: rej)
          | None -> ((win, m), (rev rej)))
    else ((win, m), (rev rej))

(** val tl_access :
    ('a1 -> n -> 'a1) -> n -> n -> n -> 'a1 tlfu -> 'a1 tlfu **)

let tl_access sk_incr cap k c s =
  let s1 = sk_incr s.tl_sk k in
  if ll_has k s.tl_win
  then { tl_win = (ll_push_front k c s.tl_win); tl_main = s.tl_main; tl_sk =
         s1 }
  else { tl_win = s.tl_win; tl_main =
         (slru_access (tl_main_prot_capacity cap) k c s.tl_main); tl_sk = s1 }

(** val tl_admit :
    ('a1 -> n -> 'a1) -> ('a1 -> n -> n) -> n -> n -> n -> 'a1 tlfu -> 'a1
    tlfu * out **)

let tl_admit sk_incr sk_est cap k c s =
  let s1 = sk_incr s.tl_sk k in
  if (||) (ll_has k s.tl_main.sl_prob) (ll_has k s.tl_main.sl_prot)
  then ({ tl_win = s.tl_win; tl_main =
         (slru_access (tl_main_prot_capacity cap) k c s.tl_main); tl_sk =
         s1 }, OAdmit)
  else let win1 = ll_push_front k c s.tl_win in
       let (p, rej) =
         tl_window_loop sk_est (length win1) (tl_window_target cap) s1 win1
           s.tl_main []
       in
       let (win2, m2) = p in
       ({ tl_win = win2; tl_main = m2; tl_sk = s1 },
       (match rej with
        | [] -> OAdmit
        | _ :: _ -> OAdmitEvict rej))

(** val tl_remove : n -> 'a1 tlfu -> 'a1 tlfu **)

let tl_remove k s =
  if ll_has k s.tl_win
  then { tl_win = (ll_remove k s.tl_win); tl_main = s.tl_main; tl_sk =
         s.tl_sk }
  else { tl_win = s.tl_win; tl_main = (slru_remove k s.tl_main); tl_sk =
         s.tl_sk }

(** val tl_evict : n -> n -> 'a1 tlfu -> ('a1 tlfu * n list) * n **)

let tl_evict cap n0 s =
  if N.eqb n0 N0
  then ((s, []), N0)
  else let (p, f) = slru_evict (tl_main_prot_capacity cap) n0 s.tl_main in
       let (m', vs) = p in
       (({ tl_win = s.tl_win; tl_main = m'; tl_sk = s.tl_sk }, vs), f)

(** val tl_step :
    ('a1 -> n -> 'a1) -> ('a1 -> n -> n) -> ('a1 -> 'a1) -> n -> 'a1 tlfu ->
    call -> 'a1 tlfu * out **)

let tl_step sk_incr sk_est sk_clear cap s = function
| Access (k, c) -> ((tl_access sk_incr cap k c s), ODone)
| Admit (k, c) -> tl_admit sk_incr sk_est cap k c s
| Remove k -> ((tl_remove k s), ODone)
| Evict n0 ->
  let (p, f) = tl_evict cap n0 s in
  let (s', vs) = p in (s', (OVictims (vs, f)))
| Clear ->
  ({ tl_win = []; tl_main = { sl_prob = []; sl_prot = [] }; tl_sk =
    (sk_clear s.tl_sk) }, ODone)

(** val tl_tr : 'a1 tlfu -> kc list **)

let tl_tr s =
  app s.tl_win (slru_tr s.tl_main)

(** val tinyLfuP :
    ('a1 -> n -> 'a1) -> ('a1 -> n -> n) -> ('a1 -> 'a1) -> 'a1 -> n -> policy **)

let tinyLfuP sk_incr sk_est sk_clear sk0 cap =
  { pinit =
    (Obj.magic { tl_win = []; tl_main = { sl_prob = []; sl_prot = [] };
      tl_sk = sk0 }); pstep =
    (Obj.magic tl_step sk_incr sk_est sk_clear cap); ptracked =
    (Obj.magic tl_tr) }

type replay_sk = n list * n list list

(** val replay_incr : replay_sk -> n -> replay_sk **)

let replay_incr s _ =
  match snd s with
  | [] -> ([], [])
  | h :: t -> (h, t)

(** val replay_est : replay_sk -> n -> n **)

let replay_est s k =
  if mem k (fst s) then N0 else Npos XH

(** val tinyLfuReplayP : n list list -> n -> policy **)

let tinyLfuReplayP rejects cap =
  tinyLfuP replay_incr replay_est (fun s -> s) ([], rejects) cap
