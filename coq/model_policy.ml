
type __ = Obj.t

type nat =
| O
| S of nat

(** val fst : ('a1 * 'a2) -> 'a1 **)

let fst = function
| (x, _) -> x

(** val snd : ('a1 * 'a2) -> 'a2 **)

let snd = function
| (_, y) -> y

(** val length : 'a1 list -> nat **)

let rec length = function
| [] -> O
| _ :: l' -> S (length l')

(** val app : 'a1 list -> 'a1 list -> 'a1 list **)

let rec app l m =
  match l with
  | [] -> m
  | a :: l1 -> a :: (app l1 m)

type comparison =
| Eq
| Lt
| Gt

(** val pred : nat -> nat **)

let pred n0 = match n0 with
| O -> n0
| S u -> u

(** val add : nat -> nat -> nat **)

let rec add n0 m =
  match n0 with
  | O -> m
  | S p -> S (add p m)

module Nat =
 struct
  (** val leb : nat -> nat -> bool **)

  let rec leb n0 m =
    match n0 with
    | O -> true
    | S n' -> (match m with
               | O -> false
               | S m' -> leb n' m')

  (** val ltb : nat -> nat -> bool **)

  let ltb n0 m =
    leb (S n0) m
 end

(** val rev : 'a1 list -> 'a1 list **)

let rec rev = function
| [] -> []
| x :: l' -> app (rev l') (x :: [])

(** val map : ('a1 -> 'a2) -> 'a1 list -> 'a2 list **)

let rec map f = function
| [] -> []
| a :: t -> (f a) :: (map f t)

(** val firstn : nat -> 'a1 list -> 'a1 list **)

let rec firstn n0 l =
  match n0 with
  | O -> []
  | S n1 -> (match l with
             | [] -> []
             | a :: l0 -> a :: (firstn n1 l0))

(** val skipn : nat -> 'a1 list -> 'a1 list **)

let rec skipn n0 l =
  match n0 with
  | O -> l
  | S n1 -> (match l with
             | [] -> []
             | _ :: l0 -> skipn n1 l0)

type positive =
| XI of positive
| XO of positive
| XH

type n =
| N0
| Npos of positive

module Pos =
 struct
  (** val succ : positive -> positive **)

  let rec succ = function
  | XI p -> XO (succ p)
  | XO p -> XI p
  | XH -> XO XH

  (** val add : positive -> positive -> positive **)

  let rec add x y =
    match x with
    | XI p ->
      (match y with
       | XI q -> XO (add_carry p q)
       | XO q -> XI (add p q)
       | XH -> XO (succ p))
    | XO p ->
      (match y with
       | XI q -> XI (add p q)
       | XO q -> XO (add p q)
       | XH -> XI p)
    | XH -> (match y with
             | XI q -> XO (succ q)
             | XO q -> XI q
             | XH -> XO XH)

  (** val add_carry : positive -> positive -> positive **)

  and add_carry x y =
    match x with
    | XI p ->
      (match y with
       | XI q -> XI (add_carry p q)
       | XO q -> XO (add_carry p q)
       | XH -> XI (succ p))
    | XO p ->
      (match y with
       | XI q -> XO (add_carry p q)
       | XO q -> XI (add p q)
       | XH -> XO (succ p))
    | XH ->
      (match y with
       | XI q -> XI (succ q)
       | XO q -> XO (succ q)
       | XH -> XI XH)

  (** val compare_cont : comparison -> positive -> positive -> comparison **)

  let rec compare_cont r x y =
    match x with
    | XI p ->
      (match y with
       | XI q -> compare_cont r p q
       | XO q -> compare_cont Gt p q
       | XH -> Gt)
    | XO p ->
      (match y with
       | XI q -> compare_cont Lt p q
       | XO q -> compare_cont r p q
       | XH -> Gt)
    | XH -> (match y with
             | XH -> r
             | _ -> Lt)

  (** val compare : positive -> positive -> comparison **)

  let compare =
    compare_cont Eq

  (** val eqb : positive -> positive -> bool **)

  let rec eqb p q =
    match p with
    | XI p0 -> (match q with
                | XI q0 -> eqb p0 q0
                | _ -> false)
    | XO p0 -> (match q with
                | XO q0 -> eqb p0 q0
                | _ -> false)
    | XH -> (match q with
             | XH -> true
             | _ -> false)
 end

module N =
 struct
  (** val add : n -> n -> n **)

  let add n0 m =
    match n0 with
    | N0 -> m
    | Npos p -> (match m with
                 | N0 -> n0
                 | Npos q -> Npos (Pos.add p q))

  (** val compare : n -> n -> comparison **)

  let compare n0 m =
    match n0 with
    | N0 -> (match m with
             | N0 -> Eq
             | Npos _ -> Lt)
    | Npos n' -> (match m with
                  | N0 -> Gt
                  | Npos m' -> Pos.compare n' m')

  (** val eqb : n -> n -> bool **)

  let eqb n0 m =
    match n0 with
    | N0 -> (match m with
             | N0 -> true
             | Npos _ -> false)
    | Npos p -> (match m with
                 | N0 -> false
                 | Npos q -> Pos.eqb p q)

  (** val ltb : n -> n -> bool **)

  let ltb x y =
    match compare x y with
    | Lt -> true
    | _ -> false
 end

type kc = n * n

(** val lookup : n -> kc list -> n option **)

let rec lookup k = function
| [] -> None
| k0 :: t -> let (k', c) = k0 in if N.eqb k k' then Some c else lookup k t

(** val rm : n -> kc list -> kc list **)

let rec rm k = function
| [] -> []
| k0 :: t ->
  let (k', c) = k0 in if N.eqb k k' then rm k t else (k', c) :: (rm k t)

type call =
| Access of n * n
| Admit of n * n
| Remove of n
| Evict of n
| Clear

type out =
| ODone
| OAdmit
| OReject
| OAdmitEvict of n list
| OVictims of n list * n

type policy = { pinit : __; pstep : (__ -> call -> __ * out);
                ptracked : (__ -> kc list) }

type pst = __

(** val prun : policy -> pst -> call list -> pst * out list **)

let rec prun p s = function
| [] -> (s, [])
| c :: r ->
  let (s1, o) = p.pstep s c in let (s2, os) = prun p s1 r in (s2, (o :: os))

type lru_list = kc list

(** val ll_move_to_front : n -> lru_list -> lru_list **)

let ll_move_to_front k l =
  match lookup k l with
  | Some c -> (k, c) :: (rm k l)
  | None -> l

(** val ll_push_front : n -> n -> lru_list -> lru_list **)

let ll_push_front k c l =
  (k, c) :: (rm k l)

(** val ll_remove : n -> lru_list -> lru_list **)

let ll_remove =
  rm

(** val pop_while : n -> n -> kc list -> (n list * n) * kc list **)

let rec pop_while want freed r = match r with
| [] -> (([], freed), [])
| k0 :: t ->
  let (k, c) = k0 in
  if N.ltb freed want
  then let (p, rest) = pop_while want (N.add freed c) t in
       let (vs, f) = p in (((k :: vs), f), rest)
  else (([], freed), r)

(** val ll_evict : n -> lru_list -> (lru_list * n list) * n **)

let ll_evict n0 l =
  let (p, rest) = pop_while n0 N0 (rev l) in
  let (vs, f) = p in (((rev rest), vs), f)

(** val lru_step : lru_list -> call -> lru_list * out **)

let lru_step l = function
| Access (k, _) -> ((ll_move_to_front k l), ODone)
| Admit (k, c) -> ((ll_push_front k c l), OAdmit)
| Remove k -> ((ll_remove k l), ODone)
| Evict n0 ->
  let (p, f) = ll_evict n0 l in let (l', vs) = p in (l', (OVictims (vs, f)))
| Clear -> ([], ODone)

(** val lruP : policy **)

let lruP =
  { pinit = (Obj.magic []); pstep = (Obj.magic lru_step); ptracked =
    (fun l -> Obj.magic l) }

(** val fifo_step : lru_list -> call -> lru_list * out **)

let fifo_step l = function
| Access (_, _) -> (l, ODone)
| Admit (k, c) ->
  ((match lookup k l with
    | Some _ -> l
    | None -> ll_push_front k c l), OAdmit)
| Remove k -> ((ll_remove k l), ODone)
| Evict n0 ->
  let (p, f) = ll_evict n0 l in let (l', vs) = p in (l', (OVictims (vs, f)))
| Clear -> ([], ODone)

(** val fifoP : policy **)

let fifoP =
  { pinit = (Obj.magic []); pstep = (Obj.magic fifo_step); ptracked =
    (fun l -> Obj.magic l) }

type ent = (n * n) * bool

(** val ekey : ent -> n **)

let ekey e =
  fst (fst e)

(** val ecost : ent -> n **)

let ecost e =
  snd (fst e)

(** val eflag : ent -> bool **)

let eflag =
  snd

(** val ekc : ent -> kc **)

let ekc =
  fst

(** val eclear : ent -> ent **)

let eclear e =
  ((fst e), false)

(** val erm : n -> ent list -> ent list **)

let rec erm k = function
| [] -> []
| e :: t -> if N.eqb k (ekey e) then erm k t else e :: (erm k t)

(** val eset : n -> ent list -> ent list **)

let rec eset k = function
| [] -> []
| e :: t ->
  if N.eqb k (ekey e) then ((fst e), true) :: (eset k t) else e :: (eset k t)

(** val ehas : n -> ent list -> bool **)

let rec ehas k = function
| [] -> false
| e :: t -> if N.eqb k (ekey e) then true else ehas k t

(** val eindex : n -> ent list -> nat option **)

let rec eindex k = function
| [] -> None
| e :: t ->
  if N.eqb k (ekey e)
  then Some O
  else (match eindex k t with
        | Some i -> Some (S i)
        | None -> None)

(** val scan : ent list -> ent list * (ent * ent list) option **)

let rec scan = function
| [] -> ([], None)
| e :: t ->
  if eflag e
  then let (cl, r) = scan t in (((eclear e) :: cl), r)
  else ([], (Some (e, t)))

type sieve = { sv_r : ent list; sv_hand : nat }

(** val sieve_admit : n -> n -> sieve -> sieve **)

let sieve_admit k c s =
  { sv_r = (app (erm k s.sv_r) (((k, c), false) :: [])); sv_hand = s.sv_hand }

(** val sieve_remove : n -> sieve -> sieve **)

let sieve_remove k s =
  let r = erm k s.sv_r in
  { sv_r = r; sv_hand =
  (if Nat.leb (length r) s.sv_hand then O else s.sv_hand) }

(** val sieve_evict_one : sieve -> (ent * sieve) option **)

let sieve_evict_one s =
  let pre = firstn s.sv_hand s.sv_r in
  let post = skipn s.sv_hand s.sv_r in
  let (cl, o) = scan post in
  (match o with
   | Some p ->
     let (v, rest) = p in
     Some (v, { sv_r = (app pre (app cl rest)); sv_hand =
     (add s.sv_hand (length cl)) })
   | None ->
     (match app pre cl with
      | [] -> None
      | v :: rest -> Some (v, { sv_r = rest; sv_hand = O })))

(** val evict_loop :
    ('a1 -> (ent * 'a1) option) -> nat -> n -> n -> 'a1 -> n list -> ('a1 * n
    list) * n **)

let rec evict_loop one fuel want freed s acc =
  match fuel with
  | O -> ((s, (rev acc)), freed)
  | S f ->
    if N.ltb freed want
    then (match one s with
          | Some p ->
            let (v, s') = p in
            evict_loop one f want (N.add freed (ecost v)) s' ((ekey v) :: acc)
          | None -> ((s, (rev acc)), freed))
    else ((s, (rev acc)), freed)

(** val sieve_step : sieve -> call -> sieve * out **)

let sieve_step s = function
| Access (k, _) -> ({ sv_r = (eset k s.sv_r); sv_hand = s.sv_hand }, ODone)
| Admit (k, c) -> ((sieve_admit k c s), OAdmit)
| Remove k -> ((sieve_remove k s), ODone)
| Evict n0 ->
  let (p, f) = evict_loop sieve_evict_one (length s.sv_r) n0 N0 s [] in
  let (s', vs) = p in (s', (OVictims (vs, f)))
| Clear -> ({ sv_r = []; sv_hand = O }, ODone)

(** val sieveP : policy **)

let sieveP =
  { pinit = (Obj.magic { sv_r = []; sv_hand = O }); pstep =
    (Obj.magic sieve_step); ptracked = (fun s -> map ekc (Obj.magic s).sv_r) }

type clock = { ck_o : ent list; ck_hand : nat }

(** val clock_admit : n -> n -> clock -> clock **)

let clock_admit k c s =
  if ehas k s.ck_o
  then s
  else { ck_o = (app s.ck_o (((k, c), false) :: [])); ck_hand = s.ck_hand }

(** val clock_remove : n -> clock -> clock **)

let clock_remove k s =
  match eindex k s.ck_o with
  | Some pos ->
    { ck_o = (erm k s.ck_o); ck_hand =
      (if (&&) (Nat.leb pos s.ck_hand) (Nat.ltb O s.ck_hand)
       then pred s.ck_hand
       else s.ck_hand) }
  | None -> s

(** val clock_evict_one : clock -> (ent * clock) option **)

let clock_evict_one s =
  let h = if Nat.leb (length s.ck_o) s.ck_hand then O else s.ck_hand in
  let pre = firstn h s.ck_o in
  let post = skipn h s.ck_o in
  let (cl, o) = scan post in
  (match o with
   | Some p ->
     let (v, rest) = p in
     Some (v, { ck_o = (app pre (app cl rest)); ck_hand =
     (add h (length cl)) })
   | None ->
     let (cl2, o0) = scan (app pre cl) in
     (match o0 with
      | Some p ->
        let (v, rest) = p in
        Some (v, { ck_o = (app cl2 rest); ck_hand = (length cl2) })
      | None -> None))

(** val clock_step : clock -> call -> clock * out **)

let clock_step s = function
| Access (k, _) -> ({ ck_o = (eset k s.ck_o); ck_hand = s.ck_hand }, ODone)
| Admit (k, c) -> ((clock_admit k c s), OAdmit)
| Remove k -> ((clock_remove k s), ODone)
| Evict n0 ->
  let (p, f) = evict_loop clock_evict_one (length s.ck_o) n0 N0 s [] in
  let (s', vs) = p in (s', (OVictims (vs, f)))
| Clear -> ({ ck_o = []; ck_hand = O }, ODone)

(** val clockP : policy **)

let clockP =
  { pinit = (Obj.magic { ck_o = []; ck_hand = O }); pstep =
    (Obj.magic clock_step); ptracked = (fun s -> map ekc (Obj.magic s).ck_o) }
