
type __ = Obj.t

(** val negb : bool -> bool **)

let negb = function
| true -> false
| false -> true

type nat =
| O
| S of nat

type ('a, 'b) sum =
| Inl of 'a
| Inr of 'b

(** val fst : ('a1 * 'a2) -> 'a1 **)

let fst = function
| (x, _) -> x

(** val snd : ('a1 * 'a2) -> 'a2 **)

let snd = function
| (_, y) -> y

(** val length : 'a1 list -> nat **)

let rec length = function
| [] -> O
| _ :: l' -> S (length l')

(** val app : 'a1 list -> 'a1 list -> 'a1 list **)

let rec app l m =
  match l with
  | [] -> m
  | a :: l1 -> a :: (app l1 m)

(** val eqb : bool -> bool -> bool **)

let eqb b1 b2 =
  if b1 then b2 else if b2 then false else true

module Nat =
 struct
  (** val eqb : nat -> nat -> bool **)

  let rec eqb n0 m =
    match n0 with
    | O -> (match m with
            | O -> true
            | S _ -> false)
    | S n' -> (match m with
               | O -> false
               | S m' -> eqb n' m')
 end

(** val existsb : ('a1 -> bool) -> 'a1 list -> bool **)

let rec existsb f = function
| [] -> false
| a :: l0 -> (||) (f a) (existsb f l0)

(** val filter : ('a1 -> bool) -> 'a1 list -> 'a1 list **)

let rec filter f = function
| [] -> []
| x :: l0 -> if f x then x :: (filter f l0) else filter f l0

type system = { init : __; step : (__ -> __ -> __ -> (__ * __) option) }

type state = __

type tid = __

type choice = __

type event = __

(** val replay :
    system -> (event -> event -> bool) -> state -> ((tid * choice) * event)
    list -> (state option, nat) sum **)

let rec replay s eqb0 s0 = function
| [] -> Inl (Some s0)
| p :: r ->
  let (p0, e) = p in
  let (t, c) = p0 in
  (match s.step s0 t c with
   | Some p1 ->
     let (s', e') = p1 in
     if eqb0 e e' then replay s eqb0 s' r else Inr (length r)
   | None -> Inr (length r))

type positive =
| XI of positive
| XO of positive
| XH

type n =
| N0
| Npos of positive

module Pos =
 struct
  type mask =
  | IsNul
  | IsPos of positive
  | IsNeg
 end

module Coq_Pos =
 struct
  (** val succ : positive -> positive **)

  let rec succ = function
  | XI p -> XO (succ p)
  | XO p -> XI p
  | XH -> XO XH

  (** val add : positive -> positive -> positive **)

  let rec add x y =
    match x with
    | XI p ->
      (match y with
       | XI q -> XO (add_carry p q)
       | XO q -> XI (add p q)
       | XH -> XO (succ p))
    | XO p ->
      (match y with
       | XI q -> XI (add p q)
       | XO q -> XO (add p q)
       | XH -> XI p)
    | XH -> (match y with
             | XI q -> XO (succ q)
             | XO q -> XI q
             | XH -> XO XH)

  (** val add_carry : positive -> positive -> positive **)

  and add_carry x y =
    match x with
    | XI p ->
      (match y with
       | XI q -> XI (add_carry p q)
       | XO q -> XO (add_carry p q)
       | XH -> XI (succ p))
    | XO p ->
      (match y with
       | XI q -> XO (add_carry p q)
       | XO q -> XI (add p q)
       | XH -> XO (succ p))
    | XH ->
      (match y with
       | XI q -> XI (succ q)
       | XO q -> XO (succ q)
       | XH -> XI XH)

  (** val pred_double : positive -> positive **)

  let rec pred_double = function
  | XI p -> XI (XO p)
  | XO p -> XI (pred_double p)
  | XH -> XH

  type mask = Pos.mask =
  | IsNul
  | IsPos of positive
  | IsNeg

  (** val succ_double_mask : mask -> mask **)

  let succ_double_mask = function
  | IsNul -> IsPos XH
  | IsPos p -> IsPos (XI p)
  | IsNeg -> IsNeg

  (** val double_mask : mask -> mask **)

  let double_mask = function
  | IsPos p -> IsPos (XO p)
  | x0 -> x0

  (** val double_pred_mask : positive -> mask **)

  let double_pred_mask = function
  | XI p -> IsPos (XO (XO p))
  | XO p -> IsPos (XO (pred_double p))
  | XH -> IsNul

  (** val sub_mask : positive -> positive -> mask **)

  let rec sub_mask x y =
    match x with
    | XI p ->
      (match y with
       | XI q -> double_mask (sub_mask p q)
       | XO q -> succ_double_mask (sub_mask p q)
       | XH -> IsPos (XO p))
    | XO p ->
      (match y with
       | XI q -> succ_double_mask (sub_mask_carry p q)
       | XO q -> double_mask (sub_mask p q)
       | XH -> IsPos (pred_double p))
    | XH -> (match y with
             | XH -> IsNul
             | _ -> IsNeg)

  (** val sub_mask_carry : positive -> positive -> mask **)

  and sub_mask_carry x y =
    match x with
    | XI p ->
      (match y with
       | XI q -> succ_double_mask (sub_mask_carry p q)
       | XO q -> double_mask (sub_mask p q)
       | XH -> IsPos (pred_double p))
    | XO p ->
      (match y with
       | XI q -> double_mask (sub_mask_carry p q)
       | XO q -> succ_double_mask (sub_mask_carry p q)
       | XH -> double_pred_mask p)
    | XH -> IsNeg

  (** val mul : positive -> positive -> positive **)

  let rec mul x y =
    match x with
    | XI p -> add y (XO (mul p y))
    | XO p -> XO (mul p y)
    | XH -> y

  (** val eqb : positive -> positive -> bool **)

  let rec eqb p q =
    match p with
    | XI p0 -> (match q with
                | XI q0 -> eqb p0 q0
                | _ -> false)
    | XO p0 -> (match q with
                | XO q0 -> eqb p0 q0
                | _ -> false)
    | XH -> (match q with
             | XH -> true
             | _ -> false)
 end

module N =
 struct
  (** val add : n -> n -> n **)

  let add n0 m =
    match n0 with
    | N0 -> m
    | Npos p -> (match m with
                 | N0 -> n0
                 | Npos q -> Npos (Coq_Pos.add p q))

  (** val sub : n -> n -> n **)

  let sub n0 m =
    match n0 with
    | N0 -> N0
    | Npos n' ->
      (match m with
       | N0 -> n0
       | Npos m' ->
         (match Coq_Pos.sub_mask n' m' with
          | Coq_Pos.IsPos p -> Npos p
          | _ -> N0))

  (** val mul : n -> n -> n **)

  let mul n0 m =
    match n0 with
    | N0 -> N0
    | Npos p -> (match m with
                 | N0 -> N0
                 | Npos q -> Npos (Coq_Pos.mul p q))

  (** val eqb : n -> n -> bool **)

  let eqb n0 m =
    match n0 with
    | N0 -> (match m with
             | N0 -> true
             | Npos _ -> false)
    | Npos p -> (match m with
                 | N0 -> false
                 | Npos q -> Coq_Pos.eqb p q)
 end

type ord =
| Rlx
| Acq
| Rel
| AcqRel
| SeqCst

type var =
| VState
| VLocked
| VNode of nat

type mev =
| EvLoad of var * ord * n
| EvStore of var * ord * n
| EvSwap of var * ord * n * n
| EvCas of var * ord * ord * n * n * n * bool
| EvCasW of var * ord * ord * n * n * n * bool
| EvFsub of var * ord * n * n
| EvFor of var * ord * n * n
| EvFand of var * ord * n * n
| EvPark
| EvUnpark of nat
| EvYield
| EvSpin

type op =
| OLock
| OTry
| OAsync
| OPoll
| ODropFut
| OWait

type res =
| RL
| RT of bool
| RA
| RP of bool

type mch =
| ChGo
| ChAgain

type wk =
| WThread
| WBlock
| WCount

type actx =
| ALock
| ASpin of bool
| ATry
| AFirst of bool
| APoll of bool

type qctx =
| QSync of bool
| QFut of bool

type lctx =
| LQ of qctx
| LX of qctx
| LDrop
| LWake

type pc =
| Idle
| TALoad of actx
| TACas of actx * bool
| Yield of bool
| SpinNext of bool
| PollNext of bool
| LLSwap of lctx
| LLLoad of lctx
| LLSpin of lctx
| QRearm of qctx
| QFor of qctx
| QLoad of qctx
| QCas of qctx * bool
| QFix of qctx
| QUnl of qctx * bool
| PLoad
| Park
| BPark
| XFix of qctx
| XUnl of qctx
| CS
| UFand
| WMark
| WUnl of (wk * nat) option
| WWake of nat
| DFix
| DUnl
| DLoad
| WaitW

type mstate = { locked : bool; hasq : bool; llock : nat option;
                queue : nat list; narm : (nat -> wk option);
                nwk : (nat -> bool); token : (nat -> bool);
                bwoken : (nat -> bool); prog : (nat -> op list);
                pcs : (nat -> pc); fut : (nat -> bool option);
                holders : nat list; results : (nat * res) list }

(** val holders : mstate -> nat list **)

let holders m =
  m.holders

(** val results : mstate -> (nat * res) list **)

let results m =
  m.results

(** val upd : (nat -> 'a1) -> nat -> 'a1 -> nat -> 'a1 **)

let upd f t v u =
  if Nat.eqb u t then v else f u

(** val set_locked : mstate -> bool -> mstate **)

let set_locked s v =
  { locked = v; hasq = s.hasq; llock = s.llock; queue = s.queue; narm =
    s.narm; nwk = s.nwk; token = s.token; bwoken = s.bwoken; prog = s.prog;
    pcs = s.pcs; fut = s.fut; holders = s.holders; results = s.results }

(** val set_hasq : mstate -> bool -> mstate **)

let set_hasq s v =
  { locked = s.locked; hasq = v; llock = s.llock; queue = s.queue; narm =
    s.narm; nwk = s.nwk; token = s.token; bwoken = s.bwoken; prog = s.prog;
    pcs = s.pcs; fut = s.fut; holders = s.holders; results = s.results }

(** val set_llock : mstate -> nat option -> mstate **)

let set_llock s v =
  { locked = s.locked; hasq = s.hasq; llock = v; queue = s.queue; narm =
    s.narm; nwk = s.nwk; token = s.token; bwoken = s.bwoken; prog = s.prog;
    pcs = s.pcs; fut = s.fut; holders = s.holders; results = s.results }

(** val set_queue : mstate -> nat list -> mstate **)

let set_queue s v =
  { locked = s.locked; hasq = s.hasq; llock = s.llock; queue = v; narm =
    s.narm; nwk = s.nwk; token = s.token; bwoken = s.bwoken; prog = s.prog;
    pcs = s.pcs; fut = s.fut; holders = s.holders; results = s.results }

(** val set_narm : mstate -> nat -> wk option -> mstate **)

let set_narm s t v =
  { locked = s.locked; hasq = s.hasq; llock = s.llock; queue = s.queue;
    narm = (upd s.narm t v); nwk = s.nwk; token = s.token; bwoken = s.bwoken;
    prog = s.prog; pcs = s.pcs; fut = s.fut; holders = s.holders; results =
    s.results }

(** val set_nwk : mstate -> nat -> bool -> mstate **)

let set_nwk s t v =
  { locked = s.locked; hasq = s.hasq; llock = s.llock; queue = s.queue;
    narm = s.narm; nwk = (upd s.nwk t v); token = s.token; bwoken = s.bwoken;
    prog = s.prog; pcs = s.pcs; fut = s.fut; holders = s.holders; results =
    s.results }

(** val set_token : mstate -> nat -> bool -> mstate **)

let set_token s t v =
  { locked = s.locked; hasq = s.hasq; llock = s.llock; queue = s.queue;
    narm = s.narm; nwk = s.nwk; token = (upd s.token t v); bwoken = s.bwoken;
    prog = s.prog; pcs = s.pcs; fut = s.fut; holders = s.holders; results =
    s.results }

(** val set_bwoken : mstate -> nat -> bool -> mstate **)

let set_bwoken s t v =
  { locked = s.locked; hasq = s.hasq; llock = s.llock; queue = s.queue;
    narm = s.narm; nwk = s.nwk; token = s.token; bwoken = (upd s.bwoken t v);
    prog = s.prog; pcs = s.pcs; fut = s.fut; holders = s.holders; results =
    s.results }

(** val set_prog : mstate -> nat -> op list -> mstate **)

let set_prog s t v =
  { locked = s.locked; hasq = s.hasq; llock = s.llock; queue = s.queue;
    narm = s.narm; nwk = s.nwk; token = s.token; bwoken = s.bwoken; prog =
    (upd s.prog t v); pcs = s.pcs; fut = s.fut; holders = s.holders;
    results = s.results }

(** val set_pc : mstate -> nat -> pc -> mstate **)

let set_pc s t v =
  { locked = s.locked; hasq = s.hasq; llock = s.llock; queue = s.queue;
    narm = s.narm; nwk = s.nwk; token = s.token; bwoken = s.bwoken; prog =
    s.prog; pcs = (upd s.pcs t v); fut = s.fut; holders = s.holders;
    results = s.results }

(** val set_fut : mstate -> nat -> bool option -> mstate **)

let set_fut s t v =
  { locked = s.locked; hasq = s.hasq; llock = s.llock; queue = s.queue;
    narm = s.narm; nwk = s.nwk; token = s.token; bwoken = s.bwoken; prog =
    s.prog; pcs = s.pcs; fut = (upd s.fut t v); holders = s.holders;
    results = s.results }

(** val set_holders : mstate -> nat list -> mstate **)

let set_holders s v =
  { locked = s.locked; hasq = s.hasq; llock = s.llock; queue = s.queue;
    narm = s.narm; nwk = s.nwk; token = s.token; bwoken = s.bwoken; prog =
    s.prog; pcs = s.pcs; fut = s.fut; holders = v; results = s.results }

(** val log : mstate -> nat -> res -> mstate **)

let log s t r =
  { locked = s.locked; hasq = s.hasq; llock = s.llock; queue = s.queue;
    narm = s.narm; nwk = s.nwk; token = s.token; bwoken = s.bwoken; prog =
    s.prog; pcs = s.pcs; fut = s.fut; holders = s.holders; results =
    (app s.results ((t, r) :: [])) }

(** val mem : nat -> nat list -> bool **)

let mem t l =
  existsb (Nat.eqb t) l

(** val rem : nat -> nat list -> nat list **)

let rem t l =
  filter (fun u -> negb (Nat.eqb u t)) l

(** val enc : bool -> bool -> n **)

let enc l q =
  N.add (if l then Npos XH else N0) (if q then Npos (XO XH) else N0)

(** val word : mstate -> n **)

let word s =
  enc s.locked s.hasq

(** val b2n : bool -> n **)

let b2n = function
| true -> Npos XH
| false -> N0

(** val o_ta_load : ord **)

let o_ta_load =
  Rlx

(** val o_ta_cas : ord **)

let o_ta_cas =
  Acq

(** val o_ta_casf : ord **)

let o_ta_casf =
  Rlx

(** val o_ll_swap : ord **)

let o_ll_swap =
  Acq

(** val o_ll_load : ord **)

let o_ll_load =
  Rlx

(** val o_ll_unlock : ord **)

let o_ll_unlock =
  Rel

(** val o_rearm : ord **)

let o_rearm =
  Rlx

(** val o_q_for : ord **)

let o_q_for =
  Rlx

(** val o_q_load : ord **)

let o_q_load =
  Rlx

(** val o_q_cas : ord **)

let o_q_cas =
  Acq

(** val o_q_casf : ord **)

let o_q_casf =
  Rlx

(** val o_fix : ord **)

let o_fix =
  Rlx

(** val o_node_load : ord **)

let o_node_load =
  Acq

(** val o_unlock : ord **)

let o_unlock =
  Rel

(** val o_mark : ord **)

let o_mark =
  Rel

(** val kind_of : qctx -> wk **)

let kind_of = function
| QSync _ -> WThread
| QFut blk -> if blk then WBlock else WCount

(** val res_of_actx : actx -> res **)

let res_of_actx = function
| ATry -> RT true
| AFirst blk -> if blk then RA else RP true
| APoll blk -> if blk then RA else RP true
| _ -> RL

(** val res_of_qctx : qctx -> res **)

let res_of_qctx = function
| QSync _ -> RL
| QFut blk -> if blk then RA else RP true

(** val ret : mstate -> nat -> pc -> mev -> (mstate * mev) option **)

let ret s t p e =
  Some ((set_pc s t p), e)

(** val fix_flags : mstate -> mstate * mev **)

let fix_flags s =
  match s.queue with
  | [] ->
    ((set_hasq s false), (EvFand (VState, o_fix, (Npos (XO XH)), (word s))))
  | _ :: _ ->
    ((set_hasq s true), (EvFor (VState, o_fix, (Npos (XO XH)), (word s))))

(** val do_taload : mstate -> nat -> actx -> (mstate * mev) option **)

let do_taload s t a =
  let e = EvLoad (VState, o_ta_load, (word s)) in
  if s.locked
  then (match a with
        | ALock -> ret s t (TALoad (ASpin false)) e
        | ASpin l -> ret s t (Yield l) e
        | ATry -> ret (log s t (RT false)) t Idle e
        | AFirst b -> ret s t (TALoad (APoll b)) e
        | APoll b -> ret s t (PollNext b) e)
  else ret s t (TACas (a, s.hasq)) e

(** val after_llock : mstate -> nat -> lctx -> mstate **)

let after_llock s t = function
| LQ q -> set_pc s t (QRearm q)
| LX q ->
  let wl0 = mem t s.queue in
  let s1 = set_queue s (rem t s.queue) in
  (match q with
   | QSync _ -> set_pc s1 t (XFix q)
   | QFut _ -> set_pc s1 t (if wl0 then XFix q else XUnl q))
| LDrop ->
  let wl0 = mem t s.queue in
  set_pc (set_queue s (rem t s.queue)) t (if wl0 then DFix else DUnl)
| LWake -> set_pc s t WMark

(** val do_llswap : mstate -> nat -> lctx -> (mstate * mev) option **)

let do_llswap s t l =
  let s0 =
    match l with
    | LQ q -> (match q with
               | QSync _ -> s
               | QFut b -> set_fut s t (Some b))
    | _ -> s
  in
  (match s0.llock with
   | Some _ ->
     ret s0 t (LLLoad l) (EvSwap (VLocked, o_ll_swap, (Npos XH), (Npos XH)))
   | None ->
     Some ((after_llock (set_llock s0 (Some t)) t l), (EvSwap (VLocked,
       o_ll_swap, (Npos XH), N0))))

(** val do_wait : mstate -> nat -> mch -> (mstate * mev) option **)

let do_wait s t c =
  let s1 = set_token s t true in
  (match c with
   | ChGo -> ret s1 t Idle (EvUnpark t)
   | ChAgain -> ret s1 t WaitW (EvUnpark t))

(** val dispatch :
    mstate -> nat -> mch -> op list -> (mstate * mev) option **)

let rec dispatch s t c p = match p with
| [] ->
  (match s.fut t with
   | Some _ -> do_llswap (set_prog s t []) t LDrop
   | None -> None)
| o :: r ->
  (match o with
   | OLock ->
     (match s.fut t with
      | Some _ -> do_llswap (set_prog s t p) t LDrop
      | None -> do_taload (set_prog s t r) t ALock)
   | OTry -> do_taload (set_prog s t r) t ATry
   | OAsync ->
     (match s.fut t with
      | Some _ -> do_llswap (set_prog s t p) t LDrop
      | None -> do_taload (set_prog s t r) t (AFirst true))
   | OPoll ->
     (match s.fut t with
      | Some _ -> do_taload (set_prog s t r) t (APoll false)
      | None -> do_taload (set_prog s t r) t (AFirst false))
   | ODropFut ->
     (match s.fut t with
      | Some _ -> do_llswap (set_prog s t r) t LDrop
      | None -> dispatch s t c r)
   | OWait ->
     (match s.fut t with
      | Some _ -> do_wait (set_prog s t r) t c
      | None -> dispatch s t c r))

(** val block_next : mstate -> nat -> mstate **)

let block_next s t =
  if s.bwoken t
  then set_pc (set_bwoken s t false) t (TALoad (APoll true))
  else set_pc s t BPark

(** val mstep : mstate -> nat -> mch -> (mstate * mev) option **)

let mstep s t c =
  match s.pcs t with
  | Idle -> dispatch s t c (s.prog t)
  | TALoad a -> do_taload s t a
  | TACas (a, sq) ->
    let ok = (&&) (negb s.locked) (eqb s.hasq sq) in
    let e = EvCas (VState, o_ta_cas, o_ta_casf, (enc false sq),
      (enc true sq), (word s), ok)
    in
    if ok
    then let s1 =
           log (set_holders (set_locked s true) (t :: s.holders)) t
             (res_of_actx a)
         in
         (match a with
          | ASpin linked ->
            if linked
            then ret s1 t (LLSwap (LX (QSync true))) e
            else ret s1 t CS e
          | APoll b ->
            (match s.fut t with
             | Some _ -> ret s1 t (LLSwap (LX (QFut b))) e
             | None -> ret s1 t CS e)
          | _ -> ret s1 t CS e)
    else (match a with
          | ALock -> ret s t (TALoad (ASpin false)) e
          | ASpin l -> ret s t (Yield l) e
          | ATry -> ret (log s t (RT false)) t Idle e
          | AFirst b -> ret s t (TALoad (APoll b)) e
          | APoll b -> ret s t (PollNext b) e)
  | Yield l -> ret s t (SpinNext l) EvYield
  | SpinNext l ->
    (match c with
     | ChGo -> do_llswap s t (LQ (QSync l))
     | ChAgain -> do_taload s t (ASpin l))
  | PollNext b ->
    (match c with
     | ChGo -> do_llswap s t (LQ (QFut b))
     | ChAgain -> do_taload s t (APoll b))
  | LLSwap l -> do_llswap s t l
  | LLLoad l ->
    (match s.llock with
     | Some _ -> ret s t (LLSpin l) (EvLoad (VLocked, o_ll_load, (Npos XH)))
     | None -> ret s t (LLSwap l) (EvLoad (VLocked, o_ll_load, N0)))
  | LLSpin l -> ret s t (LLLoad l) EvSpin
  | QRearm q ->
    let s1 = set_nwk (set_narm s t (Some (kind_of q))) t false in
    let is_linked = match q with
                    | QSync l -> l
                    | QFut _ -> mem t s.queue in
    let s2 = if is_linked then s1 else set_queue s1 (app s1.queue (t :: []))
    in
    ret s2 t (QFor q) (EvStore ((VNode t), o_rearm, N0))
  | QFor q ->
    ret (set_hasq s true) t (QLoad q) (EvFor (VState, o_q_for, (Npos (XO
      XH)), (word s)))
  | QLoad q ->
    let e = EvLoad (VState, o_q_load, (word s)) in
    if s.locked
    then ret s t (QUnl (q, false)) e
    else ret s t (QCas (q, s.hasq)) e
  | QCas (q, sq) ->
    let ok = (&&) (negb s.locked) (eqb s.hasq sq) in
    let e = EvCas (VState, o_q_cas, o_q_casf, (enc false sq), (enc true sq),
      (word s), ok)
    in
    if ok
    then let s1 =
           log (set_holders (set_locked s true) (t :: s.holders)) t
             (res_of_qctx q)
         in
         ret (set_queue s1 (rem t s1.queue)) t (QFix q) e
    else ret s t (QLoad q) e
  | QFix q -> let (s1, e) = fix_flags s in ret s1 t (QUnl (q, true)) e
  | QUnl (q, acq) ->
    let e = EvStore (VLocked, o_ll_unlock, N0) in
    let s1 = set_llock s None in
    if acq
    then (match q with
          | QSync _ -> ret s1 t CS e
          | QFut _ -> ret (set_fut s1 t None) t CS e)
    else (match q with
          | QSync _ -> ret s1 t PLoad e
          | QFut blk ->
            if blk
            then Some ((block_next s1 t), e)
            else ret (log s1 t (RP false)) t Idle e)
  | PLoad ->
    let e = EvLoad ((VNode t), o_node_load, (b2n (s.nwk t))) in
    if s.nwk t then ret s t (TALoad (ASpin true)) e else ret s t Park e
  | Park ->
    if s.token t then ret (set_token s t false) t PLoad EvPark else None
  | BPark ->
    if s.token t
    then Some ((block_next (set_token s t false) t), EvPark)
    else None
  | XFix q -> let (s1, e) = fix_flags s in ret s1 t (XUnl q) e
  | XUnl q ->
    let e = EvStore (VLocked, o_ll_unlock, N0) in
    let s1 = set_llock s None in
    (match q with
     | QSync _ -> ret s1 t CS e
     | QFut _ -> ret (set_fut s1 t None) t CS e)
  | CS ->
    let s1 = set_token s t true in
    (match c with
     | ChGo -> ret s1 t UFand (EvUnpark t)
     | ChAgain -> ret s1 t CS (EvUnpark t))
  | UFand ->
    let e = EvFand (VState, o_unlock, (Npos XH), (word s)) in
    let s1 = set_holders (set_locked s false) (rem t s.holders) in
    if s.hasq then ret s1 t (LLSwap LWake) e else ret s1 t Idle e
  | WMark ->
    (match s.queue with
     | [] -> let (s1, e) = fix_flags s in ret s1 t (WUnl None) e
     | h :: _ ->
       let w = match s.narm h with
               | Some k -> Some (k, h)
               | None -> None in
       ret (set_nwk (set_narm s h None) h true) t (WUnl w) (EvStore ((VNode
         h), o_mark, (Npos XH))))
  | WUnl w ->
    let e = EvStore (VLocked, o_ll_unlock, N0) in
    let s1 = set_llock s None in
    (match w with
     | Some p ->
       let (w0, h) = p in
       (match w0 with
        | WThread -> ret s1 t (WWake h) e
        | WBlock -> ret (set_bwoken s1 h true) t (WWake h) e
        | WCount -> ret s1 t Idle e)
     | None -> ret s1 t Idle e)
  | WWake h -> ret (set_token s h true) t Idle (EvUnpark h)
  | DFix -> let (s1, e) = fix_flags s in ret s1 t DUnl e
  | DUnl ->
    ret (set_llock s None) t DLoad (EvStore (VLocked, o_ll_unlock, N0))
  | DLoad ->
    let e = EvLoad ((VNode t), o_node_load, (b2n (s.nwk t))) in
    let s1 = set_fut s t None in
    if s.nwk t then ret s1 t (LLSwap LWake) e else ret s1 t Idle e
  | WaitW -> do_wait s t c

(** val minit : (nat -> op list) -> mstate **)

let minit progs =
  { locked = false; hasq = false; llock = None; queue = []; narm = (fun _ ->
    None); nwk = (fun _ -> false); token = (fun _ -> false); bwoken =
    (fun _ -> false); prog = progs; pcs = (fun _ -> Idle); fut = (fun _ ->
    None); holders = []; results = [] }

(** val sys : (nat -> op list) -> system **)

let sys progs =
  { init = (Obj.magic minit progs); step = (Obj.magic mstep) }

(** val ord_eqb : ord -> ord -> bool **)

let ord_eqb a b =
  match a with
  | Rlx -> (match b with
            | Rlx -> true
            | _ -> false)
  | Acq -> (match b with
            | Acq -> true
            | _ -> false)
  | Rel -> (match b with
            | Rel -> true
            | _ -> false)
  | AcqRel -> (match b with
               | AcqRel -> true
               | _ -> false)
  | SeqCst -> (match b with
               | SeqCst -> true
               | _ -> false)

(** val var_eqb : var -> var -> bool **)

let var_eqb a b =
  match a with
  | VState -> (match b with
               | VState -> true
               | _ -> false)
  | VLocked -> (match b with
                | VLocked -> true
                | _ -> false)
  | VNode x -> (match b with
                | VNode y -> Nat.eqb x y
                | _ -> false)

(** val mev_eqb : mev -> mev -> bool **)

let mev_eqb a b =
  match a with
  | EvLoad (v, o, r) ->
    (match b with
     | EvLoad (v', o', r') ->
       (&&) ((&&) (var_eqb v v') (ord_eqb o o')) (N.eqb r r')
     | _ -> false)
  | EvStore (v, o, x) ->
    (match b with
     | EvStore (v', o', x') ->
       (&&) ((&&) (var_eqb v v') (ord_eqb o o')) (N.eqb x x')
     | _ -> false)
  | EvSwap (v, o, x, r) ->
    (match b with
     | EvSwap (v', o', x', r') ->
       (&&) ((&&) ((&&) (var_eqb v v') (ord_eqb o o')) (N.eqb x x'))
         (N.eqb r r')
     | _ -> false)
  | EvCas (v, o, f, x, y, r, k) ->
    (match b with
     | EvCas (v', o', f', x', y', r', k') ->
       (&&)
         ((&&)
           ((&&)
             ((&&) ((&&) ((&&) (var_eqb v v') (ord_eqb o o')) (ord_eqb f f'))
               (N.eqb x x')) (N.eqb y y')) (N.eqb r r')) (eqb k k')
     | _ -> false)
  | EvCasW (v, o, f, x, y, r, k) ->
    (match b with
     | EvCasW (v', o', f', x', y', r', k') ->
       (&&)
         ((&&)
           ((&&)
             ((&&) ((&&) ((&&) (var_eqb v v') (ord_eqb o o')) (ord_eqb f f'))
               (N.eqb x x')) (N.eqb y y')) (N.eqb r r')) (eqb k k')
     | _ -> false)
  | EvFsub (v, o, x, r) ->
    (match b with
     | EvFsub (v', o', x', r') ->
       (&&) ((&&) ((&&) (var_eqb v v') (ord_eqb o o')) (N.eqb x x'))
         (N.eqb r r')
     | _ -> false)
  | EvFor (v, o, x, r) ->
    (match b with
     | EvFor (v', o', x', r') ->
       (&&) ((&&) ((&&) (var_eqb v v') (ord_eqb o o')) (N.eqb x x'))
         (N.eqb r r')
     | _ -> false)
  | EvFand (v, o, x, r) ->
    (match b with
     | EvFand (v', o', x', r') ->
       (&&) ((&&) ((&&) (var_eqb v v') (ord_eqb o o')) (N.eqb x x'))
         (N.eqb r r')
     | _ -> false)
  | EvPark -> (match b with
               | EvPark -> true
               | _ -> false)
  | EvUnpark x -> (match b with
                   | EvUnpark y -> Nat.eqb x y
                   | _ -> false)
  | EvYield -> (match b with
                | EvYield -> true
                | _ -> false)
  | EvSpin -> (match b with
               | EvSpin -> true
               | _ -> false)

(** val replay_trace :
    (nat -> op list) -> ((nat * mch) * mev) list -> (mstate option, nat) sum **)

let replay_trace progs tr =
  Obj.magic replay (sys progs) mev_eqb (minit progs) tr

(** val replay_from :
    (nat -> op list) -> mstate -> ((nat * mch) * mev) list -> (mstate option,
    nat) sum **)

let replay_from progs s tr =
  Obj.magic replay (sys progs) mev_eqb s tr

(** val peek : mstate -> nat -> mch -> mev option **)

let peek s t c =
  match mstep s t c with
  | Some p -> let (_, e) = p in Some e
  | None -> None

type fn =
| FnTryAcquire
| FnLock
| FnLockSlow
| FnLockAsync
| FnTryLock
| FnUnlock
| FnFixFlags
| FnWakeNext
| FnGuardDrop
| FnFutPoll
| FnFutFinish
| FnFutDrop
| FnListLock
| FnListUnlock
| FnRearm
| FnMarkWoken
| FnWake

type sop =
| SLoad
| SStore
| SSwap
| SCas
| SCasWeak
| SFor
| SFand
| SFadd
| SFsub
| SPark
| SUnpark
| SYield
| SSpin
| SCall of fn

type svar =
| SvState
| SvLocked
| SvNode
| SvNone

(** val call : fn -> ((svar * sop) * ord option) * ord option **)

let call f =
  (((SvNone, (SCall f)), None), None)

(** val skeleton :
    (fn * (((svar * sop) * ord option) * ord option) list) list **)

let skeleton =
  (FnTryAcquire, ((((SvState, SLoad), (Some o_ta_load)),
    None) :: ((((SvState, SCas), (Some o_ta_cas)), (Some
    o_ta_casf)) :: []))) :: ((FnLock,
    ((call FnTryAcquire) :: ((call FnLockSlow) :: []))) :: ((FnLockSlow,
    ((call FnTryAcquire) :: ((call FnListLock) :: ((call FnFixFlags) :: ((((SvNone,
    SYield), None),
    None) :: ((call FnListLock) :: ((call FnRearm) :: ((((SvState, SFor),
    (Some o_q_for)), None) :: ((((SvState, SLoad), (Some o_q_load)),
    None) :: ((((SvState, SCas), (Some o_q_cas)), (Some
    o_q_casf)) :: ((call FnFixFlags) :: ((((SvNode, SLoad), (Some
    o_node_load)), None) :: ((((SvNone, SPark), None),
    None) :: []))))))))))))) :: ((FnLockAsync,
    ((call FnTryAcquire) :: [])) :: ((FnTryLock,
    ((call FnTryAcquire) :: [])) :: ((FnUnlock, ((((SvState, SFand), (Some
    o_unlock)), None) :: ((call FnWakeNext) :: []))) :: ((FnFixFlags,
    ((((SvState, SFand), (Some o_fix)), None) :: ((((SvState, SFor), (Some
    o_fix)), None) :: []))) :: ((FnWakeNext,
    ((call FnListLock) :: ((call FnFixFlags) :: ((call FnMarkWoken) :: (
    (call FnWake) :: []))))) :: ((FnGuardDrop,
    ((call FnUnlock) :: [])) :: ((FnFutPoll,
    ((call FnTryAcquire) :: ((call FnFutFinish) :: ((call FnListLock) :: (
    (call FnRearm) :: ((((SvState, SFor), (Some o_q_for)),
    None) :: ((((SvState, SLoad), (Some o_q_load)), None) :: ((((SvState,
    SCas), (Some o_q_cas)), (Some
    o_q_casf)) :: ((call FnFixFlags) :: []))))))))) :: ((FnFutFinish,
    ((call FnListLock) :: ((call FnFixFlags) :: []))) :: ((FnFutDrop,
    ((call FnListLock) :: ((call FnFixFlags) :: ((((SvNode, SLoad), (Some
    o_node_load)), None) :: ((call FnWakeNext) :: []))))) :: ((FnListLock,
    ((((SvLocked, SSwap), (Some o_ll_swap)), None) :: ((((SvLocked, SLoad),
    (Some o_ll_load)), None) :: ((((SvNone, SSpin), None),
    None) :: [])))) :: ((FnListUnlock, ((((SvLocked, SStore), (Some
    o_ll_unlock)), None) :: [])) :: ((FnRearm, ((((SvNode, SStore), (Some
    o_rearm)), None) :: [])) :: ((FnMarkWoken, ((((SvNode, SStore), (Some
    o_mark)), None) :: [])) :: ((FnWake, ((((SvNone, SUnpark), None),
    None) :: [])) :: []))))))))))))))))

type rw =
| RD
| WR

type rop =
| ROLock of rw
| ROTry of rw
| ROAsync of rw
| ROPoll of rw
| RODropFut
| ROWait

type rres =
| RRL of rw
| RRT of rw * bool
| RRA of rw
| RRP of bool

type rch =
| RGo
| RAgain
| RSpur

type ractx =
| RALock of rw
| RASpin of rw * bool
| RATry of rw
| RAFirst of rw * bool
| RAPoll of rw * bool

type rqctx =
| RQSync of rw * bool
| RQFut of rw * bool

type rfixk =
| RFQ of rqctx
| RFX of rqctx
| RFD
| RFW of (wk * nat) list

type rlctx =
| RLQ of rqctx
| RLX of rqctx
| RLDrop
| RLWake

type rpc =
| RIdle
| RTALoad of ractx
| RTACas of ractx * bool * bool * n
| RYield of rw * bool
| RSpinNext of rw * bool
| RPollNext of rw * bool
| RLLSwap of rlctx
| RLLLoad of rlctx
| RLLSpin of rlctx
| RQRearm of rqctx
| RQFor of rqctx
| RQLoad of rqctx
| RQCas of rqctx * bool * bool * n
| RFix1 of rfixk
| RFix2 of rfixk
| RQUnl of rqctx * bool
| RPLoad of rw
| RPark of rw
| RBPark
| RXUnl of rqctx
| RCS of rw
| RURel of rw
| RWSweep of (wk * nat) list
| RWUnl of (wk * nat) list
| RWWake of nat * (wk * nat) list
| RDUnl
| RDLoad
| RWaitW

type rwstate = { wl : bool; wp : bool; hq : bool; rd : n;
                 rllock : nat option; rqueue : (nat * bool) list;
                 rnarm : (nat -> wk option); rnwk : (nat -> bool);
                 rtoken : (nat -> bool); rbwoken : (nat -> bool);
                 rprog : (nat -> rop list); rpcs : (nat -> rpc);
                 rfut : (nat -> (rw * bool) option); wholders : nat list;
                 rholders : nat list; rresults : (nat * rres) list }

(** val rresults : rwstate -> (nat * rres) list **)

let rresults r =
  r.rresults

(** val rs_word : rwstate -> (((bool * bool) * bool) * n) -> rwstate **)

let rs_word s = function
| (p, d) ->
  let (p0, c) = p in
  let (a, b) = p0 in
  { wl = a; wp = b; hq = c; rd = d; rllock = s.rllock; rqueue = s.rqueue;
  rnarm = s.rnarm; rnwk = s.rnwk; rtoken = s.rtoken; rbwoken = s.rbwoken;
  rprog = s.rprog; rpcs = s.rpcs; rfut = s.rfut; wholders = s.wholders;
  rholders = s.rholders; rresults = s.rresults }

(** val rs_wl : rwstate -> bool -> rwstate **)

let rs_wl s v =
  rs_word s (((v, s.wp), s.hq), s.rd)

(** val rs_wp : rwstate -> bool -> rwstate **)

let rs_wp s v =
  rs_word s (((s.wl, v), s.hq), s.rd)

(** val rs_hq : rwstate -> bool -> rwstate **)

let rs_hq s v =
  rs_word s (((s.wl, s.wp), v), s.rd)

(** val rs_rd : rwstate -> n -> rwstate **)

let rs_rd s v =
  rs_word s (((s.wl, s.wp), s.hq), v)

(** val rs_llock : rwstate -> nat option -> rwstate **)

let rs_llock s v =
  { wl = s.wl; wp = s.wp; hq = s.hq; rd = s.rd; rllock = v; rqueue =
    s.rqueue; rnarm = s.rnarm; rnwk = s.rnwk; rtoken = s.rtoken; rbwoken =
    s.rbwoken; rprog = s.rprog; rpcs = s.rpcs; rfut = s.rfut; wholders =
    s.wholders; rholders = s.rholders; rresults = s.rresults }

(** val rs_queue : rwstate -> (nat * bool) list -> rwstate **)

let rs_queue s v =
  { wl = s.wl; wp = s.wp; hq = s.hq; rd = s.rd; rllock = s.rllock; rqueue =
    v; rnarm = s.rnarm; rnwk = s.rnwk; rtoken = s.rtoken; rbwoken =
    s.rbwoken; rprog = s.rprog; rpcs = s.rpcs; rfut = s.rfut; wholders =
    s.wholders; rholders = s.rholders; rresults = s.rresults }

(** val rs_narm : rwstate -> nat -> wk option -> rwstate **)

let rs_narm s t v =
  { wl = s.wl; wp = s.wp; hq = s.hq; rd = s.rd; rllock = s.rllock; rqueue =
    s.rqueue; rnarm = (upd s.rnarm t v); rnwk = s.rnwk; rtoken = s.rtoken;
    rbwoken = s.rbwoken; rprog = s.rprog; rpcs = s.rpcs; rfut = s.rfut;
    wholders = s.wholders; rholders = s.rholders; rresults = s.rresults }

(** val rs_nwk : rwstate -> nat -> bool -> rwstate **)

let rs_nwk s t v =
  { wl = s.wl; wp = s.wp; hq = s.hq; rd = s.rd; rllock = s.rllock; rqueue =
    s.rqueue; rnarm = s.rnarm; rnwk = (upd s.rnwk t v); rtoken = s.rtoken;
    rbwoken = s.rbwoken; rprog = s.rprog; rpcs = s.rpcs; rfut = s.rfut;
    wholders = s.wholders; rholders = s.rholders; rresults = s.rresults }

(** val rs_token : rwstate -> nat -> bool -> rwstate **)

let rs_token s t v =
  { wl = s.wl; wp = s.wp; hq = s.hq; rd = s.rd; rllock = s.rllock; rqueue =
    s.rqueue; rnarm = s.rnarm; rnwk = s.rnwk; rtoken = (upd s.rtoken t v);
    rbwoken = s.rbwoken; rprog = s.rprog; rpcs = s.rpcs; rfut = s.rfut;
    wholders = s.wholders; rholders = s.rholders; rresults = s.rresults }

(** val rs_bwoken : rwstate -> nat -> bool -> rwstate **)

let rs_bwoken s t v =
  { wl = s.wl; wp = s.wp; hq = s.hq; rd = s.rd; rllock = s.rllock; rqueue =
    s.rqueue; rnarm = s.rnarm; rnwk = s.rnwk; rtoken = s.rtoken; rbwoken =
    (upd s.rbwoken t v); rprog = s.rprog; rpcs = s.rpcs; rfut = s.rfut;
    wholders = s.wholders; rholders = s.rholders; rresults = s.rresults }

(** val rs_prog : rwstate -> nat -> rop list -> rwstate **)

let rs_prog s t v =
  { wl = s.wl; wp = s.wp; hq = s.hq; rd = s.rd; rllock = s.rllock; rqueue =
    s.rqueue; rnarm = s.rnarm; rnwk = s.rnwk; rtoken = s.rtoken; rbwoken =
    s.rbwoken; rprog = (upd s.rprog t v); rpcs = s.rpcs; rfut = s.rfut;
    wholders = s.wholders; rholders = s.rholders; rresults = s.rresults }

(** val rs_pc : rwstate -> nat -> rpc -> rwstate **)

let rs_pc s t v =
  { wl = s.wl; wp = s.wp; hq = s.hq; rd = s.rd; rllock = s.rllock; rqueue =
    s.rqueue; rnarm = s.rnarm; rnwk = s.rnwk; rtoken = s.rtoken; rbwoken =
    s.rbwoken; rprog = s.rprog; rpcs = (upd s.rpcs t v); rfut = s.rfut;
    wholders = s.wholders; rholders = s.rholders; rresults = s.rresults }

(** val rs_fut : rwstate -> nat -> (rw * bool) option -> rwstate **)

let rs_fut s t v =
  { wl = s.wl; wp = s.wp; hq = s.hq; rd = s.rd; rllock = s.rllock; rqueue =
    s.rqueue; rnarm = s.rnarm; rnwk = s.rnwk; rtoken = s.rtoken; rbwoken =
    s.rbwoken; rprog = s.rprog; rpcs = s.rpcs; rfut = (upd s.rfut t v);
    wholders = s.wholders; rholders = s.rholders; rresults = s.rresults }

(** val rs_wholders : rwstate -> nat list -> rwstate **)

let rs_wholders s v =
  { wl = s.wl; wp = s.wp; hq = s.hq; rd = s.rd; rllock = s.rllock; rqueue =
    s.rqueue; rnarm = s.rnarm; rnwk = s.rnwk; rtoken = s.rtoken; rbwoken =
    s.rbwoken; rprog = s.rprog; rpcs = s.rpcs; rfut = s.rfut; wholders = v;
    rholders = s.rholders; rresults = s.rresults }

(** val rs_rholders : rwstate -> nat list -> rwstate **)

let rs_rholders s v =
  { wl = s.wl; wp = s.wp; hq = s.hq; rd = s.rd; rllock = s.rllock; rqueue =
    s.rqueue; rnarm = s.rnarm; rnwk = s.rnwk; rtoken = s.rtoken; rbwoken =
    s.rbwoken; rprog = s.rprog; rpcs = s.rpcs; rfut = s.rfut; wholders =
    s.wholders; rholders = v; rresults = s.rresults }

(** val rlog : rwstate -> nat -> rres -> rwstate **)

let rlog s t r =
  { wl = s.wl; wp = s.wp; hq = s.hq; rd = s.rd; rllock = s.rllock; rqueue =
    s.rqueue; rnarm = s.rnarm; rnwk = s.rnwk; rtoken = s.rtoken; rbwoken =
    s.rbwoken; rprog = s.rprog; rpcs = s.rpcs; rfut = s.rfut; wholders =
    s.wholders; rholders = s.rholders; rresults =
    (app s.rresults ((t, r) :: [])) }

(** val qmem : nat -> (nat * bool) list -> bool **)

let qmem t l =
  existsb (fun x -> Nat.eqb (fst x) t) l

(** val qrem : nat -> (nat * bool) list -> (nat * bool) list **)

let qrem t l =
  filter (fun x -> negb (Nat.eqb (fst x) t)) l

(** val nwriters : (nat * bool) list -> nat **)

let nwriters l =
  length (filter snd l)

(** val first_writer : (nat * bool) list -> nat option **)

let rec first_writer = function
| [] -> None
| p :: r -> let (h, b) = p in if b then Some h else first_writer r

(** val rem1 : nat -> nat list -> nat list **)

let rec rem1 t = function
| [] -> []
| x :: r -> if Nat.eqb x t then r else x :: (rem1 t r)

(** val renc : bool -> bool -> bool -> n -> n **)

let renc a b c d =
  N.add
    (N.add
      (N.add (if a then Npos XH else N0) (if b then Npos (XO XH) else N0))
      (if c then Npos (XO (XO XH)) else N0))
    (N.mul (Npos (XO (XO (XO XH)))) d)

(** val rword : rwstate -> n **)

let rword s =
  renc s.wl s.wp s.hq s.rd

(** val ro_ta_load : ord **)

let ro_ta_load =
  Rlx

(** val ro_ta_cas : ord **)

let ro_ta_cas =
  Acq

(** val ro_ta_casf : ord **)

let ro_ta_casf =
  Rlx

(** val ro_q_for : ord **)

let ro_q_for =
  Rlx

(** val ro_q_load : ord **)

let ro_q_load =
  Rlx

(** val ro_q_cas : ord **)

let ro_q_cas =
  Acq

(** val ro_q_casf : ord **)

let ro_q_casf =
  Rlx

(** val ro_fix : ord **)

let ro_fix =
  Rlx

(** val ro_unlock : ord **)

let ro_unlock =
  Rel

(** val rkind_a : ractx -> rw **)

let rkind_a = function
| RALock k -> k
| RASpin (k, _) -> k
| RATry k -> k
| RAFirst (k, _) -> k
| RAPoll (k, _) -> k

(** val rkind_q : rqctx -> rw **)

let rkind_q = function
| RQSync (k, _) -> k
| RQFut (k, _) -> k

(** val is_wr : rw -> bool **)

let is_wr = function
| RD -> false
| WR -> true

(** val rw_eqb : rw -> rw -> bool **)

let rw_eqb a b =
  match a with
  | RD -> (match b with
           | RD -> true
           | WR -> false)
  | WR -> (match b with
           | RD -> false
           | WR -> true)

(** val rkind_of : rqctx -> wk **)

let rkind_of = function
| RQSync (_, _) -> WThread
| RQFut (_, blk) -> if blk then WBlock else WCount

(** val rres_a : ractx -> rres **)

let rres_a = function
| RALock k -> RRL k
| RASpin (k, _) -> RRL k
| RATry k -> RRT (k, true)
| RAFirst (k, blk) -> if blk then RRA k else RRP true
| RAPoll (k, blk) -> if blk then RRA k else RRP true

(** val rres_q : rqctx -> rres **)

let rres_q = function
| RQSync (k, _) -> RRL k
| RQFut (k, blk) -> if blk then RRA k else RRP true

(** val rret : rwstate -> nat -> rpc -> mev -> (rwstate * mev) option **)

let rret s t p e =
  Some ((rs_pc s t p), e)

(** val ta_fail : rwstate -> nat -> ractx -> mev -> (rwstate * mev) option **)

let ta_fail s t a e =
  match a with
  | RALock k -> rret s t (RTALoad (RASpin (k, false))) e
  | RASpin (k, l) -> rret s t (RYield (k, l)) e
  | RATry k -> rret (rlog s t (RRT (k, false))) t RIdle e
  | RAFirst (k, b) -> rret s t (RTALoad (RAPoll (k, b))) e
  | RAPoll (k, b) -> rret s t (RPollNext (k, b)) e

(** val rdo_taload : rwstate -> nat -> ractx -> (rwstate * mev) option **)

let rdo_taload s t a =
  let e = EvLoad (VState, ro_ta_load, (rword s)) in
  (match rkind_a a with
   | RD ->
     if (||) s.wl s.wp
     then ta_fail s t a e
     else rret s t (RTACas (a, false, s.hq, s.rd)) e
   | WR ->
     if (||) s.wl (negb (N.eqb s.rd N0))
     then ta_fail s t a e
     else rret s t (RTACas (a, s.wp, s.hq, N0)) e)

(** val rafter_llock : rwstate -> nat -> rlctx -> rwstate **)

let rafter_llock s t = function
| RLQ q -> rs_pc s t (RQRearm q)
| RLX q ->
  let was = qmem t s.rqueue in
  let s1 = rs_queue s (qrem t s.rqueue) in
  (match q with
   | RQSync (_, _) -> rs_pc s1 t (RFix1 (RFX q))
   | RQFut (_, _) -> rs_pc s1 t (if was then RFix1 (RFX q) else RXUnl q))
| RLDrop ->
  let was = qmem t s.rqueue in
  rs_pc (rs_queue s (qrem t s.rqueue)) t (if was then RFix1 RFD else RDUnl)
| RLWake -> rs_pc s t (RWSweep [])

(** val rdo_llswap : rwstate -> nat -> rlctx -> (rwstate * mev) option **)

let rdo_llswap s t l =
  let s0 =
    match l with
    | RLQ q ->
      (match q with
       | RQSync (_, _) -> s
       | RQFut (k, b) -> rs_fut s t (Some (k, b)))
    | _ -> s
  in
  (match s0.rllock with
   | Some _ ->
     rret s0 t (RLLLoad l) (EvSwap (VLocked, o_ll_swap, (Npos XH), (Npos XH)))
   | None ->
     Some ((rafter_llock (rs_llock s0 (Some t)) t l), (EvSwap (VLocked,
       o_ll_swap, (Npos XH), N0))))

(** val rdo_wait : rwstate -> nat -> rch -> (rwstate * mev) option **)

let rdo_wait s t c =
  let s1 = rs_token s t true in
  (match c with
   | RAgain -> rret s1 t RWaitW (EvUnpark t)
   | _ -> rret s1 t RIdle (EvUnpark t))

(** val rdispatch :
    rwstate -> nat -> rch -> rop list -> (rwstate * mev) option **)

let rec rdispatch s t c p = match p with
| [] ->
  (match s.rfut t with
   | Some _ -> rdo_llswap (rs_prog s t []) t RLDrop
   | None -> None)
| r0 :: r ->
  (match r0 with
   | ROLock k ->
     (match s.rfut t with
      | Some _ -> rdo_llswap (rs_prog s t p) t RLDrop
      | None -> rdo_taload (rs_prog s t r) t (RALock k))
   | ROTry k -> rdo_taload (rs_prog s t r) t (RATry k)
   | ROAsync k ->
     (match s.rfut t with
      | Some _ -> rdo_llswap (rs_prog s t p) t RLDrop
      | None -> rdo_taload (rs_prog s t r) t (RAFirst (k, true)))
   | ROPoll k ->
     (match s.rfut t with
      | Some p0 ->
        let (k', _) = p0 in
        if rw_eqb k k'
        then rdo_taload (rs_prog s t r) t (RAPoll (k, false))
        else rdo_llswap (rs_prog s t p) t RLDrop
      | None -> rdo_taload (rs_prog s t r) t (RAFirst (k, false)))
   | RODropFut ->
     (match s.rfut t with
      | Some _ -> rdo_llswap (rs_prog s t r) t RLDrop
      | None -> rdispatch s t c r)
   | ROWait ->
     (match s.rfut t with
      | Some _ -> rdo_wait (rs_prog s t r) t c
      | None -> rdispatch s t c r))

(** val rblock_next : rwstate -> nat -> rwstate **)

let rblock_next s t =
  let k = match s.rfut t with
          | Some p -> let (k, _) = p in k
          | None -> RD in
  if s.rbwoken t
  then rs_pc (rs_bwoken s t false) t (RTALoad (RAPoll (k, true)))
  else rs_pc s t RBPark

(** val rdo_fix1 : rwstate -> nat -> rfixk -> (rwstate * mev) option **)

let rdo_fix1 s t f =
  match nwriters s.rqueue with
  | O ->
    rret (rs_wp s false) t (RFix2 f) (EvFand (VState, ro_fix, (Npos (XO XH)),
      (rword s)))
  | S _ ->
    rret (rs_wp s true) t (RFix2 f) (EvFor (VState, ro_fix, (Npos (XO XH)),
      (rword s)))

(** val rflush : rwstate -> nat -> (wk * nat) list -> rwstate **)

let rec rflush s t = function
| [] -> rs_pc s t RIdle
| p :: r ->
  let (w, h) = p in
  (match w with
   | WThread -> rs_pc s t (RWWake (h, r))
   | WBlock -> rs_pc (rs_bwoken s h true) t (RWWake (h, r))
   | WCount -> rflush s t r)

(** val wake_of : rwstate -> nat -> (wk * nat) list **)

let wake_of s h =
  match s.rnarm h with
  | Some k -> (k, h) :: []
  | None -> []

(** val after_acq_a : rwstate -> nat -> ractx -> rpc **)

let after_acq_a s t a = match a with
| RASpin (k, linked) ->
  (match k with
   | RD -> RCS (rkind_a a)
   | WR ->
     if linked then RLLSwap (RLX (RQSync (WR, true))) else RCS (rkind_a a))
| RAPoll (k, b) ->
  (match s.rfut t with
   | Some _ -> RLLSwap (RLX (RQFut (k, b)))
   | None -> RCS k)
| _ -> RCS (rkind_a a)

(** val rwstep : rwstate -> nat -> rch -> (rwstate * mev) option **)

let rwstep s t c =
  match s.rpcs t with
  | RIdle -> rdispatch s t c (s.rprog t)
  | RTALoad a -> rdo_taload s t a
  | RTACas (a, swp, shq, srd) ->
    (match rkind_a a with
     | RD ->
       let weak = match a with
                  | RATry _ -> false
                  | _ -> true in
       let spur = (&&) weak (match c with
                             | RSpur -> true
                             | _ -> false) in
       let ok =
         (&&)
           ((&&) ((&&) ((&&) (negb s.wl) (negb s.wp)) (eqb s.hq shq))
             (N.eqb s.rd srd)) (negb spur)
       in
       let x = renc false false shq srd in
       let e =
         if weak
         then EvCasW (VState, ro_ta_cas, ro_ta_casf, x,
                (N.add x (Npos (XO (XO (XO XH))))), (rword s), ok)
         else EvCas (VState, ro_ta_cas, ro_ta_casf, x,
                (N.add x (Npos (XO (XO (XO XH))))), (rword s), ok)
       in
       if ok
       then let s1 =
              rlog
                (rs_rholders (rs_rd s (N.add s.rd (Npos XH)))
                  (t :: s.rholders)) t (rres_a a)
            in
            rret s1 t (after_acq_a s t a) e
       else ta_fail s t a e
     | WR ->
       let ok =
         (&&) ((&&) ((&&) (negb s.wl) (N.eqb s.rd N0)) (eqb s.wp swp))
           (eqb s.hq shq)
       in
       let x = renc false swp shq N0 in
       let e = EvCas (VState, ro_ta_cas, ro_ta_casf, x, (N.add x (Npos XH)),
         (rword s), ok)
       in
       if ok
       then let s1 =
              rlog (rs_wholders (rs_wl s true) (t :: s.wholders)) t (rres_a a)
            in
            rret s1 t (after_acq_a s t a) e
       else ta_fail s t a e)
  | RYield (k, l) -> rret s t (RSpinNext (k, l)) EvYield
  | RSpinNext (k, l) ->
    (match c with
     | RAgain -> rdo_taload s t (RASpin (k, l))
     | _ -> rdo_llswap s t (RLQ (RQSync (k, l))))
  | RPollNext (k, b) ->
    (match c with
     | RAgain -> rdo_taload s t (RAPoll (k, b))
     | _ -> rdo_llswap s t (RLQ (RQFut (k, b))))
  | RLLSwap l -> rdo_llswap s t l
  | RLLLoad l ->
    (match s.rllock with
     | Some _ -> rret s t (RLLSpin l) (EvLoad (VLocked, o_ll_load, (Npos XH)))
     | None -> rret s t (RLLSwap l) (EvLoad (VLocked, o_ll_load, N0)))
  | RLLSpin l -> rret s t (RLLLoad l) EvSpin
  | RQRearm q ->
    let s1 = rs_nwk (rs_narm s t (Some (rkind_of q))) t false in
    let is_linked =
      match q with
      | RQSync (k, l) -> (match k with
                          | RD -> false
                          | WR -> l)
      | RQFut (_, _) -> qmem t s.rqueue
    in
    let s2 =
      if is_linked
      then s1
      else rs_queue s1 (app s1.rqueue ((t, (is_wr (rkind_q q))) :: []))
    in
    rret s2 t (RQFor q) (EvStore ((VNode t), o_rearm, N0))
  | RQFor q ->
    (match rkind_q q with
     | RD ->
       rret (rs_hq s true) t (RQLoad q) (EvFor (VState, ro_q_for, (Npos (XO
         (XO XH))), (rword s)))
     | WR ->
       rret (rs_wp (rs_hq s true) true) t (RQLoad q) (EvFor (VState,
         ro_q_for, (Npos (XO (XI XH))), (rword s))))
  | RQLoad q ->
    let e = EvLoad (VState, ro_q_load, (rword s)) in
    (match rkind_q q with
     | RD ->
       if (||) s.wl s.wp
       then rret s t (RQUnl (q, false)) e
       else rret s t (RQCas (q, false, s.hq, s.rd)) e
     | WR ->
       if (||) s.wl (negb (N.eqb s.rd N0))
       then rret s t (RQUnl (q, false)) e
       else rret s t (RQCas (q, s.wp, s.hq, N0)) e)
  | RQCas (q, swp, shq, srd) ->
    (match rkind_q q with
     | RD ->
       let ok =
         (&&) ((&&) ((&&) (negb s.wl) (negb s.wp)) (eqb s.hq shq))
           (N.eqb s.rd srd)
       in
       let x = renc false false shq srd in
       let e = EvCas (VState, ro_q_cas, ro_q_casf, x,
         (N.add x (Npos (XO (XO (XO XH))))), (rword s), ok)
       in
       if ok
       then let s1 =
              rlog
                (rs_rholders (rs_rd s (N.add s.rd (Npos XH)))
                  (t :: s.rholders)) t (rres_q q)
            in
            rret (rs_queue s1 (qrem t s1.rqueue)) t (RFix1 (RFQ q)) e
       else rret s t (RQLoad q) e
     | WR ->
       let ok =
         (&&) ((&&) ((&&) (negb s.wl) (N.eqb s.rd N0)) (eqb s.wp swp))
           (eqb s.hq shq)
       in
       let x = renc false swp shq N0 in
       let e = EvCas (VState, ro_q_cas, ro_q_casf, x, (N.add x (Npos XH)),
         (rword s), ok)
       in
       if ok
       then let s1 =
              rlog (rs_wholders (rs_wl s true) (t :: s.wholders)) t (rres_q q)
            in
            rret (rs_queue s1 (qrem t s1.rqueue)) t (RFix1 (RFQ q)) e
       else rret s t (RQLoad q) e)
  | RFix1 f -> rdo_fix1 s t f
  | RFix2 f ->
    let next =
      match f with
      | RFQ q -> RQUnl (q, true)
      | RFX q -> RXUnl q
      | RFD -> RDUnl
      | RFW ws -> RWUnl ws
    in
    (match s.rqueue with
     | [] ->
       rret (rs_hq s false) t next (EvFand (VState, ro_fix, (Npos (XO (XO
         XH))), (rword s)))
     | _ :: _ ->
       rret (rs_hq s true) t next (EvFor (VState, ro_fix, (Npos (XO (XO
         XH))), (rword s))))
  | RQUnl (q, acq) ->
    let e = EvStore (VLocked, o_ll_unlock, N0) in
    let s1 = rs_llock s None in
    if acq
    then (match q with
          | RQSync (k, _) -> rret s1 t (RCS k) e
          | RQFut (k, _) -> rret (rs_fut s1 t None) t (RCS k) e)
    else (match q with
          | RQSync (k, _) -> rret s1 t (RPLoad k) e
          | RQFut (_, blk) ->
            if blk
            then Some ((rblock_next s1 t), e)
            else rret (rlog s1 t (RRP false)) t RIdle e)
  | RPLoad k ->
    let e = EvLoad ((VNode t), o_node_load, (b2n (s.rnwk t))) in
    if s.rnwk t
    then rret s t (RTALoad (RASpin (k, (is_wr k)))) e
    else rret s t (RPark k) e
  | RPark k ->
    if s.rtoken t then rret (rs_token s t false) t (RPLoad k) EvPark else None
  | RBPark ->
    if s.rtoken t
    then Some ((rblock_next (rs_token s t false) t), EvPark)
    else None
  | RXUnl q ->
    let e = EvStore (VLocked, o_ll_unlock, N0) in
    let s1 = rs_llock s None in
    (match q with
     | RQSync (k, _) -> rret s1 t (RCS k) e
     | RQFut (k, _) -> rret (rs_fut s1 t None) t (RCS k) e)
  | RCS k ->
    let s1 = rs_token s t true in
    (match c with
     | RAgain -> rret s1 t (RCS k) (EvUnpark t)
     | _ -> rret s1 t (RURel k) (EvUnpark t))
  | RURel k ->
    (match k with
     | RD ->
       let e = EvFsub (VState, ro_unlock, (Npos (XO (XO (XO XH)))), (rword s))
       in
       let s1 =
         rs_rholders (rs_rd s (N.sub s.rd (Npos XH))) (rem1 t s.rholders)
       in
       if (&&) (N.eqb s.rd (Npos XH)) s.hq
       then rret s1 t (RLLSwap RLWake) e
       else rret s1 t RIdle e
     | WR ->
       let e = EvFand (VState, ro_unlock, (Npos XH), (rword s)) in
       let s1 = rs_wholders (rs_wl s false) (rem t s.wholders) in
       if s.hq then rret s1 t (RLLSwap RLWake) e else rret s1 t RIdle e)
  | RWSweep ws ->
    (match first_writer s.rqueue with
     | Some h ->
       rret (rs_nwk (rs_narm s h None) h true) t (RWUnl
         (app ws (wake_of s h))) (EvStore ((VNode h), o_mark, (Npos XH)))
     | None ->
       (match s.rqueue with
        | [] -> rdo_fix1 s t (RFW ws)
        | p :: r ->
          let (h, _) = p in
          rret (rs_queue (rs_nwk (rs_narm s h None) h true) r) t (RWSweep
            (app ws (wake_of s h))) (EvStore ((VNode h), o_mark, (Npos XH)))))
  | RWUnl ws ->
    Some ((rflush (rs_llock s None) t ws), (EvStore (VLocked, o_ll_unlock,
      N0)))
  | RWWake (h, rest) ->
    Some ((rflush (rs_token s h true) t rest), (EvUnpark h))
  | RDUnl ->
    rret (rs_llock s None) t RDLoad (EvStore (VLocked, o_ll_unlock, N0))
  | RDLoad ->
    let e = EvLoad ((VNode t), o_node_load, (b2n (s.rnwk t))) in
    let s1 = rs_fut s t None in
    if s.rnwk t then rret s1 t (RLLSwap RLWake) e else rret s1 t RIdle e
  | RWaitW -> rdo_wait s t c

(** val rwinit : (nat -> rop list) -> rwstate **)

let rwinit progs =
  { wl = false; wp = false; hq = false; rd = N0; rllock = None; rqueue = [];
    rnarm = (fun _ -> None); rnwk = (fun _ -> false); rtoken = (fun _ ->
    false); rbwoken = (fun _ -> false); rprog = progs; rpcs = (fun _ ->
    RIdle); rfut = (fun _ -> None); wholders = []; rholders = []; rresults =
    [] }

(** val rwsys : (nat -> rop list) -> system **)

let rwsys progs =
  { init = (Obj.magic rwinit progs); step = (Obj.magic rwstep) }

(** val rw_replay_trace :
    (nat -> rop list) -> ((nat * rch) * mev) list -> (rwstate option, nat) sum **)

let rw_replay_trace progs tr =
  Obj.magic replay (rwsys progs) mev_eqb (rwinit progs) tr

(** val rw_replay_from :
    (nat -> rop list) -> rwstate -> ((nat * rch) * mev) list -> (rwstate
    option, nat) sum **)

let rw_replay_from progs s tr =
  Obj.magic replay (rwsys progs) mev_eqb s tr

(** val rwpeek : rwstate -> nat -> rch -> mev option **)

let rwpeek s t c =
  match rwstep s t c with
  | Some p -> let (_, e) = p in Some e
  | None -> None

type rfn =
| RfTryAcqR
| RfTryAcqW
| RfRead
| RfReadSlow
| RfReadAsync
| RfWrite
| RfWriteSlow
| RfWriteAsync
| RfTryRead
| RfTryWrite
| RfUnlockR
| RfUnlockW
| RfFixFlags
| RfWakeWaiters
| RfRGuardDrop
| RfWGuardDrop
| RfRFutPoll
| RfRFutFinish
| RfRFutDrop
| RfWFutPoll
| RfWFutFinish
| RfWFutDrop
| RfListLock
| RfRearm
| RfMarkWoken
| RfWake

type rsop =
| RsLoad
| RsStore
| RsCas
| RsCasWeak
| RsFor
| RsFand
| RsFsub
| RsPark
| RsYield
| RsCall of rfn

(** val rcall : rfn -> ((svar * rsop) * ord option) * ord option **)

let rcall f =
  (((SvNone, (RsCall f)), None), None)

(** val rq_section : (((svar * rsop) * ord option) * ord option) list **)

let rq_section =
  (rcall RfListLock) :: ((rcall RfRearm) :: ((((SvState, RsFor), (Some
    ro_q_for)), None) :: ((((SvState, RsLoad), (Some ro_q_load)),
    None) :: ((((SvState, RsCas), (Some ro_q_cas)), (Some
    ro_q_casf)) :: ((rcall RfFixFlags) :: [])))))

(** val rpark_tail : (((svar * rsop) * ord option) * ord option) list **)

let rpark_tail =
  (((SvNode, RsLoad), (Some o_node_load)), None) :: ((((SvNone, RsPark),
    None), None) :: [])

(** val rskeleton :
    (rfn * (((svar * rsop) * ord option) * ord option) list) list **)

let rskeleton =
  (RfTryAcqR, ((((SvState, RsLoad), (Some ro_ta_load)), None) :: ((((SvState,
    RsCasWeak), (Some ro_ta_cas)), (Some
    ro_ta_casf)) :: []))) :: ((RfTryAcqW, ((((SvState, RsLoad), (Some
    ro_ta_load)), None) :: ((((SvState, RsCas), (Some ro_ta_cas)), (Some
    ro_ta_casf)) :: []))) :: ((RfRead,
    ((rcall RfTryAcqR) :: ((rcall RfReadSlow) :: []))) :: ((RfReadSlow,
    (app ((rcall RfTryAcqR) :: ((((SvNone, RsYield), None), None) :: []))
      (app rq_section rpark_tail))) :: ((RfReadAsync,
    ((rcall RfTryAcqR) :: [])) :: ((RfWrite,
    ((rcall RfTryAcqW) :: ((rcall RfWriteSlow) :: []))) :: ((RfWriteSlow,
    (app
      ((rcall RfTryAcqW) :: ((rcall RfListLock) :: ((rcall RfFixFlags) :: ((((SvNone,
      RsYield), None), None) :: [])))) (app rq_section rpark_tail))) :: ((RfWriteAsync,
    ((rcall RfTryAcqW) :: [])) :: ((RfTryRead, ((((SvState, RsLoad), (Some
    ro_ta_load)), None) :: ((((SvState, RsCas), (Some ro_ta_cas)), (Some
    ro_ta_casf)) :: []))) :: ((RfTryWrite,
    ((rcall RfTryAcqW) :: [])) :: ((RfUnlockR, ((((SvState, RsFsub), (Some
    ro_unlock)), None) :: ((rcall RfWakeWaiters) :: []))) :: ((RfUnlockW,
    ((((SvState, RsFand), (Some ro_unlock)),
    None) :: ((rcall RfWakeWaiters) :: []))) :: ((RfFixFlags, ((((SvState,
    RsFand), (Some ro_fix)), None) :: ((((SvState, RsFor), (Some ro_fix)),
    None) :: ((((SvState, RsFand), (Some ro_fix)), None) :: ((((SvState,
    RsFor), (Some ro_fix)), None) :: []))))) :: ((RfWakeWaiters,
    ((rcall RfListLock) :: ((rcall RfMarkWoken) :: ((rcall RfWake) :: (
    (rcall RfMarkWoken) :: ((rcall RfFixFlags) :: ((rcall RfWake) :: []))))))) :: ((RfRGuardDrop,
    ((rcall RfUnlockR) :: [])) :: ((RfWGuardDrop,
    ((rcall RfUnlockW) :: [])) :: ((RfRFutPoll,
    (app ((rcall RfTryAcqR) :: ((rcall RfRFutFinish) :: [])) rq_section)) :: ((RfRFutFinish,
    ((rcall RfListLock) :: ((rcall RfFixFlags) :: []))) :: ((RfRFutDrop,
    ((rcall RfListLock) :: ((rcall RfFixFlags) :: ((((SvNode, RsLoad), (Some
    o_node_load)),
    None) :: ((rcall RfWakeWaiters) :: []))))) :: ((RfWFutPoll,
    (app ((rcall RfTryAcqW) :: ((rcall RfWFutFinish) :: [])) rq_section)) :: ((RfWFutFinish,
    ((rcall RfListLock) :: ((rcall RfFixFlags) :: []))) :: ((RfWFutDrop,
    ((rcall RfListLock) :: ((rcall RfFixFlags) :: ((((SvNode, RsLoad), (Some
    o_node_load)),
    None) :: ((rcall RfWakeWaiters) :: []))))) :: [])))))))))))))))))))))
