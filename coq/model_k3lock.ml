
type __ = Obj.t

(** val negb : bool -> bool **)

let negb = function
| true -> false
| false -> true

type nat =
| O
| S of nat

type ('a, 'b) sum =
| Inl of 'a
| Inr of 'b

(** val length : 'a1 list -> nat **)

let rec length = function
| [] -> O
| _ :: l' -> S (length l')

(** val app : 'a1 list -> 'a1 list -> 'a1 list **)

let rec app l m =
  match l with
  | [] -> m
  | a :: l1 -> a :: (app l1 m)

(** val eqb : bool -> bool -> bool **)

let eqb b1 b2 =
  if b1 then b2 else if b2 then false else true

module Nat =
 struct
  (** val eqb : nat -> nat -> bool **)

  let rec eqb n0 m =
    match n0 with
    | O -> (match m with
            | O -> true
            | S _ -> false)
    | S n' -> (match m with
               | O -> false
               | S m' -> eqb n' m')
 end

(** val existsb : ('a1 -> bool) -> 'a1 list -> bool **)

let rec existsb f = function
| [] -> false
| a :: l0 -> (||) (f a) (existsb f l0)

(** val filter : ('a1 -> bool) -> 'a1 list -> 'a1 list **)

let rec filter f = function
| [] -> []
| x :: l0 -> if f x then x :: (filter f l0) else filter f l0

type system = { init : __; step : (__ -> __ -> __ -> (__ * __) option) }

type state = __

type tid = __

type choice = __

type event = __

(** val replay :
    system -> (event -> event -> bool) -> state -> ((tid * choice) * event)
    list -> (state option, nat) sum **)

let rec replay s eqb0 s0 = function
| [] -> Inl (Some s0)
| p :: r ->
  let (p0, e) = p in
  let (t, c) = p0 in
  (match s.step s0 t c with
   | Some p1 ->
     let (s', e') = p1 in
     if eqb0 e e' then replay s eqb0 s' r else Inr (length r)
   | None -> Inr (length r))

type positive =
| XI of positive
| XO of positive
| XH

type n =
| N0
| Npos of positive

module Pos =
 struct
  (** val succ : positive -> positive **)

  let rec succ = function
  | XI p -> XO (succ p)
  | XO p -> XI p
  | XH -> XO XH

  (** val add : positive -> positive -> positive **)

  let rec add x y =
    match x with
    | XI p ->
      (match y with
       | XI q -> XO (add_carry p q)
       | XO q -> XI (add p q)
       | XH -> XO (succ p))
    | XO p ->
      (match y with
       | XI q -> XI (add p q)
       | XO q -> XO (add p q)
       | XH -> XI p)
    | XH -> (match y with
             | XI q -> XO (succ q)
             | XO q -> XI q
             | XH -> XO XH)

  (** val add_carry : positive -> positive -> positive **)

  and add_carry x y =
    match x with
    | XI p ->
      (match y with
       | XI q -> XI (add_carry p q)
       | XO q -> XO (add_carry p q)
       | XH -> XI (succ p))
    | XO p ->
      (match y with
       | XI q -> XO (add_carry p q)
       | XO q -> XI (add p q)
       | XH -> XO (succ p))
    | XH ->
      (match y with
       | XI q -> XI (succ q)
       | XO q -> XO (succ q)
       | XH -> XI XH)

  (** val eqb : positive -> positive -> bool **)

  let rec eqb p q =
    match p with
    | XI p0 -> (match q with
                | XI q0 -> eqb p0 q0
                | _ -> false)
    | XO p0 -> (match q with
                | XO q0 -> eqb p0 q0
                | _ -> false)
    | XH -> (match q with
             | XH -> true
             | _ -> false)
 end

module N =
 struct
  (** val add : n -> n -> n **)

  let add n0 m =
    match n0 with
    | N0 -> m
    | Npos p -> (match m with
                 | N0 -> n0
                 | Npos q -> Npos (Pos.add p q))

  (** val eqb : n -> n -> bool **)

  let eqb n0 m =
    match n0 with
    | N0 -> (match m with
             | N0 -> true
             | Npos _ -> false)
    | Npos p -> (match m with
                 | N0 -> false
                 | Npos q -> Pos.eqb p q)
 end

type ord =
| Rlx
| Acq
| Rel
| AcqRel
| SeqCst

type var =
| VState
| VLocked
| VNode of nat

type mev =
| EvLoad of var * ord * n
| EvStore of var * ord * n
| EvSwap of var * ord * n * n
| EvCas of var * ord * ord * n * n * n * bool
| EvFor of var * ord * n * n
| EvFand of var * ord * n * n
| EvPark
| EvUnpark of nat
| EvYield
| EvSpin

type op =
| OLock
| OTry
| OAsync
| OPoll
| ODropFut
| OWait

type res =
| RL
| RT of bool
| RA
| RP of bool

type mch =
| ChGo
| ChAgain

type wk =
| WThread
| WBlock
| WCount

type actx =
| ALock
| ASpin of bool
| ATry
| AFirst of bool
| APoll of bool

type qctx =
| QSync of bool
| QFut of bool

type lctx =
| LQ of qctx
| LX of qctx
| LDrop
| LWake

type pc =
| Idle
| TALoad of actx
| TACas of actx * bool
| Yield of bool
| SpinNext of bool
| PollNext of bool
| LLSwap of lctx
| LLLoad of lctx
| LLSpin of lctx
| QRearm of qctx
| QFor of qctx
| QLoad of qctx
| QCas of qctx * bool
| QFix of qctx
| QUnl of qctx * bool
| PLoad
| Park
| BPark
| XFix of qctx
| XUnl of qctx
| CS
| UFand
| WMark
| WUnl of (wk * nat) option
| WWake of nat
| DFix
| DUnl
| DLoad
| WaitW

type mstate = { locked : bool; hasq : bool; llock : nat option;
                queue : nat list; narm : (nat -> wk option);
                nwk : (nat -> bool); token : (nat -> bool);
                bwoken : (nat -> bool); prog : (nat -> op list);
                pcs : (nat -> pc); fut : (nat -> bool option);
                holders : nat list; results : (nat * res) list }

(** val holders : mstate -> nat list **)

let holders m =
  m.holders

(** val results : mstate -> (nat * res) list **)

let results m =
  m.results

(** val upd : (nat -> 'a1) -> nat -> 'a1 -> nat -> 'a1 **)

let upd f t v u =
  if Nat.eqb u t then v else f u

(** val set_locked : mstate -> bool -> mstate **)

let set_locked s v =
  { locked = v; hasq = s.hasq; llock = s.llock; queue = s.queue; narm =
    s.narm; nwk = s.nwk; token = s.token; bwoken = s.bwoken; prog = s.prog;
    pcs = s.pcs; fut = s.fut; holders = s.holders; results = s.results }

(** val set_hasq : mstate -> bool -> mstate **)

let set_hasq s v =
  { locked = s.locked; hasq = v; llock = s.llock; queue = s.queue; narm =
    s.narm; nwk = s.nwk; token = s.token; bwoken = s.bwoken; prog = s.prog;
    pcs = s.pcs; fut = s.fut; holders = s.holders; results = s.results }

(** val set_llock : mstate -> nat option -> mstate **)

let set_llock s v =
  { locked = s.locked; hasq = s.hasq; llock = v; queue = s.queue; narm =
    s.narm; nwk = s.nwk; token = s.token; bwoken = s.bwoken; prog = s.prog;
    pcs = s.pcs; fut = s.fut; holders = s.holders; results = s.results }

(** val set_queue : mstate -> nat list -> mstate **)

let set_queue s v =
  { locked = s.locked; hasq = s.hasq; llock = s.llock; queue = v; narm =
    s.narm; nwk = s.nwk; token = s.token; bwoken = s.bwoken; prog = s.prog;
    pcs = s.pcs; fut = s.fut; holders = s.holders; results = s.results }

(** val set_narm : mstate -> nat -> wk option -> mstate **)

let set_narm s t v =
  { locked = s.locked; hasq = s.hasq; llock = s.llock; queue = s.queue;
    narm = (upd s.narm t v); nwk = s.nwk; token = s.token; bwoken = s.bwoken;
    prog = s.prog; pcs = s.pcs; fut = s.fut; holders = s.holders; results =
    s.results }

(** val set_nwk : mstate -> nat -> bool -> mstate **)

let set_nwk s t v =
  { locked = s.locked; hasq = s.hasq; llock = s.llock; queue = s.queue;
    narm = s.narm; nwk = (upd s.nwk t v); token = s.token; bwoken = s.bwoken;
    prog = s.prog; pcs = s.pcs; fut = s.fut; holders = s.holders; results =
    s.results }

(** val set_token : mstate -> nat -> bool -> mstate **)

let set_token s t v =
  { locked = s.locked; hasq = s.hasq; llock = s.llock; queue = s.queue;
    narm = s.narm; nwk = s.nwk; token = (upd s.token t v); bwoken = s.bwoken;
    prog = s.prog; pcs = s.pcs; fut = s.fut; holders = s.holders; results =
    s.results }

(** val set_bwoken : mstate -> nat -> bool -> mstate **)

let set_bwoken s t v =
  { locked = s.locked; hasq = s.hasq; llock = s.llock; queue = s.queue;
    narm = s.narm; nwk = s.nwk; token = s.token; bwoken = (upd s.bwoken t v);
    prog = s.prog; pcs = s.pcs; fut = s.fut; holders = s.holders; results =
    s.results }

(** val set_prog : mstate -> nat -> op list -> mstate **)

let set_prog s t v =
  { locked = s.locked; hasq = s.hasq; llock = s.llock; queue = s.queue;
    narm = s.narm; nwk = s.nwk; token = s.token; bwoken = s.bwoken; prog =
    (upd s.prog t v); pcs = s.pcs; fut = s.fut; holders = s.holders;
    results = s.results }

(** val set_pc : mstate -> nat -> pc -> mstate **)

let set_pc s t v =
  { locked = s.locked; hasq = s.hasq; llock = s.llock; queue = s.queue;
    narm = s.narm; nwk = s.nwk; token = s.token; bwoken = s.bwoken; prog =
    s.prog; pcs = (upd s.pcs t v); fut = s.fut; holders = s.holders;
    results = s.results }

(** val set_fut : mstate -> nat -> bool option -> mstate **)

let set_fut s t v =
  { locked = s.locked; hasq = s.hasq; llock = s.llock; queue = s.queue;
    narm = s.narm; nwk = s.nwk; token = s.token; bwoken = s.bwoken; prog =
    s.prog; pcs = s.pcs; fut = (upd s.fut t v); holders = s.holders;
    results = s.results }

(** val set_holders : mstate -> nat list -> mstate **)

let set_holders s v =
  { locked = s.locked; hasq = s.hasq; llock = s.llock; queue = s.queue;
    narm = s.narm; nwk = s.nwk; token = s.token; bwoken = s.bwoken; prog =
    s.prog; pcs = s.pcs; fut = s.fut; holders = v; results = s.results }

(** val log : mstate -> nat -> res -> mstate **)

let log s t r =
  { locked = s.locked; hasq = s.hasq; llock = s.llock; queue = s.queue;
    narm = s.narm; nwk = s.nwk; token = s.token; bwoken = s.bwoken; prog =
    s.prog; pcs = s.pcs; fut = s.fut; holders = s.holders; results =
    (app s.results ((t, r) :: [])) }

(** val mem : nat -> nat list -> bool **)

let mem t l =
  existsb (Nat.eqb t) l

(** val rem : nat -> nat list -> nat list **)

let rem t l =
  filter (fun u -> negb (Nat.eqb u t)) l

(** val enc : bool -> bool -> n **)

let enc l q =
  N.add (if l then Npos XH else N0) (if q then Npos (XO XH) else N0)

(** val word : mstate -> n **)

let word s =
  enc s.locked s.hasq

(** val b2n : bool -> n **)

let b2n = function
| true -> Npos XH
| false -> N0

(** val o_ta_load : ord **)

let o_ta_load =
  Rlx

(** val o_ta_cas : ord **)

let o_ta_cas =
  Acq

(** val o_ta_casf : ord **)

let o_ta_casf =
  Rlx

(** val o_ll_swap : ord **)

let o_ll_swap =
  Acq

(** val o_ll_load : ord **)

let o_ll_load =
  Rlx

(** val o_ll_unlock : ord **)

let o_ll_unlock =
  Rel

(** val o_rearm : ord **)

let o_rearm =
  Rlx

(** val o_q_for : ord **)

let o_q_for =
  Rlx

(** val o_q_load : ord **)

let o_q_load =
  Rlx

(** val o_q_cas : ord **)

let o_q_cas =
  Acq

(** val o_q_casf : ord **)

let o_q_casf =
  Rlx

(** val o_fix : ord **)

let o_fix =
  Rlx

(** val o_node_load : ord **)

let o_node_load =
  Acq

(** val o_unlock : ord **)

let o_unlock =
  Rel

(** val o_mark : ord **)

let o_mark =
  Rel

(** val kind_of : qctx -> wk **)

let kind_of = function
| QSync _ -> WThread
| QFut blk -> if blk then WBlock else WCount

(** val res_of_actx : actx -> res **)

let res_of_actx = function
| ATry -> RT true
| AFirst blk -> if blk then RA else RP true
| APoll blk -> if blk then RA else RP true
| _ -> RL

(** val res_of_qctx : qctx -> res **)

let res_of_qctx = function
| QSync _ -> RL
| QFut blk -> if blk then RA else RP true

(** val ret : mstate -> nat -> pc -> mev -> (mstate * mev) option **)

let ret s t p e =
  Some ((set_pc s t p), e)

(** val fix_flags : mstate -> mstate * mev **)

let fix_flags s =
  match s.queue with
  | [] ->
    ((set_hasq s false), (EvFand (VState, o_fix, (Npos (XO XH)), (word s))))
  | _ :: _ ->
    ((set_hasq s true), (EvFor (VState, o_fix, (Npos (XO XH)), (word s))))

(** val do_taload : mstate -> nat -> actx -> (mstate * mev) option **)

let do_taload s t a =
  let e = EvLoad (VState, o_ta_load, (word s)) in
  if s.locked
  then (match a with
        | ALock -> ret s t (TALoad (ASpin false)) e
        | ASpin l -> ret s t (Yield l) e
        | ATry -> ret (log s t (RT false)) t Idle e
        | AFirst b -> ret s t (TALoad (APoll b)) e
        | APoll b -> ret s t (PollNext b) e)
  else ret s t (TACas (a, s.hasq)) e

(** val after_llock : mstate -> nat -> lctx -> mstate **)

let after_llock s t = function
| LQ q -> set_pc s t (QRearm q)
| LX q ->
  let wl = mem t s.queue in
  let s1 = set_queue s (rem t s.queue) in
  (match q with
   | QSync _ -> set_pc s1 t (XFix q)
   | QFut _ -> set_pc s1 t (if wl then XFix q else XUnl q))
| LDrop ->
  let wl = mem t s.queue in
  set_pc (set_queue s (rem t s.queue)) t (if wl then DFix else DUnl)
| LWake -> set_pc s t WMark

(** val do_llswap : mstate -> nat -> lctx -> (mstate * mev) option **)

let do_llswap s t l =
  let s0 =
    match l with
    | LQ q -> (match q with
               | QSync _ -> s
               | QFut b -> set_fut s t (Some b))
    | _ -> s
  in
  (match s0.llock with
   | Some _ ->
     ret s0 t (LLLoad l) (EvSwap (VLocked, o_ll_swap, (Npos XH), (Npos XH)))
   | None ->
     Some ((after_llock (set_llock s0 (Some t)) t l), (EvSwap (VLocked,
       o_ll_swap, (Npos XH), N0))))

(** val do_wait : mstate -> nat -> mch -> (mstate * mev) option **)

let do_wait s t c =
  let s1 = set_token s t true in
  (match c with
   | ChGo -> ret s1 t Idle (EvUnpark t)
   | ChAgain -> ret s1 t WaitW (EvUnpark t))

(** val dispatch :
    mstate -> nat -> mch -> op list -> (mstate * mev) option **)

let rec dispatch s t c p = match p with
| [] ->
  (match s.fut t with
   | Some _ -> do_llswap (set_prog s t []) t LDrop
   | None -> None)
| o :: r ->
  (match o with
   | OLock ->
     (match s.fut t with
      | Some _ -> do_llswap (set_prog s t p) t LDrop
      | None -> do_taload (set_prog s t r) t ALock)
   | OTry -> do_taload (set_prog s t r) t ATry
   | OAsync ->
     (match s.fut t with
      | Some _ -> do_llswap (set_prog s t p) t LDrop
      | None -> do_taload (set_prog s t r) t (AFirst true))
   | OPoll ->
     (match s.fut t with
      | Some _ -> do_taload (set_prog s t r) t (APoll false)
      | None -> do_taload (set_prog s t r) t (AFirst false))
   | ODropFut ->
     (match s.fut t with
      | Some _ -> do_llswap (set_prog s t r) t LDrop
      | None -> dispatch s t c r)
   | OWait ->
     (match s.fut t with
      | Some _ -> do_wait (set_prog s t r) t c
      | None -> dispatch s t c r))

(** val block_next : mstate -> nat -> mstate **)

let block_next s t =
  if s.bwoken t
  then set_pc (set_bwoken s t false) t (TALoad (APoll true))
  else set_pc s t BPark

(** val mstep : mstate -> nat -> mch -> (mstate * mev) option **)

let mstep s t c =
  match s.pcs t with
  | Idle -> dispatch s t c (s.prog t)
  | TALoad a -> do_taload s t a
  | TACas (a, sq) ->
    let ok = (&&) (negb s.locked) (eqb s.hasq sq) in
    let e = EvCas (VState, o_ta_cas, o_ta_casf, (enc false sq),
      (enc true sq), (word s), ok)
    in
    if ok
    then let s1 =
           log (set_holders (set_locked s true) (t :: s.holders)) t
             (res_of_actx a)
         in
         (match a with
          | ASpin linked ->
            if linked
            then ret s1 t (LLSwap (LX (QSync true))) e
            else ret s1 t CS e
          | APoll b ->
            (match s.fut t with
             | Some _ -> ret s1 t (LLSwap (LX (QFut b))) e
             | None -> ret s1 t CS e)
          | _ -> ret s1 t CS e)
    else (match a with
          | ALock -> ret s t (TALoad (ASpin false)) e
          | ASpin l -> ret s t (Yield l) e
          | ATry -> ret (log s t (RT false)) t Idle e
          | AFirst b -> ret s t (TALoad (APoll b)) e
          | APoll b -> ret s t (PollNext b) e)
  | Yield l -> ret s t (SpinNext l) EvYield
  | SpinNext l ->
    (match c with
     | ChGo -> do_llswap s t (LQ (QSync l))
     | ChAgain -> do_taload s t (ASpin l))
  | PollNext b ->
    (match c with
     | ChGo -> do_llswap s t (LQ (QFut b))
     | ChAgain -> do_taload s t (APoll b))
  | LLSwap l -> do_llswap s t l
  | LLLoad l ->
    (match s.llock with
     | Some _ -> ret s t (LLSpin l) (EvLoad (VLocked, o_ll_load, (Npos XH)))
     | None -> ret s t (LLSwap l) (EvLoad (VLocked, o_ll_load, N0)))
  | LLSpin l -> ret s t (LLLoad l) EvSpin
  | QRearm q ->
    let s1 = set_nwk (set_narm s t (Some (kind_of q))) t false in
    let is_linked = match q with
                    | QSync l -> l
                    | QFut _ -> mem t s.queue in
    let s2 = if is_linked then s1 else set_queue s1 (app s1.queue (t :: []))
    in
    ret s2 t (QFor q) (EvStore ((VNode t), o_rearm, N0))
  | QFor q ->
    ret (set_hasq s true) t (QLoad q) (EvFor (VState, o_q_for, (Npos (XO
      XH)), (word s)))
  | QLoad q ->
    let e = EvLoad (VState, o_q_load, (word s)) in
    if s.locked
    then ret s t (QUnl (q, false)) e
    else ret s t (QCas (q, s.hasq)) e
  | QCas (q, sq) ->
    let ok = (&&) (negb s.locked) (eqb s.hasq sq) in
    let e = EvCas (VState, o_q_cas, o_q_casf, (enc false sq), (enc true sq),
      (word s), ok)
    in
    if ok
    then let s1 =
           log (set_holders (set_locked s true) (t :: s.holders)) t
             (res_of_qctx q)
         in
         ret (set_queue s1 (rem t s1.queue)) t (QFix q) e
    else ret s t (QLoad q) e
  | QFix q -> let (s1, e) = fix_flags s in ret s1 t (QUnl (q, true)) e
  | QUnl (q, acq) ->
    let e = EvStore (VLocked, o_ll_unlock, N0) in
    let s1 = set_llock s None in
    if acq
    then (match q with
          | QSync _ -> ret s1 t CS e
          | QFut _ -> ret (set_fut s1 t None) t CS e)
    else (match q with
          | QSync _ -> ret s1 t PLoad e
          | QFut blk ->
            if blk
            then Some ((block_next s1 t), e)
            else ret (log s1 t (RP false)) t Idle e)
  | PLoad ->
    let e = EvLoad ((VNode t), o_node_load, (b2n (s.nwk t))) in
    if s.nwk t then ret s t (TALoad (ASpin true)) e else ret s t Park e
  | Park ->
    if s.token t then ret (set_token s t false) t PLoad EvPark else None
  | BPark ->
    if s.token t
    then Some ((block_next (set_token s t false) t), EvPark)
    else None
  | XFix q -> let (s1, e) = fix_flags s in ret s1 t (XUnl q) e
  | XUnl q ->
    let e = EvStore (VLocked, o_ll_unlock, N0) in
    let s1 = set_llock s None in
    (match q with
     | QSync _ -> ret s1 t CS e
     | QFut _ -> ret (set_fut s1 t None) t CS e)
  | CS ->
    let s1 = set_token s t true in
    (match c with
     | ChGo -> ret s1 t UFand (EvUnpark t)
     | ChAgain -> ret s1 t CS (EvUnpark t))
  | UFand ->
    let e = EvFand (VState, o_unlock, (Npos XH), (word s)) in
    let s1 = set_holders (set_locked s false) (rem t s.holders) in
    if s.hasq then ret s1 t (LLSwap LWake) e else ret s1 t Idle e
  | WMark ->
    (match s.queue with
     | [] -> let (s1, e) = fix_flags s in ret s1 t (WUnl None) e
     | h :: _ ->
       let w = match s.narm h with
               | Some k -> Some (k, h)
               | None -> None in
       ret (set_nwk (set_narm s h None) h true) t (WUnl w) (EvStore ((VNode
         h), o_mark, (Npos XH))))
  | WUnl w ->
    let e = EvStore (VLocked, o_ll_unlock, N0) in
    let s1 = set_llock s None in
    (match w with
     | Some p ->
       let (w0, h) = p in
       (match w0 with
        | WThread -> ret s1 t (WWake h) e
        | WBlock -> ret (set_bwoken s1 h true) t (WWake h) e
        | WCount -> ret s1 t Idle e)
     | None -> ret s1 t Idle e)
  | WWake h -> ret (set_token s h true) t Idle (EvUnpark h)
  | DFix -> let (s1, e) = fix_flags s in ret s1 t DUnl e
  | DUnl ->
    ret (set_llock s None) t DLoad (EvStore (VLocked, o_ll_unlock, N0))
  | DLoad ->
    let e = EvLoad ((VNode t), o_node_load, (b2n (s.nwk t))) in
    let s1 = set_fut s t None in
    if s.nwk t then ret s1 t (LLSwap LWake) e else ret s1 t Idle e
  | WaitW -> do_wait s t c

(** val minit : (nat -> op list) -> mstate **)

let minit progs =
  { locked = false; hasq = false; llock = None; queue = []; narm = (fun _ ->
    None); nwk = (fun _ -> false); token = (fun _ -> false); bwoken =
    (fun _ -> false); prog = progs; pcs = (fun _ -> Idle); fut = (fun _ ->
    None); holders = []; results = [] }

(** val sys : (nat -> op list) -> system **)

let sys progs =
  { init = (Obj.magic minit progs); step = (Obj.magic mstep) }

(** val ord_eqb : ord -> ord -> bool **)

let ord_eqb a b =
  match a with
  | Rlx -> (match b with
            | Rlx -> true
            | _ -> false)
  | Acq -> (match b with
            | Acq -> true
            | _ -> false)
  | Rel -> (match b with
            | Rel -> true
            | _ -> false)
  | AcqRel -> (match b with
               | AcqRel -> true
               | _ -> false)
  | SeqCst -> (match b with
               | SeqCst -> true
               | _ -> false)

(** val var_eqb : var -> var -> bool **)

let var_eqb a b =
  match a with
  | VState -> (match b with
               | VState -> true
               | _ -> false)
  | VLocked -> (match b with
                | VLocked -> true
                | _ -> false)
  | VNode x -> (match b with
                | VNode y -> Nat.eqb x y
                | _ -> false)

(** val mev_eqb : mev -> mev -> bool **)

let mev_eqb a b =
  match a with
  | EvLoad (v, o, r) ->
    (match b with
     | EvLoad (v', o', r') ->
       (&&) ((&&) (var_eqb v v') (ord_eqb o o')) (N.eqb r r')
     | _ -> false)
  | EvStore (v, o, x) ->
    (match b with
     | EvStore (v', o', x') ->
       (&&) ((&&) (var_eqb v v') (ord_eqb o o')) (N.eqb x x')
     | _ -> false)
  | EvSwap (v, o, x, r) ->
    (match b with
     | EvSwap (v', o', x', r') ->
       (&&) ((&&) ((&&) (var_eqb v v') (ord_eqb o o')) (N.eqb x x'))
         (N.eqb r r')
     | _ -> false)
  | EvCas (v, o, f, x, y, r, k) ->
    (match b with
     | EvCas (v', o', f', x', y', r', k') ->
       (&&)
         ((&&)
           ((&&)
             ((&&) ((&&) ((&&) (var_eqb v v') (ord_eqb o o')) (ord_eqb f f'))
               (N.eqb x x')) (N.eqb y y')) (N.eqb r r')) (eqb k k')
     | _ -> false)
  | EvFor (v, o, x, r) ->
    (match b with
     | EvFor (v', o', x', r') ->
       (&&) ((&&) ((&&) (var_eqb v v') (ord_eqb o o')) (N.eqb x x'))
         (N.eqb r r')
     | _ -> false)
  | EvFand (v, o, x, r) ->
    (match b with
     | EvFand (v', o', x', r') ->
       (&&) ((&&) ((&&) (var_eqb v v') (ord_eqb o o')) (N.eqb x x'))
         (N.eqb r r')
     | _ -> false)
  | EvPark -> (match b with
               | EvPark -> true
               | _ -> false)
  | EvUnpark x -> (match b with
                   | EvUnpark y -> Nat.eqb x y
                   | _ -> false)
  | EvYield -> (match b with
                | EvYield -> true
                | _ -> false)
  | EvSpin -> (match b with
               | EvSpin -> true
               | _ -> false)

(** val replay_trace :
    (nat -> op list) -> ((nat * mch) * mev) list -> (mstate option, nat) sum **)

let replay_trace progs tr =
  Obj.magic replay (sys progs) mev_eqb (minit progs) tr

(** val peek : mstate -> nat -> mch -> mev option **)

let peek s t c =
  match mstep s t c with
  | Some p -> let (_, e) = p in Some e
  | None -> None

type fn =
| FnTryAcquire
| FnLock
| FnLockSlow
| FnLockAsync
| FnTryLock
| FnUnlock
| FnFixFlags
| FnWakeNext
| FnGuardDrop
| FnFutPoll
| FnFutFinish
| FnFutDrop
| FnListLock
| FnListUnlock
| FnRearm
| FnMarkWoken
| FnWake

type sop =
| SLoad
| SStore
| SSwap
| SCas
| SCasWeak
| SFor
| SFand
| SFadd
| SFsub
| SPark
| SUnpark
| SYield
| SSpin
| SCall of fn

type svar =
| SvState
| SvLocked
| SvNode
| SvNone

(** val call : fn -> ((svar * sop) * ord option) * ord option **)

let call f =
  (((SvNone, (SCall f)), None), None)

(** val skeleton :
    (fn * (((svar * sop) * ord option) * ord option) list) list **)

let skeleton =
  (FnTryAcquire, ((((SvState, SLoad), (Some o_ta_load)),
    None) :: ((((SvState, SCas), (Some o_ta_cas)), (Some
    o_ta_casf)) :: []))) :: ((FnLock,
    ((call FnTryAcquire) :: ((call FnLockSlow) :: []))) :: ((FnLockSlow,
    ((call FnTryAcquire) :: ((call FnListLock) :: ((call FnFixFlags) :: ((((SvNone,
    SYield), None),
    None) :: ((call FnListLock) :: ((call FnRearm) :: ((((SvState, SFor),
    (Some o_q_for)), None) :: ((((SvState, SLoad), (Some o_q_load)),
    None) :: ((((SvState, SCas), (Some o_q_cas)), (Some
    o_q_casf)) :: ((call FnFixFlags) :: ((((SvNode, SLoad), (Some
    o_node_load)), None) :: ((((SvNone, SPark), None),
    None) :: []))))))))))))) :: ((FnLockAsync,
    ((call FnTryAcquire) :: [])) :: ((FnTryLock,
    ((call FnTryAcquire) :: [])) :: ((FnUnlock, ((((SvState, SFand), (Some
    o_unlock)), None) :: ((call FnWakeNext) :: []))) :: ((FnFixFlags,
    ((((SvState, SFand), (Some o_fix)), None) :: ((((SvState, SFor), (Some
    o_fix)), None) :: []))) :: ((FnWakeNext,
    ((call FnListLock) :: ((call FnFixFlags) :: ((call FnMarkWoken) :: (
    (call FnWake) :: []))))) :: ((FnGuardDrop,
    ((call FnUnlock) :: [])) :: ((FnFutPoll,
    ((call FnTryAcquire) :: ((call FnFutFinish) :: ((call FnListLock) :: (
    (call FnRearm) :: ((((SvState, SFor), (Some o_q_for)),
    None) :: ((((SvState, SLoad), (Some o_q_load)), None) :: ((((SvState,
    SCas), (Some o_q_cas)), (Some
    o_q_casf)) :: ((call FnFixFlags) :: []))))))))) :: ((FnFutFinish,
    ((call FnListLock) :: ((call FnFixFlags) :: []))) :: ((FnFutDrop,
    ((call FnListLock) :: ((call FnFixFlags) :: ((((SvNode, SLoad), (Some
    o_node_load)), None) :: ((call FnWakeNext) :: []))))) :: ((FnListLock,
    ((((SvLocked, SSwap), (Some o_ll_swap)), None) :: ((((SvLocked, SLoad),
    (Some o_ll_load)), None) :: ((((SvNone, SSpin), None),
    None) :: [])))) :: ((FnListUnlock, ((((SvLocked, SStore), (Some
    o_ll_unlock)), None) :: [])) :: ((FnRearm, ((((SvNode, SStore), (Some
    o_rearm)), None) :: [])) :: ((FnMarkWoken, ((((SvNode, SStore), (Some
    o_mark)), None) :: [])) :: ((FnWake, ((((SvNone, SUnpark), None),
    None) :: [])) :: []))))))))))))))))
