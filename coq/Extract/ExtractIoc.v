(* Extract/ExtractIoc.v — extraction of the E-IOC container model to OCaml.
   ExtrOcamlBasic only; nat, positive, N stay Coq datatypes (converted in the driver). *)
From Coq Require Extraction.
From Coq Require Import ExtrOcamlBasic.
From Fibre Require Import Common.Base Ioc.Container.

Extraction Language OCaml.
Set Extraction KeepSingleton.
Extraction "model_ioc.ml"
  init step started completed nextf.
