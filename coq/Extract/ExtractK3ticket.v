(* Extract/ExtractK3ticket.v — extraction of the K3 ticket-protocol model (trace replay driver). *)
From Coq Require Extraction.
From Coq Require Import ExtrOcamlBasic.
From Fibre Require Import Common.Base Common.Conc Chan.TicketK3.

Extraction Language OCaml.
Set Extraction KeepSingleton.
Extraction "model_k3ticket.ml"
  replay_ticket step init event_eqb slot_of slot_at ent cid_of
  real_cap real_cc real_n real_kk mkRun mkB
  eLoad eStore eFadd eFsub eCas eFence eLock eUnlock eSpin eData.
