(* Extract/ExtractRv.v — extraction of the rendezvous K2 model to OCaml (model_rv.ml).
   ExtrOcamlBasic only; nat, positive, N stay Coq datatypes (converted in ocaml/eng_rv.ml). *)
From Coq Require Extraction.
From Coq Require Import ExtrOcamlBasic.
From Fibre Require Import Common.Base Chan.Rendezvous.

Extraction Language OCaml.
Set Extraction KeepSingleton.
(* `length` only pulls the datatype nat in, which ocaml/conv.ml expects *)
Extraction "model_rv.ml" step run init length.
