(* Extract/ExtractJson.v — extraction of the encoder models (engine exe `json`: E-JSON and
   E-PATTERN cases) to OCaml.  ExtrOcamlBasic only; N/Z/positive stay Coq datatypes. *)
From Coq Require Extraction.
From Coq Require Import ExtrOcamlBasic.
From Fibre Require Import Common.Base Log.Json Log.Pattern.

Extraction Language OCaml.
Set Extraction KeepSingleton.
Extraction "model_json.ml"
  render format_pattern parse_line unescape escape.
