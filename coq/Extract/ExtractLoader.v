(* Extract/ExtractLoader.v — extraction of the E-LOADER model (Cache/Loader.v) to OCaml.
   ExtrOcamlBasic only; nat, positive, N stay the Coq datatypes (converted in the driver). *)
From Coq Require Extraction.
From Coq Require Import ExtrOcamlBasic.
From Fibre Require Import Common.Base Cache.Loader.

Extraction Language OCaml.
Set Extraction KeepSingleton.
Extraction "model_loader.ml"
  init step run seq_op seq_run is_fresh loader_cost vbase.
