(* Extract/ExtractOneshot.v — extraction of the K2 oneshot model (ExtrOcamlBasic only). *)
From Coq Require Extraction.
From Coq Require Import ExtrOcamlBasic NArith.
From Fibre Require Import Chan.OneshotOps.

Extraction Language OCaml.
Set Extraction KeepSingleton.
(* N.of_nat only keeps the N/positive datatypes in the output: ocaml/conv.ml refers to them *)
Extraction "model_oneshot.ml" orun_case ocfg_repo ocfg_fixed N.of_nat.
