(* Extract/ExtractMpmcb.v — extraction of the bounded-MPMC K2 model to OCaml (model_mpmcb.ml).
   ExtrOcamlBasic only; nat, positive, N stay the Coq datatypes (converted in ocaml/eng_mpmcb.ml). *)
From Coq Require Extraction.
From Coq Require Import ExtrOcamlBasic.
From Fibre Require Import Common.Base Chan.MpmcB.

Extraction Language OCaml.
Set Extraction KeepSingleton.
Extraction "model_mpmcb.ml" run init mkFx.
