(* Extract/ExtractMpscu.v — extraction of the unbounded-MPSC K2 model (ExtrOcamlBasic only). *)
From Coq Require Extraction.
From Coq Require Import ExtrOcamlBasic.
From Fibre Require Import Common.Base Chan.MpscU.

Extraction Language OCaml.
Set Extraction KeepSingleton.
Extraction "model_mpscu.ml" init step.
