(* Extract/ExtractCache.v — extraction of the E-CACHE K2 model (engine `cache`).
   ExtrOcamlBasic only; nat, positive, N, Z stay Coq datatypes. *)
From Coq Require Extraction.
From Coq Require Import ExtrOcamlBasic.
From Fibre Require Import Common.Base Cache.PolicySpec Cache.PolicyLru Cache.PolicySieve
     Cache.AMap Cache.CacheOps.

Extraction Language OCaml.
Set Extraction KeepSingleton.
Extraction "model_cache.ml"
  step init LruP FifoP SieveP ClockP NullP impl_fixes all_fixes no_fixes U64_MAX.
