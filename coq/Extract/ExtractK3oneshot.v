(* Extract/ExtractK3oneshot.v — extraction of the K3 oneshot model for the D2 trace replay and the
   D3 skeleton table.  ExtrOcamlBasic only. *)
From Coq Require Extraction.
From Coq Require Import ExtrOcamlBasic NArith.
From Fibre Require Import Common.Conc Chan.OneshotK3.

Extraction Language OCaml.
Set Extraction KeepSingleton.
Extraction "model_k3oneshot.ml"
  OneshotK3.step OneshotK3.init OneshotK3.replay_from OneshotK3.ev_eqb OneshotK3.peek OneshotK3.skeleton
  OneshotK3.rlog OneshotK3.slog N.of_nat.
