(* Extract/ExtractMpscb.v — extraction of the bounded-MPSC K2 model (ExtrOcamlBasic only). *)
From Coq Require Extraction.
From Coq Require Import ExtrOcamlBasic.
From Fibre Require Import Common.Base Chan.MpscB.

Extraction Language OCaml.
Set Extraction KeepSingleton.
Extraction "model_mpscb.ml" init step chan_len.
