(* Extract/ExtractIter.v — extraction of the iteration / snapshot / restore
   model (engine `iter`) to OCaml.  ExtrOcamlBasic only. *)
From Coq Require Extraction.
From Coq Require Import ExtrOcamlBasic.
From Fibre Require Import Common.Base Cache.Iter Cache.Snapshot.

Extraction Language OCaml.
Set Extraction KeepSingleton.
Extraction "model_iter.ml" new_cache run.
