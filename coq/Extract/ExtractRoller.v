(* Extract/ExtractRoller.v — extraction of the rolling-file model (engine `roller`).
   ExtrOcamlBasic only; N/nat/positive stay Coq datatypes (converted in ocaml/eng_roller.ml). *)
From Coq Require Extraction.
From Coq Require Import ExtrOcamlBasic.
From Fibre Require Import Common.Base Log.Roller.

Extraction Language OCaml.
Set Extraction KeepSingleton.
Extraction "model_roller.ml"
  start step flush dir_of mkPolicy.
