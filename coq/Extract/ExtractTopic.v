(* Extract/ExtractTopic.v — extraction of the topic K2 model (ExtrOcamlBasic only). *)
From Coq Require Extraction.
From Coq Require Import ExtrOcamlBasic.
From Fibre Require Import Common.Base Chan.TopicOps.

Extraction Language OCaml.
Set Extraction KeepSingleton.
Extraction "model_topic.ml" run.
