(* Extract/Extract.v — extraction of the executable models to OCaml.
   ExtrOcamlBasic only: bool/option/unit/list/prod/sumbool/sumor map to OCaml's;
   nat, positive, N, Z stay the Coq datatypes (converted in the driver). *)
From Coq Require Extraction.
From Coq Require Import ExtrOcamlBasic.
From Fibre Require Import Common.Base Cache.PolicySpec Cache.PolicyLru Cache.PolicySieve
     Cache.PolicySlru Cache.PolicyRandom Cache.PolicyArc Cache.PolicyTinyLfu.

Extraction Language OCaml.
Set Extraction KeepSingleton.
Extraction "model_policy.ml"
  prun LruP FifoP SieveP ClockP SlruP ArcP RandomReplayP TinyLfuReplayP.
