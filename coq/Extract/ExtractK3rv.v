(* Extract/ExtractK3rv.v — extraction of the K3' rendezvous model (trace replay driver). *)
From Coq Require Extraction.
From Coq Require Import ExtrOcamlBasic.
From Fibre Require Import Common.Conc Chan.RvK3.

Extraction Language OCaml.
Set Extraction KeepSingleton.
Extraction "model_k3rv.ml"
  replay_rv step init ev_eqb role live wnum
  o_closed_ld o_close_cas o_close_casf o_wait_ld o_final_ld o_done_st o_disc_st o_cancel_cas o_cancel_casf.
