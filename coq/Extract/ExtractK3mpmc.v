(* Extract/ExtractK3mpmc.v — extraction of the K3' bounded-MPMC model (trace replay driver and the
   D3 skeleton table).  ExtrOcamlBasic only. *)
From Coq Require Extraction.
From Coq Require Import ExtrOcamlBasic.
From Fibre Require Import Common.Conc Chan.MpmcK3.

Extraction Language OCaml.
Set Extraction KeepSingleton.
Extraction "model_k3mpmc.ml"
  MpmcK3.step MpmcK3.init MpmcK3.replay_from MpmcK3.peek MpmcK3.ev_eqb MpmcK3.skeleton
  MpmcK3.cfg_fixed MpmcK3.fenc.
