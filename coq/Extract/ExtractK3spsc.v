(* Extract/ExtractK3spsc.v — extraction of the K3 SPSC model (trace replay driver). *)
From Coq Require Extraction.
From Coq Require Import ExtrOcamlBasic.
From Fibre Require Import Common.Base Common.Conc Chan.SpscK3.

Extraction Language OCaml.
Set Extraction KeepSingleton.
Extraction "model_k3spsc.ml"
  replay_spsc step init phys_of event_eqb
  eLoad eStore eSwap eFsub eFence eLock eUnlock ePark eUnpark eSpin eWSlot eRSlot.
