(* Extract/ExtractSpsc.v — extraction of the K2 SPSC model (ExtrOcamlBasic only). *)
From Coq Require Extraction.
From Coq Require Import ExtrOcamlBasic NArith.
From Fibre Require Import Chan.SpscOps.

Extraction Language OCaml.
Set Extraction KeepSingleton.
(* N.of_nat only keeps the N/positive datatypes in the output: ocaml/conv.ml refers to them *)
Extraction "model_spsc.ml" run_case cfg_repo cfg_fixed N.of_nat.
