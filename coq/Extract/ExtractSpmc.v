(* Extract/ExtractSpmc.v — extraction of the K2 model of the broadcast SPMC channel.
   ExtrOcamlBasic only; nat, positive, N stay Coq datatypes (converted in ocaml/eng_spmc.ml). *)
From Coq Require Extraction.
From Coq Require Import ExtrOcamlBasic.
From Fibre Require Import Common.Base Chan.SpmcOps.

Extraction Language OCaml.
Set Extraction KeepSingleton.
Extraction "model_spmc.ml" init step teardown.
