(* Extract/ExtractK3lock.v — extraction of the E-LOCK models (HybridMutex, HybridRwLock)
   for the D2 trace replay and the D3 skeleton table.  ExtrOcamlBasic only. *)
From Coq Require Extraction.
From Coq Require Import ExtrOcamlBasic.
From Fibre Require Import Common.Conc Sync.HMutex Sync.HRwLock.

Extraction Language OCaml.
Set Extraction KeepSingleton.
Extraction "model_k3lock.ml"
  HMutex.mstep HMutex.minit HMutex.replay_trace HMutex.replay_from HMutex.mev_eqb HMutex.peek HMutex.skeleton
  HMutex.results HMutex.holders
  HRwLock.rwstep HRwLock.rwinit HRwLock.rw_replay_trace HRwLock.rw_replay_from HRwLock.rwpeek HRwLock.rskeleton HRwLock.rresults.
