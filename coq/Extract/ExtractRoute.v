(* Extract/ExtractRoute.v — extraction of the E-ROUTE model (Log/Route.v) to `model_route.ml`.
   ExtrOcamlBasic only; nat, positive, N stay Coq datatypes (converted in ocaml/eng_route.ml). *)
From Coq Require Extraction.
From Coq Require Import ExtrOcamlBasic.
From Fibre Require Import Common.Base Log.Route.

Extraction Language OCaml.
Set Extraction KeepSingleton.
Extraction "model_route.ml"
  wf_cfg emit model_delivers deliveries_of spec_delivers winner_wired all_wired.
