
type __ = Obj.t

val negb : bool -> bool

type nat =
| O
| S of nat

val fst : ('a1 * 'a2) -> 'a1

val snd : ('a1 * 'a2) -> 'a2

val length : 'a1 list -> nat

val app : 'a1 list -> 'a1 list -> 'a1 list

type comparison =
| Eq
| Lt
| Gt

val compOpp : comparison -> comparison

val pred : nat -> nat

val add : nat -> nat -> nat

module Nat :
 sig
  val leb : nat -> nat -> bool

  val ltb : nat -> nat -> bool
 end

val rev : 'a1 list -> 'a1 list

val map : ('a1 -> 'a2) -> 'a1 list -> 'a2 list

val fold_left : ('a1 -> 'a2 -> 'a1) -> 'a2 list -> 'a1 -> 'a1

val existsb : ('a1 -> bool) -> 'a1 list -> bool

val filter : ('a1 -> bool) -> 'a1 list -> 'a1 list

val firstn : nat -> 'a1 list -> 'a1 list

val skipn : nat -> 'a1 list -> 'a1 list

type positive =
| XI of positive
| XO of positive
| XH

type n =
| N0
| Npos of positive

type z =
| Z0
| Zpos of positive
| Zneg of positive

module Pos :
 sig
  type mask =
  | IsNul
  | IsPos of positive
  | IsNeg
 end

module Coq_Pos :
 sig
  val succ : positive -> positive

  val add : positive -> positive -> positive

  val add_carry : positive -> positive -> positive

  val pred_double : positive -> positive

  type mask = Pos.mask =
  | IsNul
  | IsPos of positive
  | IsNeg

  val succ_double_mask : mask -> mask

  val double_mask : mask -> mask

  val double_pred_mask : positive -> mask

  val sub_mask : positive -> positive -> mask

  val sub_mask_carry : positive -> positive -> mask

  val mul : positive -> positive -> positive

  val compare_cont : comparison -> positive -> positive -> comparison

  val compare : positive -> positive -> comparison

  val eqb : positive -> positive -> bool

  val iter_op : ('a1 -> 'a1 -> 'a1) -> positive -> 'a1 -> 'a1

  val to_nat : positive -> nat

  val of_succ_nat : nat -> positive
 end

module N :
 sig
  val succ_double : n -> n

  val double : n -> n

  val add : n -> n -> n

  val sub : n -> n -> n

  val mul : n -> n -> n

  val compare : n -> n -> comparison

  val eqb : n -> n -> bool

  val leb : n -> n -> bool

  val ltb : n -> n -> bool

  val pos_div_eucl : positive -> n -> n * n

  val div_eucl : n -> n -> n * n

  val div : n -> n -> n

  val modulo : n -> n -> n

  val to_nat : n -> nat

  val of_nat : nat -> n
 end

module Z :
 sig
  val double : z -> z

  val succ_double : z -> z

  val pred_double : z -> z

  val pos_sub : positive -> positive -> z

  val add : z -> z -> z

  val opp : z -> z

  val sub : z -> z -> z

  val mul : z -> z -> z

  val compare : z -> z -> comparison

  val leb : z -> z -> bool

  val ltb : z -> z -> bool

  val to_N : z -> n

  val of_N : n -> z

  val pos_div_eucl : positive -> z -> z * z

  val div_eucl : z -> z -> z * z

  val modulo : z -> z -> z
 end

type kc = n * n

val keys : kc list -> n list

val lookup : n -> kc list -> n option

val rm : n -> kc list -> kc list

val mem : n -> n list -> bool

type call =
| Access of n * n
| Admit of n * n
| Remove of n
| Evict of n
| Clear

type out =
| ODone
| OAdmit
| OReject
| OAdmitEvict of n list
| OVictims of n list * n

type policy = { pinit : __; pstep : (__ -> call -> __ * out);
                ptracked : (__ -> kc list) }

type pst = __

type lru_list = kc list

val ll_move_to_front : n -> lru_list -> lru_list

val ll_push_front : n -> n -> lru_list -> lru_list

val ll_remove : n -> lru_list -> lru_list

val pop_while : n -> n -> kc list -> (n list * n) * kc list

val ll_evict : n -> lru_list -> (lru_list * n list) * n

val lru_step : lru_list -> call -> lru_list * out

val lruP : policy

val fifo_step : lru_list -> call -> lru_list * out

val fifoP : policy

type ent = (n * n) * bool

val ekey : ent -> n

val ecost : ent -> n

val eflag : ent -> bool

val ekc : ent -> kc

val eclear : ent -> ent

val erm : n -> ent list -> ent list

val eset : n -> ent list -> ent list

val ehas : n -> ent list -> bool

val eindex : n -> ent list -> nat option

val scan : ent list -> ent list * (ent * ent list) option

type sieve = { sv_r : ent list; sv_hand : nat }

val sieve_admit : n -> n -> sieve -> sieve

val sieve_remove : n -> sieve -> sieve

val sieve_evict_one : sieve -> (ent * sieve) option

val evict_loop :
  ('a1 -> (ent * 'a1) option) -> nat -> n -> n -> 'a1 -> n list -> ('a1 * n
  list) * n

val sieve_step : sieve -> call -> sieve * out

val sieveP : policy

type clock = { ck_o : ent list; ck_hand : nat }

val esetcost : n -> n -> ent list -> ent list

val clock_admit : n -> n -> clock -> clock

val clock_remove : n -> clock -> clock

val clock_evict_one : clock -> (ent * clock) option

val clock_step : clock -> call -> clock * out

val clockP : policy

type 'v amap = (n * 'v) list

val afind : n -> 'a1 amap -> 'a1 option

val adel : n -> 'a1 amap -> 'a1 amap

val aset : n -> 'a1 -> 'a1 amap -> 'a1 amap

val akeys : 'a1 amap -> n list

val ahas : n -> 'a1 amap -> bool

val aput : n -> 'a1 -> 'a1 amap -> 'a1 amap

val eVQ_CAP : n

val nQ_CAP : n

val cOOP_LIMIT : n

val jAN_LIMIT : n

val sAMPLE : n

val u64 : n

val u64_MAX : n

type reason =
| Capacity
| Expired
| Invalidated

type entry = { e_val : n; e_cost : n; e_exp : n; e_la : n;
               e_timer : n option; e_id : n }

type timer = { t_id : n; t_key : n; t_slot : n; t_laps : n }

type notif = { n_key : n; n_val : n; n_reason : reason; n_id : n }

type fixes = { fix_f15 : bool; fix_f16 : bool; fix_f18 : bool;
               fix_f28 : bool; fix_f33 : bool }

val no_fixes : fixes

val all_fixes : fixes

val impl_fixes : fixes

type cfg = { c_shards : n; c_cap : n; c_ttl : n option; c_tti : n option;
             c_wheel : n; c_tick : n; c_listener : bool; c_track : bool;
             c_opp : bool; c_intro : bool; c_fix : fixes }

type cfun =
| FSet of n
| FKeep

val capply : cfun -> n -> n

type op =
| OInsert of n * n * n
| OInsertTtl of n * n * n * n
| OGet of n
| OFetch of n
| OPeek of n
| OEntryOrInsert of n * n * n
| OEntryGet of n
| OCompute of n * cfun
| OComputeVal of n * cfun
| ORemove of n
| OInvalidate of n
| OClear
| OMultiGet of n list
| OMultiGetAsync of n list
| OMultiInsert of ((n * n) * n) list
| OMultiRemove of n list
| OMultiInvalidate of n list
| OMaint of n list
| OJanitorTick of n * n list
| OJanitorSignal of n * n list
| OAdvance of n
| OCost
| ODeliver of n

type res =
| RUnit
| ROpt of n option
| RBool of bool
| RVal of n
| RPairs of (n * n) list
| RCost of n

val take_n : n -> 'a1 list -> 'a1 list * 'a1 list

val nseq_aux : nat -> n -> n list

val nseq : n -> n list

val reorder : n list -> kc list -> kc list

val has_wheel : cfg -> bool

val expired : cfg -> n -> entry -> bool

val ticks_of : cfg -> n -> n

val shard_of : cfg -> n -> n

type shard = { s_map : entry amap; s_pol : pst; s_evq : kc list;
               s_batch : kc list; s_tick : n; s_timers : timer list }

type state = { st_sh : (n -> shard); st_cc : z; st_now : n;
               st_nq : notif list; st_log : notif list; st_tid : n;
               st_eid : n; st_evdrops : n; st_ndrops : n }

val pcall : policy -> pst -> call -> pst

val init_shard : policy -> shard

val init : policy -> n -> state

val set_sh : policy -> state -> n -> shard -> state

val set_cc : policy -> state -> z -> state

val add_cc : policy -> state -> z -> state

val sh_map : policy -> shard -> entry amap -> shard

val sh_pol : policy -> shard -> pst -> shard

val sh_timers : policy -> shard -> timer list -> shard

val cc_obs : policy -> state -> n

val find : policy -> cfg -> state -> n -> entry option

val notify : policy -> cfg -> state -> notif -> state

val ev_push : policy -> state -> n -> n -> n -> state

val cancel_timer : n option -> timer list -> timer list

val schedule : policy -> cfg -> state -> n -> n -> n -> state * n

val wheel_advance : policy -> cfg -> shard -> n list * shard

val access_all : policy -> pst -> kc list -> pst

val admit_all : policy -> cfg -> entry amap -> pst -> kc list -> pst

val perform : policy -> cfg -> n -> n -> n list -> state -> state

val drop_entry :
  policy -> cfg -> reason -> bool -> n -> state -> (n * entry) -> state

val cleanup_ttl : policy -> cfg -> n -> state -> state

val cleanup_tti : policy -> cfg -> n -> state -> state

val evict_victim : policy -> cfg -> n -> (state * n) -> n -> state * n

val cleanup_cap : policy -> cfg -> n -> state -> state

val maint_shard : policy -> cfg -> n list -> state -> n -> state

val run_maintenance : policy -> cfg -> n list -> state -> state

val janitor_tick : policy -> cfg -> n -> n list -> state -> state

val janitor_signal : policy -> cfg -> n -> n list -> state -> state

val bump_eid : policy -> state -> state

val insert_core :
  policy -> cfg -> state -> n -> n -> n -> n -> n option -> state

val opportunistic : policy -> cfg -> state -> n -> state

val ttl_exp : cfg -> n -> n

val do_insert : policy -> cfg -> state -> n -> n -> n -> state

val do_insert_ttl : policy -> cfg -> state -> n -> n -> n -> n -> state

val vacant_insert : policy -> cfg -> state -> n -> n -> n -> state

val occupied : policy -> cfg -> state -> n -> entry option

val do_or_insert : policy -> cfg -> state -> n -> n -> n -> state * res

val on_hit : policy -> cfg -> state -> n -> entry -> state

val do_read : policy -> cfg -> bool -> state -> n -> state * n option

val on_hit_direct : policy -> cfg -> state -> n -> entry -> state

val do_read_direct : policy -> cfg -> state -> n -> state * n option

val do_multiget_gen :
  policy -> (state -> n -> state * n option) -> state -> n list -> (n * n)
  list -> state * (n * n) list

val computable : policy -> cfg -> state -> n -> entry option

val do_compute : policy -> cfg -> state -> n -> cfun -> state * n option

val do_remove : policy -> cfg -> state -> n -> state * n option

val do_multi_remove :
  policy -> cfg -> state -> n list -> (n * n) list -> state * (n * n) list

val clear_shard : policy -> state -> n -> state

val do_clear : policy -> cfg -> state -> state

val do_multi_insert : policy -> cfg -> state -> ((n * n) * n) list -> state

val flush_intro : policy -> cfg -> state -> state

val do_deliver : policy -> state -> n -> state

val step : policy -> cfg -> state -> op -> state * res

val null_step : unit -> call -> unit * out

val nullP : policy
