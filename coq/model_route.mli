
val negb : bool -> bool

type nat =
| O
| S of nat

val fst : ('a1 * 'a2) -> 'a1

val snd : ('a1 * 'a2) -> 'a2

val length : 'a1 list -> nat

val app : 'a1 list -> 'a1 list -> 'a1 list

module Nat :
 sig
  val leb : nat -> nat -> bool

  val ltb : nat -> nat -> bool
 end

val map : ('a1 -> 'a2) -> 'a1 list -> 'a2 list

val flat_map : ('a1 -> 'a2 list) -> 'a1 list -> 'a2 list

val fold_right : ('a2 -> 'a1 -> 'a1) -> 'a1 -> 'a2 list -> 'a1

val existsb : ('a1 -> bool) -> 'a1 list -> bool

val forallb : ('a1 -> bool) -> 'a1 list -> bool

val filter : ('a1 -> bool) -> 'a1 list -> 'a1 list

val find : ('a1 -> bool) -> 'a1 list -> 'a1 option

val combine : 'a1 list -> 'a2 list -> ('a1 * 'a2) list

type positive =
| XI of positive
| XO of positive
| XH

type n =
| N0
| Npos of positive

module Pos :
 sig
  val eqb : positive -> positive -> bool
 end

module N :
 sig
  val eqb : n -> n -> bool
 end

val mem : n -> n list -> bool

type level =
| ERROR
| WARN
| INFO
| DEBUG
| TRACE

type lfilter =
| OFF
| UPTO of level

val rank : level -> nat

val frank : lfilter -> nat

val admits : lfilter -> level -> bool

val fmax : lfilter -> lfilter -> lfilter

type name = n list

val sep : name

val root_name : name

val name_eqb : name -> name -> bool

val strip_prefix : name -> name -> name option

val starts_with_sep : name -> bool

val target_matches_prefix : name -> name -> bool

type logger = { lname : name; llevel : lfilter; ladd : bool; lapps : n list }

type config = { cappenders : n list; cloggers : logger list }

val is_root : logger -> bool

val find_root : logger list -> logger option

val nodup_names : name list -> bool

val wf_cfg : config -> bool

type rule = { rprefix : name; rlevel : lfilter; radd : bool }

type pfilter = { frules : rule list; fdefault : lfilter }

val rule_of : logger -> rule

val build_filter : n -> logger list -> pfilter

val max_by_key_from : ('a1 -> nat) -> 'a1 -> 'a1 list -> 'a1

val max_by_key : ('a1 -> nat) -> 'a1 list -> 'a1 option

val longest_from : ('a1 -> nat) -> 'a1 -> 'a1 list -> 'a1

val longest : ('a1 -> nat) -> 'a1 list -> 'a1 option

val rule_len : rule -> nat

val find_most_specific_rule : pfilter -> name -> rule option

val filter_enabled : pfilter -> name -> level -> bool

val filter_max_level : pfilter -> lfilter

val actors : config -> (n * pfilter) list

val proc_max_level : config -> lfilter

val event_enabled : config -> name -> level -> bool

val winner_from :
  (name * bool) option -> rule option list -> (name * bool) option

val gate_of : (name * bool) option -> name option

val actor_receives : name option -> pfilter -> rule option -> level -> bool

val process_event : config -> name -> level -> n list

type via =
| ViaLog
| ViaTracing

val emit : config -> via -> name -> level -> n list

val model_delivers : config -> via -> name -> level -> n -> bool

val is_prefix : name -> name -> bool

val module_prefix : name -> name -> bool

val logger_len : logger -> nat

val named_matching : config -> name -> logger list

val spec_logger_for : config -> name -> n -> logger option

val spec_overall : config -> name -> logger option

val spec_delivers : config -> name -> level -> n -> bool

val nonempty : 'a1 list -> bool

val winner_wired : config -> name -> bool

val all_wired : config -> bool

type event = ((n * n) * name) * level

val deliveries_of : config -> n -> event list -> ((n * n) * via) list
