
type nat =
| O
| S of nat

(** val fst : ('a1 * 'a2) -> 'a1 **)

let fst = function
| (x, _) -> x

(** val snd : ('a1 * 'a2) -> 'a2 **)

let snd = function
| (_, y) -> y

(** val length : 'a1 list -> nat **)

let rec length = function
| [] -> O
| _ :: l' -> S (length l')

(** val app : 'a1 list -> 'a1 list -> 'a1 list **)

let rec app l m =
  match l with
  | [] -> m
  | a :: l1 -> a :: (app l1 m)

(** val existsb : ('a1 -> bool) -> 'a1 list -> bool **)

let rec existsb f = function
| [] -> false
| a :: l0 -> (||) (f a) (existsb f l0)

type positive =
| XI of positive
| XO of positive
| XH

type n =
| N0
| Npos of positive

module Pos =
 struct
  (** val succ : positive -> positive **)

  let rec succ = function
  | XI p -> XO (succ p)
  | XO p -> XI p
  | XH -> XO XH

  (** val add : positive -> positive -> positive **)

  let rec add x y =
    match x with
    | XI p ->
      (match y with
       | XI q -> XO (add_carry p q)
       | XO q -> XI (add p q)
       | XH -> XO (succ p))
    | XO p ->
      (match y with
       | XI q -> XI (add p q)
       | XO q -> XO (add p q)
       | XH -> XI p)
    | XH -> (match y with
             | XI q -> XO (succ q)
             | XO q -> XI q
             | XH -> XO XH)

  (** val add_carry : positive -> positive -> positive **)

  and add_carry x y =
    match x with
    | XI p ->
      (match y with
       | XI q -> XI (add_carry p q)
       | XO q -> XO (add_carry p q)
       | XH -> XI (succ p))
    | XO p ->
      (match y with
       | XI q -> XO (add_carry p q)
       | XO q -> XI (add p q)
       | XH -> XO (succ p))
    | XH ->
      (match y with
       | XI q -> XI (succ q)
       | XO q -> XO (succ q)
       | XH -> XI XH)

  (** val eqb : positive -> positive -> bool **)

  let rec eqb p q =
    match p with
    | XI p0 -> (match q with
                | XI q0 -> eqb p0 q0
                | _ -> false)
    | XO p0 -> (match q with
                | XO q0 -> eqb p0 q0
                | _ -> false)
    | XH -> (match q with
             | XH -> true
             | _ -> false)
 end

module N =
 struct
  (** val add : n -> n -> n **)

  let add n0 m =
    match n0 with
    | N0 -> m
    | Npos p -> (match m with
                 | N0 -> n0
                 | Npos q -> Npos (Pos.add p q))

  (** val eqb : n -> n -> bool **)

  let eqb n0 m =
    match n0 with
    | N0 -> (match m with
             | N0 -> true
             | Npos _ -> false)
    | Npos p -> (match m with
                 | N0 -> false
                 | Npos q -> Pos.eqb p q)
 end

type key = n * n option

type slot = n * key

(** val skey : slot -> key **)

let skey =
  snd

(** val oN_eqb : n option -> n option -> bool **)

let oN_eqb a b =
  match a with
  | Some x -> (match b with
               | Some y -> N.eqb x y
               | None -> false)
  | None -> (match b with
             | Some _ -> false
             | None -> true)

(** val key_eqb : key -> key -> bool **)

let key_eqb a b =
  (&&) (N.eqb (fst a) (fst b)) (oN_eqb (snd a) (snd b))

(** val slot_eqb : slot -> slot -> bool **)

let slot_eqb a b =
  (&&) (N.eqb (fst a) (fst b)) (key_eqb (snd a) (snd b))

(** val kmem : key -> key list -> bool **)

let kmem k l =
  existsb (key_eqb k) l

type script = (slot * bool) list

type provider =
| PSingleton of n * n option * script
| PTransient of n * script

type kind =
| KSingleton
| KTransient
| KInstance

(** val pfid : provider -> n **)

let pfid = function
| PSingleton (f, _, _) -> f
| PTransient (f, _) -> f

(** val pscript : provider -> script **)

let pscript = function
| PSingleton (_, _, sc) -> sc
| PTransient (_, sc) -> sc

(** val cached : provider -> n option **)

let cached = function
| PSingleton (_, cell, _) -> cell
| PTransient (_, _) -> None

type pmap = (slot * provider) list

(** val plookup : slot -> pmap -> provider option **)

let rec plookup sl = function
| [] -> None
| p0 :: t ->
  let (sl', p) = p0 in if slot_eqb sl sl' then Some p else plookup sl t

(** val premove : slot -> pmap -> pmap **)

let rec premove sl = function
| [] -> []
| p0 :: t ->
  let (sl', p) = p0 in
  if slot_eqb sl sl' then premove sl t else (sl', p) :: (premove sl t)

(** val pinsert : slot -> provider -> pmap -> pmap **)

let pinsert sl p l =
  (sl, p) :: (premove sl l)

(** val pset : slot -> provider -> pmap -> pmap **)

let rec pset sl p = function
| [] -> []
| p0 :: t ->
  let (sl', p') = p0 in
  if slot_eqb sl sl' then (sl', p) :: t else (sl', p') :: (pset sl p t)

type st = { provs : pmap; next : n; nextf : n;
            insts : (n * (n * n option list)) list; started : n list;
            completed : n list; kinds : (n * kind) list }

(** val nextf : st -> n **)

let nextf s =
  s.nextf

(** val started : st -> n list **)

let started s =
  s.started

(** val completed : st -> n list **)

let completed s =
  s.completed

(** val init : st **)

let init =
  { provs = []; next = N0; nextf = N0; insts = []; started = []; completed =
    []; kinds = [] }

type res =
| RNone
| RSome of n
| RPanic
| RFuel

type dres =
| DOk of n option list
| DPanic
| DFuel

(** val run_deps :
    (st -> slot -> st * res) -> st -> script -> n option list -> st * dres **)

let rec run_deps rec0 s sc seen =
  match sc with
  | [] -> (s, (DOk seen))
  | p :: r ->
    let (d, req) = p in
    let (s1, x) = rec0 s d in
    (match x with
     | RNone ->
       if req
       then (s1, DPanic)
       else run_deps rec0 s1 r (app seen (None :: []))
     | RSome i -> run_deps rec0 s1 r (app seen ((Some i) :: []))
     | RPanic -> (s1, DPanic)
     | RFuel -> (s1, DFuel))

(** val mark_started : st -> n -> st **)

let mark_started s fid =
  { provs = s.provs; next = s.next; nextf = s.nextf; insts = s.insts;
    started = (fid :: s.started); completed = s.completed; kinds = s.kinds }

(** val complete : st -> slot -> provider -> n option list -> st **)

let complete s sl p seen =
  let i = s.next in
  let pv =
    match p with
    | PSingleton (fid, _, sc) ->
      pset sl (PSingleton (fid, (Some i), sc)) s.provs
    | PTransient (_, _) -> s.provs
  in
  { provs = pv; next = (N.add i (Npos XH)); nextf = s.nextf; insts = ((i,
  ((pfid p), seen)) :: s.insts); started = s.started; completed =
  ((pfid p) :: s.completed); kinds = s.kinds }

(** val resolve : nat -> st -> key list -> slot -> st * res **)

let rec resolve fuel s stk sl =
  match fuel with
  | O -> (s, RFuel)
  | S f ->
    if kmem (skey sl) stk
    then (s, RPanic)
    else (match plookup sl s.provs with
          | Some p ->
            (match cached p with
             | Some i -> (s, (RSome i))
             | None ->
               let (s1, d) =
                 run_deps (fun s' dsl -> resolve f s' ((skey sl) :: stk) dsl)
                   (mark_started s (pfid p)) (pscript p) []
               in
               (match d with
                | DOk seen -> ((complete s1 sl p seen), (RSome s1.next))
                | DPanic -> (s1, RPanic)
                | DFuel -> (s1, RFuel)))
          | None -> (s, RNone))

type op =
| Register of kind * slot * script
| Resolve of slot

type out =
| OOk
| ONone
| OSome of n * n * n option list
| OPanic
| OFuel

(** val ilookup :
    n -> (n * (n * n option list)) list -> (n * n option list) option **)

let rec ilookup i = function
| [] -> None
| p :: t -> let (j, x) = p in if N.eqb i j then Some x else ilookup i t

(** val register : st -> kind -> slot -> script -> st **)

let register s k sl sc =
  let fid = s.nextf in
  (match k with
   | KSingleton ->
     { provs = (pinsert sl (PSingleton (fid, None, sc)) s.provs); next =
       s.next; nextf = (N.add fid (Npos XH)); insts = s.insts; started =
       s.started; completed = s.completed; kinds = ((fid, k) :: s.kinds) }
   | KTransient ->
     { provs = (pinsert sl (PTransient (fid, sc)) s.provs); next = s.next;
       nextf = (N.add fid (Npos XH)); insts = s.insts; started = s.started;
       completed = s.completed; kinds = ((fid, k) :: s.kinds) }
   | KInstance ->
     let i = s.next in
     { provs = (pinsert sl (PSingleton (fid, (Some i), [])) s.provs); next =
     (N.add i (Npos XH)); nextf = (N.add fid (Npos XH)); insts = ((i, (fid,
     [])) :: s.insts); started = s.started; completed = s.completed; kinds =
     ((fid, k) :: s.kinds) })

(** val fuel_of : st -> nat **)

let fuel_of s =
  S (length s.provs)

(** val out_of : st -> res -> out **)

let out_of s = function
| RNone -> ONone
| RSome i ->
  (match ilookup i s.insts with
   | Some p -> let (fid, ds) = p in OSome (i, fid, ds)
   | None -> OSome (i, N0, []))
| RPanic -> OPanic
| RFuel -> OFuel

(** val step : st -> op -> st * out **)

let step s = function
| Register (k, sl, sc) -> ((register s k sl sc), OOk)
| Resolve sl ->
  let (s', r) = resolve (fuel_of s) s [] sl in (s', (out_of s' r))
