(* Ioc/Container.v — executable model (K2) of fibre_ioc's containers.
   Mirrors /repo/ioc/src/{core.rs,container.rs,local_container.rs,global.rs}.  NO proofs here.

   What the code does (and the model mirrors):
   * a container is a map  InjectionKey{type_id, name: Option<String>} -> Provider
     (DashMap in `Container`, HashMap in `LocalContainer`; `global()` is a `Container`);
     `insert` replaces an existing provider (and with it the singleton's OnceCell);
   * Provider = Singleton{cell: OnceCell, factory} | Transient{factory};
     `add_instance` = Singleton with a pre-filled cell and a factory that is never called;
   * `get`: build the key; `ResolutionGuard::new(key)` inserts the key into the THREAD-LOCAL set
     RESOLVING_STACK (panics "Circular dependency detected" if already present; the guard's Drop
     removes it, also during unwinding); then look the key up (`None` if absent); Singleton:
     `cell.get_or_init(factory)`; Transient: `factory()`.
     NB the thread-local set is keyed by (type, name) only — it is shared by every container
     (global, instances, local) used on the thread.  The model keeps that: a slot is
     (container id, key) but the resolution stack holds keys.
   * a panic inside a factory propagates through `get_or_init` leaving the cell empty
     (once_cell's documented behaviour) and pops every guard on the way out.

   Factories are scripts: the list of slots they resolve, in order, each either with
   `resolve!` (required: a `None` panics "Failed to resolve required service") or with
   `maybe_resolve!` (optional); then a fresh instance id is produced.  The instance records the
   id of the registration (fid) that produced it and the dependency instances it saw. *)
From Fibre Require Import Common.Base.

Definition key := (N * option N)%type.          (* (type id, optional name) *)
Definition slot := (N * key)%type.              (* (container id, key) *)
Definition skey (sl : slot) : key := snd sl.

Definition oN_eqb (a b : option N) : bool :=
  match a, b with
  | None, None => true
  | Some x, Some y => N.eqb x y
  | _, _ => false
  end.
Definition key_eqb (a b : key) : bool := N.eqb (fst a) (fst b) && oN_eqb (snd a) (snd b).
Definition slot_eqb (a b : slot) : bool := N.eqb (fst a) (fst b) && key_eqb (snd a) (snd b).
Definition kmem (k : key) (l : list key) : bool := existsb (key_eqb k) l.

(* a dependency: the slot and whether it is required (`resolve!`) or optional (`maybe_resolve!`) *)
Definition script := list (slot * bool).

Inductive provider :=
| PSingleton (fid : N) (cell : option N) (sc : script)
| PTransient (fid : N) (sc : script).

Inductive kind := KSingleton | KTransient | KInstance.

Definition pfid (p : provider) : N :=
  match p with PSingleton f _ _ => f | PTransient f _ => f end.
Definition pscript (p : provider) : script :=
  match p with PSingleton _ _ sc => sc | PTransient _ sc => sc end.
Definition cached (p : provider) : option N :=
  match p with PSingleton _ (Some i) _ => Some i | _ => None end.

Definition pmap := list (slot * provider).

Fixpoint plookup (sl : slot) (l : pmap) : option provider :=
  match l with
  | [] => None
  | (sl', p) :: t => if slot_eqb sl sl' then Some p else plookup sl t
  end.

Fixpoint premove (sl : slot) (l : pmap) : pmap :=
  match l with
  | [] => []
  | (sl', p) :: t => if slot_eqb sl sl' then premove sl t else (sl', p) :: premove sl t
  end.

Definition pinsert (sl : slot) (p : provider) (l : pmap) : pmap := (sl, p) :: premove sl l.

(* in-place update of the provider stored at sl (the OnceCell being filled) *)
Fixpoint pset (sl : slot) (p : provider) (l : pmap) : pmap :=
  match l with
  | [] => []
  | (sl', p') :: t => if slot_eqb sl sl' then (sl', p) :: t else (sl', p') :: pset sl p t
  end.

Record st := St {
  provs : pmap;
  next : N;                                         (* next instance id *)
  nextf : N;                                        (* next registration (factory) id *)
  insts : list (N * (N * list (option N)));         (* instance id -> (producing fid, deps seen) *)
  started : list N;                                 (* log: fid of every factory invocation *)
  completed : list N;                               (* log: fid of every factory run that returned *)
  kinds : list (N * kind)                           (* ghost log: fid -> kind it was registered with *)
}.

Definition init : st := St [] 0 0 [] [] [] [].

Inductive res := RNone | RSome (i : N) | RPanic | RFuel.
Inductive dres := DOk (seen : list (option N)) | DPanic | DFuel.

Definition res_opt (r : res) : option N := match r with RSome i => Some i | _ => None end.

(* the body of a factory closure: resolve the dependencies in order *)
Fixpoint run_deps (rec : st -> slot -> st * res) (s : st) (sc : script) (seen : list (option N))
  : st * dres :=
  match sc with
  | [] => (s, DOk seen)
  | (d, req) :: r =>
      let '(s1, x) := rec s d in
      match x with
      | RPanic => (s1, DPanic)
      | RFuel => (s1, DFuel)
      | RNone => if req then (s1, DPanic) else run_deps rec s1 r (seen ++ [None])
      | RSome i => run_deps rec s1 r (seen ++ [Some i])
      end
  end.

Definition mark_started (s : st) (fid : N) : st :=
  St (provs s) (next s) (nextf s) (insts s) (fid :: started s) (completed s) (kinds s).

(* the factory returns: fresh instance id; a singleton's cell is filled *)
Definition complete (s : st) (sl : slot) (p : provider) (seen : list (option N)) : st :=
  let i := next s in
  let pv := match p with
            | PSingleton fid _ sc => pset sl (PSingleton fid (Some i) sc) (provs s)
            | PTransient _ _ => provs s
            end in
  St pv (i + 1) (nextf s) ((i, (pfid p, seen)) :: insts s) (started s) (pfid p :: completed s) (kinds s).

(* Container::get / LocalContainer::get.  stk = RESOLVING_STACK of the calling thread. *)
Fixpoint resolve (fuel : nat) (s : st) (stk : list key) (sl : slot) : st * res :=
  match fuel with
  | O => (s, RFuel)
  | S f =>
      if kmem (skey sl) stk then (s, RPanic)                      (* ResolutionGuard::new *)
      else match plookup sl (provs s) with
           | None => (s, RNone)                                    (* `providers.get(&key)?` *)
           | Some p =>
               match cached p with
               | Some i => (s, RSome i)                            (* OnceCell already filled *)
               | None =>
                   let '(s1, d) := run_deps (fun s' dsl => resolve f s' (skey sl :: stk) dsl)
                                            (mark_started s (pfid p)) (pscript p) [] in
                   match d with
                   | DOk seen => (complete s1 sl p seen, RSome (next s1))
                   | DPanic => (s1, RPanic)                        (* unwinding: cell stays empty *)
                   | DFuel => (s1, RFuel)
                   end
               end
           end
  end.

Inductive op :=
| Register (k : kind) (sl : slot) (sc : script)
| Resolve (sl : slot).

Inductive out :=
| OOk
| ONone
| OSome (i : N) (fid : N) (deps : list (option N))
| OPanic
| OFuel.

Fixpoint ilookup (i : N) (l : list (N * (N * list (option N)))) : option (N * list (option N)) :=
  match l with
  | [] => None
  | (j, x) :: t => if N.eqb i j then Some x else ilookup i t
  end.

Definition register (s : st) (k : kind) (sl : slot) (sc : script) : st :=
  let fid := nextf s in
  match k with
  | KSingleton =>
      St (pinsert sl (PSingleton fid None sc) (provs s)) (next s) (fid + 1) (insts s)
         (started s) (completed s) ((fid, k) :: kinds s)
  | KTransient =>
      St (pinsert sl (PTransient fid sc) (provs s)) (next s) (fid + 1) (insts s)
         (started s) (completed s) ((fid, k) :: kinds s)
  | KInstance =>                     (* add_instance: OnceCell::with_value, factory never called *)
      let i := next s in
      St (pinsert sl (PSingleton fid (Some i) []) (provs s)) (i + 1) (fid + 1)
         ((i, (fid, [])) :: insts s) (started s) (completed s) ((fid, k) :: kinds s)
  end.

(* fuel supplied by the top-level call: one more than the number of registered slots *)
Definition fuel_of (s : st) : nat := S (length (provs s)).

Definition out_of (s : st) (r : res) : out :=
  match r with
  | RNone => ONone
  | RSome i => match ilookup i (insts s) with
               | Some (fid, ds) => OSome i fid ds
               | None => OSome i 0 []
               end
  | RPanic => OPanic
  | RFuel => OFuel
  end.

Definition step (s : st) (o : op) : st * out :=
  match o with
  | Register k sl sc => (register s k sl sc, OOk)
  | Resolve sl => let '(s', r) := resolve (fuel_of s) s [] sl in (s', out_of s' r)
  end.

Fixpoint run (s : st) (ops : list op) : st * list out :=
  match ops with
  | [] => (s, [])
  | o :: t => let '(s1, x) := step s o in
              let '(s2, xs) := run s1 t in (s2, x :: xs)
  end.
