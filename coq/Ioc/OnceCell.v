(* Ioc/OnceCell.v — abstract once-cell protocol (K3), N threads, atomic steps.  NO proofs here.

   This is NOT a model of once_cell's implementation (library code; its state word, waiter queue
   and parking are not traced).  It is the protocol its documentation promises and that
   `Provider::Singleton { cell.get_or_init(factory) }` relies on:
     * a caller that finds the cell empty becomes THE runner (cell: Uninit -> Running t) and runs
       the closure; callers that find it Running block; callers that find it Init return the value;
     * when the closure returns, the runner stores the value (Running t -> Init v), returns it, and
       blocked callers re-examine the cell;
     * when the closure panics, the cell goes back to Uninit (Running t -> Uninit), the panic
       propagates to that caller only, and a blocked caller that re-examines the cell becomes the
       next runner.
   A schedule is any list of events: `Step t` lets thread t take its next step, `Fail t` makes the
   closure running on t panic (enabled only while t is in the closure). *)
From Fibre Require Import Common.Base.

Inductive cell := Uninit | Running (t : N) | Init (v : N).
Inductive pc := Idle | Blocked | InFactory | Done (v : N) | Panicked.

Record ost := OSt {
  ocell : cell;
  opc : N -> pc;
  runs : N;            (* closure invocations started *)
  fails : N;           (* closure invocations that panicked *)
  completions : N      (* closure invocations that returned *)
}.

Inductive ev := Step (t : N) | Fail (t : N).

Definition upd (f : N -> pc) (t : N) (x : pc) : N -> pc := fun u => if N.eqb u t then x else f u.

Definition oinit : ost := OSt Uninit (fun _ => Idle) 0 0 0.

(* get_or_init looks at the cell (first call, or after being woken) *)
Definition enter (s : ost) (t : N) : ost :=
  match ocell s with
  | Uninit => OSt (Running t) (upd (opc s) t InFactory) (runs s + 1) (fails s) (completions s)
  | Running _ => OSt (ocell s) (upd (opc s) t Blocked) (runs s) (fails s) (completions s)
  | Init v => OSt (ocell s) (upd (opc s) t (Done v)) (runs s) (fails s) (completions s)
  end.

(* the value a run produces is the index of that run: distinct runs give distinct values *)
Definition ostep (s : ost) (e : ev) : ost :=
  match e with
  | Step t =>
      match opc s t with
      | Idle | Blocked => enter s t
      | InFactory => OSt (Init (runs s)) (upd (opc s) t (Done (runs s))) (runs s) (fails s) (completions s + 1)
      | Done _ | Panicked => s
      end
  | Fail t =>
      match opc s t with
      | InFactory => OSt Uninit (upd (opc s) t Panicked) (runs s) (fails s + 1) (completions s)
      | _ => s
      end
  end.

Definition orun (sched : list ev) : ost := fold_left ostep sched oinit.

Definition is_fail (e : ev) : bool := match e with Fail _ => true | Step _ => false end.
