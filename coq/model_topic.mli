
val negb : bool -> bool

type nat =
| O
| S of nat

val fst : ('a1 * 'a2) -> 'a1

val snd : ('a1 * 'a2) -> 'a2

val length : 'a1 list -> nat

val app : 'a1 list -> 'a1 list -> 'a1 list

type comparison =
| Eq
| Lt
| Gt

val map : ('a1 -> 'a2) -> 'a1 list -> 'a2 list

val fold_left : ('a1 -> 'a2 -> 'a1) -> 'a2 list -> 'a1 -> 'a1

val existsb : ('a1 -> bool) -> 'a1 list -> bool

val filter : ('a1 -> bool) -> 'a1 list -> 'a1 list

val find : ('a1 -> bool) -> 'a1 list -> 'a1 option

type positive =
| XI of positive
| XO of positive
| XH

type n =
| N0
| Npos of positive

type z =
| Z0
| Zpos of positive
| Zneg of positive

module Pos :
 sig
  val succ : positive -> positive

  val add : positive -> positive -> positive

  val add_carry : positive -> positive -> positive

  val pred_double : positive -> positive

  val compare_cont : comparison -> positive -> positive -> comparison

  val compare : positive -> positive -> comparison

  val eqb : positive -> positive -> bool

  val of_succ_nat : nat -> positive
 end

module N :
 sig
  val add : n -> n -> n

  val compare : n -> n -> comparison

  val eqb : n -> n -> bool

  val leb : n -> n -> bool

  val of_nat : nat -> n
 end

module Z :
 sig
  val double : z -> z

  val succ_double : z -> z

  val pred_double : z -> z

  val pos_sub : positive -> positive -> z

  val add : z -> z -> z

  val opp : z -> z

  val sub : z -> z -> z

  val eqb : z -> z -> bool
 end

val mem : n -> n list -> bool

type cfg = { fix04 : bool; fix05 : bool; fix07 : bool; fix14 : bool }

type msg = n * n

type mbox = { m_buf : msg list; m_cap : n; m_waiter : n option;
              m_disc : bool; m_dropped : n }

val opt_list : n option -> n list

val mb_deliver : mbox -> msg -> mbox * n list

val mb_disconnect : mbox -> mbox * n list

val mb_set_buf : mbox -> msg list -> mbox

val mb_set_waiter : mbox -> n option -> mbox

val mb_new : n -> bool -> mbox

type txh = { t_id : n; t_live : bool; t_async : bool; t_closed : bool }

type rxh = { r_id : n; r_live : bool; r_async : bool; r_closed : bool;
             r_subs : n list; r_mb : mbox }

val rx_set_mb : rxh -> mbox -> rxh

val rx_set_subs : rxh -> n list -> rxh

val rx_set_closed : rxh -> bool -> rxh

val rx_set_live : rxh -> bool -> rxh

val rx_set_kind : rxh -> bool -> bool -> rxh

val tx_set : txh -> bool -> bool -> bool -> txh

type state = { txs : txh list; rxs : rxh list; lists : (n * n list) list;
               rcount : z; scount : z; futs : (n * n) list }

val st_set_rxs : state -> rxh list -> state

val st_set_txs : state -> txh list -> state

val st_set_lists : state -> (n * n list) list -> state

val st_set_rcount : state -> z -> state

val st_set_scount : state -> z -> state

val st_set_futs : state -> (n * n) list -> state

val find_rx : n -> rxh list -> rxh option

val upd_rx : n -> (rxh -> rxh) -> rxh list -> rxh list

val find_tx : n -> txh list -> txh option

val upd_tx : n -> (txh -> txh) -> txh list -> txh list

val get_list : n -> (n * n list) list -> n list option

val set_list : n -> n list -> (n * n list) list -> (n * n list) list

val rx_alive : n -> rxh list -> bool

val disp_alive : state -> bool

val rx_busy : n -> state -> bool

val subscribe_core : n -> n -> state -> state

val unsubscribe_core : n -> n -> state -> state

val rx_close_internal : cfg -> n -> state -> state

val in_lists : n -> (n * n list) list -> bool

val map_wakes : (rxh -> rxh * n list) -> rxh list -> rxh list * n list

val disconnect_all : cfg -> state -> state * n list

val tx_close_internal : cfg -> state -> state * n list

val deliver_one : n -> msg -> rxh list -> rxh list * n list

val deliver_list : n list -> msg -> rxh list -> rxh list * n list

type op =
| Publish of n * n * n
| CloneS of n * n
| CloseS of n
| DropS of n
| ConvS of n
| IsClosedS of n
| Subscribe of n * n
| Unsubscribe of n * n
| CloneR of n * n
| CloseR of n
| DropR of n
| ConvR of n
| TryRecv of n
| RecvTimeout0 of n
| MkRecv of n * n
| Poll of n * n
| DropF of n
| PollNext of n * n
| IsClosedR of n
| IsEmptyR of n
| CapR of n

type res =
| RNoHandle
| RBadId
| RNoApi
| RBusy
| ROk
| RClosed
| RCloseErr
| RBool of bool
| RNum of n
| RVal of n * n
| REmpty
| RTimeout
| RPending
| RDisc

type out = res * n list

val mb_pop : mbox -> (msg * mbox) option

val recv_core : n -> rxh -> res -> n option -> state -> state * out

val live_rx : n -> state -> rxh option

val live_tx : n -> state -> txh option

val new_rx : n -> bool -> bool -> n -> bool -> rxh

val step : cfg -> state -> op -> state * out

val init : bool -> n -> state

val run_from : cfg -> state -> op list -> state * out list

val run : cfg -> bool -> n -> op list -> state * out list
