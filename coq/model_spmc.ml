
(** val negb : bool -> bool **)

let negb = function
| true -> false
| false -> true

type nat =
| O
| S of nat

(** val fst : ('a1 * 'a2) -> 'a1 **)

let fst = function
| (x, _) -> x

(** val snd : ('a1 * 'a2) -> 'a2 **)

let snd = function
| (_, y) -> y

(** val length : 'a1 list -> nat **)

let rec length = function
| [] -> O
| _ :: l' -> S (length l')

(** val app : 'a1 list -> 'a1 list -> 'a1 list **)

let rec app l m =
  match l with
  | [] -> m
  | a :: l1 -> a :: (app l1 m)

type comparison =
| Eq
| Lt
| Gt

module Coq__1 = struct
 (** val add : nat -> nat -> nat **)
 let rec add n0 m =
   match n0 with
   | O -> m
   | S p -> S (add p m)
end
include Coq__1

(** val nth : nat -> 'a1 list -> 'a1 -> 'a1 **)

let rec nth n0 l default =
  match n0 with
  | O -> (match l with
          | [] -> default
          | x :: _ -> x)
  | S m -> (match l with
            | [] -> default
            | _ :: t -> nth m t default)

(** val map : ('a1 -> 'a2) -> 'a1 list -> 'a2 list **)

let rec map f = function
| [] -> []
| a :: t -> (f a) :: (map f t)

(** val fold_left : ('a1 -> 'a2 -> 'a1) -> 'a2 list -> 'a1 -> 'a1 **)

let rec fold_left f l a0 =
  match l with
  | [] -> a0
  | b :: t -> fold_left f t (f a0 b)

(** val existsb : ('a1 -> bool) -> 'a1 list -> bool **)

let rec existsb f = function
| [] -> false
| a :: l0 -> (||) (f a) (existsb f l0)

(** val forallb : ('a1 -> bool) -> 'a1 list -> bool **)

let rec forallb f = function
| [] -> true
| a :: l0 -> (&&) (f a) (forallb f l0)

(** val filter : ('a1 -> bool) -> 'a1 list -> 'a1 list **)

let rec filter f = function
| [] -> []
| x :: l0 -> if f x then x :: (filter f l0) else filter f l0

(** val firstn : nat -> 'a1 list -> 'a1 list **)

let rec firstn n0 l =
  match n0 with
  | O -> []
  | S n1 -> (match l with
             | [] -> []
             | a :: l0 -> a :: (firstn n1 l0))

(** val skipn : nat -> 'a1 list -> 'a1 list **)

let rec skipn n0 l =
  match n0 with
  | O -> l
  | S n1 -> (match l with
             | [] -> []
             | _ :: l0 -> skipn n1 l0)

type positive =
| XI of positive
| XO of positive
| XH

type n =
| N0
| Npos of positive

module Pos =
 struct
  type mask =
  | IsNul
  | IsPos of positive
  | IsNeg
 end

module Coq_Pos =
 struct
  (** val succ : positive -> positive **)

  let rec succ = function
  | XI p -> XO (succ p)
  | XO p -> XI p
  | XH -> XO XH

  (** val add : positive -> positive -> positive **)

  let rec add x y =
    match x with
    | XI p ->
      (match y with
       | XI q -> XO (add_carry p q)
       | XO q -> XI (add p q)
       | XH -> XO (succ p))
    | XO p ->
      (match y with
       | XI q -> XI (add p q)
       | XO q -> XO (add p q)
       | XH -> XI p)
    | XH -> (match y with
             | XI q -> XO (succ q)
             | XO q -> XI q
             | XH -> XO XH)

  (** val add_carry : positive -> positive -> positive **)

  and add_carry x y =
    match x with
    | XI p ->
      (match y with
       | XI q -> XI (add_carry p q)
       | XO q -> XO (add_carry p q)
       | XH -> XI (succ p))
    | XO p ->
      (match y with
       | XI q -> XO (add_carry p q)
       | XO q -> XI (add p q)
       | XH -> XO (succ p))
    | XH ->
      (match y with
       | XI q -> XI (succ q)
       | XO q -> XO (succ q)
       | XH -> XI XH)

  (** val pred_double : positive -> positive **)

  let rec pred_double = function
  | XI p -> XI (XO p)
  | XO p -> XI (pred_double p)
  | XH -> XH

  type mask = Pos.mask =
  | IsNul
  | IsPos of positive
  | IsNeg

  (** val succ_double_mask : mask -> mask **)

  let succ_double_mask = function
  | IsNul -> IsPos XH
  | IsPos p -> IsPos (XI p)
  | IsNeg -> IsNeg

  (** val double_mask : mask -> mask **)

  let double_mask = function
  | IsPos p -> IsPos (XO p)
  | x0 -> x0

  (** val double_pred_mask : positive -> mask **)

  let double_pred_mask = function
  | XI p -> IsPos (XO (XO p))
  | XO p -> IsPos (XO (pred_double p))
  | XH -> IsNul

  (** val sub_mask : positive -> positive -> mask **)

  let rec sub_mask x y =
    match x with
    | XI p ->
      (match y with
       | XI q -> double_mask (sub_mask p q)
       | XO q -> succ_double_mask (sub_mask p q)
       | XH -> IsPos (XO p))
    | XO p ->
      (match y with
       | XI q -> succ_double_mask (sub_mask_carry p q)
       | XO q -> double_mask (sub_mask p q)
       | XH -> IsPos (pred_double p))
    | XH -> (match y with
             | XH -> IsNul
             | _ -> IsNeg)

  (** val sub_mask_carry : positive -> positive -> mask **)

  and sub_mask_carry x y =
    match x with
    | XI p ->
      (match y with
       | XI q -> succ_double_mask (sub_mask_carry p q)
       | XO q -> double_mask (sub_mask p q)
       | XH -> IsPos (pred_double p))
    | XO p ->
      (match y with
       | XI q -> double_mask (sub_mask_carry p q)
       | XO q -> succ_double_mask (sub_mask_carry p q)
       | XH -> double_pred_mask p)
    | XH -> IsNeg

  (** val mul : positive -> positive -> positive **)

  let rec mul x y =
    match x with
    | XI p -> add y (XO (mul p y))
    | XO p -> XO (mul p y)
    | XH -> y

  (** val compare_cont : comparison -> positive -> positive -> comparison **)

  let rec compare_cont r x y =
    match x with
    | XI p ->
      (match y with
       | XI q -> compare_cont r p q
       | XO q -> compare_cont Gt p q
       | XH -> Gt)
    | XO p ->
      (match y with
       | XI q -> compare_cont Lt p q
       | XO q -> compare_cont r p q
       | XH -> Gt)
    | XH -> (match y with
             | XH -> r
             | _ -> Lt)

  (** val compare : positive -> positive -> comparison **)

  let compare =
    compare_cont Eq

  (** val eqb : positive -> positive -> bool **)

  let rec eqb p q =
    match p with
    | XI p0 -> (match q with
                | XI q0 -> eqb p0 q0
                | _ -> false)
    | XO p0 -> (match q with
                | XO q0 -> eqb p0 q0
                | _ -> false)
    | XH -> (match q with
             | XH -> true
             | _ -> false)

  (** val iter_op : ('a1 -> 'a1 -> 'a1) -> positive -> 'a1 -> 'a1 **)

  let rec iter_op op0 p a =
    match p with
    | XI p0 -> op0 a (iter_op op0 p0 (op0 a a))
    | XO p0 -> iter_op op0 p0 (op0 a a)
    | XH -> a

  (** val to_nat : positive -> nat **)

  let to_nat x =
    iter_op Coq__1.add x (S O)

  (** val of_succ_nat : nat -> positive **)

  let rec of_succ_nat = function
  | O -> XH
  | S x -> succ (of_succ_nat x)
 end

module N =
 struct
  (** val succ_double : n -> n **)

  let succ_double = function
  | N0 -> Npos XH
  | Npos p -> Npos (XI p)

  (** val double : n -> n **)

  let double = function
  | N0 -> N0
  | Npos p -> Npos (XO p)

  (** val add : n -> n -> n **)

  let add n0 m =
    match n0 with
    | N0 -> m
    | Npos p -> (match m with
                 | N0 -> n0
                 | Npos q -> Npos (Coq_Pos.add p q))

  (** val sub : n -> n -> n **)

  let sub n0 m =
    match n0 with
    | N0 -> N0
    | Npos n' ->
      (match m with
       | N0 -> n0
       | Npos m' ->
         (match Coq_Pos.sub_mask n' m' with
          | Coq_Pos.IsPos p -> Npos p
          | _ -> N0))

  (** val mul : n -> n -> n **)

  let mul n0 m =
    match n0 with
    | N0 -> N0
    | Npos p -> (match m with
                 | N0 -> N0
                 | Npos q -> Npos (Coq_Pos.mul p q))

  (** val compare : n -> n -> comparison **)

  let compare n0 m =
    match n0 with
    | N0 -> (match m with
             | N0 -> Eq
             | Npos _ -> Lt)
    | Npos n' -> (match m with
                  | N0 -> Gt
                  | Npos m' -> Coq_Pos.compare n' m')

  (** val eqb : n -> n -> bool **)

  let eqb n0 m =
    match n0 with
    | N0 -> (match m with
             | N0 -> true
             | Npos _ -> false)
    | Npos p -> (match m with
                 | N0 -> false
                 | Npos q -> Coq_Pos.eqb p q)

  (** val leb : n -> n -> bool **)

  let leb x y =
    match compare x y with
    | Gt -> false
    | _ -> true

  (** val ltb : n -> n -> bool **)

  let ltb x y =
    match compare x y with
    | Lt -> true
    | _ -> false

  (** val min : n -> n -> n **)

  let min n0 n' =
    match compare n0 n' with
    | Gt -> n'
    | _ -> n0

  (** val pos_div_eucl : positive -> n -> n * n **)

  let rec pos_div_eucl a b =
    match a with
    | XI a' ->
      let (q, r) = pos_div_eucl a' b in
      let r' = succ_double r in
      if leb b r' then ((succ_double q), (sub r' b)) else ((double q), r')
    | XO a' ->
      let (q, r) = pos_div_eucl a' b in
      let r' = double r in
      if leb b r' then ((succ_double q), (sub r' b)) else ((double q), r')
    | XH ->
      (match b with
       | N0 -> (N0, (Npos XH))
       | Npos p -> (match p with
                    | XH -> ((Npos XH), N0)
                    | _ -> (N0, (Npos XH))))

  (** val div_eucl : n -> n -> n * n **)

  let div_eucl a b =
    match a with
    | N0 -> (N0, N0)
    | Npos na -> (match b with
                  | N0 -> (N0, a)
                  | Npos _ -> pos_div_eucl na b)

  (** val div : n -> n -> n **)

  let div a b =
    fst (div_eucl a b)

  (** val modulo : n -> n -> n **)

  let modulo a b =
    snd (div_eucl a b)

  (** val to_nat : n -> nat **)

  let to_nat = function
  | N0 -> O
  | Npos p -> Coq_Pos.to_nat p

  (** val of_nat : nat -> n **)

  let of_nat = function
  | O -> N0
  | S n' -> Npos (Coq_Pos.of_succ_nat n')
 end

type rx = { r_cur : n; r_start : n; r_reg : bool; r_closed : bool;
            r_async : bool; r_live : bool; r_taint : bool }

type fkind =
| FRecv of n
| FRecvB of n * n
| FSend of n
| FSendB of n list * n * n
| FSendM of n list * n

type fut = { f_kind : fkind; f_live : bool; f_wait : n option;
             f_woken : bool; f_disp : bool }

type st = { fixedm : bool; cap : n; log : n list; s_alive : bool;
            s_closed : bool; s_async : bool; s_taint : bool; pdrop : 
            bool; rxs : (n * rx) list; regs : (n * n) list; pw : n option;
            futs : (n * fut) list; wlog : n list; dlog : n list }

type breason =
| BOk
| BFull
| BClosed

type out =
| ONA
| OBusy
| OWouldBlock
| OOk
| OCloseErr
| OClosed
| OPending
| OTimeout
| ONone
| OFull of n
| OClosedV of n
| OVal of n * n
| OVals of n * n list
| OEmpty of n
| ODisc of n
| OBatch of breason * n * n list
| OBErr of n * n list
| OMut of bool * n * n list
| OObs of n * bool * bool * bool * n
| OReady of out
| OSnap of n list

type op =
| TrySend of n
| Send of n
| TrySendB of n list
| TrySendM of n list
| SendB of n list
| SendM of n list
| SClose
| SDrop
| SConv
| SObs
| TryRecv of n
| Recv of n
| RecvT of n
| TryRecvB of n * n
| RecvB of n * n
| RClose of n
| RDrop of n
| RClone of n * n
| RConv of n
| RObs of n
| MkRecv of n * n
| MkRecvB of n * n * n
| MkSend of n * n
| MkSendB of n * n list
| MkSendM of n * n list
| Poll of n * n
| DropF of n
| PollNext of n * n
| Snap

(** val get : (n * 'a1) list -> n -> 'a1 option **)

let rec get l k =
  match l with
  | [] -> None
  | p :: t -> let (k', a) = p in if N.eqb k k' then Some a else get t k

(** val set : (n * 'a1) list -> n -> 'a1 -> (n * 'a1) list **)

let rec set l k a =
  match l with
  | [] -> (k, a) :: []
  | p :: t ->
    let (k', a') = p in
    if N.eqb k k' then (k, a) :: t else (k', a') :: (set t k a)

(** val lenN : 'a1 list -> n **)

let lenN l =
  N.of_nat (length l)

(** val head : st -> n **)

let head s =
  lenN s.log

(** val set_rxs : st -> (n * rx) list -> st **)

let set_rxs s l =
  { fixedm = s.fixedm; cap = s.cap; log = s.log; s_alive = s.s_alive;
    s_closed = s.s_closed; s_async = s.s_async; s_taint = s.s_taint; pdrop =
    s.pdrop; rxs = l; regs = s.regs; pw = s.pw; futs = s.futs; wlog = s.wlog;
    dlog = s.dlog }

(** val set_regs : st -> (n * n) list -> st **)

let set_regs s l =
  { fixedm = s.fixedm; cap = s.cap; log = s.log; s_alive = s.s_alive;
    s_closed = s.s_closed; s_async = s.s_async; s_taint = s.s_taint; pdrop =
    s.pdrop; rxs = s.rxs; regs = l; pw = s.pw; futs = s.futs; wlog = s.wlog;
    dlog = s.dlog }

(** val set_pw : st -> n option -> st **)

let set_pw s p =
  { fixedm = s.fixedm; cap = s.cap; log = s.log; s_alive = s.s_alive;
    s_closed = s.s_closed; s_async = s.s_async; s_taint = s.s_taint; pdrop =
    s.pdrop; rxs = s.rxs; regs = s.regs; pw = p; futs = s.futs; wlog =
    s.wlog; dlog = s.dlog }

(** val set_futs : st -> (n * fut) list -> st **)

let set_futs s l =
  { fixedm = s.fixedm; cap = s.cap; log = s.log; s_alive = s.s_alive;
    s_closed = s.s_closed; s_async = s.s_async; s_taint = s.s_taint; pdrop =
    s.pdrop; rxs = s.rxs; regs = s.regs; pw = s.pw; futs = l; wlog = s.wlog;
    dlog = s.dlog }

(** val set_log : st -> n list -> st **)

let set_log s l =
  { fixedm = s.fixedm; cap = s.cap; log = l; s_alive = s.s_alive; s_closed =
    s.s_closed; s_async = s.s_async; s_taint = s.s_taint; pdrop = s.pdrop;
    rxs = s.rxs; regs = s.regs; pw = s.pw; futs = s.futs; wlog = s.wlog;
    dlog = s.dlog }

(** val set_wlog : st -> n list -> st **)

let set_wlog s l =
  { fixedm = s.fixedm; cap = s.cap; log = s.log; s_alive = s.s_alive;
    s_closed = s.s_closed; s_async = s.s_async; s_taint = s.s_taint; pdrop =
    s.pdrop; rxs = s.rxs; regs = s.regs; pw = s.pw; futs = s.futs; wlog = l;
    dlog = s.dlog }

(** val add_drops : st -> n list -> st **)

let add_drops s l =
  { fixedm = s.fixedm; cap = s.cap; log = s.log; s_alive = s.s_alive;
    s_closed = s.s_closed; s_async = s.s_async; s_taint = s.s_taint; pdrop =
    s.pdrop; rxs = s.rxs; regs = s.regs; pw = s.pw; futs = s.futs; wlog =
    s.wlog; dlog = (app l s.dlog) }

(** val set_sender : st -> bool -> bool -> bool -> bool -> bool -> st **)

let set_sender s alive closed async taint pd =
  { fixedm = s.fixedm; cap = s.cap; log = s.log; s_alive = alive; s_closed =
    closed; s_async = async; s_taint = taint; pdrop = pd; rxs = s.rxs; regs =
    s.regs; pw = s.pw; futs = s.futs; wlog = s.wlog; dlog = s.dlog }

(** val set_rx : st -> n -> rx -> st **)

let set_rx s r x =
  set_rxs s (set s.rxs r x)

(** val set_fut : st -> n -> fut -> st **)

let set_fut s f x =
  set_futs s (set s.futs f x)

(** val mark : n -> (n * fut) -> n * fut **)

let mark w p = match p with
| (k, f) ->
  (match f.f_wait with
   | Some w' ->
     if N.eqb w w'
     then (k, { f_kind = f.f_kind; f_live = f.f_live; f_wait = f.f_wait;
            f_woken = true; f_disp = f.f_disp })
     else p
   | None -> p)

(** val wake : n -> st -> st **)

let wake w s =
  set_futs (set_wlog s (w :: s.wlog)) (map (mark w) s.futs)

(** val wake_list : n list -> st -> st **)

let wake_list ws s =
  fold_left (fun s0 w -> wake w s0) ws s

(** val wake_producer : st -> st **)

let wake_producer s =
  match s.pw with
  | Some w -> wake w (set_pw s None)
  | None -> s

(** val drain : n -> st -> st **)

let drain slot s =
  let ws = map snd (filter (fun p -> N.eqb (fst p) slot) s.regs) in
  wake_list ws
    (set_regs s (filter (fun p -> negb (N.eqb (fst p) slot)) s.regs))

(** val wake_all : st -> st **)

let wake_all s =
  wake_list (map snd s.regs) (set_regs s [])

(** val has_reg : n -> n -> (n * n) list -> bool **)

let has_reg slot w l =
  existsb (fun p -> (&&) (N.eqb (fst p) slot) (N.eqb (snd p) w)) l

(** val register : n -> n -> st -> st **)

let register slot w s =
  if has_reg slot w s.regs
  then s
  else set_regs s (app s.regs ((slot, w) :: []))

(** val cursors : st -> n list **)

let cursors s =
  map (fun p -> (snd p).r_cur) (filter (fun p -> (snd p).r_reg) s.rxs)

(** val minl : n list -> n option **)

let rec minl = function
| [] -> None
| x :: t -> (match minl t with
             | Some m -> Some (N.min x m)
             | None -> Some x)

(** val space : st -> n option **)

let space s =
  match minl (cursors s) with
  | Some m -> Some (N.sub s.cap (N.min (N.sub (head s) m) s.cap))
  | None -> None

(** val write1 : n -> st -> st **)

let write1 v s =
  let h = head s in
  let s1 =
    if N.leb s.cap h
    then add_drops s ((nth (N.to_nat (N.sub h s.cap)) s.log N0) :: [])
    else s
  in
  drain (N.modulo h s.cap) (set_log s1 (app s1.log (v :: [])))

(** val write_many : n list -> st -> st **)

let write_many vs s =
  fold_left (fun s0 v -> write1 v s0) vs s

type sres =
| SOk
| SFull
| SClosedR

(** val try_send_core : n -> st -> st * sres **)

let try_send_core v s =
  match minl (cursors s) with
  | Some m ->
    if N.leb s.cap (N.sub (head s) m) then (s, SFull) else ((write1 v s), SOk)
  | None -> (s, SClosedR)

(** val firstnN : n -> 'a1 list -> 'a1 list **)

let firstnN n0 l =
  firstn (N.to_nat n0) l

(** val skipnN : n -> 'a1 list -> 'a1 list **)

let skipnN n0 l =
  skipn (N.to_nat n0) l

(** val slot_index : st -> n -> n **)

let slot_index s idx =
  N.add idx (N.mul s.cap (N.div (N.sub (N.sub (head s) (Npos XH)) idx) s.cap))

(** val slot_val : st -> n -> n **)

let slot_val s idx =
  nth (N.to_nat (slot_index s idx)) s.log N0

(** val in_window : st -> n -> bool **)

let in_window s t =
  (&&) (N.ltb t (head s)) (N.leb (head s) (N.add t s.cap))

type rres =
| RVal of n
| REmpty
| RDisc

(** val adv : rx -> n -> rx **)

let adv x k =
  { r_cur = (N.add x.r_cur k); r_start = x.r_start; r_reg = x.r_reg;
    r_closed = x.r_closed; r_async = x.r_async; r_live = x.r_live; r_taint =
    x.r_taint }

(** val try_recv_core : n -> rx -> st -> st * rres **)

let try_recv_core r x s =
  let t = x.r_cur in
  if in_window s t
  then let v = nth (N.to_nat t) s.log N0 in
       ((wake_producer (add_drops (set_rx s r (adv x (Npos XH))) (v :: []))),
       (RVal v))
  else if (&&) s.pdrop (N.leb (head s) t) then (s, RDisc) else (s, REmpty)

type bres =
| BVals of n list
| BEmpty
| BDisc

(** val seqN : n -> nat -> n list **)

let rec seqN a = function
| O -> []
| S k' -> a :: (seqN (N.add a (Npos XH)) k')

(** val try_recv_batch_core : n -> rx -> n -> st -> st * bres **)

let try_recv_batch_core r x n0 s =
  let t = x.r_cur in
  if N.leb (head s) t
  then (s, (if s.pdrop then BDisc else BEmpty))
  else let k = N.min (N.sub (head s) t) n0 in
       let vs = map (slot_val s) (seqN t (N.to_nat k)) in
       ((wake_producer (add_drops (set_rx s r (adv x k)) vs)), (BVals vs))

(** val fut_rx : fkind -> n option **)

let fut_rx = function
| FRecv r -> Some r
| FRecvB (r, _) -> Some r
| _ -> None

(** val rx_busy : st -> n -> bool **)

let rx_busy s r =
  existsb (fun p ->
    (&&) (snd p).f_live
      (match fut_rx (snd p).f_kind with
       | Some r' -> N.eqb r r'
       | None -> false)) s.futs

(** val tx_busy : st -> bool **)

let tx_busy s =
  existsb (fun p ->
    (&&) (snd p).f_live
      (match fut_rx (snd p).f_kind with
       | Some _ -> false
       | None -> true)) s.futs

(** val held : fkind -> n list **)

let held = function
| FSend v -> v :: []
| FSendB (rest, _, _) -> rest
| FSendM (rest, _) -> rest
| _ -> []

(** val kill : st -> n -> fut -> st **)

let kill s f x =
  set_fut s f { f_kind = x.f_kind; f_live = false; f_wait = None; f_woken =
    false; f_disp = false }

(** val pend : st -> n -> fkind -> n -> st **)

let pend s f k w =
  set_fut s f { f_kind = k; f_live = true; f_wait = (Some w); f_woken =
    false; f_disp = false }

(** val displace : n -> n -> (n * fut) -> n * fut **)

let displace w f p = match p with
| (k, x) ->
  if N.eqb k f
  then p
  else (match fut_rx x.f_kind with
        | Some _ -> p
        | None ->
          (match x.f_wait with
           | Some w' ->
             if N.eqb w w'
             then p
             else (k, { f_kind = x.f_kind; f_live = x.f_live; f_wait =
                    x.f_wait; f_woken = x.f_woken; f_disp = true })
           | None -> p))

(** val reg_producer : n -> n -> st -> st **)

let reg_producer f w s =
  set_pw (set_futs s (map (displace w f) s.futs)) (Some w)

(** val sender_close_internal : st -> st **)

let sender_close_internal s =
  wake_all (set_sender s s.s_alive s.s_closed s.s_async s.s_taint true)

(** val rx_unreg : rx -> rx **)

let rx_unreg x =
  { r_cur = x.r_cur; r_start = x.r_start; r_reg = false; r_closed = true;
    r_async = x.r_async; r_live = x.r_live; r_taint = x.r_taint }

(** val obs_tx : st -> out **)

let obs_tx s =
  let len =
    match minl (cursors s) with
    | Some m -> N.sub (head s) m
    | None -> N0
  in
  OObs (len, (N.eqb len N0), (N.eqb len s.cap),
  (match minl (cursors s) with
   | Some _ -> false
   | None -> true), s.cap)

(** val obs_rx : st -> rx -> out **)

let obs_rx s x =
  let len = N.sub (head s) x.r_cur in
  let e = N.leb (head s) x.r_cur in
  OObs (len, e, (N.eqb len s.cap), ((&&) s.pdrop e), s.cap)

(** val out_of_rres : n -> rres -> out -> out **)

let out_of_rres r x on_empty =
  match x with
  | RVal v -> OVal (r, v)
  | REmpty -> on_empty
  | RDisc -> ODisc r

(** val out_of_bres : n -> bres -> out -> out **)

let out_of_bres r x on_empty =
  match x with
  | BVals vs -> OVals (r, vs)
  | BEmpty -> on_empty
  | BDisc -> ODisc r

(** val send_some : n list -> st -> ((st * n) * n list) option **)

let send_some vs s =
  match space s with
  | Some sp ->
    let k = N.min sp (lenN vs) in
    Some (((write_many (firstnN k vs) s), k), (skipnN k vs))
  | None -> None

(** val with_rx : st -> n -> (rx -> st * out) -> st * out **)

let with_rx s r k =
  match get s.rxs r with
  | Some x -> if x.r_live then k x else (s, ONA)
  | None -> (s, ONA)

(** val poll_fut : st -> n -> fut -> n -> st * out **)

let poll_fut s f x w =
  match x.f_kind with
  | FRecv r ->
    (match get s.rxs r with
     | Some y ->
       if y.r_closed
       then ((kill s f x), (OReady (ODisc r)))
       else let (s', r0) = try_recv_core r y s in
            (match r0 with
             | RVal v -> ((kill s' f x), (OReady (OVal (r, v))))
             | REmpty ->
               ((pend (register (N.modulo y.r_cur s.cap) w s') f x.f_kind w),
                 OPending)
             | RDisc -> ((kill s' f x), (OReady (ODisc r))))
     | None -> (s, ONA))
  | FRecvB (r, n0) ->
    (match get s.rxs r with
     | Some y ->
       if y.r_closed
       then ((kill s f x), (OReady (ODisc r)))
       else if N.eqb n0 N0
            then ((kill s f x), (OReady (OVals (r, []))))
            else let (s', b) = try_recv_batch_core r y n0 s in
                 (match b with
                  | BVals vs -> ((kill s' f x), (OReady (OVals (r, vs))))
                  | BEmpty ->
                    ((pend (register (N.modulo y.r_cur s.cap) w s') f
                       x.f_kind w), OPending)
                  | BDisc -> ((kill s' f x), (OReady (ODisc r))))
     | None -> (s, ONA))
  | FSend v ->
    if negb s.s_alive
    then (s, ONA)
    else if s.s_closed
         then ((add_drops (kill s f x) (v :: [])), (OReady OClosed))
         else let (s', s0) = try_send_core v s in
              (match s0 with
               | SOk -> ((kill s' f x), (OReady OOk))
               | SFull ->
                 ((pend (reg_producer f w s') f x.f_kind w), OPending)
               | SClosedR ->
                 ((add_drops (kill s' f x) (v :: [])), (OReady OClosed)))
  | FSendB (rest, sent, total) ->
    if negb s.s_alive
    then (s, ONA)
    else if N.eqb sent total
         then ((add_drops (kill s f x) rest), (OReady (OBatch (BOk, total,
                []))))
         else if s.s_closed
              then ((add_drops (kill s f x) rest), (OReady (OBErr (sent,
                     rest))))
              else (match send_some rest s with
                    | Some p ->
                      let (p0, rest') = p in
                      let (s', k) = p0 in
                      if N.eqb (N.add sent k) total
                      then ((add_drops (kill s' f x) rest'), (OReady (OBatch
                             (BOk, total, []))))
                      else ((pend (reg_producer f w s') f (FSendB (rest',
                              (N.add sent k), total)) w), OPending)
                    | None ->
                      ((add_drops (kill s f x) rest), (OReady (OBErr (sent,
                        rest)))))
  | FSendM (rest, sent) ->
    if negb s.s_alive
    then (s, ONA)
    else (match rest with
          | [] -> ((kill s f x), (OReady (OMut (true, sent, []))))
          | _ :: _ ->
            if s.s_closed
            then ((add_drops (kill s f x) rest), (OReady (OMut (false, sent,
                   rest))))
            else (match send_some rest s with
                  | Some p ->
                    let (p0, rest') = p in
                    let (s', k) = p0 in
                    (match rest' with
                     | [] ->
                       ((kill s' f x), (OReady (OMut (true, (N.add sent k),
                         []))))
                     | _ :: _ ->
                       ((pend (reg_producer f w s') f (FSendM (rest',
                          (N.add sent k))) w), OPending))
                  | None ->
                    ((add_drops (kill s f x) rest), (OReady (OMut (false,
                      sent, rest))))))

(** val resident : st -> n list **)

let resident s =
  skipnN (N.sub (head s) (N.min (head s) s.cap)) s.log

(** val all_dead : st -> bool **)

let all_dead s =
  (&&) (negb s.s_alive) (forallb (fun p -> negb (snd p).r_live) s.rxs)

(** val release : st -> st **)

let release s =
  if all_dead s then add_drops s (resident s) else s

(** val new_fut : st -> n -> fkind -> st * out **)

let new_fut s f k =
  match get s.futs f with
  | Some _ -> (s, ONA)
  | None ->
    ((set_fut s f { f_kind = k; f_live = true; f_wait = None; f_woken =
       false; f_disp = false }), OOk)

(** val step : st -> op -> st * out **)

let step s = function
| TrySend v ->
  if negb s.s_alive
  then (s, ONA)
  else if s.s_closed
       then ((add_drops s (v :: [])), (OClosedV v))
       else let (s', s0) = try_send_core v s in
            (match s0 with
             | SOk -> (s', OOk)
             | SFull -> ((add_drops s' (v :: [])), (OFull v))
             | SClosedR -> ((add_drops s' (v :: [])), (OClosedV v)))
| Send v ->
  if (||) (negb s.s_alive) s.s_async
  then (s, ONA)
  else if s.s_closed
       then ((add_drops s (v :: [])), OClosed)
       else let (s', s0) = try_send_core v s in
            (match s0 with
             | SOk -> (s', OOk)
             | SFull -> (s, OWouldBlock)
             | SClosedR -> ((add_drops s' (v :: [])), OClosed))
| TrySendB vs ->
  if negb s.s_alive
  then (s, ONA)
  else (match vs with
        | [] -> (s, (OBatch (BOk, N0, [])))
        | _ :: _ ->
          if s.s_closed
          then ((add_drops s vs), (OBatch (BClosed, N0, vs)))
          else (match send_some vs s with
                | Some p ->
                  let (p0, rest) = p in
                  let (s', k) = p0 in
                  (match rest with
                   | [] -> (s', (OBatch (BOk, k, [])))
                   | _ :: _ ->
                     ((add_drops s' rest), (OBatch (BFull, k, rest))))
                | None -> ((add_drops s vs), (OBatch (BClosed, N0, vs)))))
| TrySendM vs ->
  if negb s.s_alive
  then (s, ONA)
  else (match vs with
        | [] -> (s, (OMut (true, N0, [])))
        | _ :: _ ->
          if s.s_closed
          then ((add_drops s vs), (OMut (false, N0, vs)))
          else (match send_some vs s with
                | Some p ->
                  let (p0, rest) = p in
                  let (s', k) = p0 in
                  ((add_drops s' rest), (OMut (true, k, rest)))
                | None -> ((add_drops s vs), (OMut (false, N0, vs)))))
| SendB vs ->
  if (||) (negb s.s_alive) s.s_async
  then (s, ONA)
  else (match vs with
        | [] -> (s, (OBatch (BOk, N0, [])))
        | _ :: _ ->
          if s.s_closed
          then ((add_drops s vs), (OBErr (N0, vs)))
          else (match send_some vs s with
                | Some p ->
                  let (p0, rest) = p in
                  let (s', k) = p0 in
                  (match rest with
                   | [] -> (s', (OBatch (BOk, k, [])))
                   | _ :: _ -> (s, OWouldBlock))
                | None -> ((add_drops s vs), (OBErr (N0, vs)))))
| SendM vs ->
  if (||) (negb s.s_alive) s.s_async
  then (s, ONA)
  else (match vs with
        | [] -> (s, (OMut (true, N0, [])))
        | _ :: _ ->
          if s.s_closed
          then ((add_drops s vs), (OMut (false, N0, vs)))
          else (match send_some vs s with
                | Some p ->
                  let (p0, rest) = p in
                  let (s', k) = p0 in
                  (match rest with
                   | [] -> (s', (OMut (true, k, [])))
                   | _ :: _ -> (s, OWouldBlock))
                | None -> ((add_drops s vs), (OMut (false, N0, vs)))))
| SClose ->
  if negb s.s_alive
  then (s, ONA)
  else if tx_busy s
       then (s, OBusy)
       else if s.s_closed
            then (s, OCloseErr)
            else ((sender_close_internal
                    (set_sender s true true s.s_async s.s_taint s.pdrop)),
                   OOk)
| SDrop ->
  if negb s.s_alive
  then (s, ONA)
  else if tx_busy s
       then (s, OBusy)
       else let s1 = if s.s_closed then s else sender_close_internal s in
            ((release
               (set_sender s1 false true s1.s_async s1.s_taint s1.pdrop)),
            OOk)
| SConv ->
  if negb s.s_alive
  then (s, ONA)
  else if tx_busy s
       then (s, OBusy)
       else if s.fixedm
            then ((set_sender s true s.s_closed (negb s.s_async) s.s_taint
                    s.pdrop), OOk)
            else ((set_sender s true false (negb s.s_async)
                    ((||) s.s_taint s.s_closed) s.pdrop), OOk)
| SObs -> if negb s.s_alive then (s, ONA) else (s, (obs_tx s))
| TryRecv r ->
  with_rx s r (fun x ->
    if x.r_closed
    then (s, (ODisc r))
    else let (s', res) = try_recv_core r x s in
         (s', (out_of_rres r res (OEmpty r))))
| Recv r ->
  with_rx s r (fun x ->
    if x.r_async
    then (s, ONA)
    else if x.r_closed
         then (s, (ODisc r))
         else let (s', res) = try_recv_core r x s in
              (s', (out_of_rres r res OWouldBlock)))
| RecvT r ->
  with_rx s r (fun x ->
    if x.r_async
    then (s, ONA)
    else if x.r_closed
         then (s, (ODisc r))
         else let (s', res) = try_recv_core r x s in
              (s', (out_of_rres r res OTimeout)))
| TryRecvB (r, n0) ->
  with_rx s r (fun x ->
    if N.eqb n0 N0
    then (s, (OVals (r, [])))
    else if x.r_closed
         then (s, (ODisc r))
         else let (s', res) = try_recv_batch_core r x n0 s in
              (s', (out_of_bres r res (OEmpty r))))
| RecvB (r, n0) ->
  with_rx s r (fun x ->
    if x.r_async
    then (s, ONA)
    else if N.eqb n0 N0
         then (s, (OVals (r, [])))
         else if x.r_closed
              then (s, (ODisc r))
              else let (s', res) = try_recv_batch_core r x n0 s in
                   (s', (out_of_bres r res OWouldBlock)))
| RClose r ->
  with_rx s r (fun x ->
    if x.r_closed
    then (s, OCloseErr)
    else ((wake_producer (set_rx s r (rx_unreg x))), OOk))
| RDrop r ->
  with_rx s r (fun x ->
    if rx_busy s r
    then (s, OBusy)
    else let s1 =
           if x.r_closed then s else wake_producer (set_rx s r (rx_unreg x))
         in
         (match get s1.rxs r with
          | Some y ->
            ((release
               (set_rx s1 r { r_cur = y.r_cur; r_start = y.r_start; r_reg =
                 y.r_reg; r_closed = y.r_closed; r_async = y.r_async;
                 r_live = false; r_taint = y.r_taint })), OOk)
          | None -> (s1, OOk)))
| RClone (r, c) ->
  with_rx s r (fun x ->
    match get s.rxs c with
    | Some _ -> (s, ONA)
    | None ->
      if (&&) s.fixedm x.r_closed
      then ((set_rx s c { r_cur = x.r_cur; r_start = x.r_cur; r_reg = false;
              r_closed = true; r_async = x.r_async; r_live = true; r_taint =
              x.r_taint }), OOk)
      else ((set_rx s c { r_cur = x.r_cur; r_start = x.r_cur; r_reg = true;
              r_closed = false; r_async = x.r_async; r_live = true; r_taint =
              ((||) x.r_taint (negb x.r_reg)) }), OOk))
| RConv r ->
  with_rx s r (fun x ->
    if rx_busy s r
    then (s, OBusy)
    else if s.fixedm
         then ((set_rx s r { r_cur = x.r_cur; r_start = x.r_start; r_reg =
                 x.r_reg; r_closed = x.r_closed; r_async = (negb x.r_async);
                 r_live = true; r_taint = x.r_taint }), OOk)
         else ((set_rx s r { r_cur = x.r_cur; r_start = x.r_start; r_reg =
                 x.r_reg; r_closed = false; r_async = (negb x.r_async);
                 r_live = true; r_taint = ((||) x.r_taint x.r_closed) }), OOk))
| RObs r -> with_rx s r (fun x -> (s, (obs_rx s x)))
| MkRecv (f, r) ->
  with_rx s r (fun x -> if x.r_async then new_fut s f (FRecv r) else (s, ONA))
| MkRecvB (f, r, n0) ->
  with_rx s r (fun x ->
    if x.r_async then new_fut s f (FRecvB (r, n0)) else (s, ONA))
| MkSend (f, v) ->
  if (&&) s.s_alive s.s_async then new_fut s f (FSend v) else (s, ONA)
| MkSendB (f, vs) ->
  if (&&) s.s_alive s.s_async
  then new_fut s f (FSendB (vs, N0, (lenN vs)))
  else (s, ONA)
| MkSendM (f, vs) ->
  if (&&) s.s_alive s.s_async then new_fut s f (FSendM (vs, N0)) else (s, ONA)
| Poll (f, w) ->
  (match get s.futs f with
   | Some x -> if x.f_live then poll_fut s f x w else (s, ONA)
   | None -> (s, ONA))
| DropF f ->
  (match get s.futs f with
   | Some x ->
     if x.f_live
     then ((add_drops (kill s f x) (held x.f_kind)), OOk)
     else (s, ONA)
   | None -> (s, ONA))
| PollNext (r, w) ->
  with_rx s r (fun x ->
    if negb x.r_async
    then (s, ONA)
    else if rx_busy s r
         then (s, OBusy)
         else if x.r_closed
              then (s, (OReady ONone))
              else let (s', r0) = try_recv_core r x s in
                   (match r0 with
                    | RVal v -> (s', (OReady (OVal (r, v))))
                    | REmpty ->
                      ((register (N.modulo x.r_cur s.cap) w s'), OPending)
                    | RDisc -> (s', (OReady ONone))))
| Snap -> (s, (OSnap s.dlog))

(** val init : bool -> n -> bool -> st **)

let init fx c async =
  { fixedm = fx; cap = c; log = []; s_alive = true; s_closed = false;
    s_async = async; s_taint = false; pdrop = false; rxs = ((N0, { r_cur =
    N0; r_start = N0; r_reg = true; r_closed = false; r_async = async;
    r_live = true; r_taint = false }) :: []); regs = []; pw = None; futs =
    []; wlog = []; dlog = [] }

(** val live_futs : st -> n list **)

let live_futs s =
  map fst (filter (fun p -> (snd p).f_live) s.futs)

(** val live_rxs : st -> n list **)

let live_rxs s =
  map fst (filter (fun p -> (snd p).r_live) s.rxs)

(** val teardown : st -> st **)

let teardown s =
  let s1 = fold_left (fun s0 f -> fst (step s0 (DropF f))) (live_futs s) s in
  let s2 = fold_left (fun s0 r -> fst (step s0 (RDrop r))) (live_rxs s1) s1 in
  fst (step s2 SDrop)
