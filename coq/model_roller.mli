
val negb : bool -> bool

type nat =
| O
| S of nat

val fst : ('a1 * 'a2) -> 'a1

val snd : ('a1 * 'a2) -> 'a2

val app : 'a1 list -> 'a1 list -> 'a1 list

type comparison =
| Eq
| Lt
| Gt

val add : nat -> nat -> nat

val eqb : bool -> bool -> bool

val map : ('a1 -> 'a2) -> 'a1 list -> 'a2 list

val filter : ('a1 -> bool) -> 'a1 list -> 'a1 list

val firstn : nat -> 'a1 list -> 'a1 list

val skipn : nat -> 'a1 list -> 'a1 list

type positive =
| XI of positive
| XO of positive
| XH

type n =
| N0
| Npos of positive

module Pos :
 sig
  type mask =
  | IsNul
  | IsPos of positive
  | IsNeg
 end

module Coq_Pos :
 sig
  val succ : positive -> positive

  val add : positive -> positive -> positive

  val add_carry : positive -> positive -> positive

  val pred_double : positive -> positive

  type mask = Pos.mask =
  | IsNul
  | IsPos of positive
  | IsNeg

  val succ_double_mask : mask -> mask

  val double_mask : mask -> mask

  val double_pred_mask : positive -> mask

  val sub_mask : positive -> positive -> mask

  val sub_mask_carry : positive -> positive -> mask

  val compare_cont : comparison -> positive -> positive -> comparison

  val compare : positive -> positive -> comparison

  val eqb : positive -> positive -> bool

  val iter_op : ('a1 -> 'a1 -> 'a1) -> positive -> 'a1 -> 'a1

  val to_nat : positive -> nat
 end

module N :
 sig
  val add : n -> n -> n

  val sub : n -> n -> n

  val compare : n -> n -> comparison

  val eqb : n -> n -> bool

  val leb : n -> n -> bool

  val ltb : n -> n -> bool

  val max : n -> n -> n

  val to_nat : n -> nat
 end

type rcd = n * n

val bytes : rcd list -> n

type policy = { p_never : bool; p_max_size : n option;
                p_max_retained : n option; p_compression : n option }

val bufcap : n

type rfile = { rp : n; rs : n; rz : bool; rdata : rcd list }

val key : rfile -> n * n

val key_ltb : (n * n) -> (n * n) -> bool

type state = { rolled : rfile list; adisk : rcd list; abuf : rcd list;
               cur_size : n; cur_period : n; gone : (n * n) list }

type name =
| Active
| Rolled of n * n * bool

val dir_of : state -> (name * rcd list) list

val eff : policy -> n -> n

val flush : state -> state

val last_seq : n -> rfile list -> n

val same_name : rfile -> rfile -> bool

val fs_remove : rfile -> rfile list -> rfile list

val insert_desc : rfile -> rfile list -> rfile list

val gz : rfile -> rfile

val compress_from : nat -> rfile list -> rfile list

val roll_file : state -> rfile

val roll : policy -> state -> n -> state

val bufwrite : state -> rcd -> state

val append : state -> rcd -> state

val write : policy -> state -> n -> rcd -> state

val restart : policy -> state -> n -> state

val start : policy -> n -> state

type op =
| Write of n * rcd
| Restart of n
| Flush

val step : policy -> state -> op -> state
