
(** val negb : bool -> bool **)

let negb = function
| true -> false
| false -> true

type nat =
| O
| S of nat

(** val fst : ('a1 * 'a2) -> 'a1 **)

let fst = function
| (x, _) -> x

(** val snd : ('a1 * 'a2) -> 'a2 **)

let snd = function
| (_, y) -> y

(** val app : 'a1 list -> 'a1 list -> 'a1 list **)

let rec app l m =
  match l with
  | [] -> m
  | a :: l1 -> a :: (app l1 m)

type comparison =
| Eq
| Lt
| Gt

module Coq__1 = struct
 (** val add : nat -> nat -> nat **)
 let rec add n0 m =
   match n0 with
   | O -> m
   | S p -> S (add p m)
end
include Coq__1

(** val eqb : bool -> bool -> bool **)

let eqb b1 b2 =
  if b1 then b2 else if b2 then false else true

(** val map : ('a1 -> 'a2) -> 'a1 list -> 'a2 list **)

let rec map f = function
| [] -> []
| a :: t -> (f a) :: (map f t)

(** val filter : ('a1 -> bool) -> 'a1 list -> 'a1 list **)

let rec filter f = function
| [] -> []
| x :: l0 -> if f x then x :: (filter f l0) else filter f l0

(** val firstn : nat -> 'a1 list -> 'a1 list **)

let rec firstn n0 l =
  match n0 with
  | O -> []
  | S n1 -> (match l with
             | [] -> []
             | a :: l0 -> a :: (firstn n1 l0))

(** val skipn : nat -> 'a1 list -> 'a1 list **)

let rec skipn n0 l =
  match n0 with
  | O -> l
  | S n1 -> (match l with
             | [] -> []
             | _ :: l0 -> skipn n1 l0)

type positive =
| XI of positive
| XO of positive
| XH

type n =
| N0
| Npos of positive

module Pos =
 struct
  type mask =
  | IsNul
  | IsPos of positive
  | IsNeg
 end

module Coq_Pos =
 struct
  (** val succ : positive -> positive **)

  let rec succ = function
  | XI p -> XO (succ p)
  | XO p -> XI p
  | XH -> XO XH

  (** val add : positive -> positive -> positive **)

  let rec add x y =
    match x with
    | XI p ->
      (match y with
       | XI q -> XO (add_carry p q)
       | XO q -> XI (add p q)
       | XH -> XO (succ p))
    | XO p ->
      (match y with
       | XI q -> XI (add p q)
       | XO q -> XO (add p q)
       | XH -> XI p)
    | XH -> (match y with
             | XI q -> XO (succ q)
             | XO q -> XI q
             | XH -> XO XH)

  (** val add_carry : positive -> positive -> positive **)

  and add_carry x y =
    match x with
    | XI p ->
      (match y with
       | XI q -> XI (add_carry p q)
       | XO q -> XO (add_carry p q)
       | XH -> XI (succ p))
    | XO p ->
      (match y with
       | XI q -> XO (add_carry p q)
       | XO q -> XI (add p q)
       | XH -> XO (succ p))
    | XH ->
      (match y with
       | XI q -> XI (succ q)
       | XO q -> XO (succ q)
       | XH -> XI XH)

  (** val pred_double : positive -> positive **)

  let rec pred_double = function
  | XI p -> XI (XO p)
  | XO p -> XI (pred_double p)
  | XH -> XH

  type mask = Pos.mask =
  | IsNul
  | IsPos of positive
  | IsNeg

  (** val succ_double_mask : mask -> mask **)

  let succ_double_mask = function
  | IsNul -> IsPos XH
  | IsPos p -> IsPos (XI p)
  | IsNeg -> IsNeg

  (** val double_mask : mask -> mask **)

  let double_mask = function
  | IsPos p -> IsPos (XO p)
  | x0 -> x0

  (** val double_pred_mask : positive -> mask **)

  let double_pred_mask = function
  | XI p -> IsPos (XO (XO p))
  | XO p -> IsPos (XO (pred_double p))
  | XH -> IsNul

  (** val sub_mask : positive -> positive -> mask **)

  let rec sub_mask x y =
    match x with
    | XI p ->
      (match y with
       | XI q -> double_mask (sub_mask p q)
       | XO q -> succ_double_mask (sub_mask p q)
       | XH -> IsPos (XO p))
    | XO p ->
      (match y with
       | XI q -> succ_double_mask (sub_mask_carry p q)
       | XO q -> double_mask (sub_mask p q)
       | XH -> IsPos (pred_double p))
    | XH -> (match y with
             | XH -> IsNul
             | _ -> IsNeg)

  (** val sub_mask_carry : positive -> positive -> mask **)

  and sub_mask_carry x y =
    match x with
    | XI p ->
      (match y with
       | XI q -> succ_double_mask (sub_mask_carry p q)
       | XO q -> double_mask (sub_mask p q)
       | XH -> IsPos (pred_double p))
    | XO p ->
      (match y with
       | XI q -> double_mask (sub_mask_carry p q)
       | XO q -> succ_double_mask (sub_mask_carry p q)
       | XH -> double_pred_mask p)
    | XH -> IsNeg

  (** val compare_cont : comparison -> positive -> positive -> comparison **)

  let rec compare_cont r x y =
    match x with
    | XI p ->
      (match y with
       | XI q -> compare_cont r p q
       | XO q -> compare_cont Gt p q
       | XH -> Gt)
    | XO p ->
      (match y with
       | XI q -> compare_cont Lt p q
       | XO q -> compare_cont r p q
       | XH -> Gt)
    | XH -> (match y with
             | XH -> r
             | _ -> Lt)

  (** val compare : positive -> positive -> comparison **)

  let compare =
    compare_cont Eq

  (** val eqb : positive -> positive -> bool **)

  let rec eqb p q =
    match p with
    | XI p0 -> (match q with
                | XI q0 -> eqb p0 q0
                | _ -> false)
    | XO p0 -> (match q with
                | XO q0 -> eqb p0 q0
                | _ -> false)
    | XH -> (match q with
             | XH -> true
             | _ -> false)

  (** val iter_op : ('a1 -> 'a1 -> 'a1) -> positive -> 'a1 -> 'a1 **)

  let rec iter_op op0 p a =
    match p with
    | XI p0 -> op0 a (iter_op op0 p0 (op0 a a))
    | XO p0 -> iter_op op0 p0 (op0 a a)
    | XH -> a

  (** val to_nat : positive -> nat **)

  let to_nat x =
    iter_op Coq__1.add x (S O)
 end

module N =
 struct
  (** val add : n -> n -> n **)

  let add n0 m =
    match n0 with
    | N0 -> m
    | Npos p -> (match m with
                 | N0 -> n0
                 | Npos q -> Npos (Coq_Pos.add p q))

  (** val sub : n -> n -> n **)

  let sub n0 m =
    match n0 with
    | N0 -> N0
    | Npos n' ->
      (match m with
       | N0 -> n0
       | Npos m' ->
         (match Coq_Pos.sub_mask n' m' with
          | Coq_Pos.IsPos p -> Npos p
          | _ -> N0))

  (** val compare : n -> n -> comparison **)

  let compare n0 m =
    match n0 with
    | N0 -> (match m with
             | N0 -> Eq
             | Npos _ -> Lt)
    | Npos n' -> (match m with
                  | N0 -> Gt
                  | Npos m' -> Coq_Pos.compare n' m')

  (** val eqb : n -> n -> bool **)

  let eqb n0 m =
    match n0 with
    | N0 -> (match m with
             | N0 -> true
             | Npos _ -> false)
    | Npos p -> (match m with
                 | N0 -> false
                 | Npos q -> Coq_Pos.eqb p q)

  (** val leb : n -> n -> bool **)

  let leb x y =
    match compare x y with
    | Gt -> false
    | _ -> true

  (** val ltb : n -> n -> bool **)

  let ltb x y =
    match compare x y with
    | Lt -> true
    | _ -> false

  (** val max : n -> n -> n **)

  let max n0 n' =
    match compare n0 n' with
    | Gt -> n0
    | _ -> n'

  (** val to_nat : n -> nat **)

  let to_nat = function
  | N0 -> O
  | Npos p -> Coq_Pos.to_nat p
 end

type rcd = n * n

(** val bytes : rcd list -> n **)

let rec bytes = function
| [] -> N0
| r :: t -> N.add (snd r) (bytes t)

type policy = { p_never : bool; p_max_size : n option;
                p_max_retained : n option; p_compression : n option }

(** val bufcap : n **)

let bufcap =
  Npos (XO (XO (XO (XO (XO (XO (XO (XO (XO (XO (XO (XO (XO XH)))))))))))))

type rfile = { rp : n; rs : n; rz : bool; rdata : rcd list }

(** val key : rfile -> n * n **)

let key f =
  (f.rp, f.rs)

(** val key_ltb : (n * n) -> (n * n) -> bool **)

let key_ltb a b =
  (||) (N.ltb (fst a) (fst b))
    ((&&) (N.eqb (fst a) (fst b)) (N.ltb (snd a) (snd b)))

type state = { rolled : rfile list; adisk : rcd list; abuf : rcd list;
               cur_size : n; cur_period : n; gone : (n * n) list }

type name =
| Active
| Rolled of n * n * bool

(** val dir_of : state -> (name * rcd list) list **)

let dir_of st =
  (Active,
    st.adisk) :: (map (fun f -> ((Rolled (f.rp, f.rs, f.rz)), f.rdata))
                   st.rolled)

(** val eff : policy -> n -> n **)

let eff pol p =
  if pol.p_never then N0 else p

(** val flush : state -> state **)

let flush st =
  { rolled = st.rolled; adisk = (app st.adisk st.abuf); abuf = []; cur_size =
    st.cur_size; cur_period = st.cur_period; gone = st.gone }

(** val last_seq : n -> rfile list -> n **)

let rec last_seq p = function
| [] -> N0
| f :: t -> if N.eqb f.rp p then N.max f.rs (last_seq p t) else last_seq p t

(** val same_name : rfile -> rfile -> bool **)

let same_name a b =
  (&&) ((&&) (N.eqb a.rp b.rp) (N.eqb a.rs b.rs)) (eqb a.rz b.rz)

(** val fs_remove : rfile -> rfile list -> rfile list **)

let fs_remove nf l =
  filter (fun g -> negb (same_name g nf)) l

(** val insert_desc : rfile -> rfile list -> rfile list **)

let rec insert_desc f = function
| [] -> f :: []
| g :: t ->
  if key_ltb (key g) (key f) then f :: (g :: t) else g :: (insert_desc f t)

(** val gz : rfile -> rfile **)

let gz f =
  { rp = f.rp; rs = f.rs; rz = true; rdata = f.rdata }

(** val compress_from : nat -> rfile list -> rfile list **)

let rec compress_from k = function
| [] -> []
| f :: t ->
  (match k with
   | O -> (gz f) :: (compress_from O t)
   | S k' -> f :: (compress_from k' t))

(** val roll_file : state -> rfile **)

let roll_file st =
  { rp = st.cur_period; rs =
    (N.add (last_seq st.cur_period st.rolled) (Npos XH)); rz = false; rdata =
    (app st.adisk st.abuf) }

(** val roll : policy -> state -> n -> state **)

let roll pol st now =
  let nf = roll_file st in
  let all = insert_desc nf (fs_remove nf st.rolled) in
  let kept =
    match pol.p_max_retained with
    | Some m -> firstn (N.to_nat m) all
    | None -> all
  in
  let del =
    match pol.p_max_retained with
    | Some m -> skipn (N.to_nat m) all
    | None -> []
  in
  let kept' =
    match pol.p_compression with
    | Some k -> compress_from (N.to_nat k) kept
    | None -> kept
  in
  { rolled = kept'; adisk = []; abuf = []; cur_size = N0; cur_period =
  (eff pol now); gone = (app (map key del) st.gone) }

(** val bufwrite : state -> rcd -> state **)

let bufwrite st r =
  let n0 = snd r in
  let spare = N.sub bufcap (bytes st.abuf) in
  if N.ltb n0 spare
  then { rolled = st.rolled; adisk = st.adisk; abuf =
         (app st.abuf (r :: [])); cur_size = st.cur_size; cur_period =
         st.cur_period; gone = st.gone }
  else let st1 = if N.ltb spare n0 then flush st else st in
       if N.leb bufcap n0
       then { rolled = st1.rolled; adisk = (app st1.adisk (r :: [])); abuf =
              st1.abuf; cur_size = st1.cur_size; cur_period = st1.cur_period;
              gone = st1.gone }
       else { rolled = st1.rolled; adisk = st1.adisk; abuf =
              (app st1.abuf (r :: [])); cur_size = st1.cur_size; cur_period =
              st1.cur_period; gone = st1.gone }

(** val append : state -> rcd -> state **)

let append st r =
  let st' = bufwrite st r in
  { rolled = st'.rolled; adisk = st'.adisk; abuf = st'.abuf; cur_size =
  (N.add st.cur_size (snd r)); cur_period = st'.cur_period; gone = st'.gone }

(** val write : policy -> state -> n -> rcd -> state **)

let write pol st now r =
  let st1 = if N.ltb st.cur_period (eff pol now) then roll pol st now else st
  in
  if N.eqb (snd r) N0
  then st1
  else let st2 = append st1 r in
       (match pol.p_max_size with
        | Some m -> if N.leb m st2.cur_size then roll pol st2 now else st2
        | None -> st2)

(** val restart : policy -> state -> n -> state **)

let restart pol st now =
  let st1 = flush st in
  { rolled = st1.rolled; adisk = st1.adisk; abuf = []; cur_size =
  (bytes st1.adisk); cur_period = (eff pol now); gone = st1.gone }

(** val start : policy -> n -> state **)

let start pol now =
  { rolled = []; adisk = []; abuf = []; cur_size = N0; cur_period =
    (eff pol now); gone = [] }

type op =
| Write of n * rcd
| Restart of n
| Flush

(** val step : policy -> state -> op -> state **)

let step pol st = function
| Write (p, r) -> write pol st p r
| Restart p -> restart pol st p
| Flush -> flush st
