
(** val negb : bool -> bool **)

let negb = function
| true -> false
| false -> true

type nat =
| O
| S of nat

(** val fst : ('a1 * 'a2) -> 'a1 **)

let fst = function
| (x, _) -> x

(** val snd : ('a1 * 'a2) -> 'a2 **)

let snd = function
| (_, y) -> y

(** val length : 'a1 list -> nat **)

let rec length = function
| [] -> O
| _ :: l' -> S (length l')

(** val app : 'a1 list -> 'a1 list -> 'a1 list **)

let rec app l m =
  match l with
  | [] -> m
  | a :: l1 -> a :: (app l1 m)

module Coq__1 = struct
 (** val add : nat -> nat -> nat **)
 let rec add n0 m =
   match n0 with
   | O -> m
   | S p -> S (add p m)
end
include Coq__1

module Nat =
 struct
  (** val min : nat -> nat -> nat **)

  let rec min n0 m =
    match n0 with
    | O -> O
    | S n' -> (match m with
               | O -> O
               | S m' -> S (min n' m'))
 end

(** val existsb : ('a1 -> bool) -> 'a1 list -> bool **)

let rec existsb f = function
| [] -> false
| a :: l0 -> (||) (f a) (existsb f l0)

(** val filter : ('a1 -> bool) -> 'a1 list -> 'a1 list **)

let rec filter f = function
| [] -> []
| x :: l0 -> if f x then x :: (filter f l0) else filter f l0

(** val firstn : nat -> 'a1 list -> 'a1 list **)

let rec firstn n0 l =
  match n0 with
  | O -> []
  | S n1 -> (match l with
             | [] -> []
             | a :: l0 -> a :: (firstn n1 l0))

(** val skipn : nat -> 'a1 list -> 'a1 list **)

let rec skipn n0 l =
  match n0 with
  | O -> l
  | S n1 -> (match l with
             | [] -> []
             | _ :: l0 -> skipn n1 l0)

type positive =
| XI of positive
| XO of positive
| XH

type n =
| N0
| Npos of positive

module Pos =
 struct
  type mask =
  | IsNul
  | IsPos of positive
  | IsNeg
 end

module Coq_Pos =
 struct
  (** val succ : positive -> positive **)

  let rec succ = function
  | XI p -> XO (succ p)
  | XO p -> XI p
  | XH -> XO XH

  (** val add : positive -> positive -> positive **)

  let rec add x y =
    match x with
    | XI p ->
      (match y with
       | XI q0 -> XO (add_carry p q0)
       | XO q0 -> XI (add p q0)
       | XH -> XO (succ p))
    | XO p ->
      (match y with
       | XI q0 -> XI (add p q0)
       | XO q0 -> XO (add p q0)
       | XH -> XI p)
    | XH -> (match y with
             | XI q0 -> XO (succ q0)
             | XO q0 -> XI q0
             | XH -> XO XH)

  (** val add_carry : positive -> positive -> positive **)

  and add_carry x y =
    match x with
    | XI p ->
      (match y with
       | XI q0 -> XI (add_carry p q0)
       | XO q0 -> XO (add_carry p q0)
       | XH -> XI (succ p))
    | XO p ->
      (match y with
       | XI q0 -> XO (add_carry p q0)
       | XO q0 -> XI (add p q0)
       | XH -> XO (succ p))
    | XH ->
      (match y with
       | XI q0 -> XI (succ q0)
       | XO q0 -> XO (succ q0)
       | XH -> XI XH)

  (** val pred_double : positive -> positive **)

  let rec pred_double = function
  | XI p -> XI (XO p)
  | XO p -> XI (pred_double p)
  | XH -> XH

  type mask = Pos.mask =
  | IsNul
  | IsPos of positive
  | IsNeg

  (** val succ_double_mask : mask -> mask **)

  let succ_double_mask = function
  | IsNul -> IsPos XH
  | IsPos p -> IsPos (XI p)
  | IsNeg -> IsNeg

  (** val double_mask : mask -> mask **)

  let double_mask = function
  | IsPos p -> IsPos (XO p)
  | x0 -> x0

  (** val double_pred_mask : positive -> mask **)

  let double_pred_mask = function
  | XI p -> IsPos (XO (XO p))
  | XO p -> IsPos (XO (pred_double p))
  | XH -> IsNul

  (** val sub_mask : positive -> positive -> mask **)

  let rec sub_mask x y =
    match x with
    | XI p ->
      (match y with
       | XI q0 -> double_mask (sub_mask p q0)
       | XO q0 -> succ_double_mask (sub_mask p q0)
       | XH -> IsPos (XO p))
    | XO p ->
      (match y with
       | XI q0 -> succ_double_mask (sub_mask_carry p q0)
       | XO q0 -> double_mask (sub_mask p q0)
       | XH -> IsPos (pred_double p))
    | XH -> (match y with
             | XH -> IsNul
             | _ -> IsNeg)

  (** val sub_mask_carry : positive -> positive -> mask **)

  and sub_mask_carry x y =
    match x with
    | XI p ->
      (match y with
       | XI q0 -> succ_double_mask (sub_mask_carry p q0)
       | XO q0 -> double_mask (sub_mask p q0)
       | XH -> IsPos (pred_double p))
    | XO p ->
      (match y with
       | XI q0 -> double_mask (sub_mask_carry p q0)
       | XO q0 -> succ_double_mask (sub_mask_carry p q0)
       | XH -> double_pred_mask p)
    | XH -> IsNeg

  (** val eqb : positive -> positive -> bool **)

  let rec eqb p q0 =
    match p with
    | XI p0 -> (match q0 with
                | XI q1 -> eqb p0 q1
                | _ -> false)
    | XO p0 -> (match q0 with
                | XO q1 -> eqb p0 q1
                | _ -> false)
    | XH -> (match q0 with
             | XH -> true
             | _ -> false)

  (** val iter_op : ('a1 -> 'a1 -> 'a1) -> positive -> 'a1 -> 'a1 **)

  let rec iter_op op0 p a =
    match p with
    | XI p0 -> op0 a (iter_op op0 p0 (op0 a a))
    | XO p0 -> iter_op op0 p0 (op0 a a)
    | XH -> a

  (** val to_nat : positive -> nat **)

  let to_nat x =
    iter_op Coq__1.add x (S O)

  (** val of_succ_nat : nat -> positive **)

  let rec of_succ_nat = function
  | O -> XH
  | S x -> succ (of_succ_nat x)
 end

module N =
 struct
  (** val add : n -> n -> n **)

  let add n0 m =
    match n0 with
    | N0 -> m
    | Npos p -> (match m with
                 | N0 -> n0
                 | Npos q0 -> Npos (Coq_Pos.add p q0))

  (** val sub : n -> n -> n **)

  let sub n0 m =
    match n0 with
    | N0 -> N0
    | Npos n' ->
      (match m with
       | N0 -> n0
       | Npos m' ->
         (match Coq_Pos.sub_mask n' m' with
          | Coq_Pos.IsPos p -> Npos p
          | _ -> N0))

  (** val eqb : n -> n -> bool **)

  let eqb n0 m =
    match n0 with
    | N0 -> (match m with
             | N0 -> true
             | Npos _ -> false)
    | Npos p -> (match m with
                 | N0 -> false
                 | Npos q0 -> Coq_Pos.eqb p q0)

  (** val to_nat : n -> nat **)

  let to_nat = function
  | N0 -> O
  | Npos p -> Coq_Pos.to_nat p

  (** val of_nat : nat -> n **)

  let of_nat = function
  | O -> N0
  | S n' -> Npos (Coq_Pos.of_succ_nat n')
 end

(** val aget : n -> (n * 'a1) list -> 'a1 option **)

let rec aget k = function
| [] -> None
| p :: t -> let (k', x) = p in if N.eqb k k' then Some x else aget k t

(** val aset : n -> 'a1 -> (n * 'a1) list -> (n * 'a1) list **)

let rec aset k v = function
| [] -> (k, v) :: []
| p :: t ->
  let (k', x) = p in
  if N.eqb k k' then (k, v) :: t else (k', x) :: (aset k v t)

type fixes = { fx03 : bool; fx03f : bool; fx06 : bool; fx07 : bool;
               fx08 : bool; fx12 : bool; fx33 : bool }

type wst =
| Waiting
| WClosed
| Success
| Cancelled

(** val is_waiting : wst -> bool **)

let is_waiting = function
| Waiting -> true
| _ -> false

(** val is_success : wst -> bool **)

let is_success = function
| Success -> true
| _ -> false

type handle = { h_tx : bool; h_async : bool; h_closed : bool; h_live : bool }

type fut = { f_recv : bool; f_h : n; f_item : n option; f_state : wst;
             f_reg : bool; f_live : bool; f_done : bool }

type taints = { t03 : bool; t03f : bool; t06 : bool; t07 : bool; t08 : 
                bool; t12 : bool; t33 : bool }

(** val no_taint : taints **)

let no_taint =
  { t03 = false; t03f = false; t06 = false; t07 = false; t08 = false; t12 =
    false; t33 = false }

type st = { cap : n; fx : fixes; q : n list; sc : n; rc : n;
            asq : (n * n) list; arq : (n * n) list; hs : (n * handle) list;
            fs : (n * fut) list; next : n; acc : n list; recvd : n list;
            back : n list; dropped : n list; freed : bool; tn : taints;
            wk : n list; dk : n list; bad : bool }

(** val with_q : n list -> st -> st **)

let with_q x s =
  { cap = s.cap; fx = s.fx; q = x; sc = s.sc; rc = s.rc; asq = s.asq; arq =
    s.arq; hs = s.hs; fs = s.fs; next = s.next; acc = s.acc; recvd = s.recvd;
    back = s.back; dropped = s.dropped; freed = s.freed; tn = s.tn; wk =
    s.wk; dk = s.dk; bad = s.bad }

(** val with_sc : n -> st -> st **)

let with_sc x s =
  { cap = s.cap; fx = s.fx; q = s.q; sc = x; rc = s.rc; asq = s.asq; arq =
    s.arq; hs = s.hs; fs = s.fs; next = s.next; acc = s.acc; recvd = s.recvd;
    back = s.back; dropped = s.dropped; freed = s.freed; tn = s.tn; wk =
    s.wk; dk = s.dk; bad = s.bad }

(** val with_rc : n -> st -> st **)

let with_rc x s =
  { cap = s.cap; fx = s.fx; q = s.q; sc = s.sc; rc = x; asq = s.asq; arq =
    s.arq; hs = s.hs; fs = s.fs; next = s.next; acc = s.acc; recvd = s.recvd;
    back = s.back; dropped = s.dropped; freed = s.freed; tn = s.tn; wk =
    s.wk; dk = s.dk; bad = s.bad }

(** val with_asq : (n * n) list -> st -> st **)

let with_asq x s =
  { cap = s.cap; fx = s.fx; q = s.q; sc = s.sc; rc = s.rc; asq = x; arq =
    s.arq; hs = s.hs; fs = s.fs; next = s.next; acc = s.acc; recvd = s.recvd;
    back = s.back; dropped = s.dropped; freed = s.freed; tn = s.tn; wk =
    s.wk; dk = s.dk; bad = s.bad }

(** val with_arq : (n * n) list -> st -> st **)

let with_arq x s =
  { cap = s.cap; fx = s.fx; q = s.q; sc = s.sc; rc = s.rc; asq = s.asq; arq =
    x; hs = s.hs; fs = s.fs; next = s.next; acc = s.acc; recvd = s.recvd;
    back = s.back; dropped = s.dropped; freed = s.freed; tn = s.tn; wk =
    s.wk; dk = s.dk; bad = s.bad }

(** val with_hs : (n * handle) list -> st -> st **)

let with_hs x s =
  { cap = s.cap; fx = s.fx; q = s.q; sc = s.sc; rc = s.rc; asq = s.asq; arq =
    s.arq; hs = x; fs = s.fs; next = s.next; acc = s.acc; recvd = s.recvd;
    back = s.back; dropped = s.dropped; freed = s.freed; tn = s.tn; wk =
    s.wk; dk = s.dk; bad = s.bad }

(** val with_fs : (n * fut) list -> st -> st **)

let with_fs x s =
  { cap = s.cap; fx = s.fx; q = s.q; sc = s.sc; rc = s.rc; asq = s.asq; arq =
    s.arq; hs = s.hs; fs = x; next = s.next; acc = s.acc; recvd = s.recvd;
    back = s.back; dropped = s.dropped; freed = s.freed; tn = s.tn; wk =
    s.wk; dk = s.dk; bad = s.bad }

(** val with_next : n -> st -> st **)

let with_next x s =
  { cap = s.cap; fx = s.fx; q = s.q; sc = s.sc; rc = s.rc; asq = s.asq; arq =
    s.arq; hs = s.hs; fs = s.fs; next = x; acc = s.acc; recvd = s.recvd;
    back = s.back; dropped = s.dropped; freed = s.freed; tn = s.tn; wk =
    s.wk; dk = s.dk; bad = s.bad }

(** val with_acc : n list -> st -> st **)

let with_acc x s =
  { cap = s.cap; fx = s.fx; q = s.q; sc = s.sc; rc = s.rc; asq = s.asq; arq =
    s.arq; hs = s.hs; fs = s.fs; next = s.next; acc = x; recvd = s.recvd;
    back = s.back; dropped = s.dropped; freed = s.freed; tn = s.tn; wk =
    s.wk; dk = s.dk; bad = s.bad }

(** val with_recvd : n list -> st -> st **)

let with_recvd x s =
  { cap = s.cap; fx = s.fx; q = s.q; sc = s.sc; rc = s.rc; asq = s.asq; arq =
    s.arq; hs = s.hs; fs = s.fs; next = s.next; acc = s.acc; recvd = x;
    back = s.back; dropped = s.dropped; freed = s.freed; tn = s.tn; wk =
    s.wk; dk = s.dk; bad = s.bad }

(** val with_back : n list -> st -> st **)

let with_back x s =
  { cap = s.cap; fx = s.fx; q = s.q; sc = s.sc; rc = s.rc; asq = s.asq; arq =
    s.arq; hs = s.hs; fs = s.fs; next = s.next; acc = s.acc; recvd = s.recvd;
    back = x; dropped = s.dropped; freed = s.freed; tn = s.tn; wk = s.wk;
    dk = s.dk; bad = s.bad }

(** val with_dropped : n list -> st -> st **)

let with_dropped x s =
  { cap = s.cap; fx = s.fx; q = s.q; sc = s.sc; rc = s.rc; asq = s.asq; arq =
    s.arq; hs = s.hs; fs = s.fs; next = s.next; acc = s.acc; recvd = s.recvd;
    back = s.back; dropped = x; freed = s.freed; tn = s.tn; wk = s.wk; dk =
    s.dk; bad = s.bad }

(** val with_freed : bool -> st -> st **)

let with_freed x s =
  { cap = s.cap; fx = s.fx; q = s.q; sc = s.sc; rc = s.rc; asq = s.asq; arq =
    s.arq; hs = s.hs; fs = s.fs; next = s.next; acc = s.acc; recvd = s.recvd;
    back = s.back; dropped = s.dropped; freed = x; tn = s.tn; wk = s.wk; dk =
    s.dk; bad = s.bad }

(** val with_tn : taints -> st -> st **)

let with_tn x s =
  { cap = s.cap; fx = s.fx; q = s.q; sc = s.sc; rc = s.rc; asq = s.asq; arq =
    s.arq; hs = s.hs; fs = s.fs; next = s.next; acc = s.acc; recvd = s.recvd;
    back = s.back; dropped = s.dropped; freed = s.freed; tn = x; wk = s.wk;
    dk = s.dk; bad = s.bad }

(** val with_wk : n list -> st -> st **)

let with_wk x s =
  { cap = s.cap; fx = s.fx; q = s.q; sc = s.sc; rc = s.rc; asq = s.asq; arq =
    s.arq; hs = s.hs; fs = s.fs; next = s.next; acc = s.acc; recvd = s.recvd;
    back = s.back; dropped = s.dropped; freed = s.freed; tn = s.tn; wk = x;
    dk = s.dk; bad = s.bad }

(** val with_dk : n list -> st -> st **)

let with_dk x s =
  { cap = s.cap; fx = s.fx; q = s.q; sc = s.sc; rc = s.rc; asq = s.asq; arq =
    s.arq; hs = s.hs; fs = s.fs; next = s.next; acc = s.acc; recvd = s.recvd;
    back = s.back; dropped = s.dropped; freed = s.freed; tn = s.tn; wk =
    s.wk; dk = x; bad = s.bad }

(** val with_bad : bool -> st -> st **)

let with_bad x s =
  { cap = s.cap; fx = s.fx; q = s.q; sc = s.sc; rc = s.rc; asq = s.asq; arq =
    s.arq; hs = s.hs; fs = s.fs; next = s.next; acc = s.acc; recvd = s.recvd;
    back = s.back; dropped = s.dropped; freed = s.freed; tn = s.tn; wk =
    s.wk; dk = s.dk; bad = x }

(** val set_t03 : taints -> taints **)

let set_t03 t =
  { t03 = true; t03f = t.t03f; t06 = t.t06; t07 = t.t07; t08 = t.t08; t12 =
    t.t12; t33 = t.t33 }

(** val set_t03f : taints -> taints **)

let set_t03f t =
  { t03 = t.t03; t03f = true; t06 = t.t06; t07 = t.t07; t08 = t.t08; t12 =
    t.t12; t33 = t.t33 }

(** val set_t06 : taints -> taints **)

let set_t06 t =
  { t03 = t.t03; t03f = t.t03f; t06 = true; t07 = t.t07; t08 = t.t08; t12 =
    t.t12; t33 = t.t33 }

(** val set_t07 : taints -> taints **)

let set_t07 t =
  { t03 = t.t03; t03f = t.t03f; t06 = t.t06; t07 = true; t08 = t.t08; t12 =
    t.t12; t33 = t.t33 }

(** val set_t08 : taints -> taints **)

let set_t08 t =
  { t03 = t.t03; t03f = t.t03f; t06 = t.t06; t07 = t.t07; t08 = true; t12 =
    t.t12; t33 = t.t33 }

(** val set_t12 : taints -> taints **)

let set_t12 t =
  { t03 = t.t03; t03f = t.t03f; t06 = t.t06; t07 = t.t07; t08 = t.t08; t12 =
    true; t33 = t.t33 }

(** val set_t33 : taints -> taints **)

let set_t33 t =
  { t03 = t.t03; t03f = t.t03f; t06 = t.t06; t07 = t.t07; t08 = t.t08; t12 =
    t.t12; t33 = true }

(** val taint : (taints -> taints) -> bool -> st -> st **)

let taint f b s =
  if b then with_tn (f s.tn) s else s

(** val getH : n -> st -> handle option **)

let getH h s =
  aget h s.hs

(** val getF : n -> st -> fut option **)

let getF f s =
  aget f s.fs

(** val setH : n -> handle -> st -> st **)

let setH h x s =
  with_hs (aset h x s.hs) s

(** val setF : n -> fut -> st -> st **)

let setF f x s =
  with_fs (aset f x s.fs) s

(** val set_state : wst -> fut -> fut **)

let set_state w x =
  { f_recv = x.f_recv; f_h = x.f_h; f_item = x.f_item; f_state = w; f_reg =
    x.f_reg; f_live = x.f_live; f_done = x.f_done }

(** val set_reg : bool -> fut -> fut **)

let set_reg b x =
  { f_recv = x.f_recv; f_h = x.f_h; f_item = x.f_item; f_state = x.f_state;
    f_reg = b; f_live = x.f_live; f_done = x.f_done }

(** val set_item : n option -> fut -> fut **)

let set_item i x =
  { f_recv = x.f_recv; f_h = x.f_h; f_item = i; f_state = x.f_state; f_reg =
    x.f_reg; f_live = x.f_live; f_done = x.f_done }

(** val set_done : fut -> fut **)

let set_done x =
  { f_recv = x.f_recv; f_h = x.f_h; f_item = x.f_item; f_state = x.f_state;
    f_reg = x.f_reg; f_live = x.f_live; f_done = true }

(** val set_dead : fut -> fut **)

let set_dead x =
  { f_recv = x.f_recv; f_h = x.f_h; f_item = x.f_item; f_state = x.f_state;
    f_reg = x.f_reg; f_live = false; f_done = x.f_done }

(** val set_closed : bool -> handle -> handle **)

let set_closed b x =
  { h_tx = x.h_tx; h_async = x.h_async; h_closed = b; h_live = x.h_live }

(** val set_hdead : handle -> handle **)

let set_hdead x =
  { h_tx = x.h_tx; h_async = x.h_async; h_closed = x.h_closed; h_live =
    false }

(** val wake : n -> st -> st **)

let wake w s =
  with_wk (app s.wk (w :: [])) s

(** val mark_bad : bool -> st -> st **)

let mark_bad b s =
  if b then with_bad true s else s

(** val lenq : st -> n **)

let lenq s =
  N.of_nat (length s.q)

(** val is_full : st -> bool **)

let is_full s =
  N.eqb (lenq s) s.cap

(** val fresh : st -> n * st **)

let fresh s =
  (s.next, (with_next (N.add s.next (Npos XH)) s))

(** val push : n -> st -> st **)

let push v s =
  with_acc (app s.acc (v :: [])) (with_q (app s.q (v :: [])) s)

(** val give_back : n -> st -> st **)

let give_back v s =
  with_back (app s.back (v :: [])) s

(** val destroy : n -> st -> st **)

let destroy v s =
  with_dk (app s.dk (v :: [])) (with_dropped (app s.dropped (v :: [])) s)

(** val first_waiting :
    (n -> fut option) -> (n * n) list -> (n * n) option **)

let rec first_waiting g = function
| [] -> None
| p :: t ->
  let (f, w) = p in
  (match g f with
   | Some x -> if is_waiting x.f_state then Some (f, w) else first_waiting g t
   | None -> first_waiting g t)

(** val remove_first : n -> (n * n) list -> (n * n) list **)

let rec remove_first f = function
| [] -> []
| p :: t ->
  let (f', w) = p in if N.eqb f f' then t else (f', w) :: (remove_first f t)

(** val unlink : n -> (n * n) list -> (n * n) list **)

let unlink f l =
  filter (fun e -> negb (N.eqb f (fst e))) l

(** val queued : n -> (n * n) list -> bool **)

let queued f l =
  existsb (fun e -> N.eqb f (fst e)) l

(** val set_waker : n -> n -> (n * n) list -> (n * n) list **)

let rec set_waker f w = function
| [] -> []
| p :: t ->
  let (f', w') = p in
  if N.eqb f f' then (f', w) :: t else (f', w') :: (set_waker f w t)

(** val wake_one_recv : st -> st **)

let wake_one_recv s =
  match first_waiting (fun f -> getF f s) s.arq with
  | Some p ->
    let (f, w) = p in
    (match getF f s with
     | Some x ->
       mark_bad (negb x.f_live)
         (wake w
           (with_arq (remove_first f s.arq) (setF f (set_state Success x) s)))
     | None -> s)
  | None -> s

(** val wake_one_send : st -> st **)

let wake_one_send s =
  match first_waiting (fun f -> getF f s) s.asq with
  | Some p ->
    let (f, w) = p in
    (match getF f s with
     | Some x ->
       mark_bad (negb x.f_live)
         (wake w
           (with_asq (remove_first f s.asq) (setF f (set_state Success x) s)))
     | None -> s)
  | None -> s

(** val mark_all : wst -> (n * n) list -> st -> st **)

let rec mark_all new0 l s =
  match l with
  | [] -> s
  | p :: t ->
    let (f, w) = p in
    (match getF f s with
     | Some x ->
       if is_waiting x.f_state
       then mark_all new0 t
              (mark_bad (negb x.f_live)
                (wake w (setF f (set_state new0 x) s)))
       else mark_all new0 t s
     | None -> mark_all new0 t s)

type tsr =
| TsOk
| TsFull
| TsClosed

(** val try_send_core : n -> st -> st * tsr **)

let try_send_core v s =
  if N.eqb s.rc N0
  then (s, TsClosed)
  else if is_full s then (s, TsFull) else ((push v (wake_one_recv s)), TsOk)

type trr =
| TrVal of n
| TrEmpty
| TrDisc

(** val try_recv_core : st -> st * trr **)

let try_recv_core s =
  match s.q with
  | [] -> if N.eqb s.sc N0 then (s, TrDisc) else (s, TrEmpty)
  | v :: t ->
    ((wake_one_send (with_recvd (app s.recvd (v :: [])) (with_q t s))),
      (TrVal v))

(** val skip_nw : (n -> fut option) -> (n * n) list -> (n * n) list **)

let rec skip_nw g l = match l with
| [] -> []
| p :: t ->
  let (f, _) = p in
  (match g f with
   | Some x -> if is_waiting x.f_state then l else skip_nw g t
   | None -> skip_nw g t)

(** val hand_one_recv : st -> st **)

let hand_one_recv s =
  wake_one_recv (with_arq (skip_nw (fun f -> getF f s) s.arq) s)

(** val send_loop : n list -> st -> st * n list **)

let rec send_loop vs s =
  match vs with
  | [] -> (s, [])
  | v :: r ->
    if is_full s then (s, vs) else send_loop r (push v (hand_one_recv s))

(** val wake_senders : nat -> st -> st **)

let rec wake_senders n0 s =
  match n0 with
  | O -> s
  | S k -> wake_senders k (wake_one_send s)

(** val drain : nat -> st -> st **)

let drain k s =
  with_recvd (app s.recvd (firstn k s.q)) (with_q (skipn k s.q) s)

(** val seqN : n -> nat -> n list **)

let rec seqN a = function
| O -> []
| S k -> a :: (seqN (N.add a (Npos XH)) k)

type res =
| ROk
| RFull of n
| RClosedV of n
| RClosed
| RVal of n
| REmpty
| RDisc
| RTimeout
| RWouldBlock
| RCloseErr
| RNoHandle
| RWrongKind
| RBadId
| RBorrowed
| RNoFut
| RDone
| RPending
| RReadyOk
| RReadyClosed
| RReadyVal of n
| RReadyDisc
| RObs of n * bool * bool * n * bool
| RPanic
| RBOk of n
| RBErr of n * bool * n list
| RMOk of n * n list
| RMClosed of n list
| RVals of n list
| RNVals of n list

type out = { o_res : res; o_wakes : n list; o_drops : n list; o_bad : bool }

type op =
| TrySend of n
| TryRecv of n
| Send of n
| Recv of n
| RecvTimeout of n
| Clone of n * n
| Close of n
| DropH of n
| Convert of n * n
| Observe of n
| MkSend of n * n
| MkRecv of n * n
| Poll of n * n
| DropF of n
| TrySendBatch of bool * n * n
| TryRecvBatch of bool * n * n

(** val close_tx : st -> st option **)

let close_tx s =
  if N.eqb s.sc N0
  then None
  else let s0 = with_sc (N.sub s.sc (Npos XH)) s in
       Some (if N.eqb s0.sc N0 then mark_all WClosed s0.arq s0 else s0)

(** val close_rx : st -> st option **)

let close_rx s =
  if N.eqb s.rc N0
  then None
  else let s0 = with_rc (N.sub s.rc (Npos XH)) s in
       Some
       (if N.eqb s0.rc N0
        then mark_all WClosed s0.asq s0
        else (match s0.asq with
              | [] -> s0
              | p :: _ ->
                let (f, w) = p in
                (match getF f s0 with
                 | Some x ->
                   if is_waiting x.f_state
                   then mark_bad (negb x.f_live)
                          (wake w (setF f (set_state Success x) s0))
                   else s0
                 | None -> s0)))

(** val do_close : n -> handle -> st -> st * res **)

let do_close h x s =
  if x.h_closed
  then (s, RCloseErr)
  else let s0 = setH h (set_closed true x) s in
       (match if x.h_tx then close_tx s0 else close_rx s0 with
        | Some s' -> (s', ROk)
        | None -> (s0, RPanic))

(** val borrowed : n -> st -> bool **)

let borrowed h s =
  existsb (fun e -> (&&) (snd e).f_live (N.eqb (snd e).f_h h)) s.fs

(** val any_live : st -> bool **)

let any_live s =
  existsb (fun e -> (snd e).h_live) s.hs

(** val maybe_free : st -> st **)

let maybe_free s =
  if any_live s then s else with_dk (app s.dk s.q) (with_freed true s)

(** val cancel_reg : n -> fut -> st -> st **)

let cancel_reg f x s =
  if x.f_reg
  then let x' = if is_waiting x.f_state then set_state Cancelled x else x in
       let s0 = setF f (set_reg false x') s in
       if x.f_recv
       then let s1 = with_arq (unlink f s0.arq) s0 in
            if is_success x.f_state
            then if s1.fx.fx12
                 then (match s1.q with
                       | [] -> s1
                       | _ :: _ -> wake_one_recv s1)
                 else taint set_t12 true s1
            else s1
       else let s1 = with_asq (unlink f s0.asq) s0 in
            if is_success x.f_state
            then if s1.fx.fx12
                 then if is_full s1 then s1 else wake_one_send s1
                 else taint set_t12 true s1
            else s1
  else s

(** val handle_closed : n -> st -> bool **)

let handle_closed h s =
  match getH h s with
  | Some x -> x.h_closed
  | None -> false

(** val send_try : n -> n -> fut -> st -> st * res **)

let send_try f w x s =
  match x.f_item with
  | Some v ->
    let (s0, t) = try_send_core v (setF f (set_item None x) s) in
    (match t with
     | TsOk ->
       ((setF f (set_done (set_reg false (set_item None x))) s0), RReadyOk)
     | TsFull ->
       ((with_asq (app s0.asq ((f, w) :: []))
          (setF f (set_reg true (set_state Waiting x)) s0)), RPending)
     | TsClosed -> ((setF f (set_done (set_reg false x)) s0), RReadyClosed))
  | None -> ((setF f (set_done x) s), RReadyOk)

(** val poll_send : n -> n -> fut -> st -> st * res **)

let poll_send f w x s =
  if x.f_reg
  then (match x.f_state with
        | WClosed ->
          ((with_asq (remove_first f s.asq)
             (setF f (set_done (set_reg false x)) s)), RReadyClosed)
        | Success ->
          let s0 = with_asq (remove_first f s.asq) s in
          send_try f w (set_reg false x) s0
        | _ ->
          if queued f s.asq
          then ((with_asq (set_waker f w s.asq) s), RPending)
          else ((wake w s), RPending))
  else send_try f w x s

(** val recv_try : n -> n -> bool -> fut -> st -> st * res **)

let recv_try f w was_queued x s =
  let finish = fun s0 x0 ->
    let s1 = setF f (set_done (set_reg false x0)) s0 in
    if was_queued
    then if s1.fx.fx06
         then with_arq (unlink f s1.arq) s1
         else taint set_t06 (queued f s1.arq) s1
    else s1
  in
  let (s0, t) = try_recv_core s in
  (match t with
   | TrVal v -> ((finish s0 x), (RReadyVal v))
   | TrEmpty ->
     if queued f s0.arq
     then ((with_arq (set_waker f w s0.arq) (setF f (set_reg true x) s0)),
            RPending)
     else ((with_arq (app s0.arq ((f, w) :: []))
             (setF f (set_reg true (set_state Waiting x)) s0)), RPending)
   | TrDisc -> ((finish s0 x), RReadyDisc))

(** val poll_recv : n -> n -> fut -> st -> st * res **)

let poll_recv f w x s =
  if x.f_reg
  then (match x.f_state with
        | WClosed ->
          let s0 = with_arq (unlink f s.arq) s in
          if s0.fx.fx08
          then recv_try f w false (set_reg false x) s0
          else let s1 = taint set_t08 (negb (N.eqb (lenq s0) N0)) s0 in
               ((setF f (set_done (set_reg false x)) s1), RReadyDisc)
        | Success -> recv_try f w false (set_reg false x) s
        | _ -> recv_try f w true x s)
  else recv_try f w false x s

(** val ret : st -> res -> st * out **)

let ret s r =
  (s, { o_res = r; o_wakes = s.wk; o_drops = s.dk; o_bad = s.bad })

(** val step : st -> op -> st * out **)

let step s0 o =
  let s = with_bad false (with_dk [] (with_wk [] s0)) in
  (match o with
   | TrySend h ->
     (match getH h s with
      | Some x ->
        if negb x.h_live
        then ret s RNoHandle
        else if negb x.h_tx
             then ret s RWrongKind
             else let (v, s1) = fresh s in
                  if x.h_closed
                  then ret (give_back v s1) (RClosedV v)
                  else let (s2, t) = try_send_core v s1 in
                       (match t with
                        | TsOk -> ret s2 ROk
                        | TsFull -> ret (give_back v s2) (RFull v)
                        | TsClosed -> ret (give_back v s2) (RClosedV v))
      | None -> ret s RNoHandle)
   | TryRecv h ->
     (match getH h s with
      | Some x ->
        if negb x.h_live
        then ret s RNoHandle
        else if x.h_tx
             then ret s RWrongKind
             else if x.h_closed
                  then ret s RDisc
                  else let (s1, t) = try_recv_core s in
                       (match t with
                        | TrVal v -> ret s1 (RVal v)
                        | TrEmpty -> ret s1 REmpty
                        | TrDisc -> ret s1 RDisc)
      | None -> ret s RNoHandle)
   | Send h ->
     (match getH h s with
      | Some x ->
        if negb x.h_live
        then ret s RNoHandle
        else if (||) (negb x.h_tx) x.h_async
             then ret s RWrongKind
             else if (&&) (negb (N.eqb s.rc N0)) (is_full s)
                  then ret s RWouldBlock
                  else let (v, s1) = fresh s in
                       if x.h_closed
                       then ret (destroy v s1) RClosed
                       else let (s2, t) = try_send_core v s1 in
                            (match t with
                             | TsOk -> ret s2 ROk
                             | _ -> ret (destroy v s2) RClosed)
      | None -> ret s RNoHandle)
   | Recv h ->
     (match getH h s with
      | Some x ->
        if negb x.h_live
        then ret s RNoHandle
        else if (||) x.h_tx x.h_async
             then ret s RWrongKind
             else if (&&) (N.eqb (lenq s) N0)
                       (negb
                         ((&&) (N.eqb s.sc N0)
                           (match s.asq with
                            | [] -> true
                            | _ :: _ -> false)))
                  then ret s RWouldBlock
                  else if x.h_closed
                       then ret s RDisc
                       else let (s1, t) = try_recv_core s in
                            (match t with
                             | TrVal v -> ret s1 (RVal v)
                             | TrEmpty -> ret s1 RWouldBlock
                             | TrDisc -> ret s1 RDisc)
      | None -> ret s RNoHandle)
   | RecvTimeout h ->
     (match getH h s with
      | Some x ->
        if negb x.h_live
        then ret s RNoHandle
        else if (||) x.h_tx x.h_async
             then ret s RWrongKind
             else if (&&) x.h_closed s.fx.fx03
                  then ret s RDisc
                  else let s1 = taint set_t03 x.h_closed s in
                       let (s2, t) = try_recv_core s1 in
                       (match t with
                        | TrVal v -> ret s2 (RVal v)
                        | TrEmpty -> ret s2 RTimeout
                        | TrDisc -> ret s2 RDisc)
      | None -> ret s RNoHandle)
   | Clone (h, h2) ->
     (match getH h s with
      | Some x ->
        if negb x.h_live
        then ret s RNoHandle
        else (match getH h2 s with
              | Some _ -> ret s RBadId
              | None ->
                if (&&) x.h_closed s.fx.fx33
                then ret
                       (setH h2 { h_tx = x.h_tx; h_async = x.h_async;
                         h_closed = true; h_live = true } s) ROk
                else let s1 = taint set_t33 x.h_closed s in
                     let s2 =
                       if x.h_tx
                       then with_sc (N.add s1.sc (Npos XH)) s1
                       else with_rc (N.add s1.rc (Npos XH)) s1
                     in
                     ret
                       (setH h2 { h_tx = x.h_tx; h_async = x.h_async;
                         h_closed = false; h_live = true } s2) ROk)
      | None -> ret s RNoHandle)
   | Close h ->
     (match getH h s with
      | Some x ->
        if negb x.h_live
        then ret s RNoHandle
        else let (s1, r) = do_close h x s in ret s1 r
      | None -> ret s RNoHandle)
   | DropH h ->
     (match getH h s with
      | Some x ->
        if negb x.h_live
        then ret s RNoHandle
        else if borrowed h s
             then ret s RBorrowed
             else let (s1, r) = do_close h x s in
                  let x' = match getH h s1 with
                           | Some y -> y
                           | None -> x in
                  let s2 = maybe_free (setH h (set_hdead x') s1) in
                  ret s2 (match r with
                          | RPanic -> RPanic
                          | _ -> ROk)
      | None -> ret s RNoHandle)
   | Convert (h, h2) ->
     (match getH h s with
      | Some x ->
        if negb x.h_live
        then ret s RNoHandle
        else (match getH h2 s with
              | Some _ -> ret s RBadId
              | None ->
                if borrowed h s
                then ret s RBorrowed
                else let c = (&&) x.h_closed s.fx.fx07 in
                     let s1 =
                       taint set_t07 ((&&) x.h_closed (negb s.fx.fx07)) s
                     in
                     let s2 = setH h (set_hdead x) s1 in
                     ret
                       (setH h2 { h_tx = x.h_tx; h_async = (negb x.h_async);
                         h_closed = c; h_live = true } s2) ROk)
      | None -> ret s RNoHandle)
   | Observe h ->
     (match getH h s with
      | Some x ->
        if negb x.h_live
        then ret s RNoHandle
        else let cl =
               if x.h_tx
               then N.eqb s.rc N0
               else (&&) ((&&) (N.eqb s.sc N0) (N.eqb (lenq s) N0))
                      (match s.asq with
                       | [] -> true
                       | _ :: _ -> false)
             in
             ret s (RObs ((lenq s), (N.eqb (lenq s) N0), (is_full s), s.cap,
               cl))
      | None -> ret s RNoHandle)
   | MkSend (f, h) ->
     (match getH h s with
      | Some x ->
        if negb x.h_live
        then ret s RNoHandle
        else if negb ((&&) x.h_tx x.h_async)
             then ret s RWrongKind
             else (match getF f s with
                   | Some _ -> ret s RBadId
                   | None ->
                     let (v, s1) = fresh s in
                     ret
                       (setF f { f_recv = false; f_h = h; f_item = (Some v);
                         f_state = Waiting; f_reg = false; f_live = true;
                         f_done = false } s1) ROk)
      | None -> ret s RNoHandle)
   | MkRecv (f, h) ->
     (match getH h s with
      | Some x ->
        if negb x.h_live
        then ret s RNoHandle
        else if negb ((&&) (negb x.h_tx) x.h_async)
             then ret s RWrongKind
             else (match getF f s with
                   | Some _ -> ret s RBadId
                   | None ->
                     ret
                       (setF f { f_recv = true; f_h = h; f_item = None;
                         f_state = Waiting; f_reg = false; f_live = true;
                         f_done = false } s) ROk)
      | None -> ret s RNoHandle)
   | Poll (f, w) ->
     (match getF f s with
      | Some x ->
        if negb x.f_live
        then ret s RNoFut
        else if x.f_done
             then ret s RDone
             else if (&&) (handle_closed x.f_h s) s.fx.fx03f
                  then let s1 = cancel_reg f x s in
                       let x' = match getF f s1 with
                                | Some y -> y
                                | None -> x
                       in
                       ret (setF f (set_done x') s1)
                         (if x.f_recv then RReadyDisc else RReadyClosed)
                  else let s1 = taint set_t03f (handle_closed x.f_h s) s in
                       let (s2, r) =
                         if x.f_recv
                         then poll_recv f w x s1
                         else poll_send f w x s1
                       in
                       ret s2 r
      | None -> ret s RNoFut)
   | DropF f ->
     (match getF f s with
      | Some x ->
        if negb x.f_live
        then ret s RNoFut
        else let s1 = cancel_reg f x s in
             let x' = match getF f s1 with
                      | Some y -> y
                      | None -> x in
             let s2 = setF f (set_dead x') s1 in
             let s3 = match x.f_item with
                      | Some v -> destroy v s2
                      | None -> s2
             in
             ret s3 ROk
      | None -> ret s RNoFut)
   | TrySendBatch (inplace, h, n0) ->
     (match getH h s with
      | Some x ->
        if negb x.h_live
        then ret s RNoHandle
        else if negb x.h_tx
             then ret s RWrongKind
             else let vs = seqN s.next (N.to_nat n0) in
                  let s1 = with_next (N.add s.next n0) s in
                  let fail = fun closed sent un s2 ->
                    let s3 = with_back (app s2.back un) s2 in
                    if inplace
                    then if (&&) closed (N.eqb sent N0)
                         then ret s3 (RMClosed un)
                         else ret s3 (RMOk (sent, un))
                    else ret s3 (RBErr (sent, closed, un))
                  in
                  if N.eqb n0 N0
                  then ret s1 (if inplace then RMOk (N0, []) else RBOk N0)
                  else if x.h_closed
                       then fail true N0 vs s1
                       else if N.eqb s1.rc N0
                            then fail true N0 vs s1
                            else let (s2, un) = send_loop vs s1 in
                                 (match un with
                                  | [] ->
                                    ret s2
                                      (if inplace
                                       then RMOk (n0, [])
                                       else RBOk n0)
                                  | _ :: _ ->
                                    fail false
                                      (N.sub n0 (N.of_nat (length un))) un s2)
      | None -> ret s RNoHandle)
   | TryRecvBatch (inplace, h, m) ->
     (match getH h s with
      | Some x ->
        if negb x.h_live
        then ret s RNoHandle
        else if x.h_tx
             then ret s RWrongKind
             else if N.eqb m N0
                  then ret s (if inplace then RNVals [] else RVals [])
                  else if x.h_closed
                       then ret s RDisc
                       else let k = Nat.min (N.to_nat m) (length s.q) in
                            (match k with
                             | O ->
                               if N.eqb s.sc N0
                               then ret s RDisc
                               else ret s REmpty
                             | S _ ->
                               let items = firstn k s.q in
                               let s1 = wake_senders (N.to_nat m) (drain k s)
                               in
                               ret s1
                                 (if inplace
                                  then RNVals items
                                  else RVals items))
      | None -> ret s RNoHandle))

(** val init : n -> bool -> fixes -> st **)

let init c async f =
  { cap = c; fx = f; q = []; sc = (Npos XH); rc = (Npos XH); asq = []; arq =
    []; hs = ((N0, { h_tx = true; h_async = async; h_closed = false; h_live =
    true }) :: (((Npos XH), { h_tx = false; h_async = async; h_closed =
    false; h_live = true }) :: [])); fs = []; next = N0; acc = []; recvd =
    []; back = []; dropped = []; freed = false; tn = no_taint; wk = []; dk =
    []; bad = false }

(** val run : st -> op list -> st * out list **)

let rec run s = function
| [] -> (s, [])
| o :: r ->
  let (s1, x) = step s o in let (s2, xs) = run s1 r in (s2, (x :: xs))
