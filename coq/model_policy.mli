
type __ = Obj.t

val negb : bool -> bool

type nat =
| O
| S of nat

val fst : ('a1 * 'a2) -> 'a1

val snd : ('a1 * 'a2) -> 'a2

val length : 'a1 list -> nat

val app : 'a1 list -> 'a1 list -> 'a1 list

type comparison =
| Eq
| Lt
| Gt

val pred : nat -> nat

val add : nat -> nat -> nat

module Nat :
 sig
  val sub : nat -> nat -> nat

  val leb : nat -> nat -> bool

  val ltb : nat -> nat -> bool

  val divmod : nat -> nat -> nat -> nat -> nat * nat

  val modulo : nat -> nat -> nat
 end

val nth : nat -> 'a1 list -> 'a1 -> 'a1

val rev : 'a1 list -> 'a1 list

val map : ('a1 -> 'a2) -> 'a1 list -> 'a2 list

val existsb : ('a1 -> bool) -> 'a1 list -> bool

val firstn : nat -> 'a1 list -> 'a1 list

val skipn : nat -> 'a1 list -> 'a1 list

type positive =
| XI of positive
| XO of positive
| XH

type n =
| N0
| Npos of positive

module Pos :
 sig
  type mask =
  | IsNul
  | IsPos of positive
  | IsNeg
 end

module Coq_Pos :
 sig
  val succ : positive -> positive

  val add : positive -> positive -> positive

  val add_carry : positive -> positive -> positive

  val pred_double : positive -> positive

  type mask = Pos.mask =
  | IsNul
  | IsPos of positive
  | IsNeg

  val succ_double_mask : mask -> mask

  val double_mask : mask -> mask

  val double_pred_mask : positive -> mask

  val sub_mask : positive -> positive -> mask

  val sub_mask_carry : positive -> positive -> mask

  val mul : positive -> positive -> positive

  val compare_cont : comparison -> positive -> positive -> comparison

  val compare : positive -> positive -> comparison

  val eqb : positive -> positive -> bool
 end

module N :
 sig
  val succ_double : n -> n

  val double : n -> n

  val add : n -> n -> n

  val sub : n -> n -> n

  val mul : n -> n -> n

  val compare : n -> n -> comparison

  val eqb : n -> n -> bool

  val leb : n -> n -> bool

  val ltb : n -> n -> bool

  val min : n -> n -> n

  val max : n -> n -> n

  val pos_div_eucl : positive -> n -> n * n

  val div_eucl : n -> n -> n * n

  val div : n -> n -> n
 end

type kc = n * n

val keys : kc list -> n list

val total : kc list -> n

val lookup : n -> kc list -> n option

val rm : n -> kc list -> kc list

val mem : n -> n list -> bool

type call =
| Access of n * n
| Admit of n * n
| Remove of n
| Evict of n
| Clear

type out =
| ODone
| OAdmit
| OReject
| OAdmitEvict of n list
| OVictims of n list * n

type policy = { pinit : __; pstep : (__ -> call -> __ * out);
                ptracked : (__ -> kc list) }

type pst = __

val prun : policy -> pst -> call list -> pst * out list

val round_div : n -> n -> n

type lru_list = kc list

val ll_move_to_front : n -> lru_list -> lru_list

val ll_push_front : n -> n -> lru_list -> lru_list

val ll_remove : n -> lru_list -> lru_list

val pop_while : n -> n -> kc list -> (n list * n) * kc list

val ll_evict : n -> lru_list -> (lru_list * n list) * n

val lru_step : lru_list -> call -> lru_list * out

val lruP : policy

val fifo_step : lru_list -> call -> lru_list * out

val fifoP : policy

type ent = (n * n) * bool

val ekey : ent -> n

val ecost : ent -> n

val eflag : ent -> bool

val ekc : ent -> kc

val eclear : ent -> ent

val erm : n -> ent list -> ent list

val eset : n -> ent list -> ent list

val ehas : n -> ent list -> bool

val eindex : n -> ent list -> nat option

val scan : ent list -> ent list * (ent * ent list) option

type sieve = { sv_r : ent list; sv_hand : nat }

val sieve_admit : n -> n -> sieve -> sieve

val sieve_remove : n -> sieve -> sieve

val sieve_evict_one : sieve -> (ent * sieve) option

val evict_loop :
  ('a1 -> (ent * 'a1) option) -> nat -> n -> n -> 'a1 -> n list -> ('a1 * n
  list) * n

val sieve_step : sieve -> call -> sieve * out

val sieveP : policy

type clock = { ck_o : ent list; ck_hand : nat }

val clock_admit : n -> n -> clock -> clock

val clock_remove : n -> clock -> clock

val clock_evict_one : clock -> (ent * clock) option

val clock_step : clock -> call -> clock * out

val clockP : policy

type slru = { sl_prob : lru_list; sl_prot : lru_list }

val ll_has : n -> lru_list -> bool

val ll_pop_back : lru_list -> (kc * lru_list) option

val slru_prob_capacity : n -> n

val slru_prot_capacity : n -> n

val slru_maintain : nat -> n -> lru_list -> lru_list -> lru_list * lru_list

val slru_maintain_all : n -> slru -> slru

val slru_access : n -> n -> n -> slru -> slru

val slru_admit_internal : n -> n -> slru -> slru

val slru_peek_lru : slru -> n option

val slru_admit : n -> n -> slru -> slru

val slru_remove : n -> slru -> slru

val slru_evict : n -> n -> slru -> (slru * n list) * n

val slru_step : n -> slru -> call -> slru * out

val slru_tr : slru -> kc list

val slruP : n -> policy

type 'rs rnd = kc list * 'rs

val rnd_one :
  ('a1 -> n list -> nat * 'a1) -> 'a1 rnd -> (ent * 'a1 rnd) option

val rnd_step :
  ('a1 -> n list -> nat * 'a1) -> 'a1 rnd -> call -> 'a1 rnd * out

val randomP : ('a1 -> n list -> nat * 'a1) -> 'a1 -> policy

val index_of : n -> n list -> nat

val replay_choose : n list -> n list -> nat * n list

val randomReplayP : n list -> policy

type arc = { a_p : n; a_t1 : lru_list; a_t2 : lru_list; a_b1 : lru_list;
             a_b2 : lru_list }

val ghost_push : n -> n -> n -> lru_list -> lru_list

val arc_replace : n -> bool -> arc -> (kc * arc) option

val arc_access : n -> n -> arc -> arc

val arc_delta : n -> n -> n

val arc_ghost_adapt : n -> n -> arc -> arc * bool

val arc_admit_fresh : n -> n -> n -> arc -> bool -> arc

val arc_admit : n -> n -> n -> arc -> arc

val arc_remove : n -> arc -> arc

val arc_evict_one : n -> arc -> (ent * arc) option

val arc_step : n -> arc -> call -> arc * out

val arc_tr : arc -> kc list

val arcP : n -> policy

val tl_window_target : n -> n

val tl_main_prot_capacity : n -> n

type 'sk tlfu = { tl_win : lru_list; tl_main : slru; tl_sk : 'sk }

val tl_window_loop :
  ('a1 -> n -> n) -> nat -> n -> 'a1 -> lru_list -> slru -> n list ->
  (lru_list * slru) * n list

val tl_access : ('a1 -> n -> 'a1) -> n -> n -> n -> 'a1 tlfu -> 'a1 tlfu

val tl_admit :
  ('a1 -> n -> 'a1) -> ('a1 -> n -> n) -> n -> n -> n -> 'a1 tlfu -> 'a1
  tlfu * out

val tl_remove : n -> 'a1 tlfu -> 'a1 tlfu

val tl_evict : n -> n -> 'a1 tlfu -> ('a1 tlfu * n list) * n

val tl_step :
  ('a1 -> n -> 'a1) -> ('a1 -> n -> n) -> ('a1 -> 'a1) -> n -> 'a1 tlfu ->
  call -> 'a1 tlfu * out

val tl_tr : 'a1 tlfu -> kc list

val tinyLfuP :
  ('a1 -> n -> 'a1) -> ('a1 -> n -> n) -> ('a1 -> 'a1) -> 'a1 -> n -> policy

type replay_sk = n list * n list list

val replay_incr : replay_sk -> n -> replay_sk

val replay_est : replay_sk -> n -> n

val tinyLfuReplayP : n list list -> n -> policy
