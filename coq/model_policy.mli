
type __ = Obj.t

type nat =
| O
| S of nat

val fst : ('a1 * 'a2) -> 'a1

val snd : ('a1 * 'a2) -> 'a2

val length : 'a1 list -> nat

val app : 'a1 list -> 'a1 list -> 'a1 list

type comparison =
| Eq
| Lt
| Gt

val pred : nat -> nat

val add : nat -> nat -> nat

module Nat :
 sig
  val leb : nat -> nat -> bool

  val ltb : nat -> nat -> bool
 end

val rev : 'a1 list -> 'a1 list

val map : ('a1 -> 'a2) -> 'a1 list -> 'a2 list

val firstn : nat -> 'a1 list -> 'a1 list

val skipn : nat -> 'a1 list -> 'a1 list

type positive =
| XI of positive
| XO of positive
| XH

type n =
| N0
| Npos of positive

module Pos :
 sig
  val succ : positive -> positive

  val add : positive -> positive -> positive

  val add_carry : positive -> positive -> positive

  val compare_cont : comparison -> positive -> positive -> comparison

  val compare : positive -> positive -> comparison

  val eqb : positive -> positive -> bool
 end

module N :
 sig
  val add : n -> n -> n

  val compare : n -> n -> comparison

  val eqb : n -> n -> bool

  val ltb : n -> n -> bool
 end

type kc = n * n

val lookup : n -> kc list -> n option

val rm : n -> kc list -> kc list

type call =
| Access of n * n
| Admit of n * n
| Remove of n
| Evict of n
| Clear

type out =
| ODone
| OAdmit
| OReject
| OAdmitEvict of n list
| OVictims of n list * n

type policy = { pinit : __; pstep : (__ -> call -> __ * out);
                ptracked : (__ -> kc list) }

type pst = __

val prun : policy -> pst -> call list -> pst * out list

type lru_list = kc list

val ll_move_to_front : n -> lru_list -> lru_list

val ll_push_front : n -> n -> lru_list -> lru_list

val ll_remove : n -> lru_list -> lru_list

val pop_while : n -> n -> kc list -> (n list * n) * kc list

val ll_evict : n -> lru_list -> (lru_list * n list) * n

val lru_step : lru_list -> call -> lru_list * out

val lruP : policy

val fifo_step : lru_list -> call -> lru_list * out

val fifoP : policy

type ent = (n * n) * bool

val ekey : ent -> n

val ecost : ent -> n

val eflag : ent -> bool

val ekc : ent -> kc

val eclear : ent -> ent

val erm : n -> ent list -> ent list

val eset : n -> ent list -> ent list

val ehas : n -> ent list -> bool

val eindex : n -> ent list -> nat option

val scan : ent list -> ent list * (ent * ent list) option

type sieve = { sv_r : ent list; sv_hand : nat }

val sieve_admit : n -> n -> sieve -> sieve

val sieve_remove : n -> sieve -> sieve

val sieve_evict_one : sieve -> (ent * sieve) option

val evict_loop :
  ('a1 -> (ent * 'a1) option) -> nat -> n -> n -> 'a1 -> n list -> ('a1 * n
  list) * n

val sieve_step : sieve -> call -> sieve * out

val sieveP : policy

type clock = { ck_o : ent list; ck_hand : nat }

val clock_admit : n -> n -> clock -> clock

val clock_remove : n -> clock -> clock

val clock_evict_one : clock -> (ent * clock) option

val clock_step : clock -> call -> clock * out

val clockP : policy
