(* Chan/MpscBSpec.v — vocabulary of the pinned theorems about the bounded-MPSC model
   (definitions only, no proofs). *)
From Fibre Require Import Common.Base Chan.MpscB.

(** reachable states: any op history from any constructor call *)
Definition reach (s : st) : Prop := exists a c f03 fcl ops, s = final (init a c f03 fcl) ops.

(** results that report failure (Full, Closed, Empty, Timeout, Disconnected, CloseError,
    a refused/blocking call, a batch error that sent nothing, a future resolving to an error) *)
Fixpoint failed (r : res) : bool :=
  match r with
  | RFull _ | RClosedV _ | RClosed | REmpty | RDisc | RTimeout | RCloseErr | RBad | RBlock
  | RMutClosed _ => true
  | RBatchErr k _ _ => k =? 0
  | RReady (RBatchErr _ _ _) => true
  | RReady r' => failed r'
  | _ => false
  end.

(** ids a receive form handed to its caller *)
Definition recv_ids (r : res) : list N :=
  match r with
  | RVal v | RReady (RVal v) => [v]
  | RVals vs | RReady (RVals vs) => vs
  | _ => []
  end.

Definition out_res (x : out) : res := fst (fst x).
Definition out_wakes (x : out) : list N := snd (fst x).
Definition out_drops (x : out) : list N := snd x.

(** the channel is disconnected for receivers: no open sender and nothing buffered *)
Definition disc_state (s : st) : Prop := scount s = 0 /\ q s = [].

(** an op that clones a sender whose close() already succeeded *)
Definition clones_closed (s : st) (o : op) : Prop :=
  exists h h2 r, o = Clone h h2 /\ aget h (hs s) = Some r /\ hclosed r = true.

(** a receive-side result carrying a value *)
Definition has_value (r : res) : bool := negb (is_nil (recv_ids r)).

(** send forms on handle [h] with a non-empty payload, and what "Closed, value handed back" means *)
Definition closed_with_value (o : op) (r : res) : Prop :=
  match o with
  | TrySend _ v => r = RClosedV v
  | Send _ _ => r = RClosed                        (* SendError carries no value: it is dropped *)
  | TrySendB _ vs false => r = RBatchErr 0 false vs
  | TrySendB _ vs true => r = RMutClosed vs
  | SendB _ vs false => r = RBatchErr 0 false vs
  | SendB _ vs true => r = RMutClosed vs
  | _ => True
  end.
