(* Chan/MpscBSpec.v — vocabulary of the pinned theorems about the bounded-MPSC model
   (definitions only, no proofs). *)
From Fibre Require Import Common.Base Chan.MpscB.

(** reachable states: any op history from any constructor call *)
Definition reach (s : st) : Prop := exists a c f03 fcl ops, s = final (init a c f03 fcl) ops.

(** results that report failure (Full, Closed, Empty, Timeout, Disconnected, CloseError,
    a refused/blocking call, a batch error that sent nothing, a future resolving to an error) *)
Fixpoint failed (r : res) : bool :=
  match r with
  | RFull _ | RClosedV _ | RClosed | REmpty | RDisc | RTimeout | RCloseErr | RBad | RBlock
  | RMutClosed _ => true
  | RBatchErr k _ _ => k =? 0
  | RReady (RBatchErr _ _ _) => true
  | RReady r' => failed r'
  | _ => false
  end.

(** ids a receive form handed to its caller *)
Definition recv_ids (r : res) : list N :=
  match r with
  | RVal v | RReady (RVal v) => [v]
  | RVals vs | RReady (RVals vs) => vs
  | _ => []
  end.

Definition out_res (x : out) : res := fst (fst x).
Definition out_wakes (x : out) : list N := snd (fst x).
Definition out_drops (x : out) : list N := snd x.

(** the channel is disconnected for receivers: no open sender and nothing buffered *)
Definition disc_state (s : st) : Prop := scount s = 0 /\ q s = [].

(** an op that clones a sender whose close() already succeeded *)
Definition clones_closed (s : st) (o : op) : Prop :=
  exists h h2 r, o = Clone h h2 /\ aget h (hs s) = Some r /\ hclosed r = true.

(** a receive-side result carrying a value *)
Definition has_value (r : res) : bool := negb (is_nil (recv_ids r)).

(** send forms on handle [h] with a non-empty payload, and what "Closed, value handed back" means *)
Definition closed_with_value (o : op) (r : res) : Prop :=
  match o with
  | TrySend _ v => r = RClosedV v
  | Send _ _ => r = RClosed                        (* SendError carries no value: it is dropped *)
  | TrySendB _ vs false => r = RBatchErr 0 false vs
  | TrySendB _ vs true => r = RMutClosed vs
  | SendB _ vs false => r = RBatchErr 0 false vs
  | SendB _ vs true => r = RMutClosed vs
  | _ => True
  end.

(* ---- C06 vocabulary: pending receive-side waiters and the wake-up invariants ---- *)
Definition rpend (s : st) (f w c : N) : Prop :=
  exists fr, aget f (fs s) = Some fr /\ is_recv_kind (fk fr) = true /\ fpend fr = Some (w, c).
Definition spend (s : st) (h w c : N) : Prop :=
  exists r, aget h (hs s) = Some r /\ hpend r = Some (w, c).
Definition reg_of (k : fkind) : bool :=
  match k with FRecv g | FRecvB _ g => g | _ => false end.

Definition W1 s := forall o w, rw s = Some (o, w) -> q s = [] /\ scount s <> 0.
Definition W2 s := forall f w c, rpend s f w c ->
  c <= wk s w /\ (rw s = Some (OF f, w) \/ c < wk s w \/ multi s = true).
Definition W3 s := forall h w c, spend s h w c ->
  c <= wk s w /\ (rw s = Some (OH h, w) \/ c < wk s w \/ multi s = true).
Definition W4 s := multi s = false -> forall f1 f2 fr1 fr2,
  aget f1 (fs s) = Some fr1 -> aget f2 (fs s) = Some fr2 ->
  is_recv_kind (fk fr1) = true -> is_recv_kind (fk fr2) = true -> f1 = f2.
Definition W5 s := multi s = false -> forall f fr h r,
  aget f (fs s) = Some fr -> is_recv_kind (fk fr) = true -> aget h (hs s) = Some r -> hreg r = false.
Definition W6 s := forall f w, rw s = Some (OF f, w) ->
  exists fr, aget f (fs s) = Some fr /\ reg_of (fk fr) = true.
Definition W7 s := forall h w, rw s = Some (OH h, w) ->
  exists r, aget h (hs s) = Some r /\ hreg r = true.
Definition W8 s := forall h r, aget h (hs s) = Some r ->
  (hpend r <> None -> hreg r = true) /\ (hreg r = true -> htx r = false /\ hasync r = true).


(* ---- C06 vocabulary, send side: pending send futures and the async send-waiter queue ---- *)
(** a live send-side future whose last poll returned Pending with waker w (wake count c then) *)
Definition psend (s : st) (f w c : N) : Prop :=
  exists fr, aget f (fs s) = Some fr /\ is_recv_kind (fk fr) = false /\ fpend fr = Some (w, c).
Definition S1 s := forall f w, In (f, w) (sq s) -> exists c, psend s f w c.
Definition S2 s := NoDup (map fst (sq s)).
Definition S3 s := forall f w c, psend s f w c -> c <= wk s w /\ (In (f, w) (sq s) \/ c < wk s w).
Definition S4 s := rdrop s = true -> sq s = [].
Definition S5 s := lost s = false -> sq s <> [] ->
  q s <> [] \/ 0 < unpub s \/ (exists g w c, psend s g w c /\ in_sq g s = false).

Definition SI (s : st) : Prop := S1 s /\ S2 s /\ S3 s /\ S4 s /\ S5 s.
