(* Chan/SpscOps.v — K2 (op-level) model of fibre::spsc bounded channel
   (channels/src/spsc/{shared,bounded_sync,bounded_async}.rs).  NO proofs in this file.

   One public API call / one poll of a future / one drop = one atomic step.
   Payloads are ticket ids allocated by the model itself (`next`), so freshness of ids is
   built in; the harness allocates ids with the same counter.
   A future is dropped by the driver as soon as a poll returns Ready (both sides do this),
   so a live future is always one whose polls so far returned Pending (or un-polled).
   While a future borrows a handle (`&mut`), every other op on that handle answers BUSY.

   cfg selects pre-/post-fix behaviour of the two confirmed defects:
     fix_f03  = sync send_batch tests the handle's own `closed` flag        (F-03-spsc)
     fix_conv = to_sync/to_async carry the `closed` flag to the new handle  (F-07-spsc)
   The code in /repo today is (false,false). *)
From Coq Require Import List Arith ZArith Bool.
Import ListNotations.
Open Scope nat_scope.

Record cfg := { fix_f03 : bool; fix_conv : bool }.
Definition cfg_repo : cfg := {| fix_f03 := false; fix_conv := false |}.
Definition cfg_fixed : cfg := {| fix_f03 := true; fix_conv := true |}.

Inductive kind := KSync | KAsync.
Definition kind_eqb a b := match a, b with KSync, KSync | KAsync, KAsync => true | _, _ => false end.
Definition flip k := match k with KSync => KAsync | KAsync => KSync end.

(* a handle: dropped, or alive with its flavour and its own `closed` flag *)
Inductive hst := HGone | HLive (k : kind) (closed : bool).

(* sender-side futures (what they still hold) and receiver-side futures *)
Inductive sfut :=
| SFSend (v : nat)                          (* SendFuture { item: Some(v) } *)
| SFBatch (rest : list nat) (sent : nat)    (* SendBatchFuture { iter, sent } ; total = sent + |rest| *)
| SFBatchMut (items : list nat) (sent : nat)(* SendBatchMutFuture { items: &mut Vec, sent } *).
Inductive rfut := RFRecv | RFBatch (max : nat).   (* recv_batch and recv_batch_mut futures share one body *)

Inductive owner := OFut | OStream.
Inductive event := EWake (w : nat) | EDrop (v : nat).

Inductive res :=
| ROk | ROkN (n : nat)
| RVal (v : nat) | RVals (vs : list nat)
| RFull (v : nat) | RClosedV (v : nat) | RClosed
| RTryBatchErr (sent : nat) (unsent : list nat) (closed : bool)   (* TrySendBatchError *)
| RBatchErr (sent : nat) (unsent : list nat)                     (* SendBatchError *)
| RMutOk (sent : nat) (rest : list nat) | RMutClosed (rest : list nat)
| RRest (rest : list nat)                                        (* vec left by a dropped send_batch_mut future *)
| REmpty | RDisc | RTimeout | RPending | RNone
| RObs (len : nat) (empty full closed : bool) (capacity : nat)
| RCloseErr
| RNA | RBusy | RGone | RNoFut | RWouldBlock.

Inductive op :=
(* sender *)
| TrySend | Send | TrySendBatch (n : nat) | SendBatch (n : nat) | TrySendBatchMut (n : nat) | SendBatchMut (n : nat)
| CloseS | ObsS | ConvS | DropS
| MkSend | MkSendBatch (n : nat) | MkSendBatchMut (n : nat) | PollS (w : nat) | DropFutS
(* receiver *)
| TryRecv | Recv | RecvTimeout | TryRecvBatch (m : nat) | RecvBatch (m : nat)
| CloseR | ObsR | ConvR | DropR
| MkRecv | MkRecvBatch (m : nat) | PollR (w : nat) | DropFutR | StreamNext (w : nat).

Record st := {
  (* SpscShared *)
  cap : nat; q : list nat;
  scount : Z; rcount : Z;            (* sender_count / receiver_count: the counts the code keeps *)
  pdrop : bool; cdrop : bool;        (* producer_dropped / consumer_dropped *)
  pw : option nat; cw : option nat;  (* producer_waiter / consumer_waiter slots (waker ids) *)
  (* handles and futures *)
  sh : hst; rh : hst;
  rreg : bool;                       (* BoundedAsyncReceiver.is_registered (Stream) *)
  sf : option (sfut * bool);         (* live sender future, its is_registered *)
  rf : option (rfut * bool);
  (* ghost bookkeeping (not in the code) *)
  next : nat;
  accepted : list nat; received : list nat; returned : list nat; dropped : list nat; drained : list nat;
  s_pend : option nat; s_woken : bool;           (* last poll on the sender side was Pending with this waker *)
  r_pend : option (owner * nat); r_woken : bool;
  st_pend : option nat; st_woken : bool;         (* strict per-entity bookkeeping for Stream::poll_next *)
  rdisc : bool;                                  (* some receive form has reported Disconnected / stream end *)
  s_ever : bool; r_ever : bool;                  (* close() has returned Ok on this endpoint *)
  ev : list event                                (* events of the current step *)
}.

(* SETTERS-BEGIN *)
Definition set_cap (v : nat) (s : st) : st := {| cap := v; q := q s; scount := scount s; rcount := rcount s; pdrop := pdrop s; cdrop := cdrop s; pw := pw s; cw := cw s; sh := sh s; rh := rh s; rreg := rreg s; sf := sf s; rf := rf s; next := next s; accepted := accepted s; received := received s; returned := returned s; dropped := dropped s; drained := drained s; s_pend := s_pend s; s_woken := s_woken s; r_pend := r_pend s; r_woken := r_woken s; st_pend := st_pend s; st_woken := st_woken s; rdisc := rdisc s; s_ever := s_ever s; r_ever := r_ever s; ev := ev s |}.
Definition set_q (v : list nat) (s : st) : st := {| cap := cap s; q := v; scount := scount s; rcount := rcount s; pdrop := pdrop s; cdrop := cdrop s; pw := pw s; cw := cw s; sh := sh s; rh := rh s; rreg := rreg s; sf := sf s; rf := rf s; next := next s; accepted := accepted s; received := received s; returned := returned s; dropped := dropped s; drained := drained s; s_pend := s_pend s; s_woken := s_woken s; r_pend := r_pend s; r_woken := r_woken s; st_pend := st_pend s; st_woken := st_woken s; rdisc := rdisc s; s_ever := s_ever s; r_ever := r_ever s; ev := ev s |}.
Definition set_scount (v : Z) (s : st) : st := {| cap := cap s; q := q s; scount := v; rcount := rcount s; pdrop := pdrop s; cdrop := cdrop s; pw := pw s; cw := cw s; sh := sh s; rh := rh s; rreg := rreg s; sf := sf s; rf := rf s; next := next s; accepted := accepted s; received := received s; returned := returned s; dropped := dropped s; drained := drained s; s_pend := s_pend s; s_woken := s_woken s; r_pend := r_pend s; r_woken := r_woken s; st_pend := st_pend s; st_woken := st_woken s; rdisc := rdisc s; s_ever := s_ever s; r_ever := r_ever s; ev := ev s |}.
Definition set_rcount (v : Z) (s : st) : st := {| cap := cap s; q := q s; scount := scount s; rcount := v; pdrop := pdrop s; cdrop := cdrop s; pw := pw s; cw := cw s; sh := sh s; rh := rh s; rreg := rreg s; sf := sf s; rf := rf s; next := next s; accepted := accepted s; received := received s; returned := returned s; dropped := dropped s; drained := drained s; s_pend := s_pend s; s_woken := s_woken s; r_pend := r_pend s; r_woken := r_woken s; st_pend := st_pend s; st_woken := st_woken s; rdisc := rdisc s; s_ever := s_ever s; r_ever := r_ever s; ev := ev s |}.
Definition set_pdrop (v : bool) (s : st) : st := {| cap := cap s; q := q s; scount := scount s; rcount := rcount s; pdrop := v; cdrop := cdrop s; pw := pw s; cw := cw s; sh := sh s; rh := rh s; rreg := rreg s; sf := sf s; rf := rf s; next := next s; accepted := accepted s; received := received s; returned := returned s; dropped := dropped s; drained := drained s; s_pend := s_pend s; s_woken := s_woken s; r_pend := r_pend s; r_woken := r_woken s; st_pend := st_pend s; st_woken := st_woken s; rdisc := rdisc s; s_ever := s_ever s; r_ever := r_ever s; ev := ev s |}.
Definition set_cdrop (v : bool) (s : st) : st := {| cap := cap s; q := q s; scount := scount s; rcount := rcount s; pdrop := pdrop s; cdrop := v; pw := pw s; cw := cw s; sh := sh s; rh := rh s; rreg := rreg s; sf := sf s; rf := rf s; next := next s; accepted := accepted s; received := received s; returned := returned s; dropped := dropped s; drained := drained s; s_pend := s_pend s; s_woken := s_woken s; r_pend := r_pend s; r_woken := r_woken s; st_pend := st_pend s; st_woken := st_woken s; rdisc := rdisc s; s_ever := s_ever s; r_ever := r_ever s; ev := ev s |}.
Definition set_pw (v : option nat) (s : st) : st := {| cap := cap s; q := q s; scount := scount s; rcount := rcount s; pdrop := pdrop s; cdrop := cdrop s; pw := v; cw := cw s; sh := sh s; rh := rh s; rreg := rreg s; sf := sf s; rf := rf s; next := next s; accepted := accepted s; received := received s; returned := returned s; dropped := dropped s; drained := drained s; s_pend := s_pend s; s_woken := s_woken s; r_pend := r_pend s; r_woken := r_woken s; st_pend := st_pend s; st_woken := st_woken s; rdisc := rdisc s; s_ever := s_ever s; r_ever := r_ever s; ev := ev s |}.
Definition set_cw (v : option nat) (s : st) : st := {| cap := cap s; q := q s; scount := scount s; rcount := rcount s; pdrop := pdrop s; cdrop := cdrop s; pw := pw s; cw := v; sh := sh s; rh := rh s; rreg := rreg s; sf := sf s; rf := rf s; next := next s; accepted := accepted s; received := received s; returned := returned s; dropped := dropped s; drained := drained s; s_pend := s_pend s; s_woken := s_woken s; r_pend := r_pend s; r_woken := r_woken s; st_pend := st_pend s; st_woken := st_woken s; rdisc := rdisc s; s_ever := s_ever s; r_ever := r_ever s; ev := ev s |}.
Definition set_sh (v : hst) (s : st) : st := {| cap := cap s; q := q s; scount := scount s; rcount := rcount s; pdrop := pdrop s; cdrop := cdrop s; pw := pw s; cw := cw s; sh := v; rh := rh s; rreg := rreg s; sf := sf s; rf := rf s; next := next s; accepted := accepted s; received := received s; returned := returned s; dropped := dropped s; drained := drained s; s_pend := s_pend s; s_woken := s_woken s; r_pend := r_pend s; r_woken := r_woken s; st_pend := st_pend s; st_woken := st_woken s; rdisc := rdisc s; s_ever := s_ever s; r_ever := r_ever s; ev := ev s |}.
Definition set_rh (v : hst) (s : st) : st := {| cap := cap s; q := q s; scount := scount s; rcount := rcount s; pdrop := pdrop s; cdrop := cdrop s; pw := pw s; cw := cw s; sh := sh s; rh := v; rreg := rreg s; sf := sf s; rf := rf s; next := next s; accepted := accepted s; received := received s; returned := returned s; dropped := dropped s; drained := drained s; s_pend := s_pend s; s_woken := s_woken s; r_pend := r_pend s; r_woken := r_woken s; st_pend := st_pend s; st_woken := st_woken s; rdisc := rdisc s; s_ever := s_ever s; r_ever := r_ever s; ev := ev s |}.
Definition set_rreg (v : bool) (s : st) : st := {| cap := cap s; q := q s; scount := scount s; rcount := rcount s; pdrop := pdrop s; cdrop := cdrop s; pw := pw s; cw := cw s; sh := sh s; rh := rh s; rreg := v; sf := sf s; rf := rf s; next := next s; accepted := accepted s; received := received s; returned := returned s; dropped := dropped s; drained := drained s; s_pend := s_pend s; s_woken := s_woken s; r_pend := r_pend s; r_woken := r_woken s; st_pend := st_pend s; st_woken := st_woken s; rdisc := rdisc s; s_ever := s_ever s; r_ever := r_ever s; ev := ev s |}.
Definition set_sf (v : option (sfut * bool)) (s : st) : st := {| cap := cap s; q := q s; scount := scount s; rcount := rcount s; pdrop := pdrop s; cdrop := cdrop s; pw := pw s; cw := cw s; sh := sh s; rh := rh s; rreg := rreg s; sf := v; rf := rf s; next := next s; accepted := accepted s; received := received s; returned := returned s; dropped := dropped s; drained := drained s; s_pend := s_pend s; s_woken := s_woken s; r_pend := r_pend s; r_woken := r_woken s; st_pend := st_pend s; st_woken := st_woken s; rdisc := rdisc s; s_ever := s_ever s; r_ever := r_ever s; ev := ev s |}.
Definition set_rf (v : option (rfut * bool)) (s : st) : st := {| cap := cap s; q := q s; scount := scount s; rcount := rcount s; pdrop := pdrop s; cdrop := cdrop s; pw := pw s; cw := cw s; sh := sh s; rh := rh s; rreg := rreg s; sf := sf s; rf := v; next := next s; accepted := accepted s; received := received s; returned := returned s; dropped := dropped s; drained := drained s; s_pend := s_pend s; s_woken := s_woken s; r_pend := r_pend s; r_woken := r_woken s; st_pend := st_pend s; st_woken := st_woken s; rdisc := rdisc s; s_ever := s_ever s; r_ever := r_ever s; ev := ev s |}.
Definition set_next (v : nat) (s : st) : st := {| cap := cap s; q := q s; scount := scount s; rcount := rcount s; pdrop := pdrop s; cdrop := cdrop s; pw := pw s; cw := cw s; sh := sh s; rh := rh s; rreg := rreg s; sf := sf s; rf := rf s; next := v; accepted := accepted s; received := received s; returned := returned s; dropped := dropped s; drained := drained s; s_pend := s_pend s; s_woken := s_woken s; r_pend := r_pend s; r_woken := r_woken s; st_pend := st_pend s; st_woken := st_woken s; rdisc := rdisc s; s_ever := s_ever s; r_ever := r_ever s; ev := ev s |}.
Definition set_accepted (v : list nat) (s : st) : st := {| cap := cap s; q := q s; scount := scount s; rcount := rcount s; pdrop := pdrop s; cdrop := cdrop s; pw := pw s; cw := cw s; sh := sh s; rh := rh s; rreg := rreg s; sf := sf s; rf := rf s; next := next s; accepted := v; received := received s; returned := returned s; dropped := dropped s; drained := drained s; s_pend := s_pend s; s_woken := s_woken s; r_pend := r_pend s; r_woken := r_woken s; st_pend := st_pend s; st_woken := st_woken s; rdisc := rdisc s; s_ever := s_ever s; r_ever := r_ever s; ev := ev s |}.
Definition set_received (v : list nat) (s : st) : st := {| cap := cap s; q := q s; scount := scount s; rcount := rcount s; pdrop := pdrop s; cdrop := cdrop s; pw := pw s; cw := cw s; sh := sh s; rh := rh s; rreg := rreg s; sf := sf s; rf := rf s; next := next s; accepted := accepted s; received := v; returned := returned s; dropped := dropped s; drained := drained s; s_pend := s_pend s; s_woken := s_woken s; r_pend := r_pend s; r_woken := r_woken s; st_pend := st_pend s; st_woken := st_woken s; rdisc := rdisc s; s_ever := s_ever s; r_ever := r_ever s; ev := ev s |}.
Definition set_returned (v : list nat) (s : st) : st := {| cap := cap s; q := q s; scount := scount s; rcount := rcount s; pdrop := pdrop s; cdrop := cdrop s; pw := pw s; cw := cw s; sh := sh s; rh := rh s; rreg := rreg s; sf := sf s; rf := rf s; next := next s; accepted := accepted s; received := received s; returned := v; dropped := dropped s; drained := drained s; s_pend := s_pend s; s_woken := s_woken s; r_pend := r_pend s; r_woken := r_woken s; st_pend := st_pend s; st_woken := st_woken s; rdisc := rdisc s; s_ever := s_ever s; r_ever := r_ever s; ev := ev s |}.
Definition set_dropped (v : list nat) (s : st) : st := {| cap := cap s; q := q s; scount := scount s; rcount := rcount s; pdrop := pdrop s; cdrop := cdrop s; pw := pw s; cw := cw s; sh := sh s; rh := rh s; rreg := rreg s; sf := sf s; rf := rf s; next := next s; accepted := accepted s; received := received s; returned := returned s; dropped := v; drained := drained s; s_pend := s_pend s; s_woken := s_woken s; r_pend := r_pend s; r_woken := r_woken s; st_pend := st_pend s; st_woken := st_woken s; rdisc := rdisc s; s_ever := s_ever s; r_ever := r_ever s; ev := ev s |}.
Definition set_drained (v : list nat) (s : st) : st := {| cap := cap s; q := q s; scount := scount s; rcount := rcount s; pdrop := pdrop s; cdrop := cdrop s; pw := pw s; cw := cw s; sh := sh s; rh := rh s; rreg := rreg s; sf := sf s; rf := rf s; next := next s; accepted := accepted s; received := received s; returned := returned s; dropped := dropped s; drained := v; s_pend := s_pend s; s_woken := s_woken s; r_pend := r_pend s; r_woken := r_woken s; st_pend := st_pend s; st_woken := st_woken s; rdisc := rdisc s; s_ever := s_ever s; r_ever := r_ever s; ev := ev s |}.
Definition set_s_pend (v : option nat) (s : st) : st := {| cap := cap s; q := q s; scount := scount s; rcount := rcount s; pdrop := pdrop s; cdrop := cdrop s; pw := pw s; cw := cw s; sh := sh s; rh := rh s; rreg := rreg s; sf := sf s; rf := rf s; next := next s; accepted := accepted s; received := received s; returned := returned s; dropped := dropped s; drained := drained s; s_pend := v; s_woken := s_woken s; r_pend := r_pend s; r_woken := r_woken s; st_pend := st_pend s; st_woken := st_woken s; rdisc := rdisc s; s_ever := s_ever s; r_ever := r_ever s; ev := ev s |}.
Definition set_s_woken (v : bool) (s : st) : st := {| cap := cap s; q := q s; scount := scount s; rcount := rcount s; pdrop := pdrop s; cdrop := cdrop s; pw := pw s; cw := cw s; sh := sh s; rh := rh s; rreg := rreg s; sf := sf s; rf := rf s; next := next s; accepted := accepted s; received := received s; returned := returned s; dropped := dropped s; drained := drained s; s_pend := s_pend s; s_woken := v; r_pend := r_pend s; r_woken := r_woken s; st_pend := st_pend s; st_woken := st_woken s; rdisc := rdisc s; s_ever := s_ever s; r_ever := r_ever s; ev := ev s |}.
Definition set_r_pend (v : option (owner * nat)) (s : st) : st := {| cap := cap s; q := q s; scount := scount s; rcount := rcount s; pdrop := pdrop s; cdrop := cdrop s; pw := pw s; cw := cw s; sh := sh s; rh := rh s; rreg := rreg s; sf := sf s; rf := rf s; next := next s; accepted := accepted s; received := received s; returned := returned s; dropped := dropped s; drained := drained s; s_pend := s_pend s; s_woken := s_woken s; r_pend := v; r_woken := r_woken s; st_pend := st_pend s; st_woken := st_woken s; rdisc := rdisc s; s_ever := s_ever s; r_ever := r_ever s; ev := ev s |}.
Definition set_r_woken (v : bool) (s : st) : st := {| cap := cap s; q := q s; scount := scount s; rcount := rcount s; pdrop := pdrop s; cdrop := cdrop s; pw := pw s; cw := cw s; sh := sh s; rh := rh s; rreg := rreg s; sf := sf s; rf := rf s; next := next s; accepted := accepted s; received := received s; returned := returned s; dropped := dropped s; drained := drained s; s_pend := s_pend s; s_woken := s_woken s; r_pend := r_pend s; r_woken := v; st_pend := st_pend s; st_woken := st_woken s; rdisc := rdisc s; s_ever := s_ever s; r_ever := r_ever s; ev := ev s |}.
Definition set_st_pend (v : option nat) (s : st) : st := {| cap := cap s; q := q s; scount := scount s; rcount := rcount s; pdrop := pdrop s; cdrop := cdrop s; pw := pw s; cw := cw s; sh := sh s; rh := rh s; rreg := rreg s; sf := sf s; rf := rf s; next := next s; accepted := accepted s; received := received s; returned := returned s; dropped := dropped s; drained := drained s; s_pend := s_pend s; s_woken := s_woken s; r_pend := r_pend s; r_woken := r_woken s; st_pend := v; st_woken := st_woken s; rdisc := rdisc s; s_ever := s_ever s; r_ever := r_ever s; ev := ev s |}.
Definition set_st_woken (v : bool) (s : st) : st := {| cap := cap s; q := q s; scount := scount s; rcount := rcount s; pdrop := pdrop s; cdrop := cdrop s; pw := pw s; cw := cw s; sh := sh s; rh := rh s; rreg := rreg s; sf := sf s; rf := rf s; next := next s; accepted := accepted s; received := received s; returned := returned s; dropped := dropped s; drained := drained s; s_pend := s_pend s; s_woken := s_woken s; r_pend := r_pend s; r_woken := r_woken s; st_pend := st_pend s; st_woken := v; rdisc := rdisc s; s_ever := s_ever s; r_ever := r_ever s; ev := ev s |}.
Definition set_rdisc (v : bool) (s : st) : st := {| cap := cap s; q := q s; scount := scount s; rcount := rcount s; pdrop := pdrop s; cdrop := cdrop s; pw := pw s; cw := cw s; sh := sh s; rh := rh s; rreg := rreg s; sf := sf s; rf := rf s; next := next s; accepted := accepted s; received := received s; returned := returned s; dropped := dropped s; drained := drained s; s_pend := s_pend s; s_woken := s_woken s; r_pend := r_pend s; r_woken := r_woken s; st_pend := st_pend s; st_woken := st_woken s; rdisc := v; s_ever := s_ever s; r_ever := r_ever s; ev := ev s |}.
Definition set_s_ever (v : bool) (s : st) : st := {| cap := cap s; q := q s; scount := scount s; rcount := rcount s; pdrop := pdrop s; cdrop := cdrop s; pw := pw s; cw := cw s; sh := sh s; rh := rh s; rreg := rreg s; sf := sf s; rf := rf s; next := next s; accepted := accepted s; received := received s; returned := returned s; dropped := dropped s; drained := drained s; s_pend := s_pend s; s_woken := s_woken s; r_pend := r_pend s; r_woken := r_woken s; st_pend := st_pend s; st_woken := st_woken s; rdisc := rdisc s; s_ever := v; r_ever := r_ever s; ev := ev s |}.
Definition set_r_ever (v : bool) (s : st) : st := {| cap := cap s; q := q s; scount := scount s; rcount := rcount s; pdrop := pdrop s; cdrop := cdrop s; pw := pw s; cw := cw s; sh := sh s; rh := rh s; rreg := rreg s; sf := sf s; rf := rf s; next := next s; accepted := accepted s; received := received s; returned := returned s; dropped := dropped s; drained := drained s; s_pend := s_pend s; s_woken := s_woken s; r_pend := r_pend s; r_woken := r_woken s; st_pend := st_pend s; st_woken := st_woken s; rdisc := rdisc s; s_ever := s_ever s; r_ever := v; ev := ev s |}.
Definition set_ev (v : list event) (s : st) : st := {| cap := cap s; q := q s; scount := scount s; rcount := rcount s; pdrop := pdrop s; cdrop := cdrop s; pw := pw s; cw := cw s; sh := sh s; rh := rh s; rreg := rreg s; sf := sf s; rf := rf s; next := next s; accepted := accepted s; received := received s; returned := returned s; dropped := dropped s; drained := drained s; s_pend := s_pend s; s_woken := s_woken s; r_pend := r_pend s; r_woken := r_woken s; st_pend := st_pend s; st_woken := st_woken s; rdisc := rdisc s; s_ever := s_ever s; r_ever := r_ever s; ev := v |}.
(* SETTERS-END *)


Notation "s |> f" := (f s) (at level 50, left associativity, only parsing).

Definition init (c : nat) (k : kind) : st :=
  {| cap := c; q := []; scount := 1%Z; rcount := 1%Z; pdrop := false; cdrop := false;
     pw := None; cw := None; sh := HLive k false; rh := HLive k false; rreg := false;
     sf := None; rf := None; next := 0;
     accepted := []; received := []; returned := []; dropped := []; drained := [];
     s_pend := None; s_woken := false; r_pend := None; r_woken := false; st_pend := None; st_woken := false;
     rdisc := false; s_ever := false; r_ever := false; ev := [] |}.

Definition held_of (f : sfut) : list nat :=
  match f with SFSend v => [v] | SFBatch r _ => r | SFBatchMut r _ => r end.
Definition held (s : st) : list nat := match sf s with Some (f, _) => held_of f | None => [] end.

Definition opt_is {A : Type} (o : option A) : bool := match o with Some _ => true | None => false end.
Definition is_nil {A : Type} (l : list A) : bool := match l with [] => true | _ :: _ => false end.
Definition wake_ev (o : option nat) : list event := match o with Some w => [EWake w] | None => [] end.

(* All state transformers below are straight-line compositions of field updates (conditions sit inside
   the field values), so every field of the result is an explicit expression of the fields of `s`. *)

(* SpscShared::wake_one(Role::Recv) / (Role::Send), executed iff b *)
Definition wake_r_if (b : bool) (s : st) : st :=
  s |> set_st_woken (st_woken s || (b && match cw s, st_pend s with Some w, Some w' => w' =? w | _, _ => false end))
    |> set_r_woken (r_woken s || (b && opt_is (cw s)))
    |> set_ev (ev s ++ if b then wake_ev (cw s) else [])
    |> set_cw (if b then None else cw s).
Definition wake_s_if (b : bool) (s : st) : st :=
  s |> set_s_woken (s_woken s || (b && opt_is (pw s)))
    |> set_ev (ev s ++ if b then wake_ev (pw s) else [])
    |> set_pw (if b then None else pw s).
Definition wake_r := wake_r_if true.
Definition wake_s := wake_s_if true.

(* write_batch of exactly `ids` (the caller has checked the free space); notify_receivers iff sent > 0 *)
Definition push (ids : list nat) (s : st) : st :=
  wake_r_if (negb (is_nil ids)) (s |> set_q (q s ++ ids) |> set_accepted (accepted s ++ ids)).
(* read_batch of k <= len items; notify_senders iff got > 0 *)
Definition pop (k : nat) (s : st) : st :=
  wake_s_if (negb (k =? 0)) (s |> set_received (received s ++ firstn k (q s)) |> set_q (skipn k (q s))).
Definition give_back (ids : list nat) (s : st) : st := set_returned (returned s ++ ids) s.
Definition destroy (ids : list nat) (s : st) : st :=
  s |> set_dropped (dropped s ++ ids) |> set_ev (ev s ++ map EDrop ids).

Definition free (s : st) : nat := cap s - length (q s).

(* close_internal of a sender / receiver handle, executed iff b *)
Definition close_int_s_if (b : bool) (s : st) : st :=
  wake_r_if (b && (scount s =? 1)%Z)
            (s |> set_pdrop (pdrop s || b) |> set_scount (if b then (scount s - 1)%Z else scount s)).
Definition close_int_r_if (b : bool) (s : st) : st :=
  wake_s_if (b && (rcount s =? 1)%Z)
            (s |> set_cdrop (cdrop s || b) |> set_rcount (if b then (rcount s - 1)%Z else rcount s)).
Definition close_int_s := close_int_s_if true.
Definition close_int_r := close_int_r_if true.

(* Arc<SpscShared> released by the second handle: Ring::drop drains what is left *)
Definition both_gone (s : st) : bool := match sh s, rh s with HGone, HGone => true | _, _ => false end.
Definition shared_drop_if (s : st) : st :=
  s |> set_drained (drained s ++ if both_gone s then q s else [])
    |> set_ev (ev s ++ if both_gone s then map EDrop (q s) else [])
    |> set_q (if both_gone s then [] else q s).

Definition clear_stream_pend (s : st) : st :=
  s |> set_st_pend None |> set_r_pend (match r_pend s with Some (OStream, _) => None | x => x end).
Definition clear_fut_pend (s : st) : st :=
  set_r_pend (match r_pend s with Some (OFut, _) => None | x => x end) s.
Definition note_disc (s : st) : st := set_rdisc true s.

Definition gate_s (s : st) (need : option kind) (body : kind -> bool -> st * res) : st * res :=
  match sh s with
  | HGone => (s, RGone)
  | HLive k c =>
    match sf s with
    | Some _ => (s, RBusy)
    | None => match need with
              | Some k' => if kind_eqb k k' then body k c else (s, RNA)
              | None => body k c
              end
    end
  end.
Definition gate_r (s : st) (need : option kind) (body : kind -> bool -> st * res) : st * res :=
  match rh s with
  | HGone => (s, RGone)
  | HLive k c =>
    match rf s with
    | Some _ => (s, RBusy)
    | None => match need with
              | Some k' => if kind_eqb k k' then body k c else (s, RNA)
              | None => body k c
              end
    end
  end.

Definition alloc (n : nat) (s : st) : st := set_next (next s + n) s.

(* ---- sender forms ---- *)
Definition do_try_send (s : st) : st * res :=
  gate_s s None (fun _ c =>
    let v := next s in
    if c || cdrop s then (give_back [v] (alloc 1 s), RClosedV v)
    else if length (q s) <? cap s then (push [v] (alloc 1 s), ROk)
    else (give_back [v] (alloc 1 s), RFull v)).

Definition do_send (s : st) : st * res :=
  gate_s s (Some KSync) (fun _ c =>
    let v := next s in
    if c || cdrop s then (destroy [v] (alloc 1 s), RClosed)
    else if length (q s) <? cap s then (push [v] (alloc 1 s), ROk)
    else (s, RWouldBlock)).

Definition do_try_send_batch (n : nat) (s : st) : st * res :=
  gate_s s None (fun _ c =>
    match n with
    | 0 => (s, ROkN 0)
    | _ =>
      let ids := seq (next s) n in
      if c || cdrop s then (give_back ids (alloc n s), RTryBatchErr 0 ids true)
      else
        let k := min n (free s) in
        let s1 := push (firstn k ids) (alloc n s) in
        if k =? n then (s1, ROkN n)
        else (give_back (skipn k ids) s1, RTryBatchErr k (skipn k ids) false)
    end).

Definition do_send_batch (cf : cfg) (n : nat) (s : st) : st * res :=
  gate_s s (Some KSync) (fun _ c =>
    let ids := seq (next s) n in
    if (fix_f03 cf && c) || cdrop s then (give_back ids (alloc n s), RBatchErr 0 ids)
    else if n <=? free s then (push ids (alloc n s), ROkN n)
    else (s, RWouldBlock)).

Definition do_try_send_batch_mut (n : nat) (s : st) : st * res :=
  gate_s s None (fun _ c =>
    match n with
    | 0 => (s, RMutOk 0 [])
    | _ =>
      let ids := seq (next s) n in
      if c || cdrop s then (give_back ids (alloc n s), RMutClosed ids)
      else
        let k := min n (free s) in
        let s1 := push (firstn k ids) (alloc n s) in
        (give_back (skipn k ids) s1, RMutOk k (skipn k ids))
    end).

Definition do_send_batch_mut (n : nat) (s : st) : st * res :=
  gate_s s (Some KSync) (fun _ c =>
    match n with
    | 0 => (s, RMutOk 0 [])
    | _ =>
      let ids := seq (next s) n in
      if c || cdrop s then (give_back ids (alloc n s), RMutClosed ids)
      else if n <=? free s then (push ids (alloc n s), RMutOk n [])
      else (s, RWouldBlock)
    end).

Definition do_close_s (s : st) : st * res :=
  gate_s s None (fun k c =>
    if c then (s, RCloseErr)
    else (close_int_s (s |> set_sh (HLive k true) |> set_s_ever true), ROk)).

Definition do_obs_s (s : st) : st * res :=
  gate_s s None (fun _ c =>
    (s, RObs (length (q s)) (length (q s) =? 0) (cap s <=? length (q s)) (c || cdrop s) (cap s))).

Definition do_conv_s (cf : cfg) (s : st) : st * res :=
  gate_s s None (fun k c => (set_sh (HLive (flip k) (if fix_conv cf then c else false)) s, ROk)).

Definition do_drop_s (s : st) : st * res :=
  gate_s s None (fun _ c =>
    (shared_drop_if (set_sh HGone (close_int_s_if (negb c) s)), ROk)).

Definition do_mk_s (f : sfut) (n : nat) (s : st) : st * res :=
  gate_s s (Some KAsync) (fun _ _ => (s |> alloc n |> set_sf (Some (f, false)), ROk)).

Definition do_poll_s (w : nat) (s : st) : st * res :=
  match sh s, sf s with
  | HLive _ c, Some (f, reg) =>
    let unreg (s : st) := set_pw (if reg then None else pw s) s in
    let done (s : st) := s |> set_sf None |> set_s_pend None in
    let pending (f' : sfut) (s : st) :=
      (s |> set_pw (Some w) |> set_sf (Some (f', true)) |> set_s_pend (Some w) |> set_s_woken false, RPending) in
    match f with
    | SFSend v =>
      if c || cdrop s then (done (destroy [v] (unreg s)), RClosed)
      else if length (q s) <? cap s then (done (push [v] (unreg s)), ROk)
      else pending f s
    | SFBatch rest sent =>
      match rest with
      | [] => (done (unreg s), ROkN sent)
      | _ =>
        if c || cdrop s then (done (give_back rest (unreg s)), RBatchErr sent rest)
        else
          let k := min (length rest) (free s) in
          let s1 := push (firstn k rest) s in
          if k =? length rest then (done (unreg s1), ROkN (sent + k))
          else pending (SFBatch (skipn k rest) (sent + k)) s1
      end
    | SFBatchMut items sent =>
      match items with
      | [] => (done (unreg s), RMutOk sent [])
      | _ =>
        if c || cdrop s then (done (give_back items (unreg s)), RMutClosed items)
        else
          let k := min (length items) (free s) in
          let s1 := push (firstn k items) s in
          if k =? length items then (done (unreg s1), RMutOk (sent + k) [])
          else pending (SFBatchMut (skipn k items) (sent + k)) s1
      end
    end
  | _, _ => (s, RNoFut)
  end.

Definition do_dropfut_s (s : st) : st * res :=
  match sf s with
  | Some (f, reg) =>
    let s1 := s |> set_pw (if reg then None else pw s) |> set_sf None |> set_s_pend None in
    match f with
    | SFSend v => (destroy [v] s1, ROk)
    | SFBatch rest _ => (destroy rest s1, ROk)
    | SFBatchMut items _ => (give_back items s1, RRest items)
    end
  | None => (s, RNoFut)
  end.

(* ---- receiver forms ---- *)
Definition senders_alive (s : st) : bool := negb (scount s =? 0)%Z.

(* try_recv / recv / recv_timeout(0) differ only in what an empty, still connected channel yields *)
Definition do_recv1 (need : option kind) (on_empty : res) (s : st) : st * res :=
  gate_r s need (fun _ c =>
    if c then (note_disc s, RDisc)
    else match q s with
         | x :: _ => (pop 1 s, RVal x)
         | [] => if senders_alive s then (s, on_empty) else (note_disc s, RDisc)
         end).

Definition do_recvn (need : option kind) (on_empty : res) (m : nat) (s : st) : st * res :=
  gate_r s need (fun _ c =>
    match m with
    | 0 => (s, RVals [])
    | _ =>
      if c then (note_disc s, RDisc)
      else match q s with
           | _ :: _ => let k := min m (length (q s)) in (pop k s, RVals (firstn k (q s)))
           | [] => if senders_alive s then (s, on_empty) else (note_disc s, RDisc)
           end
    end).

Definition do_close_r (s : st) : st * res :=
  gate_r s None (fun k c =>
    if c then (s, RCloseErr)
    else (close_int_r (s |> set_rh (HLive k true) |> set_r_ever true), ROk)).

Definition do_obs_r (s : st) : st * res :=
  gate_r s None (fun _ c =>
    (s, RObs (length (q s)) (length (q s) =? 0) (cap s <=? length (q s))
             (c || (negb (senders_alive s) && (length (q s) =? 0))) (cap s))).

Definition stream_unreg (s : st) : st := s |> set_cw (if rreg s then None else cw s) |> set_rreg false.

Definition do_conv_r (cf : cfg) (s : st) : st * res :=
  gate_r s None (fun k c =>
    let s1 := match k with KAsync => clear_stream_pend (stream_unreg s) | KSync => s end in
    (set_rh (HLive (flip k) (if fix_conv cf then c else false)) s1, ROk)).

Definition do_drop_r (s : st) : st * res :=
  gate_r s None (fun k c =>
    let s1 := match k with KAsync => clear_stream_pend (stream_unreg s) | KSync => s end in
    (shared_drop_if (set_rh HGone (close_int_r_if (negb c) s1)), ROk)).

Definition do_mk_r (f : rfut) (s : st) : st * res :=
  gate_r s (Some KAsync) (fun _ _ => (set_rf (Some (f, false)) s, ROk)).

Definition do_poll_r (w : nat) (s : st) : st * res :=
  match rh s, rf s with
  | HLive _ c, Some (f, reg) =>
    let unreg (s : st) := set_cw (if reg then None else cw s) s in
    let done (s : st) := s |> set_rf None |> clear_fut_pend in
    let pending (s : st) :=
      (s |> set_cw (Some w) |> set_rf (Some (f, true)) |> set_r_pend (Some (OFut, w)) |> set_r_woken false, RPending) in
    match f with
    | RFRecv =>
      if c then (note_disc (done (unreg s)), RDisc)
      else match q s with
           | x :: _ => (done (pop 1 (unreg s)), RVal x)
           | [] => if senders_alive s then pending s else (note_disc (done (unreg s)), RDisc)
           end
    | RFBatch m =>
      match m with
      | 0 => (done (unreg s), RVals [])
      | _ =>
        if c then (note_disc (done (unreg s)), RDisc)
        else match q s with
             | _ :: _ => let k := min m (length (q s)) in (done (unreg (pop k s)), RVals (firstn k (q s)))
             | [] => if pdrop s then (note_disc (done (unreg s)), RDisc)
                     else if senders_alive s then pending s
                     else (note_disc (done (set_cw None s)), RDisc)
             end
      end
    end
  | _, _ => (s, RNoFut)
  end.

Definition do_dropfut_r (s : st) : st * res :=
  match rf s with
  | Some (_, reg) => (s |> set_cw (if reg then None else cw s) |> set_rf None |> clear_fut_pend, ROk)
  | None => (s, RNoFut)
  end.

Definition do_stream_next (w : nat) (s : st) : st * res :=
  gate_r s (Some KAsync) (fun _ c =>
    if c then (clear_stream_pend (note_disc s), RNone)
    else match q s with
         | x :: _ => (clear_stream_pend (pop 1 (stream_unreg s)), RVal x)
         | [] => if senders_alive s
                 then (s |> set_cw (Some w) |> set_rreg true |> set_r_pend (Some (OStream, w)) |> set_r_woken false
                         |> set_st_pend (Some w) |> set_st_woken false, RPending)
                 else (note_disc (clear_stream_pend (stream_unreg s)), RNone)
         end).

Definition exec (cf : cfg) (s : st) (o : op) : st * res :=
  match o with
  | TrySend => do_try_send s
  | Send => do_send s
  | TrySendBatch n => do_try_send_batch n s
  | SendBatch n => do_send_batch cf n s
  | TrySendBatchMut n => do_try_send_batch_mut n s
  | SendBatchMut n => do_send_batch_mut n s
  | CloseS => do_close_s s
  | ObsS => do_obs_s s
  | ConvS => do_conv_s cf s
  | DropS => do_drop_s s
  | MkSend => do_mk_s (SFSend (next s)) 1 s
  | MkSendBatch n => do_mk_s (SFBatch (seq (next s) n) 0) n s
  | MkSendBatchMut n => do_mk_s (SFBatchMut (seq (next s) n) 0) n s
  | PollS w => do_poll_s w s
  | DropFutS => do_dropfut_s s
  | TryRecv => do_recv1 None REmpty s
  | Recv => do_recv1 (Some KSync) RWouldBlock s
  | RecvTimeout => do_recv1 (Some KSync) RTimeout s
  | TryRecvBatch m => do_recvn None REmpty m s
  | RecvBatch m => do_recvn (Some KSync) RWouldBlock m s
  | CloseR => do_close_r s
  | ObsR => do_obs_r s
  | ConvR => do_conv_r cf s
  | DropR => do_drop_r s
  | MkRecv => do_mk_r RFRecv s
  | MkRecvBatch m => do_mk_r (RFBatch m) s
  | PollR w => do_poll_r w s
  | DropFutR => do_dropfut_r s
  | StreamNext w => do_stream_next w s
  end.

Definition out := (res * list event)%type.

Definition step (cf : cfg) (s : st) (o : op) : st * out :=
  let '(s1, r) := exec cf (set_ev [] s) o in (s1, (r, ev s1)).

Fixpoint run (cf : cfg) (s : st) (ops : list op) : st * list out :=
  match ops with
  | [] => (s, [])
  | o :: r => let '(s1, x) := step cf s o in let '(s2, xs) := run cf s1 r in (s2, x :: xs)
  end.

(* implicit teardown appended by both drivers at the end of every case *)
Definition teardown : list op := [DropFutS; DropFutR; DropS; DropR].

Definition run_case (cf : cfg) (c : nat) (k : kind) (ops : list op) : list out :=
  snd (run cf (init c k) (ops ++ teardown)).
