(* Chan/TicketK3.v — atomic-step (K3) model of the bounded MPSC ticket protocol
     channels/src/mpsc/bounded_v3/shared.rs    window_open(+_cold), credit_ok(+_cold), try_send_now(+_cold),
                                               claim_run(+_cold), resolve_run, ensure_resident, write_slot,
                                               notify_receiver, deq_once, deq_run, publish_progress,
                                               notify_senders, flush_progress, drain_straggler, senders_alive,
                                               receivers_alive, drop_sender, drop_receiver,
                                               wake_all_receivers, wake_all_senders
     channels/src/mpsc/bounded_v3/producer.rs  Sender::{try_send, try_send_batch, close, Drop}, try_send_run_batch
     channels/src/mpsc/bounded_v3/consumer.rs  Receiver::{try_recv, try_recv_batch(_mut), close, Drop}, try_recv_run
   One model step per traced facade event (atomic access, fence, Mutex lock attempt / unlock, spin
   hint), in source order, carrying the same variable, operation and Ordering (the orderings are
   data: compared by the D2 replay and the D3 skeleton check; the semantics of the model is
   sequentially consistent).  Two more step kinds (event kind `KData`) are the untraced payload-cell
   accesses (the write of `Some(v)` into `slot.data`, the `take()` out of it), placed as their own
   interleavable steps before the state store / after the state load.
   Threads: ANY number `np` of producer threads (index 0 .. np-1), each with its own Sender clone
   and an ARBITRARY program, and the consumer thread with an arbitrary program; every thread ends
   with the drop of its handle.
   Parameters: cap (capacity), cc (chunk_cap; the code's shift/mask are / and mod by cc = 2^k),
   n (chunk-table entries), kk (the publish cadence K = Head::publish_chunk).
   Payload ids are (producer index, op number 1, 2, ...), as in the scenario runner.
   `usize` arithmetic: unbounded N; `wrapping_sub(x) < cap` is modelled exactly for values below
   2^64 (`win`): a minuend smaller than the subtrahend wraps to a huge number, i.e. "closed".
   No proofs in this file. *)
From Fibre Require Import Common.Base Common.Conc.

(* ---------------------------------------------------------------- events *)
Inductive tid := TC | TP (i : nat).
Inductive choice := CGo.

Inductive evar :=
| VGtail | VProgress | VDrained | VRetired | VId (j : N) | VState (q : N) | VHead
| VSenderCnt | VRdropped | VClosed | VRunCap
| VSrwc | VArwc | VSswc | VAswc            (* sync/async recv/send waiter counts *)
| VLkSrw | VLkArw | VLkSsw | VLkAsw        (* the four waiter mutexes *)
| VData | VNone.
Inductive ekind :=
| KLoad | KStore | KFadd | KFsub | KCas | KFence | KLock | KUnlock | KSpin | KData.
Inductive eord := ORlx | OAcq | ORel | OAcqRel | OSeqCst | ONone.

(* ea: operand / expected, eb: new value of a CAS, er: value read, eof: failure ordering of a CAS *)
Record event := Ev { ek : ekind; evr : evar; eo : eord; eof : eord; ea : N; eb : N; er : N; eok : bool }.

Definition eLoad v o r := Ev KLoad v o ONone 0 0 r true.
Definition eStore v o a := Ev KStore v o ONone a 0 0 true.
Definition eFadd v o a r := Ev KFadd v o ONone a 0 r true.
Definition eFsub v o a r := Ev KFsub v o ONone a 0 r true.
Definition eCas v o f a b r ok := Ev KCas v o f a b r ok.
Definition eFence := Ev KFence VNone OSeqCst ONone 0 0 0 true.
Definition eLock v ok := Ev KLock v ONone ONone 0 0 0 ok.
Definition eUnlock v := Ev KUnlock v ONone ONone 0 0 0 true.
Definition eSpin := Ev KSpin VNone ONone ONone 0 0 0 true.
Definition eData := Ev KData VData ONone ONone 0 0 0 true.

Definition evar_eqb (a b : evar) : bool :=
  match a, b with
  | VGtail, VGtail | VProgress, VProgress | VDrained, VDrained | VRetired, VRetired | VHead, VHead
  | VSenderCnt, VSenderCnt | VRdropped, VRdropped | VClosed, VClosed | VRunCap, VRunCap
  | VSrwc, VSrwc | VArwc, VArwc | VSswc, VSswc | VAswc, VAswc
  | VLkSrw, VLkSrw | VLkArw, VLkArw | VLkSsw, VLkSsw | VLkAsw, VLkAsw
  | VData, VData | VNone, VNone => true
  | VId i, VId j => N.eqb i j
  | VState i, VState j => N.eqb i j
  | _, _ => false
  end.
Definition ekind_eqb (a b : ekind) : bool :=
  match a, b with
  | KLoad, KLoad | KStore, KStore | KFadd, KFadd | KFsub, KFsub | KCas, KCas | KFence, KFence
  | KLock, KLock | KUnlock, KUnlock | KSpin, KSpin | KData, KData => true
  | _, _ => false
  end.
Definition eord_eqb (a b : eord) : bool :=
  match a, b with
  | ORlx, ORlx | OAcq, OAcq | ORel, ORel | OAcqRel, OAcqRel | OSeqCst, OSeqCst | ONone, ONone => true
  | _, _ => false
  end.
Definition event_eqb (a b : event) : bool :=
  ekind_eqb (ek a) (ek b) && evar_eqb (evr a) (evr b) && eord_eqb (eo a) (eo b) && eord_eqb (eof a) (eof b)
  && N.eqb (ea a) (ea b) && N.eqb (eb a) (eb b) && N.eqb (er a) (er b) && Bool.eqb (eok a) (eok b).

(* ---------------------------------------------------------------- programs, results, pcs *)
Definition val := (nat * N)%type.             (* payload id: (producer index, op number) *)

(* batch sizes are positive: an empty batch / max = 0 returns before touching any shared variable *)
Inductive pop := TrySend | TrySendBatch (k : positive).
Inductive cop := TryRecv | TryRecvBatch (max : positive).

Inductive pres := POk (v : val) | PFull (v : val) | PClosed (v : val).
Inductive cres := RVal (v : val) | REmpty | RDisc.

(* ghost status of a ticket *)
Inductive tstat := TFree | TOwn (th : nat) | TSet (v : val) | TSkip.

(* which try_send_now: the hot one (window on `progress`) or the cold mirror (on `drained`) *)
Inductive pctx := XHot | XCold.
Definition is_cold (x : pctx) : bool := match x with XCold => true | _ => false end.

(* a claimed ticket run [rt, rt+rm): the first rv tickets get SET, the rest SKIP; rw slots written so far.
   try_send_now's single ticket is the run (t, 1 or 0, 1, 0). *)
Record trun := mkRun { rt : N; rv : N; rm : N; rw : N }.
(* try_send_run_batch's locals: on the cold path?, items sent so far, total items *)
Record bctx := mkB { bcold : bool; bsent : N; btotal : N }.
(* who called the write phase (ensure_resident .. notify_receiver) *)
Inductive kctx := KOne (x : pctx) | KBatch (b : bctx).

Inductive wk4 := W4L1 | W4U1 | W4L2 | W4U2.                         (* wake_all_receivers *)
Inductive wk6 := W6L1 | W6S1 | W6U1 | W6L2 | W6S2 | W6U2.           (* wake_all_senders *)

Inductive ppc_t :=
| PIdle                                       (* next: closed.load of the next op, or the Drop CAS *)
| PRd                                         (* receivers_alive: receiver_dropped.load *)
| PS1 (x : pctx)                              (* window_open: g_tail.load *)
| PS2 (x : pctx) (a : N)                      (*              progress|drained .load *)
| PS3 (x : pctx)                              (* g_tail.fetch_add(1) *)
| PS4 (x : pctx) (t : N)                      (* credit_ok: progress|drained .load *)
| PE1 (k : kctx) (r : trun)                    (* ensure_resident: id.load *)
| PE2 (k : kctx) (r : trun) (cur : N)          (*               consumer_retired.load *)
| PEs (k : kctx) (r : trun) (cur : N)          (*               spin_loop *)
| PE3 (k : kctx) (r : trun) (cur : N)          (*               id.compare_exchange *)
| PW0 (k : kctx) (r : trun)                    (* write_slot / resolve_run: payload write (SET tickets only) *)
| PW1 (k : kctx) (r : trun)                    (*             state.store SET|SKIP *)
| PN1 (k : kctx) (r : trun)                    (* notify_receiver: fence *)
| PN2 (k : kctx) (r : trun)                    (*                  sync_recv_waiter_count.load *)
| PN3 (k : kctx) (r : trun)                    (*                  async_recv_waiter_count.load *)
| PB1 (b : bctx)                              (* try_send_batch: receivers_alive *)
| PL1 (b : bctx)                              (* try_send_run_batch loop: receivers_alive *)
| PC0 (b : bctx)                              (* claim_run(+_cold): run_cap.load *)
| PC1 (b : bctx)                              (*                    g_tail.load *)
| PC2 (b : bctx) (g : N)                      (*                    progress|drained .load *)
| PC3 (b : bctx) (m : N)                      (*                    g_tail.fetch_add(m) *)
| PC4 (b : bctx) (t : N) (m : N)              (*                    progress|drained .load *)
| PDropSub                                    (* drop_sender: sender_count.fetch_sub *)
| PWk (k : wk4)                               (* wake_all_receivers (last sender) *)
| PDone.

Inductive rsite := R1 | R2.                   (* try_recv_run: first deq_run | straggler re-drain *)
(* deq_once called from try_recv | from drain_straggler; deq_run(max) with `got` items so far *)
Inductive dctx := DTry1 | DTry2 | DRun (site : rsite) (max got : N).
(* flush_progress before returning Empty | Disconnected | Ok(values in hand) | (try_recv_run, k = 0)
   before senders_alive *)
Inductive fctx := FEmpty | FDisc | FVals | FRun0 (max : N).
Inductive ubctx := UbDeq (d : dctx) (set : bool) | UbFlush (f : fctx).   (* publish_progress call site *)
Inductive deqres := QGot | QInFlight | QEmpty.

Inductive cpc_t :=
| CIdle
| CLock (d : dctx)                            (* deq_once: head.lock *)
| CD1 (d : dctx)                              (*           id.load *)
| CD2 (d : dctx)                              (*           consumer_retired.store *)
| CD3 (d : dctx)                              (*           state.load *)
| CD4 (d : dctx)                              (*           payload take *)
| CD5 (d : dctx) (set : bool)                 (*           state.store EMPTY *)
| CD6 (d : dctx)                              (*           drained.store (deq_once SET arm | deq_run exit) *)
| CM1 (d : dctx) | CM2 (d : dctx)             (*           miss: drained.store; g_tail.load *)
| CUnl (d : dctx) (r : deqres)                (*           head unlock *)
| CP1 (u : ubctx) | CP2 (u : ubctx)           (* publish_progress: drained.store; progress.store *)
| CP3 (u : ubctx) | CP4 (u : ubctx) | CP5 (u : ubctx)   (* notify_senders: fence; sync count; async count *)
| CSa (m : option N)                          (* senders_alive: sender_count.load (try_recv | try_recv_run max) *)
| CFl (f : fctx) | CFu (f : fctx)             (* flush_progress: head.lock; unlock *)
| CDropSt                                     (* drop_receiver: receiver_dropped.store *)
| CWk (k : wk6)                               (* wake_all_senders *)
| CDone.

(* ---------------------------------------------------------------- state (GENERATED by
   tools/gen_k3ticket_record.py: flat record + one setter per field) *)
Record st := mkSt {
  gtail : N;
  progress : N;
  drained : N;
  retired : N;
  ids : N -> N;
  sstate : N -> N;
  sdata : N -> option val;
  hcid : N;
  hidx : N;
  hpos : N;
  unpub : N;
  hlock : bool;
  scount : N;
  rdropped : bool;
  lk_srw : bool;
  lk_arw : bool;
  lk_ssw : bool;
  lk_asw : bool;
  ppc : nat -> ppc_t;
  pprog : nat -> list pop;
  pseq : nat -> N;
  presl : nat -> list pres;
  cpc : cpc_t;
  cprog : list cop;
  cresl : list cres;
  chand : list val;
  tk : N -> tstat;
  received : list val;
  bad : bool
}.

Definition set_gtail (s : st) (v : N) : st :=
  mkSt v (progress s) (drained s) (retired s) (ids s) (sstate s) (sdata s) (hcid s) (hidx s) (hpos s) (unpub s) (hlock s) (scount s) (rdropped s) (lk_srw s) (lk_arw s) (lk_ssw s) (lk_asw s) (ppc s) (pprog s) (pseq s) (presl s) (cpc s) (cprog s) (cresl s) (chand s) (tk s) (received s) (bad s).
Definition set_progress (s : st) (v : N) : st :=
  mkSt (gtail s) v (drained s) (retired s) (ids s) (sstate s) (sdata s) (hcid s) (hidx s) (hpos s) (unpub s) (hlock s) (scount s) (rdropped s) (lk_srw s) (lk_arw s) (lk_ssw s) (lk_asw s) (ppc s) (pprog s) (pseq s) (presl s) (cpc s) (cprog s) (cresl s) (chand s) (tk s) (received s) (bad s).
Definition set_drained (s : st) (v : N) : st :=
  mkSt (gtail s) (progress s) v (retired s) (ids s) (sstate s) (sdata s) (hcid s) (hidx s) (hpos s) (unpub s) (hlock s) (scount s) (rdropped s) (lk_srw s) (lk_arw s) (lk_ssw s) (lk_asw s) (ppc s) (pprog s) (pseq s) (presl s) (cpc s) (cprog s) (cresl s) (chand s) (tk s) (received s) (bad s).
Definition set_retired (s : st) (v : N) : st :=
  mkSt (gtail s) (progress s) (drained s) v (ids s) (sstate s) (sdata s) (hcid s) (hidx s) (hpos s) (unpub s) (hlock s) (scount s) (rdropped s) (lk_srw s) (lk_arw s) (lk_ssw s) (lk_asw s) (ppc s) (pprog s) (pseq s) (presl s) (cpc s) (cprog s) (cresl s) (chand s) (tk s) (received s) (bad s).
Definition set_ids (s : st) (v : N -> N) : st :=
  mkSt (gtail s) (progress s) (drained s) (retired s) v (sstate s) (sdata s) (hcid s) (hidx s) (hpos s) (unpub s) (hlock s) (scount s) (rdropped s) (lk_srw s) (lk_arw s) (lk_ssw s) (lk_asw s) (ppc s) (pprog s) (pseq s) (presl s) (cpc s) (cprog s) (cresl s) (chand s) (tk s) (received s) (bad s).
Definition set_sstate (s : st) (v : N -> N) : st :=
  mkSt (gtail s) (progress s) (drained s) (retired s) (ids s) v (sdata s) (hcid s) (hidx s) (hpos s) (unpub s) (hlock s) (scount s) (rdropped s) (lk_srw s) (lk_arw s) (lk_ssw s) (lk_asw s) (ppc s) (pprog s) (pseq s) (presl s) (cpc s) (cprog s) (cresl s) (chand s) (tk s) (received s) (bad s).
Definition set_sdata (s : st) (v : N -> option val) : st :=
  mkSt (gtail s) (progress s) (drained s) (retired s) (ids s) (sstate s) v (hcid s) (hidx s) (hpos s) (unpub s) (hlock s) (scount s) (rdropped s) (lk_srw s) (lk_arw s) (lk_ssw s) (lk_asw s) (ppc s) (pprog s) (pseq s) (presl s) (cpc s) (cprog s) (cresl s) (chand s) (tk s) (received s) (bad s).
Definition set_hcid (s : st) (v : N) : st :=
  mkSt (gtail s) (progress s) (drained s) (retired s) (ids s) (sstate s) (sdata s) v (hidx s) (hpos s) (unpub s) (hlock s) (scount s) (rdropped s) (lk_srw s) (lk_arw s) (lk_ssw s) (lk_asw s) (ppc s) (pprog s) (pseq s) (presl s) (cpc s) (cprog s) (cresl s) (chand s) (tk s) (received s) (bad s).
Definition set_hidx (s : st) (v : N) : st :=
  mkSt (gtail s) (progress s) (drained s) (retired s) (ids s) (sstate s) (sdata s) (hcid s) v (hpos s) (unpub s) (hlock s) (scount s) (rdropped s) (lk_srw s) (lk_arw s) (lk_ssw s) (lk_asw s) (ppc s) (pprog s) (pseq s) (presl s) (cpc s) (cprog s) (cresl s) (chand s) (tk s) (received s) (bad s).
Definition set_hpos (s : st) (v : N) : st :=
  mkSt (gtail s) (progress s) (drained s) (retired s) (ids s) (sstate s) (sdata s) (hcid s) (hidx s) v (unpub s) (hlock s) (scount s) (rdropped s) (lk_srw s) (lk_arw s) (lk_ssw s) (lk_asw s) (ppc s) (pprog s) (pseq s) (presl s) (cpc s) (cprog s) (cresl s) (chand s) (tk s) (received s) (bad s).
Definition set_unpub (s : st) (v : N) : st :=
  mkSt (gtail s) (progress s) (drained s) (retired s) (ids s) (sstate s) (sdata s) (hcid s) (hidx s) (hpos s) v (hlock s) (scount s) (rdropped s) (lk_srw s) (lk_arw s) (lk_ssw s) (lk_asw s) (ppc s) (pprog s) (pseq s) (presl s) (cpc s) (cprog s) (cresl s) (chand s) (tk s) (received s) (bad s).
Definition set_hlock (s : st) (v : bool) : st :=
  mkSt (gtail s) (progress s) (drained s) (retired s) (ids s) (sstate s) (sdata s) (hcid s) (hidx s) (hpos s) (unpub s) v (scount s) (rdropped s) (lk_srw s) (lk_arw s) (lk_ssw s) (lk_asw s) (ppc s) (pprog s) (pseq s) (presl s) (cpc s) (cprog s) (cresl s) (chand s) (tk s) (received s) (bad s).
Definition set_scount (s : st) (v : N) : st :=
  mkSt (gtail s) (progress s) (drained s) (retired s) (ids s) (sstate s) (sdata s) (hcid s) (hidx s) (hpos s) (unpub s) (hlock s) v (rdropped s) (lk_srw s) (lk_arw s) (lk_ssw s) (lk_asw s) (ppc s) (pprog s) (pseq s) (presl s) (cpc s) (cprog s) (cresl s) (chand s) (tk s) (received s) (bad s).
Definition set_rdropped (s : st) (v : bool) : st :=
  mkSt (gtail s) (progress s) (drained s) (retired s) (ids s) (sstate s) (sdata s) (hcid s) (hidx s) (hpos s) (unpub s) (hlock s) (scount s) v (lk_srw s) (lk_arw s) (lk_ssw s) (lk_asw s) (ppc s) (pprog s) (pseq s) (presl s) (cpc s) (cprog s) (cresl s) (chand s) (tk s) (received s) (bad s).
Definition set_lk_srw (s : st) (v : bool) : st :=
  mkSt (gtail s) (progress s) (drained s) (retired s) (ids s) (sstate s) (sdata s) (hcid s) (hidx s) (hpos s) (unpub s) (hlock s) (scount s) (rdropped s) v (lk_arw s) (lk_ssw s) (lk_asw s) (ppc s) (pprog s) (pseq s) (presl s) (cpc s) (cprog s) (cresl s) (chand s) (tk s) (received s) (bad s).
Definition set_lk_arw (s : st) (v : bool) : st :=
  mkSt (gtail s) (progress s) (drained s) (retired s) (ids s) (sstate s) (sdata s) (hcid s) (hidx s) (hpos s) (unpub s) (hlock s) (scount s) (rdropped s) (lk_srw s) v (lk_ssw s) (lk_asw s) (ppc s) (pprog s) (pseq s) (presl s) (cpc s) (cprog s) (cresl s) (chand s) (tk s) (received s) (bad s).
Definition set_lk_ssw (s : st) (v : bool) : st :=
  mkSt (gtail s) (progress s) (drained s) (retired s) (ids s) (sstate s) (sdata s) (hcid s) (hidx s) (hpos s) (unpub s) (hlock s) (scount s) (rdropped s) (lk_srw s) (lk_arw s) v (lk_asw s) (ppc s) (pprog s) (pseq s) (presl s) (cpc s) (cprog s) (cresl s) (chand s) (tk s) (received s) (bad s).
Definition set_lk_asw (s : st) (v : bool) : st :=
  mkSt (gtail s) (progress s) (drained s) (retired s) (ids s) (sstate s) (sdata s) (hcid s) (hidx s) (hpos s) (unpub s) (hlock s) (scount s) (rdropped s) (lk_srw s) (lk_arw s) (lk_ssw s) v (ppc s) (pprog s) (pseq s) (presl s) (cpc s) (cprog s) (cresl s) (chand s) (tk s) (received s) (bad s).
Definition set_ppc (s : st) (v : nat -> ppc_t) : st :=
  mkSt (gtail s) (progress s) (drained s) (retired s) (ids s) (sstate s) (sdata s) (hcid s) (hidx s) (hpos s) (unpub s) (hlock s) (scount s) (rdropped s) (lk_srw s) (lk_arw s) (lk_ssw s) (lk_asw s) v (pprog s) (pseq s) (presl s) (cpc s) (cprog s) (cresl s) (chand s) (tk s) (received s) (bad s).
Definition set_pprog (s : st) (v : nat -> list pop) : st :=
  mkSt (gtail s) (progress s) (drained s) (retired s) (ids s) (sstate s) (sdata s) (hcid s) (hidx s) (hpos s) (unpub s) (hlock s) (scount s) (rdropped s) (lk_srw s) (lk_arw s) (lk_ssw s) (lk_asw s) (ppc s) v (pseq s) (presl s) (cpc s) (cprog s) (cresl s) (chand s) (tk s) (received s) (bad s).
Definition set_pseq (s : st) (v : nat -> N) : st :=
  mkSt (gtail s) (progress s) (drained s) (retired s) (ids s) (sstate s) (sdata s) (hcid s) (hidx s) (hpos s) (unpub s) (hlock s) (scount s) (rdropped s) (lk_srw s) (lk_arw s) (lk_ssw s) (lk_asw s) (ppc s) (pprog s) v (presl s) (cpc s) (cprog s) (cresl s) (chand s) (tk s) (received s) (bad s).
Definition set_presl (s : st) (v : nat -> list pres) : st :=
  mkSt (gtail s) (progress s) (drained s) (retired s) (ids s) (sstate s) (sdata s) (hcid s) (hidx s) (hpos s) (unpub s) (hlock s) (scount s) (rdropped s) (lk_srw s) (lk_arw s) (lk_ssw s) (lk_asw s) (ppc s) (pprog s) (pseq s) v (cpc s) (cprog s) (cresl s) (chand s) (tk s) (received s) (bad s).
Definition set_cpc (s : st) (v : cpc_t) : st :=
  mkSt (gtail s) (progress s) (drained s) (retired s) (ids s) (sstate s) (sdata s) (hcid s) (hidx s) (hpos s) (unpub s) (hlock s) (scount s) (rdropped s) (lk_srw s) (lk_arw s) (lk_ssw s) (lk_asw s) (ppc s) (pprog s) (pseq s) (presl s) v (cprog s) (cresl s) (chand s) (tk s) (received s) (bad s).
Definition set_cprog (s : st) (v : list cop) : st :=
  mkSt (gtail s) (progress s) (drained s) (retired s) (ids s) (sstate s) (sdata s) (hcid s) (hidx s) (hpos s) (unpub s) (hlock s) (scount s) (rdropped s) (lk_srw s) (lk_arw s) (lk_ssw s) (lk_asw s) (ppc s) (pprog s) (pseq s) (presl s) (cpc s) v (cresl s) (chand s) (tk s) (received s) (bad s).
Definition set_cresl (s : st) (v : list cres) : st :=
  mkSt (gtail s) (progress s) (drained s) (retired s) (ids s) (sstate s) (sdata s) (hcid s) (hidx s) (hpos s) (unpub s) (hlock s) (scount s) (rdropped s) (lk_srw s) (lk_arw s) (lk_ssw s) (lk_asw s) (ppc s) (pprog s) (pseq s) (presl s) (cpc s) (cprog s) v (chand s) (tk s) (received s) (bad s).
Definition set_chand (s : st) (v : list val) : st :=
  mkSt (gtail s) (progress s) (drained s) (retired s) (ids s) (sstate s) (sdata s) (hcid s) (hidx s) (hpos s) (unpub s) (hlock s) (scount s) (rdropped s) (lk_srw s) (lk_arw s) (lk_ssw s) (lk_asw s) (ppc s) (pprog s) (pseq s) (presl s) (cpc s) (cprog s) (cresl s) v (tk s) (received s) (bad s).
Definition set_tk (s : st) (v : N -> tstat) : st :=
  mkSt (gtail s) (progress s) (drained s) (retired s) (ids s) (sstate s) (sdata s) (hcid s) (hidx s) (hpos s) (unpub s) (hlock s) (scount s) (rdropped s) (lk_srw s) (lk_arw s) (lk_ssw s) (lk_asw s) (ppc s) (pprog s) (pseq s) (presl s) (cpc s) (cprog s) (cresl s) (chand s) v (received s) (bad s).
Definition set_received (s : st) (v : list val) : st :=
  mkSt (gtail s) (progress s) (drained s) (retired s) (ids s) (sstate s) (sdata s) (hcid s) (hidx s) (hpos s) (unpub s) (hlock s) (scount s) (rdropped s) (lk_srw s) (lk_arw s) (lk_ssw s) (lk_asw s) (ppc s) (pprog s) (pseq s) (presl s) (cpc s) (cprog s) (cresl s) (chand s) (tk s) v (bad s).
Definition set_bad (s : st) (v : bool) : st :=
  mkSt (gtail s) (progress s) (drained s) (retired s) (ids s) (sstate s) (sdata s) (hcid s) (hidx s) (hpos s) (unpub s) (hlock s) (scount s) (rdropped s) (lk_srw s) (lk_arw s) (lk_ssw s) (lk_asw s) (ppc s) (pprog s) (pseq s) (presl s) (cpc s) (cprog s) (cresl s) (chand s) (tk s) (received s) v.

Ltac st_cbn := cbn [gtail progress drained retired ids sstate sdata hcid hidx hpos unpub hlock scount rdropped lk_srw lk_arw lk_ssw lk_asw ppc pprog pseq presl cpc cprog cresl chand tk received bad
  set_gtail set_progress set_drained set_retired set_ids set_sstate set_sdata set_hcid set_hidx set_hpos set_unpub set_hlock set_scount set_rdropped set_lk_srw set_lk_arw set_lk_ssw set_lk_asw set_ppc set_pprog set_pseq set_presl set_cpc set_cprog set_cresl set_chand set_tk set_received set_bad] in *.
Ltac st_goal := cbn [gtail progress drained retired ids sstate sdata hcid hidx hpos unpub hlock scount rdropped lk_srw lk_arw lk_ssw lk_asw ppc pprog pseq presl cpc cprog cresl chand tk received bad
  set_gtail set_progress set_drained set_retired set_ids set_sstate set_sdata set_hcid set_hidx set_hpos set_unpub set_hlock set_scount set_rdropped set_lk_srw set_lk_arw set_lk_ssw set_lk_asw set_ppc set_pprog set_pseq set_presl set_cpc set_cprog set_cresl set_chand set_tk set_received set_bad].
Ltac st_in H := cbn [gtail progress drained retired ids sstate sdata hcid hidx hpos unpub hlock scount rdropped lk_srw lk_arw lk_ssw lk_asw ppc pprog pseq presl cpc cprog cresl chand tk received bad
  set_gtail set_progress set_drained set_retired set_ids set_sstate set_sdata set_hcid set_hidx set_hpos set_unpub set_hlock set_scount set_rdropped set_lk_srw set_lk_arw set_lk_ssw set_lk_asw set_ppc set_pprog set_pseq set_presl set_cpc set_cprog set_cresl set_chand set_tk set_received set_bad] in H.

(* ---------------------------------------------------------------- steps *)
Definition b2n (b : bool) : N := if b then 1 else 0.
Definition updN {A} (f : N -> A) (k : N) (v : A) : N -> A := fun x => if N.eqb x k then v else f x.
Definition updn {A} (f : nat -> A) (k : nat) (v : A) : nat -> A := fun x => if Nat.eqb x k then v else f x.

(* N-indexed range [a, a+len) *)
Fixpoint nrange (a : N) (len : nat) : list N :=
  match len with O => [] | S k => a :: nrange (a + 1) k end.

(* slot state bytes *)
Definition sEMPTY : N := 0.
Definition sSET : N := 1.
Definition sSKIP : N := 2.

Definition init (np : nat) (pp0 : nat -> list pop) (cp0 : list cop) : st :=
  mkSt 0 0 0 0
       (fun j => j) (fun _ => sEMPTY) (fun _ => None)
       0 0 0 0 false
       (N.of_nat np) false
       false false false false
       (fun _ => PIdle) pp0 (fun _ => 0) (fun _ => [])
       CIdle cp0 [] []
       (fun _ => TFree) [] false.

Section Steps.
  Variable cap cc n kk : N.   (* capacity; chunk_cap; table entries; publish cadence K *)
  Variable np : nat.          (* number of producer threads / Sender handles *)

  (* ticket geometry: `ticket >> log2`, `ticket & mask`, `cid % n` *)
  Definition cid_of (t : N) : N := t / cc.
  Definition idx_of (t : N) : N := t mod cc.
  Definition ent (c : N) : N := c mod n.
  Definition slot_at (c i : N) : N := ent c * cc + i.          (* creation-order index of the slot's state atomic *)
  Definition slot_of (t : N) : N := slot_at (cid_of t) (idx_of t).

  (* `x.wrapping_sub(q) < cap` for values below 2^64 *)
  Definition win (x q : N) : bool := N.leb q x && N.ltb (x - q) cap.

  (* the counter a try_send_now variant gates on *)
  Definition cnt (x : pctx) (s : st) : N := if is_cold x then drained s else progress s.
  Definition vcnt (x : pctx) : evar := if is_cold x then VDrained else VProgress.

  Definition set_ppc_at (s : st) (t : nat) (p : ppc_t) : st := set_ppc s (updn (ppc s) t p).

  (* --- completion of an API call: `items` results, op counter advanced by the number of items *)
  Definition p_done_n (s : st) (t : nat) (rs : list pres) (items : N) : st :=
    set_ppc_at (set_pseq (set_presl (set_pprog s (updn (pprog s) t (tl (pprog s t))))
                                    (updn (presl s) t (presl s t ++ rs)))
                         (updn (pseq s) t (pseq s t + items))) t PIdle.
  Definition p_done (s : st) (t : nat) (r : pres) : st := p_done_n s t [r] 1.
  Definition c_done_l (s : st) (rs : list cres) : st :=
    set_cpc (set_chand (set_cresl (set_cprog s (tl (cprog s))) (cresl s ++ rs)) []) CIdle.
  Definition c_done (s : st) (r : cres) : st := c_done_l s [r].
  Definition c_done_vals (s : st) : st := c_done_l s (map RVal (chand s)).

  (* the payload of item i (0-based) of the call in progress: op number = completed items + 1 + i *)
  Definition itemval (s : st) (t : nat) (i : N) : val := (t, pseq s t + 1 + i).
  Definition myval (s : st) (t : nat) : val := itemval s t 0.

  (* results of a batch call: the first `sent` items Ok, the others handed back *)
  Definition batch_res (s : st) (t : nat) (b : bctx) (fail : val -> pres) : list pres :=
    map (fun i => POk (itemval s t i)) (nrange 0 (N.to_nat (bsent b)))
    ++ map (fun i => fail (itemval s t i)) (nrange (bsent b) (N.to_nat (btotal b - bsent b))).
  Definition p_done_batch (s : st) (t : nat) (b : bctx) (fail : val -> pres) : st :=
    p_done_n s t (batch_res s t b fail) (btotal b).

  (* the write phase: which item of the call goes into the next SET slot *)
  Definition kitem (k : kctx) : N := match k with KOne _ => 0 | KBatch b => bsent b end.
  Definition rcur (r : trun) : N := rt r + rw r.                 (* the ticket being resolved *)
  Definition rset (r : trun) : bool := N.ltb (rw r) (rv r).      (* .. gets SET (else SKIP) *)

  (* after ensure_resident returned: the payload write (SET) or directly the state store (SKIP) *)
  Definition p_resident (s : st) (t : nat) (k : kctx) (r : trun) : st :=
    set_ppc_at s t (if rset r then PW0 k r else PW1 k r).

  (* try_send_run_batch, top of the loop *)
  Definition p_loop (s : st) (t : nat) (b : bctx) : st :=
    if N.eqb (bsent b) (btotal b) then p_done_batch s t b PFull else set_ppc_at s t (PL1 b).
  (* .. after a claim that yielded nothing / was cut short by overshoot: retry cold, else Full *)
  Definition p_closed_window (s : st) (t : nat) (b : bctx) : st :=
    if N.eqb (bsent b) (btotal b) then p_done_batch s t b PFull
    else if bcold b then p_done_batch s t b PFull
    else p_loop s t (mkB true (bsent b) (btotal b)).

  (* a mutex lock attempt *)
  Definition p_lock (s : st) (t : nat) (held : bool) (v : evar) (acq : st -> st) (next : ppc_t) : st * event :=
    if held then (s, eLock v false) else (set_ppc_at (acq s) t next, eLock v true).
  Definition c_lock (s : st) (held : bool) (v : evar) (acq : st -> st) (next : cpc_t) : st * event :=
    if held then (s, eLock v false) else (set_cpc (acq s) next, eLock v true).

  (* fetch_add(m): tickets [t0, t0+m) become owned *)
  Definition claim (f : N -> tstat) (t0 m : N) (th : nat) : N -> tstat :=
    fun x => if N.leb t0 x && N.ltb x (t0 + m) then TOwn th else f x.

  Definition pstep (s : st) (t : nat) (c : choice) : option (st * event) :=
    match ppc s t with
    | PIdle =>
        match pprog s t with
        | [] => Some (set_ppc_at s t PDropSub, eCas VClosed OAcqRel ORlx 0 1 0 true)
        | TrySend :: _ => Some (set_ppc_at s t PRd, eLoad VClosed ORlx 0)
        | TrySendBatch k :: _ => Some (set_ppc_at s t (PB1 (mkB false 0 (Npos k))), eLoad VClosed ORlx 0)
        end
    | PRd =>
        Some (if rdropped s then p_done s t (PClosed (myval s t)) else set_ppc_at s t (PS1 XHot),
              eLoad VRdropped OAcq (b2n (rdropped s)))
    | PS1 x => Some (set_ppc_at s t (PS2 x (gtail s)), eLoad VGtail ORlx (gtail s))
    | PS2 x a =>
        Some (if win a (cnt x s) then set_ppc_at s t (PS3 x)
              else match x with
                   | XHot => set_ppc_at s t (PS1 XCold)
                   | XCold => p_done s t (PFull (myval s t))
                   end,
              eLoad (vcnt x) OAcq (cnt x s))
    | PS3 x =>
        let tn := gtail s in
        Some (set_ppc_at (set_tk (set_gtail s (tn + 1)) (claim (tk s) tn 1 t)) t (PS4 x tn),
              eFadd VGtail ORlx 1 tn)
    | PS4 x tn =>
        Some (set_ppc_at s t (PE1 (KOne x) (mkRun tn (b2n (win tn (cnt x s))) 1 0)), eLoad (vcnt x) OAcq (cnt x s))
    | PE1 k r =>
        let j := ent (cid_of (rcur r)) in
        let cur := ids s j in
        Some (if N.eqb cur (cid_of (rcur r)) then p_resident s t k r else set_ppc_at s t (PE2 k r cur),
              eLoad (VId j) OAcq cur)
    | PE2 k r cur =>
        Some (set_ppc_at s t (if N.ltb (retired s) (cur + 1) then PEs k r cur else PE3 k r cur),
              eLoad VRetired OAcq (retired s))
    | PEs k r cur => Some (set_ppc_at s t (PE2 k r cur), eSpin)
    | PE3 k r cur =>
        let j := ent (cid_of (rcur r)) in
        let hit := N.eqb (ids s j) cur in
        Some (if hit then p_resident (set_ids s (updN (ids s) j (cid_of (rcur r)))) t k r
              else set_ppc_at s t (PE1 k r),
              eCas (VId j) OAcqRel OAcq cur (cid_of (rcur r)) (ids s j) hit)
    | PW0 k r =>
        let q := slot_of (rcur r) in
        let s1 := match sdata s q with Some _ => set_bad s true | None => s end in
        Some (set_ppc_at (set_sdata s1 (updN (sdata s) q (Some (itemval s t (kitem k + rw r))))) t (PW1 k r), eData)
    | PW1 k r =>
        let q := slot_of (rcur r) in
        let st := rset r in
        let s1 := if N.eqb (sstate s q) sEMPTY then s else set_bad s true in
        let s2 := set_tk (set_sstate s1 (updN (sstate s) q (if st then sSET else sSKIP)))
                         (updN (tk s) (rcur r) (if st then TSet (itemval s t (kitem k + rw r)) else TSkip)) in
        let r' := mkRun (rt r) (rv r) (rm r) (rw r + 1) in
        (* next slot: end of the run -> notify; first SKIP slot or a chunk boundary -> ensure_resident *)
        Some (set_ppc_at s2 t (if N.eqb (rw r') (rm r) then PN1 k r'
                               else if N.eqb (rw r') (rv r) || N.eqb (idx_of (rcur r')) 0 then PE1 k r'
                               else if rset r' then PW0 k r' else PW1 k r'),
              eStore (VState q) ORel (if st then sSET else sSKIP))
    | PN1 k r => Some (set_ppc_at s t (PN2 k r), eFence)
    | PN2 k r => Some (set_ppc_at s t (PN3 k r), eLoad VSrwc ORlx 0)
    | PN3 k r =>
        Some (match k with
              | KOne x => if N.eqb (rv r) 1 then p_done s t (POk (myval s t)) else set_ppc_at s t (PS1 x)
              | KBatch b =>
                  let b' := mkB (bcold b) (bsent b + rv r) (btotal b) in
                  if N.ltb (rv r) (rm r) then p_closed_window s t b' else p_loop s t b'
              end, eLoad VArwc ORlx 0)
    | PB1 b =>
        Some (if rdropped s then p_done_batch s t b PClosed else p_loop s t b,
              eLoad VRdropped OAcq (b2n (rdropped s)))
    | PL1 b =>
        Some (if rdropped s then p_done_batch s t b PClosed else set_ppc_at s t (PC0 b),
              eLoad VRdropped OAcq (b2n (rdropped s)))
    | PC0 b => Some (set_ppc_at s t (PC1 b), eLoad VRunCap ORlx kk)
    | PC1 b => Some (set_ppc_at s t (PC2 b (gtail s)), eLoad VGtail ORlx (gtail s))
    | PC2 b g =>
        let x := if bcold b then XCold else XHot in
        let q := cnt x s in
        let slack := if N.leb q g then cap - (g - q) else 0 in      (* cap.saturating_sub(g.wrapping_sub(q)) *)
        let m := N.min (N.min (btotal b - bsent b) slack) (N.max kk 1) in
        Some (if N.eqb m 0 then p_closed_window s t b else set_ppc_at s t (PC3 b m), eLoad (vcnt x) OAcq q)
    | PC3 b m =>
        let tn := gtail s in
        Some (set_ppc_at (set_tk (set_gtail s (tn + m)) (claim (tk s) tn m t)) t (PC4 b tn m),
              eFadd VGtail ORlx m tn)
    | PC4 b tn m =>
        let x := if bcold b then XCold else XHot in
        let q := cnt x s in
        Some (set_ppc_at s t (PE1 (KBatch b) (mkRun tn (N.min m (q + cap - tn)) m 0)), eLoad (vcnt x) OAcq q)
    | PDropSub =>
        Some (set_ppc_at (set_scount s (scount s - 1)) t (if N.eqb (scount s) 1 then PWk W4L1 else PDone),
              eFsub VSenderCnt OAcqRel 1 (scount s))
    | PWk W4L1 => Some (p_lock s t (lk_srw s) VLkSrw (fun s => set_lk_srw s true) (PWk W4U1))
    | PWk W4U1 => Some (set_ppc_at (set_lk_srw s false) t (PWk W4L2), eUnlock VLkSrw)
    | PWk W4L2 => Some (p_lock s t (lk_arw s) VLkArw (fun s => set_lk_arw s true) (PWk W4U2))
    | PWk W4U2 => Some (set_ppc_at (set_lk_arw s false) t PDone, eUnlock VLkArw)
    | PDone => None
    end.

  (* --- consumer *)
  Definition hslot (s : st) : N := slot_at (hcid s) (hidx s).
  Definition is_run (d : dctx) : bool := match d with DRun _ _ _ => true | _ => false end.

  (* deq_once / deq_run found nothing at the cursor *)
  Definition c_miss (s : st) (d : dctx) : st := set_cpc s (if is_run d then CD6 d else CM1 d).
  (* after a slot was drained (and progress possibly published) *)
  Definition c_next (s : st) (d : dctx) (set : bool) : st :=
    match d with
    | DRun site max got => set_cpc s (if N.ltb got max then CD1 d else CD6 d)
    | _ => set_cpc s (if set then CD6 d else CD1 d)
    end.
  (* after publish_progress returned *)
  Definition c_after_pub (s : st) (u : ubctx) : st :=
    match u with
    | UbDeq d set => c_next s d set
    | UbFlush f => set_cpc s (CFu f)
    end.

  Definition cstep (s : st) (c : choice) : option (st * event) :=
    match cpc s with
    | CIdle =>
        match cprog s with
        | [] => Some (set_cpc s CDropSt, eCas VClosed OAcqRel ORlx 0 1 0 true)
        | TryRecv :: _ => Some (set_cpc s (CLock DTry1), eLoad VClosed ORlx 0)
        | TryRecvBatch max :: _ => Some (set_cpc s (CLock (DRun R1 (Npos max) 0)), eLoad VClosed ORlx 0)
        end
    | CLock d => Some (c_lock s (hlock s) VHead (fun s => set_hlock s true) (CD1 d))
    | CD1 d =>
        let j := ent (hcid s) in
        Some (if negb (N.eqb (ids s j) (hcid s)) then c_miss s d
              else set_cpc s (if N.eqb (hidx s) cc then CD2 d else CD3 d),
              eLoad (VId j) OAcq (ids s j))
    | CD2 d =>
        Some (set_cpc (set_hidx (set_hcid (set_retired s (hcid s + 1)) (hcid s + 1)) 0) (CD1 d),
              eStore VRetired ORel (hcid s + 1))
    | CD3 d =>
        let v := sstate s (hslot s) in
        Some (if N.eqb v sSET then set_cpc s (CD4 d) else if N.eqb v sSKIP then set_cpc s (CD5 d false) else c_miss s d,
              eLoad (VState (hslot s)) OAcq v)
    | CD4 d =>
        let q := hslot s in
        Some (match sdata s q with
              | None => set_cpc (set_bad s true) (CD5 d true)           (* take().unwrap() of an empty cell *)
              | Some v =>
                  set_cpc (set_chand (set_received (set_sdata s (updN (sdata s) q None)) (received s ++ [v]))
                                     (chand s ++ [v]))
                          (CD5 d true)
              end, eData)
    | CD5 d set =>
        let q := hslot s in
        let u := unpub s + 1 in
        let s1 := set_unpub (set_hpos (set_hidx (set_sstate s (updN (sstate s) q sEMPTY)) (hidx s + 1)) (hpos s + 1)) u in
        let d' := match d with DRun site max got => DRun site max (if set then got + 1 else got) | _ => d end in
        Some (if N.leb kk u then set_cpc s1 (CP1 (UbDeq d' set)) else c_next s1 d' set,
              eStore (VState q) ORlx sEMPTY)
    | CD6 d =>
        Some (set_cpc (set_drained s (hpos s))
                      (CUnl d (match d with DRun _ _ 0 => QEmpty | _ => QGot end)),
              eStore VDrained ORel (hpos s))
    | CM1 d => Some (set_cpc (set_drained s (hpos s)) (CM2 d), eStore VDrained ORel (hpos s))
    | CM2 d =>
        Some (set_cpc s (CUnl d (if N.ltb (hpos s) (gtail s) then QInFlight else QEmpty)),
              eLoad VGtail OAcq (gtail s))
    | CUnl d r =>
        let s1 := set_hlock s false in
        Some (match d with
              | DRun site max got =>
                  if N.eqb got 0
                  then match site with R1 => set_cpc s1 (CFl (FRun0 max)) | R2 => c_done s1 RDisc end
                  else set_cpc s1 (CFl FVals)
              | DTry1 =>
                  match r with
                  | QGot => c_done_vals s1
                  | QEmpty => set_cpc s1 (CSa None)
                  | QInFlight => set_cpc s1 (CFl FEmpty)
                  end
              | DTry2 => match r with QGot => c_done_vals s1 | _ => set_cpc s1 (CFl FDisc) end
              end, eUnlock VHead)
    | CP1 u => Some (set_cpc (set_unpub (set_drained s (hpos s)) 0) (CP2 u), eStore VDrained ORel (hpos s))
    | CP2 u => Some (set_cpc (set_progress s (hpos s)) (CP3 u), eStore VProgress ORel (hpos s))
    | CP3 u => Some (set_cpc s (CP4 u), eFence)
    | CP4 u => Some (set_cpc s (CP5 u), eLoad VSswc ORlx 0)
    | CP5 u => Some (c_after_pub s u, eLoad VAswc ORlx 0)
    | CSa m =>
        Some (match m with
              | None => set_cpc s (if N.eqb (scount s) 0 then CLock DTry2 else CFl FEmpty)
              | Some max => if N.eqb (scount s) 0 then set_cpc s (CLock (DRun R2 max 0)) else c_done s REmpty
              end,
              eLoad VSenderCnt OAcq (scount s))
    | CFl f =>
        Some (c_lock s (hlock s) VHead (fun s => set_hlock s true)
                     (if N.ltb 0 (unpub s) then CP1 (UbFlush f) else CFu f))
    | CFu f =>
        let s1 := set_hlock s false in
        Some (match f with
              | FEmpty => c_done s1 REmpty
              | FDisc => c_done s1 RDisc
              | FVals => c_done_vals s1
              | FRun0 max => set_cpc s1 (CSa (Some max))
              end, eUnlock VHead)
    | CDropSt => Some (set_cpc (set_rdropped s true) (CWk W6L1), eStore VRdropped ORel 1)
    | CWk W6L1 => Some (c_lock s (lk_ssw s) VLkSsw (fun s => set_lk_ssw s true) (CWk W6S1))
    | CWk W6S1 => Some (set_cpc s (CWk W6U1), eStore VSswc ORel 0)
    | CWk W6U1 => Some (set_cpc (set_lk_ssw s false) (CWk W6L2), eUnlock VLkSsw)
    | CWk W6L2 => Some (c_lock s (lk_asw s) VLkAsw (fun s => set_lk_asw s true) (CWk W6S2))
    | CWk W6S2 => Some (set_cpc s (CWk W6U2), eStore VAswc ORel 0)
    | CWk W6U2 => Some (set_cpc (set_lk_asw s false) CDone, eUnlock VLkAsw)
    | CDone => None
    end.

  Definition step (s : st) (t : tid) (c : choice) : option (st * event) :=
    match t with
    | TC => cstep s c
    | TP i => if Nat.ltb i np then pstep s i c else None
    end.

  Definition sys (pp0 : nat -> list pop) (cp0 : list cop) : system :=
    mkSystem st tid choice event (init np pp0 cp0) step.
End Steps.

(* ---------------------------------------------------------------- the code's constants
   (mpsc::bounded(cap): Shared::new(cap, min(cap, CACHE_FLUSH_CHUNK), CHUNK_FLOOR_SYNC)) *)
Fixpoint pow2_ge (fuel : nat) (p x : N) : N :=
  match fuel with
  | O => p
  | S f => if N.leb x p then p else pow2_ge f (2 * p) x
  end.
Definition next_pow2 (x : N) : N := pow2_ge (N.to_nat x) 1 x.
Definition real_cap (cap : N) : N := N.max cap 1.
Definition real_cc (cap : N) : N := N.min (N.max (next_pow2 (real_cap cap)) 128) 1024.
Definition real_n (cap : N) : N := (real_cap cap + 64 + real_cc cap - 1) / real_cc cap + 2.
Definition real_kk (cap : N) : N := N.max 1 (N.min (N.min (real_cap cap) 64) (real_cap cap)).

(* ---------------------------------------------------------------- observables used by the theorems *)
Definition tk_val (x : tstat) : list val := match x with TSet v => [v] | _ => [] end.
Definition vals_in (s : st) (a b : N) : list val :=
  flat_map (fun t => tk_val (tk s t)) (nrange a (N.to_nat (b - a))).
(* payloads accepted by the channel (SET published), in ticket order *)
Definition accepted (s : st) : list val := vals_in s 0 (gtail s).
(* SET and not yet drained *)
Definition buffered (s : st) : list val := vals_in s (hpos s) (gtail s).

Definition pres_ok (r : pres) : list val := match r with POk v => [v] | _ => [] end.
Definition pres_fail (r : pres) : list val := match r with POk _ => [] | PFull v | PClosed v => [v] end.
Definition cres_val (r : cres) : list val := match r with RVal v => [v] | _ => [] end.
Definition sent_ok (s : st) (t : nat) : list val := flat_map pres_ok (presl s t).
Definition failed (s : st) (t : nat) : list val := flat_map pres_fail (presl s t).
Definition got (s : st) : list val := flat_map cres_val (cresl s).

(* strict replay of an observed trace (D2 tie) *)
Definition replay_ticket (cap cc n kk : N) (np : nat) (pp0 : nat -> list pop) (cp0 : list cop)
           (tr : list (tid * choice * event)) : option st + nat :=
  replay (sys cap cc n kk np pp0 cp0) event_eqb (init np pp0 cp0) tr.
