(* Chan/TicketK3.v — atomic-step (K3) model of the bounded MPSC ticket protocol
     channels/src/mpsc/bounded_v3/shared.rs    window_open(+_cold), credit_ok(+_cold), try_send_now(+_cold),
                                               ensure_resident, write_slot, notify_receiver, deq_once,
                                               publish_progress, notify_senders, flush_progress,
                                               drain_straggler, senders_alive, receivers_alive,
                                               drop_sender, drop_receiver, wake_all_receivers, wake_all_senders
     channels/src/mpsc/bounded_v3/producer.rs  Sender::{try_send, close, Drop}
     channels/src/mpsc/bounded_v3/consumer.rs  Receiver::{try_recv, close, Drop}
   One model step per traced facade event (atomic access, fence, Mutex lock attempt / unlock, spin
   hint), in source order, carrying the same variable, operation and Ordering (the orderings are
   data: compared by the D2 replay and the D3 skeleton check; the semantics of the model is
   sequentially consistent).  Two more step kinds (event kind `KData`) are the untraced payload-cell
   accesses (the write of `Some(v)` into `slot.data`, the `take()` out of it), placed as their own
   interleavable steps before the state store / after the state load.
   Threads: ANY number `np` of producer threads (index 0 .. np-1), each with its own Sender clone
   and an ARBITRARY program, and the consumer thread with an arbitrary program; every thread ends
   with the drop of its handle.
   Parameters: cap (capacity), cc (chunk_cap; the code's shift/mask are / and mod by cc = 2^k),
   n (chunk-table entries), kk (the publish cadence K = Head::publish_chunk).
   Payload ids are (producer index, op number 1, 2, ...), as in the scenario runner.
   `usize` arithmetic: unbounded N; `wrapping_sub(x) < cap` is modelled exactly for values below
   2^64 (`win`): a minuend smaller than the subtrahend wraps to a huge number, i.e. "closed".
   No proofs in this file. *)
From Fibre Require Import Common.Base Common.Conc.

(* ---------------------------------------------------------------- events *)
Inductive tid := TC | TP (i : nat).
Inductive choice := CGo.

Inductive evar :=
| VGtail | VProgress | VDrained | VRetired | VId (j : N) | VState (q : N) | VHead
| VSenderCnt | VRdropped | VClosed
| VSrwc | VArwc | VSswc | VAswc            (* sync/async recv/send waiter counts *)
| VLkSrw | VLkArw | VLkSsw | VLkAsw        (* the four waiter mutexes *)
| VData | VNone.
Inductive ekind :=
| KLoad | KStore | KFadd | KFsub | KCas | KFence | KLock | KUnlock | KSpin | KData.
Inductive eord := ORlx | OAcq | ORel | OAcqRel | OSeqCst | ONone.

(* ea: operand / expected, eb: new value of a CAS, er: value read, eof: failure ordering of a CAS *)
Record event := Ev { ek : ekind; evr : evar; eo : eord; eof : eord; ea : N; eb : N; er : N; eok : bool }.

Definition eLoad v o r := Ev KLoad v o ONone 0 0 r true.
Definition eStore v o a := Ev KStore v o ONone a 0 0 true.
Definition eFadd v o a r := Ev KFadd v o ONone a 0 r true.
Definition eFsub v o a r := Ev KFsub v o ONone a 0 r true.
Definition eCas v o f a b r ok := Ev KCas v o f a b r ok.
Definition eFence := Ev KFence VNone OSeqCst ONone 0 0 0 true.
Definition eLock v ok := Ev KLock v ONone ONone 0 0 0 ok.
Definition eUnlock v := Ev KUnlock v ONone ONone 0 0 0 true.
Definition eSpin := Ev KSpin VNone ONone ONone 0 0 0 true.
Definition eData := Ev KData VData ONone ONone 0 0 0 true.

Definition evar_eqb (a b : evar) : bool :=
  match a, b with
  | VGtail, VGtail | VProgress, VProgress | VDrained, VDrained | VRetired, VRetired | VHead, VHead
  | VSenderCnt, VSenderCnt | VRdropped, VRdropped | VClosed, VClosed
  | VSrwc, VSrwc | VArwc, VArwc | VSswc, VSswc | VAswc, VAswc
  | VLkSrw, VLkSrw | VLkArw, VLkArw | VLkSsw, VLkSsw | VLkAsw, VLkAsw
  | VData, VData | VNone, VNone => true
  | VId i, VId j => N.eqb i j
  | VState i, VState j => N.eqb i j
  | _, _ => false
  end.
Definition ekind_eqb (a b : ekind) : bool :=
  match a, b with
  | KLoad, KLoad | KStore, KStore | KFadd, KFadd | KFsub, KFsub | KCas, KCas | KFence, KFence
  | KLock, KLock | KUnlock, KUnlock | KSpin, KSpin | KData, KData => true
  | _, _ => false
  end.
Definition eord_eqb (a b : eord) : bool :=
  match a, b with
  | ORlx, ORlx | OAcq, OAcq | ORel, ORel | OAcqRel, OAcqRel | OSeqCst, OSeqCst | ONone, ONone => true
  | _, _ => false
  end.
Definition event_eqb (a b : event) : bool :=
  ekind_eqb (ek a) (ek b) && evar_eqb (evr a) (evr b) && eord_eqb (eo a) (eo b) && eord_eqb (eof a) (eof b)
  && N.eqb (ea a) (ea b) && N.eqb (eb a) (eb b) && N.eqb (er a) (er b) && Bool.eqb (eok a) (eok b).

(* ---------------------------------------------------------------- programs, results, pcs *)
Definition val := (nat * N)%type.             (* payload id: (producer index, op number) *)

Inductive pop := TrySend.
Inductive cop := TryRecv.

Inductive pres := POk (v : val) | PFull (v : val) | PClosed (v : val).
Inductive cres := RVal (v : val) | REmpty | RDisc.

(* ghost status of a ticket *)
Inductive tstat := TFree | TOwn (th : nat) | TSet (v : val) | TSkip.

(* which try_send_now: the hot one (window on `progress`) or the cold mirror (on `drained`) *)
Inductive pctx := XHot | XCold.
Definition is_cold (x : pctx) : bool := match x with XCold => true | _ => false end.

Inductive wk4 := W4L1 | W4U1 | W4L2 | W4U2.                         (* wake_all_receivers *)
Inductive wk6 := W6L1 | W6S1 | W6U1 | W6L2 | W6S2 | W6U2.           (* wake_all_senders *)

Inductive ppc_t :=
| PIdle                                       (* next: closed.load of the next op, or the Drop CAS *)
| PRd                                         (* receivers_alive: receiver_dropped.load *)
| PS1 (x : pctx)                              (* window_open: g_tail.load *)
| PS2 (x : pctx) (a : N)                      (*              progress|drained .load *)
| PS3 (x : pctx)                              (* g_tail.fetch_add(1) *)
| PS4 (x : pctx) (t : N)                      (* credit_ok: progress|drained .load *)
| PE1 (x : pctx) (t : N) (ok : bool)          (* ensure_resident: id.load *)
| PE2 (x : pctx) (t : N) (ok : bool) (cur : N)   (*               consumer_retired.load *)
| PEs (x : pctx) (t : N) (ok : bool) (cur : N)   (*               spin_loop *)
| PE3 (x : pctx) (t : N) (ok : bool) (cur : N)   (*               id.compare_exchange *)
| PW0 (x : pctx) (t : N)                      (* write_slot: payload write (ok only) *)
| PW1 (x : pctx) (t : N) (ok : bool)          (*             state.store SET|SKIP *)
| PN1 (x : pctx) (t : N) (ok : bool)          (* notify_receiver: fence *)
| PN2 (x : pctx) (t : N) (ok : bool)          (*                  sync_recv_waiter_count.load *)
| PN3 (x : pctx) (t : N) (ok : bool)          (*                  async_recv_waiter_count.load *)
| PDropSub                                    (* drop_sender: sender_count.fetch_sub *)
| PWk (k : wk4)                               (* wake_all_receivers (last sender) *)
| PDone.

Inductive dctx := DTry1 | DTry2.              (* deq_once called from try_recv | from drain_straggler *)
Inductive fctx := FEmpty | FDisc.             (* flush_progress before returning Empty | Disconnected *)
Inductive ubctx := UbSet (d : dctx) | UbSkip (d : dctx) | UbFlush (f : fctx).   (* publish_progress call site *)
Inductive deqres := QGot | QInFlight | QEmpty.

Inductive cpc_t :=
| CIdle
| CLock (d : dctx)                            (* deq_once: head.lock *)
| CD1 (d : dctx)                              (*           id.load *)
| CD2 (d : dctx)                              (*           consumer_retired.store *)
| CD3 (d : dctx)                              (*           state.load *)
| CD4 (d : dctx)                              (*           payload take *)
| CD5 (d : dctx) (set : bool)                 (*           state.store EMPTY *)
| CD6 (d : dctx)                              (*           drained.store (SET arm) *)
| CM1 (d : dctx) | CM2 (d : dctx)             (*           miss: drained.store; g_tail.load *)
| CUnl (d : dctx) (r : deqres)                (*           head unlock *)
| CP1 (u : ubctx) | CP2 (u : ubctx)           (* publish_progress: drained.store; progress.store *)
| CP3 (u : ubctx) | CP4 (u : ubctx) | CP5 (u : ubctx)   (* notify_senders: fence; sync count; async count *)
| CSa                                         (* senders_alive: sender_count.load *)
| CFl (f : fctx) | CFu (f : fctx)             (* flush_progress: head.lock; unlock *)
| CDropSt                                     (* drop_receiver: receiver_dropped.store *)
| CWk (k : wk6)                               (* wake_all_senders *)
| CDone.

(* ---------------------------------------------------------------- state (GENERATED by
   tools/gen_k3ticket_record.py: flat record + one setter per field) *)
Record st := mkSt {
  gtail : N;
  progress : N;
  drained : N;
  retired : N;
  ids : N -> N;
  sstate : N -> N;
  sdata : N -> option val;
  hcid : N;
  hidx : N;
  hpos : N;
  unpub : N;
  hlock : bool;
  scount : N;
  rdropped : bool;
  lk_srw : bool;
  lk_arw : bool;
  lk_ssw : bool;
  lk_asw : bool;
  ppc : nat -> ppc_t;
  pprog : nat -> list pop;
  pseq : nat -> N;
  presl : nat -> list pres;
  cpc : cpc_t;
  cprog : list cop;
  cresl : list cres;
  chand : val;
  tk : N -> tstat;
  received : list val;
  bad : bool
}.

Definition set_gtail (s : st) (v : N) : st :=
  mkSt v (progress s) (drained s) (retired s) (ids s) (sstate s) (sdata s) (hcid s) (hidx s) (hpos s) (unpub s) (hlock s) (scount s) (rdropped s) (lk_srw s) (lk_arw s) (lk_ssw s) (lk_asw s) (ppc s) (pprog s) (pseq s) (presl s) (cpc s) (cprog s) (cresl s) (chand s) (tk s) (received s) (bad s).
Definition set_progress (s : st) (v : N) : st :=
  mkSt (gtail s) v (drained s) (retired s) (ids s) (sstate s) (sdata s) (hcid s) (hidx s) (hpos s) (unpub s) (hlock s) (scount s) (rdropped s) (lk_srw s) (lk_arw s) (lk_ssw s) (lk_asw s) (ppc s) (pprog s) (pseq s) (presl s) (cpc s) (cprog s) (cresl s) (chand s) (tk s) (received s) (bad s).
Definition set_drained (s : st) (v : N) : st :=
  mkSt (gtail s) (progress s) v (retired s) (ids s) (sstate s) (sdata s) (hcid s) (hidx s) (hpos s) (unpub s) (hlock s) (scount s) (rdropped s) (lk_srw s) (lk_arw s) (lk_ssw s) (lk_asw s) (ppc s) (pprog s) (pseq s) (presl s) (cpc s) (cprog s) (cresl s) (chand s) (tk s) (received s) (bad s).
Definition set_retired (s : st) (v : N) : st :=
  mkSt (gtail s) (progress s) (drained s) v (ids s) (sstate s) (sdata s) (hcid s) (hidx s) (hpos s) (unpub s) (hlock s) (scount s) (rdropped s) (lk_srw s) (lk_arw s) (lk_ssw s) (lk_asw s) (ppc s) (pprog s) (pseq s) (presl s) (cpc s) (cprog s) (cresl s) (chand s) (tk s) (received s) (bad s).
Definition set_ids (s : st) (v : N -> N) : st :=
  mkSt (gtail s) (progress s) (drained s) (retired s) v (sstate s) (sdata s) (hcid s) (hidx s) (hpos s) (unpub s) (hlock s) (scount s) (rdropped s) (lk_srw s) (lk_arw s) (lk_ssw s) (lk_asw s) (ppc s) (pprog s) (pseq s) (presl s) (cpc s) (cprog s) (cresl s) (chand s) (tk s) (received s) (bad s).
Definition set_sstate (s : st) (v : N -> N) : st :=
  mkSt (gtail s) (progress s) (drained s) (retired s) (ids s) v (sdata s) (hcid s) (hidx s) (hpos s) (unpub s) (hlock s) (scount s) (rdropped s) (lk_srw s) (lk_arw s) (lk_ssw s) (lk_asw s) (ppc s) (pprog s) (pseq s) (presl s) (cpc s) (cprog s) (cresl s) (chand s) (tk s) (received s) (bad s).
Definition set_sdata (s : st) (v : N -> option val) : st :=
  mkSt (gtail s) (progress s) (drained s) (retired s) (ids s) (sstate s) v (hcid s) (hidx s) (hpos s) (unpub s) (hlock s) (scount s) (rdropped s) (lk_srw s) (lk_arw s) (lk_ssw s) (lk_asw s) (ppc s) (pprog s) (pseq s) (presl s) (cpc s) (cprog s) (cresl s) (chand s) (tk s) (received s) (bad s).
Definition set_hcid (s : st) (v : N) : st :=
  mkSt (gtail s) (progress s) (drained s) (retired s) (ids s) (sstate s) (sdata s) v (hidx s) (hpos s) (unpub s) (hlock s) (scount s) (rdropped s) (lk_srw s) (lk_arw s) (lk_ssw s) (lk_asw s) (ppc s) (pprog s) (pseq s) (presl s) (cpc s) (cprog s) (cresl s) (chand s) (tk s) (received s) (bad s).
Definition set_hidx (s : st) (v : N) : st :=
  mkSt (gtail s) (progress s) (drained s) (retired s) (ids s) (sstate s) (sdata s) (hcid s) v (hpos s) (unpub s) (hlock s) (scount s) (rdropped s) (lk_srw s) (lk_arw s) (lk_ssw s) (lk_asw s) (ppc s) (pprog s) (pseq s) (presl s) (cpc s) (cprog s) (cresl s) (chand s) (tk s) (received s) (bad s).
Definition set_hpos (s : st) (v : N) : st :=
  mkSt (gtail s) (progress s) (drained s) (retired s) (ids s) (sstate s) (sdata s) (hcid s) (hidx s) v (unpub s) (hlock s) (scount s) (rdropped s) (lk_srw s) (lk_arw s) (lk_ssw s) (lk_asw s) (ppc s) (pprog s) (pseq s) (presl s) (cpc s) (cprog s) (cresl s) (chand s) (tk s) (received s) (bad s).
Definition set_unpub (s : st) (v : N) : st :=
  mkSt (gtail s) (progress s) (drained s) (retired s) (ids s) (sstate s) (sdata s) (hcid s) (hidx s) (hpos s) v (hlock s) (scount s) (rdropped s) (lk_srw s) (lk_arw s) (lk_ssw s) (lk_asw s) (ppc s) (pprog s) (pseq s) (presl s) (cpc s) (cprog s) (cresl s) (chand s) (tk s) (received s) (bad s).
Definition set_hlock (s : st) (v : bool) : st :=
  mkSt (gtail s) (progress s) (drained s) (retired s) (ids s) (sstate s) (sdata s) (hcid s) (hidx s) (hpos s) (unpub s) v (scount s) (rdropped s) (lk_srw s) (lk_arw s) (lk_ssw s) (lk_asw s) (ppc s) (pprog s) (pseq s) (presl s) (cpc s) (cprog s) (cresl s) (chand s) (tk s) (received s) (bad s).
Definition set_scount (s : st) (v : N) : st :=
  mkSt (gtail s) (progress s) (drained s) (retired s) (ids s) (sstate s) (sdata s) (hcid s) (hidx s) (hpos s) (unpub s) (hlock s) v (rdropped s) (lk_srw s) (lk_arw s) (lk_ssw s) (lk_asw s) (ppc s) (pprog s) (pseq s) (presl s) (cpc s) (cprog s) (cresl s) (chand s) (tk s) (received s) (bad s).
Definition set_rdropped (s : st) (v : bool) : st :=
  mkSt (gtail s) (progress s) (drained s) (retired s) (ids s) (sstate s) (sdata s) (hcid s) (hidx s) (hpos s) (unpub s) (hlock s) (scount s) v (lk_srw s) (lk_arw s) (lk_ssw s) (lk_asw s) (ppc s) (pprog s) (pseq s) (presl s) (cpc s) (cprog s) (cresl s) (chand s) (tk s) (received s) (bad s).
Definition set_lk_srw (s : st) (v : bool) : st :=
  mkSt (gtail s) (progress s) (drained s) (retired s) (ids s) (sstate s) (sdata s) (hcid s) (hidx s) (hpos s) (unpub s) (hlock s) (scount s) (rdropped s) v (lk_arw s) (lk_ssw s) (lk_asw s) (ppc s) (pprog s) (pseq s) (presl s) (cpc s) (cprog s) (cresl s) (chand s) (tk s) (received s) (bad s).
Definition set_lk_arw (s : st) (v : bool) : st :=
  mkSt (gtail s) (progress s) (drained s) (retired s) (ids s) (sstate s) (sdata s) (hcid s) (hidx s) (hpos s) (unpub s) (hlock s) (scount s) (rdropped s) (lk_srw s) v (lk_ssw s) (lk_asw s) (ppc s) (pprog s) (pseq s) (presl s) (cpc s) (cprog s) (cresl s) (chand s) (tk s) (received s) (bad s).
Definition set_lk_ssw (s : st) (v : bool) : st :=
  mkSt (gtail s) (progress s) (drained s) (retired s) (ids s) (sstate s) (sdata s) (hcid s) (hidx s) (hpos s) (unpub s) (hlock s) (scount s) (rdropped s) (lk_srw s) (lk_arw s) v (lk_asw s) (ppc s) (pprog s) (pseq s) (presl s) (cpc s) (cprog s) (cresl s) (chand s) (tk s) (received s) (bad s).
Definition set_lk_asw (s : st) (v : bool) : st :=
  mkSt (gtail s) (progress s) (drained s) (retired s) (ids s) (sstate s) (sdata s) (hcid s) (hidx s) (hpos s) (unpub s) (hlock s) (scount s) (rdropped s) (lk_srw s) (lk_arw s) (lk_ssw s) v (ppc s) (pprog s) (pseq s) (presl s) (cpc s) (cprog s) (cresl s) (chand s) (tk s) (received s) (bad s).
Definition set_ppc (s : st) (v : nat -> ppc_t) : st :=
  mkSt (gtail s) (progress s) (drained s) (retired s) (ids s) (sstate s) (sdata s) (hcid s) (hidx s) (hpos s) (unpub s) (hlock s) (scount s) (rdropped s) (lk_srw s) (lk_arw s) (lk_ssw s) (lk_asw s) v (pprog s) (pseq s) (presl s) (cpc s) (cprog s) (cresl s) (chand s) (tk s) (received s) (bad s).
Definition set_pprog (s : st) (v : nat -> list pop) : st :=
  mkSt (gtail s) (progress s) (drained s) (retired s) (ids s) (sstate s) (sdata s) (hcid s) (hidx s) (hpos s) (unpub s) (hlock s) (scount s) (rdropped s) (lk_srw s) (lk_arw s) (lk_ssw s) (lk_asw s) (ppc s) v (pseq s) (presl s) (cpc s) (cprog s) (cresl s) (chand s) (tk s) (received s) (bad s).
Definition set_pseq (s : st) (v : nat -> N) : st :=
  mkSt (gtail s) (progress s) (drained s) (retired s) (ids s) (sstate s) (sdata s) (hcid s) (hidx s) (hpos s) (unpub s) (hlock s) (scount s) (rdropped s) (lk_srw s) (lk_arw s) (lk_ssw s) (lk_asw s) (ppc s) (pprog s) v (presl s) (cpc s) (cprog s) (cresl s) (chand s) (tk s) (received s) (bad s).
Definition set_presl (s : st) (v : nat -> list pres) : st :=
  mkSt (gtail s) (progress s) (drained s) (retired s) (ids s) (sstate s) (sdata s) (hcid s) (hidx s) (hpos s) (unpub s) (hlock s) (scount s) (rdropped s) (lk_srw s) (lk_arw s) (lk_ssw s) (lk_asw s) (ppc s) (pprog s) (pseq s) v (cpc s) (cprog s) (cresl s) (chand s) (tk s) (received s) (bad s).
Definition set_cpc (s : st) (v : cpc_t) : st :=
  mkSt (gtail s) (progress s) (drained s) (retired s) (ids s) (sstate s) (sdata s) (hcid s) (hidx s) (hpos s) (unpub s) (hlock s) (scount s) (rdropped s) (lk_srw s) (lk_arw s) (lk_ssw s) (lk_asw s) (ppc s) (pprog s) (pseq s) (presl s) v (cprog s) (cresl s) (chand s) (tk s) (received s) (bad s).
Definition set_cprog (s : st) (v : list cop) : st :=
  mkSt (gtail s) (progress s) (drained s) (retired s) (ids s) (sstate s) (sdata s) (hcid s) (hidx s) (hpos s) (unpub s) (hlock s) (scount s) (rdropped s) (lk_srw s) (lk_arw s) (lk_ssw s) (lk_asw s) (ppc s) (pprog s) (pseq s) (presl s) (cpc s) v (cresl s) (chand s) (tk s) (received s) (bad s).
Definition set_cresl (s : st) (v : list cres) : st :=
  mkSt (gtail s) (progress s) (drained s) (retired s) (ids s) (sstate s) (sdata s) (hcid s) (hidx s) (hpos s) (unpub s) (hlock s) (scount s) (rdropped s) (lk_srw s) (lk_arw s) (lk_ssw s) (lk_asw s) (ppc s) (pprog s) (pseq s) (presl s) (cpc s) (cprog s) v (chand s) (tk s) (received s) (bad s).
Definition set_chand (s : st) (v : val) : st :=
  mkSt (gtail s) (progress s) (drained s) (retired s) (ids s) (sstate s) (sdata s) (hcid s) (hidx s) (hpos s) (unpub s) (hlock s) (scount s) (rdropped s) (lk_srw s) (lk_arw s) (lk_ssw s) (lk_asw s) (ppc s) (pprog s) (pseq s) (presl s) (cpc s) (cprog s) (cresl s) v (tk s) (received s) (bad s).
Definition set_tk (s : st) (v : N -> tstat) : st :=
  mkSt (gtail s) (progress s) (drained s) (retired s) (ids s) (sstate s) (sdata s) (hcid s) (hidx s) (hpos s) (unpub s) (hlock s) (scount s) (rdropped s) (lk_srw s) (lk_arw s) (lk_ssw s) (lk_asw s) (ppc s) (pprog s) (pseq s) (presl s) (cpc s) (cprog s) (cresl s) (chand s) v (received s) (bad s).
Definition set_received (s : st) (v : list val) : st :=
  mkSt (gtail s) (progress s) (drained s) (retired s) (ids s) (sstate s) (sdata s) (hcid s) (hidx s) (hpos s) (unpub s) (hlock s) (scount s) (rdropped s) (lk_srw s) (lk_arw s) (lk_ssw s) (lk_asw s) (ppc s) (pprog s) (pseq s) (presl s) (cpc s) (cprog s) (cresl s) (chand s) (tk s) v (bad s).
Definition set_bad (s : st) (v : bool) : st :=
  mkSt (gtail s) (progress s) (drained s) (retired s) (ids s) (sstate s) (sdata s) (hcid s) (hidx s) (hpos s) (unpub s) (hlock s) (scount s) (rdropped s) (lk_srw s) (lk_arw s) (lk_ssw s) (lk_asw s) (ppc s) (pprog s) (pseq s) (presl s) (cpc s) (cprog s) (cresl s) (chand s) (tk s) (received s) v.

Ltac st_cbn := cbn [gtail progress drained retired ids sstate sdata hcid hidx hpos unpub hlock scount rdropped lk_srw lk_arw lk_ssw lk_asw ppc pprog pseq presl cpc cprog cresl chand tk received bad
  set_gtail set_progress set_drained set_retired set_ids set_sstate set_sdata set_hcid set_hidx set_hpos set_unpub set_hlock set_scount set_rdropped set_lk_srw set_lk_arw set_lk_ssw set_lk_asw set_ppc set_pprog set_pseq set_presl set_cpc set_cprog set_cresl set_chand set_tk set_received set_bad] in *.
Ltac st_goal := cbn [gtail progress drained retired ids sstate sdata hcid hidx hpos unpub hlock scount rdropped lk_srw lk_arw lk_ssw lk_asw ppc pprog pseq presl cpc cprog cresl chand tk received bad
  set_gtail set_progress set_drained set_retired set_ids set_sstate set_sdata set_hcid set_hidx set_hpos set_unpub set_hlock set_scount set_rdropped set_lk_srw set_lk_arw set_lk_ssw set_lk_asw set_ppc set_pprog set_pseq set_presl set_cpc set_cprog set_cresl set_chand set_tk set_received set_bad].
Ltac st_in H := cbn [gtail progress drained retired ids sstate sdata hcid hidx hpos unpub hlock scount rdropped lk_srw lk_arw lk_ssw lk_asw ppc pprog pseq presl cpc cprog cresl chand tk received bad
  set_gtail set_progress set_drained set_retired set_ids set_sstate set_sdata set_hcid set_hidx set_hpos set_unpub set_hlock set_scount set_rdropped set_lk_srw set_lk_arw set_lk_ssw set_lk_asw set_ppc set_pprog set_pseq set_presl set_cpc set_cprog set_cresl set_chand set_tk set_received set_bad] in H.

(* ---------------------------------------------------------------- steps *)
Definition b2n (b : bool) : N := if b then 1 else 0.
Definition updN {A} (f : N -> A) (k : N) (v : A) : N -> A := fun x => if N.eqb x k then v else f x.
Definition updn {A} (f : nat -> A) (k : nat) (v : A) : nat -> A := fun x => if Nat.eqb x k then v else f x.

(* slot state bytes *)
Definition sEMPTY : N := 0.
Definition sSET : N := 1.
Definition sSKIP : N := 2.

Definition init (np : nat) (pp0 : nat -> list pop) (cp0 : list cop) : st :=
  mkSt 0 0 0 0
       (fun j => j) (fun _ => sEMPTY) (fun _ => None)
       0 0 0 0 false
       (N.of_nat np) false
       false false false false
       (fun _ => PIdle) pp0 (fun _ => 0) (fun _ => [])
       CIdle cp0 [] (O, 0)
       (fun _ => TFree) [] false.

Section Steps.
  Variable cap cc n kk : N.   (* capacity; chunk_cap; table entries; publish cadence K *)
  Variable np : nat.          (* number of producer threads / Sender handles *)

  (* ticket geometry: `ticket >> log2`, `ticket & mask`, `cid % n` *)
  Definition cid_of (t : N) : N := t / cc.
  Definition idx_of (t : N) : N := t mod cc.
  Definition ent (c : N) : N := c mod n.
  Definition slot_at (c i : N) : N := ent c * cc + i.          (* creation-order index of the slot's state atomic *)
  Definition slot_of (t : N) : N := slot_at (cid_of t) (idx_of t).

  (* `x.wrapping_sub(q) < cap` for values below 2^64 *)
  Definition win (x q : N) : bool := N.leb q x && N.ltb (x - q) cap.

  (* the counter a try_send_now variant gates on *)
  Definition cnt (x : pctx) (s : st) : N := if is_cold x then drained s else progress s.
  Definition vcnt (x : pctx) : evar := if is_cold x then VDrained else VProgress.

  Definition set_ppc_at (s : st) (t : nat) (p : ppc_t) : st := set_ppc s (updn (ppc s) t p).

  (* --- completion of an API call *)
  Definition p_done (s : st) (t : nat) (r : pres) : st :=
    set_ppc_at (set_pseq (set_presl (set_pprog s (updn (pprog s) t (tl (pprog s t))))
                                    (updn (presl s) t (presl s t ++ [r])))
                         (updn (pseq s) t (pseq s t + 1))) t PIdle.
  Definition c_done (s : st) (r : cres) : st :=
    set_cpc (set_cresl (set_cprog s (tl (cprog s))) (cresl s ++ [r])) CIdle.

  (* the payload of the call in progress: op number = completed ops + 1 *)
  Definition myval (s : st) (t : nat) : val := (t, pseq s t + 1).

  (* after ensure_resident returned: the payload write (SET) or directly the state store (SKIP) *)
  Definition p_resident (s : st) (t : nat) (x : pctx) (tn : N) (ok : bool) : st :=
    set_ppc_at s t (if ok then PW0 x tn else PW1 x tn false).

  (* a mutex lock attempt: `get` reads the lock bit, `set` writes it *)
  Definition p_lock (s : st) (t : nat) (held : bool) (v : evar) (acq : st -> st) (next : ppc_t) : st * event :=
    if held then (s, eLock v false) else (set_ppc_at (acq s) t next, eLock v true).
  Definition c_lock (s : st) (held : bool) (v : evar) (acq : st -> st) (next : cpc_t) : st * event :=
    if held then (s, eLock v false) else (set_cpc (acq s) next, eLock v true).

  Definition pstep (s : st) (t : nat) (c : choice) : option (st * event) :=
    match ppc s t with
    | PIdle =>
        match pprog s t with
        | [] => Some (set_ppc_at s t PDropSub, eCas VClosed OAcqRel ORlx 0 1 0 true)
        | TrySend :: _ =>
            Some (set_ppc_at s t PRd, eLoad VClosed ORlx 0)
        end
    | PRd =>
        Some (if rdropped s then p_done s t (PClosed (myval s t)) else set_ppc_at s t (PS1 XHot),
              eLoad VRdropped OAcq (b2n (rdropped s)))
    | PS1 x => Some (set_ppc_at s t (PS2 x (gtail s)), eLoad VGtail ORlx (gtail s))
    | PS2 x a =>
        Some (if win a (cnt x s) then set_ppc_at s t (PS3 x)
              else match x with
                   | XHot => set_ppc_at s t (PS1 XCold)
                   | XCold => p_done s t (PFull (myval s t))
                   end,
              eLoad (vcnt x) OAcq (cnt x s))
    | PS3 x =>
        let tn := gtail s in
        Some (set_ppc_at (set_tk (set_gtail s (tn + 1)) (updN (tk s) tn (TOwn t))) t (PS4 x tn),
              eFadd VGtail ORlx 1 tn)
    | PS4 x tn =>
        Some (set_ppc_at s t (PE1 x tn (win tn (cnt x s))), eLoad (vcnt x) OAcq (cnt x s))
    | PE1 x tn ok =>
        let j := ent (cid_of tn) in
        let cur := ids s j in
        Some (if N.eqb cur (cid_of tn) then p_resident s t x tn ok else set_ppc_at s t (PE2 x tn ok cur),
              eLoad (VId j) OAcq cur)
    | PE2 x tn ok cur =>
        Some (set_ppc_at s t (if N.ltb (retired s) (cur + 1) then PEs x tn ok cur else PE3 x tn ok cur),
              eLoad VRetired OAcq (retired s))
    | PEs x tn ok cur => Some (set_ppc_at s t (PE2 x tn ok cur), eSpin)
    | PE3 x tn ok cur =>
        let j := ent (cid_of tn) in
        let hit := N.eqb (ids s j) cur in
        Some (if hit then p_resident (set_ids s (updN (ids s) j (cid_of tn))) t x tn ok
              else set_ppc_at s t (PE1 x tn ok),
              eCas (VId j) OAcqRel OAcq cur (cid_of tn) (ids s j) hit)
    | PW0 x tn =>
        let q := slot_of tn in
        let s1 := match sdata s q with Some _ => set_bad s true | None => s end in
        Some (set_ppc_at (set_sdata s1 (updN (sdata s) q (Some (myval s t)))) t (PW1 x tn true), eData)
    | PW1 x tn ok =>
        let q := slot_of tn in
        let s1 := if N.eqb (sstate s q) sEMPTY then s else set_bad s true in
        let s2 := set_tk (set_sstate s1 (updN (sstate s) q (if ok then sSET else sSKIP)))
                         (updN (tk s) tn (if ok then TSet (myval s t) else TSkip)) in
        Some (set_ppc_at s2 t (PN1 x tn ok), eStore (VState q) ORel (if ok then sSET else sSKIP))
    | PN1 x tn ok => Some (set_ppc_at s t (PN2 x tn ok), eFence)
    | PN2 x tn ok => Some (set_ppc_at s t (PN3 x tn ok), eLoad VSrwc ORlx 0)
    | PN3 x tn ok =>
        Some (if ok then p_done s t (POk (myval s t)) else set_ppc_at s t (PS1 x), eLoad VArwc ORlx 0)
    | PDropSub =>
        Some (set_ppc_at (set_scount s (scount s - 1)) t (if N.eqb (scount s) 1 then PWk W4L1 else PDone),
              eFsub VSenderCnt OAcqRel 1 (scount s))
    | PWk W4L1 => Some (p_lock s t (lk_srw s) VLkSrw (fun s => set_lk_srw s true) (PWk W4U1))
    | PWk W4U1 => Some (set_ppc_at (set_lk_srw s false) t (PWk W4L2), eUnlock VLkSrw)
    | PWk W4L2 => Some (p_lock s t (lk_arw s) VLkArw (fun s => set_lk_arw s true) (PWk W4U2))
    | PWk W4U2 => Some (set_ppc_at (set_lk_arw s false) t PDone, eUnlock VLkArw)
    | PDone => None
    end.

  (* --- consumer *)
  Definition hslot (s : st) : N := slot_at (hcid s) (hidx s).

  (* after publish_progress returned *)
  Definition c_after_pub (s : st) (u : ubctx) : st :=
    match u with
    | UbSet d => set_cpc s (CD6 d)
    | UbSkip d => set_cpc s (CD1 d)
    | UbFlush f => set_cpc s (CFu f)
    end.

  Definition cstep (s : st) (c : choice) : option (st * event) :=
    match cpc s with
    | CIdle =>
        match cprog s with
        | [] => Some (set_cpc s CDropSt, eCas VClosed OAcqRel ORlx 0 1 0 true)
        | TryRecv :: _ => Some (set_cpc s (CLock DTry1), eLoad VClosed ORlx 0)
        end
    | CLock d => Some (c_lock s (hlock s) VHead (fun s => set_hlock s true) (CD1 d))
    | CD1 d =>
        let j := ent (hcid s) in
        Some (set_cpc s (if negb (N.eqb (ids s j) (hcid s)) then CM1 d
                         else if N.eqb (hidx s) cc then CD2 d else CD3 d),
              eLoad (VId j) OAcq (ids s j))
    | CD2 d =>
        Some (set_cpc (set_hidx (set_hcid (set_retired s (hcid s + 1)) (hcid s + 1)) 0) (CD1 d),
              eStore VRetired ORel (hcid s + 1))
    | CD3 d =>
        let v := sstate s (hslot s) in
        Some (set_cpc s (if N.eqb v sSET then CD4 d else if N.eqb v sSKIP then CD5 d false else CM1 d),
              eLoad (VState (hslot s)) OAcq v)
    | CD4 d =>
        let q := hslot s in
        Some (match sdata s q with
              | None => set_cpc (set_bad s true) (CD5 d true)           (* take().unwrap() of an empty cell *)
              | Some v =>
                  set_cpc (set_chand (set_received (set_sdata s (updN (sdata s) q None)) (received s ++ [v])) v)
                          (CD5 d true)
              end, eData)
    | CD5 d set =>
        let q := hslot s in
        let u := unpub s + 1 in
        let s1 := set_unpub (set_hpos (set_hidx (set_sstate s (updN (sstate s) q sEMPTY)) (hidx s + 1)) (hpos s + 1)) u in
        Some (set_cpc s1 (if N.leb kk u then CP1 (if set then UbSet d else UbSkip d)
                          else if set then CD6 d else CD1 d),
              eStore (VState q) ORlx sEMPTY)
    | CD6 d => Some (set_cpc (set_drained s (hpos s)) (CUnl d QGot), eStore VDrained ORel (hpos s))
    | CM1 d => Some (set_cpc (set_drained s (hpos s)) (CM2 d), eStore VDrained ORel (hpos s))
    | CM2 d =>
        Some (set_cpc s (CUnl d (if N.ltb (hpos s) (gtail s) then QInFlight else QEmpty)),
              eLoad VGtail OAcq (gtail s))
    | CUnl d r =>
        let s1 := set_hlock s false in
        Some (match r, d with
              | QGot, _ => c_done s1 (RVal (chand s))
              | QEmpty, DTry1 => set_cpc s1 CSa
              | QInFlight, DTry1 => set_cpc s1 (CFl FEmpty)
              | _, DTry2 => set_cpc s1 (CFl FDisc)
              end, eUnlock VHead)
    | CP1 u => Some (set_cpc (set_unpub (set_drained s (hpos s)) 0) (CP2 u), eStore VDrained ORel (hpos s))
    | CP2 u => Some (set_cpc (set_progress s (hpos s)) (CP3 u), eStore VProgress ORel (hpos s))
    | CP3 u => Some (set_cpc s (CP4 u), eFence)
    | CP4 u => Some (set_cpc s (CP5 u), eLoad VSswc ORlx 0)
    | CP5 u => Some (c_after_pub s u, eLoad VAswc ORlx 0)
    | CSa =>
        Some (set_cpc s (if N.eqb (scount s) 0 then CLock DTry2 else CFl FEmpty),
              eLoad VSenderCnt OAcq (scount s))
    | CFl f =>
        Some (c_lock s (hlock s) VHead (fun s => set_hlock s true)
                     (if N.ltb 0 (unpub s) then CP1 (UbFlush f) else CFu f))
    | CFu f =>
        Some (c_done (set_hlock s false) (match f with FEmpty => REmpty | FDisc => RDisc end), eUnlock VHead)
    | CDropSt => Some (set_cpc (set_rdropped s true) (CWk W6L1), eStore VRdropped ORel 1)
    | CWk W6L1 => Some (c_lock s (lk_ssw s) VLkSsw (fun s => set_lk_ssw s true) (CWk W6S1))
    | CWk W6S1 => Some (set_cpc s (CWk W6U1), eStore VSswc ORel 0)
    | CWk W6U1 => Some (set_cpc (set_lk_ssw s false) (CWk W6L2), eUnlock VLkSsw)
    | CWk W6L2 => Some (c_lock s (lk_asw s) VLkAsw (fun s => set_lk_asw s true) (CWk W6S2))
    | CWk W6S2 => Some (set_cpc s (CWk W6U2), eStore VAswc ORel 0)
    | CWk W6U2 => Some (set_cpc (set_lk_asw s false) CDone, eUnlock VLkAsw)
    | CDone => None
    end.

  Definition step (s : st) (t : tid) (c : choice) : option (st * event) :=
    match t with
    | TC => cstep s c
    | TP i => if Nat.ltb i np then pstep s i c else None
    end.

  Definition sys (pp0 : nat -> list pop) (cp0 : list cop) : system :=
    mkSystem st tid choice event (init np pp0 cp0) step.
End Steps.

(* ---------------------------------------------------------------- the code's constants
   (mpsc::bounded(cap): Shared::new(cap, min(cap, CACHE_FLUSH_CHUNK), CHUNK_FLOOR_SYNC)) *)
Fixpoint pow2_ge (fuel : nat) (p x : N) : N :=
  match fuel with
  | O => p
  | S f => if N.leb x p then p else pow2_ge f (2 * p) x
  end.
Definition next_pow2 (x : N) : N := pow2_ge (N.to_nat x) 1 x.
Definition real_cap (cap : N) : N := N.max cap 1.
Definition real_cc (cap : N) : N := N.min (N.max (next_pow2 (real_cap cap)) 128) 1024.
Definition real_n (cap : N) : N := (real_cap cap + 64 + real_cc cap - 1) / real_cc cap + 2.
Definition real_kk (cap : N) : N := N.max 1 (N.min (N.min (real_cap cap) 64) (real_cap cap)).

(* ---------------------------------------------------------------- observables used by the theorems *)
Definition tk_val (x : tstat) : list val := match x with TSet v => [v] | _ => [] end.
(* N-indexed range [a, a+len) *)
Fixpoint nrange (a : N) (len : nat) : list N :=
  match len with O => [] | S k => a :: nrange (a + 1) k end.
Definition vals_in (s : st) (a b : N) : list val :=
  flat_map (fun t => tk_val (tk s t)) (nrange a (N.to_nat (b - a))).
(* payloads accepted by the channel (SET published), in ticket order *)
Definition accepted (s : st) : list val := vals_in s 0 (gtail s).
(* SET and not yet drained *)
Definition buffered (s : st) : list val := vals_in s (hpos s) (gtail s).

Definition pres_ok (r : pres) : list val := match r with POk v => [v] | _ => [] end.
Definition pres_fail (r : pres) : list val := match r with POk _ => [] | PFull v | PClosed v => [v] end.
Definition cres_val (r : cres) : list val := match r with RVal v => [v] | _ => [] end.
Definition sent_ok (s : st) (t : nat) : list val := flat_map pres_ok (presl s t).
Definition failed (s : st) (t : nat) : list val := flat_map pres_fail (presl s t).
Definition got (s : st) : list val := flat_map cres_val (cresl s).

(* strict replay of an observed trace (D2 tie) *)
Definition replay_ticket (cap cc n kk : N) (np : nat) (pp0 : nat -> list pop) (cp0 : list cop)
           (tr : list (tid * choice * event)) : option st + nat :=
  replay (sys cap cc n kk np pp0 cp0) event_eqb (init np pp0 cp0) tr.
