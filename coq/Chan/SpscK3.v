(* Chan/SpscK3.v — atomic-step (K3) model of the bounded SPSC channel's synchronous API:
     channels/src/spsc/shared.rs       Ring::{push,pop,drop}, SpscShared::{register, unregister,
                                       wake_one, notify_receivers, notify_senders, pre_park_fence,
                                       drop_sender, drop_receiver}
     channels/src/spsc/bounded_sync.rs BoundedSyncSender::{try_send, send, Drop/close_internal}
                                       BoundedSyncReceiver::{try_recv, recv, Drop/close_internal}
   One model step per traced facade event (atomic access, fence, Mutex lock attempt / unlock,
   park return, unpark, spin hint), in source order, carrying the same variable, operation and
   Ordering (the orderings are data: compared by the D2 replay and the D3 skeleton check; the
   semantics of the model is sequentially consistent).  Two more step kinds, `KWSlot` / `KRSlot`,
   are the untraced payload-cell accesses (`buf[i].write`, `assume_init_read`), placed as their own
   interleavable steps between the index check and the index store.
   Two threads: producer (TP) and consumer (TC), each running an ARBITRARY program followed by the
   drop of its handle; the thread that releases the shared state last runs `Ring::drop`.
   Payload ids are the producer's op numbers (1, 2, ...), as in the scenario runner.
   No proofs in this file. *)
From Fibre Require Import Common.Base Common.Conc.

(* ---------------------------------------------------------------- events *)
Inductive tid := TP | TC.
Inductive choice := CGo | CSpin | CSpur.   (* CSpin: spin once more (at the spin/register decision);
                                              CSpur: spurious return of park; CGo: everything else *)

Inductive evar :=
| VTail | VHead | VSendW | VRecvW | VSenderCnt | VRecvCnt | VProdDropped | VConsDropped
| VClosedP | VClosedC | VNotifP | VNotifC | VLockP | VLockC | VSlot | VNone.
Inductive ekind :=
| KLoad | KStore | KSwap | KFsub | KFence | KLock | KUnlock | KPark | KUnpark | KSpin | KWSlot | KRSlot.
Inductive eord := ORlx | OAcq | ORel | OAcqRel | OSeqCst | ONone.

Record event := Ev { ek : ekind; evr : evar; eo : eord; ea : N; er : N; eok : bool }.

Definition eLoad v o r := Ev KLoad v o 0 r true.
Definition eStore v o a := Ev KStore v o a 0 true.
Definition eSwap v o a r := Ev KSwap v o a r true.
Definition eFsub v o a r := Ev KFsub v o a r true.
Definition eFence := Ev KFence VNone OSeqCst 0 0 true.
Definition eLock v ok := Ev KLock v ONone 0 0 ok.
Definition eUnlock v := Ev KUnlock v ONone 0 0 true.
Definition ePark := Ev KPark VNone ONone 0 0 true.
Definition eUnpark t := Ev KUnpark VNone ONone t 0 true.
Definition eSpin := Ev KSpin VNone ONone 0 0 true.
Definition eWSlot := Ev KWSlot VSlot ONone 0 0 true.
Definition eRSlot := Ev KRSlot VSlot ONone 0 0 true.

Definition evar_eqb (a b : evar) : bool :=
  match a, b with
  | VTail, VTail | VHead, VHead | VSendW, VSendW | VRecvW, VRecvW | VSenderCnt, VSenderCnt
  | VRecvCnt, VRecvCnt | VProdDropped, VProdDropped | VConsDropped, VConsDropped
  | VClosedP, VClosedP | VClosedC, VClosedC | VNotifP, VNotifP | VNotifC, VNotifC
  | VLockP, VLockP | VLockC, VLockC | VSlot, VSlot | VNone, VNone => true
  | _, _ => false
  end.
Definition ekind_eqb (a b : ekind) : bool :=
  match a, b with
  | KLoad, KLoad | KStore, KStore | KSwap, KSwap | KFsub, KFsub | KFence, KFence | KLock, KLock
  | KUnlock, KUnlock | KPark, KPark | KUnpark, KUnpark | KSpin, KSpin | KWSlot, KWSlot
  | KRSlot, KRSlot => true
  | _, _ => false
  end.
Definition eord_eqb (a b : eord) : bool :=
  match a, b with
  | ORlx, ORlx | OAcq, OAcq | ORel, ORel | OAcqRel, OAcqRel | OSeqCst, OSeqCst | ONone, ONone => true
  | _, _ => false
  end.
Definition event_eqb (a b : event) : bool :=
  ekind_eqb (ek a) (ek b) && evar_eqb (evr a) (evr b) && eord_eqb (eo a) (eo b)
  && N.eqb (ea a) (ea b) && N.eqb (er a) (er b) && Bool.eqb (eok a) (eok b).

(* ---------------------------------------------------------------- programs, results, pcs *)
Inductive pop := Send | TrySend.
Inductive cop := Recv | TryRecv | Drain.      (* Drain = recv() until Disconnected *)

Inductive pres := POk (v : N) | PFull (v : N) | PClosed (v : N) | PGone (v : N).
   (* PClosed: try_send hands the value back; PGone: send() failed, SendError carries no payload,
      the value is dropped by send itself *)
Inductive cres := RVal (v : N) | REmpty | RDisc.

(* sub-machines shared by both sides *)
Inductive pp := LdA | LdB | Slot | StIdx.      (* push / pop: load own index; refresh the cached
                                                  counterpart index; payload cell access; store own index *)
Inductive wk := WkLock | WkSt0 | WkStN | WkUnlock (took : bool) | WkUnpark.   (* wake_one *)
Inductive rg := RgLock | RgSt | RgUnlock.      (* register *)
Inductive un := UnLock | UnSt | UnUnlock.      (* unregister *)
Inductive wctx := WNotify | WDrop.             (* wake_one called from notify_* / from drop_* *)

Inductive pctx := KTry | KFirst | KLoop (r : bool).          (* which push site; r = is_registered *)
Inductive puctx := UOk | UClosed.                            (* unregister before notify / before Err(Closed) *)
Inductive ppc_t :=
| PIdle                       (* between calls: next = closed.load of the next op, or the Drop swap *)
| PCd (k : pctx)              (* consumer_dropped.load(Acquire) *)
| PPush (k : pctx) (p : pp)
| PUnreg (a : puctx) (u : un)
| PNfFence | PNfLd            (* notify_receivers: fence; recv_waiters.load *)
| PWake (w : wctx) (k : wk)   (* wake_one(Role::Recv) *)
| PPark | PSwap | PSpinDec | PReg (g : rg) | PFence
| PDrStore | PDrSub           (* close_internal: producer_dropped.store; sender_count.fetch_sub *)
| PDrain (p : pp)             (* Ring::drop, when this thread released the shared state last *)
| PDone.

Inductive cctx := CTry1 | CTry2 | CFirst | CLoop (r : bool) | CLoopD (r : bool).   (* which pop site *)
Inductive sctx := STry | SLoop (r : bool).                   (* senders_alive() site *)
Inductive cuctx := CUVal | CUDisc.
Inductive cpc_t :=
| CIdle
| CPop (k : cctx) (p : pp)
| CSc (k : sctx)              (* sender_count.load(Acquire) *)
| CUnreg (a : cuctx) (u : un)
| CNfFence | CNfLd            (* notify_senders *)
| CWake (w : wctx) (k : wk)   (* wake_one(Role::Send) *)
| CPark | CSwap | CSpinDec | CReg (g : rg) | CFence
| CDrStore | CDrSub
| CDrain (p : pp)
| CDone.

(* ---------------------------------------------------------------- state (GENERATED by
   tools/gen_k3spsc_record.py: flat record + one setter per field) *)
Record st := mkSt {
  tail : N;
  head : N;
  ch : N;
  ct : N;
  slots : N -> option N;
  p_closed : bool;
  c_closed : bool;
  pdropped : bool;
  cdropped : bool;
  scount : N;
  rcount : N;
  p_rel : bool;
  c_rel : bool;
  cw_lock : bool;
  cw_slot : bool;
  recv_w : N;
  c_notif : bool;
  tok_c : bool;
  pw_lock : bool;
  pw_slot : bool;
  send_w : N;
  p_notif : bool;
  tok_p : bool;
  ppc : ppc_t;
  cpc : cpc_t;
  pprog : list pop;
  cprog : list cop;
  pseq : N;
  accepted : list N;
  received : list N;
  dropped : list N;
  chand : N;
  presults : list pres;
  cresults : list cres;
  bad : bool
}.

Definition set_tail (s : st) (v : N) : st :=
  mkSt v (head s) (ch s) (ct s) (slots s) (p_closed s) (c_closed s) (pdropped s) (cdropped s) (scount s) (rcount s) (p_rel s) (c_rel s) (cw_lock s) (cw_slot s) (recv_w s) (c_notif s) (tok_c s) (pw_lock s) (pw_slot s) (send_w s) (p_notif s) (tok_p s) (ppc s) (cpc s) (pprog s) (cprog s) (pseq s) (accepted s) (received s) (dropped s) (chand s) (presults s) (cresults s) (bad s).
Definition set_head (s : st) (v : N) : st :=
  mkSt (tail s) v (ch s) (ct s) (slots s) (p_closed s) (c_closed s) (pdropped s) (cdropped s) (scount s) (rcount s) (p_rel s) (c_rel s) (cw_lock s) (cw_slot s) (recv_w s) (c_notif s) (tok_c s) (pw_lock s) (pw_slot s) (send_w s) (p_notif s) (tok_p s) (ppc s) (cpc s) (pprog s) (cprog s) (pseq s) (accepted s) (received s) (dropped s) (chand s) (presults s) (cresults s) (bad s).
Definition set_ch (s : st) (v : N) : st :=
  mkSt (tail s) (head s) v (ct s) (slots s) (p_closed s) (c_closed s) (pdropped s) (cdropped s) (scount s) (rcount s) (p_rel s) (c_rel s) (cw_lock s) (cw_slot s) (recv_w s) (c_notif s) (tok_c s) (pw_lock s) (pw_slot s) (send_w s) (p_notif s) (tok_p s) (ppc s) (cpc s) (pprog s) (cprog s) (pseq s) (accepted s) (received s) (dropped s) (chand s) (presults s) (cresults s) (bad s).
Definition set_ct (s : st) (v : N) : st :=
  mkSt (tail s) (head s) (ch s) v (slots s) (p_closed s) (c_closed s) (pdropped s) (cdropped s) (scount s) (rcount s) (p_rel s) (c_rel s) (cw_lock s) (cw_slot s) (recv_w s) (c_notif s) (tok_c s) (pw_lock s) (pw_slot s) (send_w s) (p_notif s) (tok_p s) (ppc s) (cpc s) (pprog s) (cprog s) (pseq s) (accepted s) (received s) (dropped s) (chand s) (presults s) (cresults s) (bad s).
Definition set_slots (s : st) (v : N -> option N) : st :=
  mkSt (tail s) (head s) (ch s) (ct s) v (p_closed s) (c_closed s) (pdropped s) (cdropped s) (scount s) (rcount s) (p_rel s) (c_rel s) (cw_lock s) (cw_slot s) (recv_w s) (c_notif s) (tok_c s) (pw_lock s) (pw_slot s) (send_w s) (p_notif s) (tok_p s) (ppc s) (cpc s) (pprog s) (cprog s) (pseq s) (accepted s) (received s) (dropped s) (chand s) (presults s) (cresults s) (bad s).
Definition set_p_closed (s : st) (v : bool) : st :=
  mkSt (tail s) (head s) (ch s) (ct s) (slots s) v (c_closed s) (pdropped s) (cdropped s) (scount s) (rcount s) (p_rel s) (c_rel s) (cw_lock s) (cw_slot s) (recv_w s) (c_notif s) (tok_c s) (pw_lock s) (pw_slot s) (send_w s) (p_notif s) (tok_p s) (ppc s) (cpc s) (pprog s) (cprog s) (pseq s) (accepted s) (received s) (dropped s) (chand s) (presults s) (cresults s) (bad s).
Definition set_c_closed (s : st) (v : bool) : st :=
  mkSt (tail s) (head s) (ch s) (ct s) (slots s) (p_closed s) v (pdropped s) (cdropped s) (scount s) (rcount s) (p_rel s) (c_rel s) (cw_lock s) (cw_slot s) (recv_w s) (c_notif s) (tok_c s) (pw_lock s) (pw_slot s) (send_w s) (p_notif s) (tok_p s) (ppc s) (cpc s) (pprog s) (cprog s) (pseq s) (accepted s) (received s) (dropped s) (chand s) (presults s) (cresults s) (bad s).
Definition set_pdropped (s : st) (v : bool) : st :=
  mkSt (tail s) (head s) (ch s) (ct s) (slots s) (p_closed s) (c_closed s) v (cdropped s) (scount s) (rcount s) (p_rel s) (c_rel s) (cw_lock s) (cw_slot s) (recv_w s) (c_notif s) (tok_c s) (pw_lock s) (pw_slot s) (send_w s) (p_notif s) (tok_p s) (ppc s) (cpc s) (pprog s) (cprog s) (pseq s) (accepted s) (received s) (dropped s) (chand s) (presults s) (cresults s) (bad s).
Definition set_cdropped (s : st) (v : bool) : st :=
  mkSt (tail s) (head s) (ch s) (ct s) (slots s) (p_closed s) (c_closed s) (pdropped s) v (scount s) (rcount s) (p_rel s) (c_rel s) (cw_lock s) (cw_slot s) (recv_w s) (c_notif s) (tok_c s) (pw_lock s) (pw_slot s) (send_w s) (p_notif s) (tok_p s) (ppc s) (cpc s) (pprog s) (cprog s) (pseq s) (accepted s) (received s) (dropped s) (chand s) (presults s) (cresults s) (bad s).
Definition set_scount (s : st) (v : N) : st :=
  mkSt (tail s) (head s) (ch s) (ct s) (slots s) (p_closed s) (c_closed s) (pdropped s) (cdropped s) v (rcount s) (p_rel s) (c_rel s) (cw_lock s) (cw_slot s) (recv_w s) (c_notif s) (tok_c s) (pw_lock s) (pw_slot s) (send_w s) (p_notif s) (tok_p s) (ppc s) (cpc s) (pprog s) (cprog s) (pseq s) (accepted s) (received s) (dropped s) (chand s) (presults s) (cresults s) (bad s).
Definition set_rcount (s : st) (v : N) : st :=
  mkSt (tail s) (head s) (ch s) (ct s) (slots s) (p_closed s) (c_closed s) (pdropped s) (cdropped s) (scount s) v (p_rel s) (c_rel s) (cw_lock s) (cw_slot s) (recv_w s) (c_notif s) (tok_c s) (pw_lock s) (pw_slot s) (send_w s) (p_notif s) (tok_p s) (ppc s) (cpc s) (pprog s) (cprog s) (pseq s) (accepted s) (received s) (dropped s) (chand s) (presults s) (cresults s) (bad s).
Definition set_p_rel (s : st) (v : bool) : st :=
  mkSt (tail s) (head s) (ch s) (ct s) (slots s) (p_closed s) (c_closed s) (pdropped s) (cdropped s) (scount s) (rcount s) v (c_rel s) (cw_lock s) (cw_slot s) (recv_w s) (c_notif s) (tok_c s) (pw_lock s) (pw_slot s) (send_w s) (p_notif s) (tok_p s) (ppc s) (cpc s) (pprog s) (cprog s) (pseq s) (accepted s) (received s) (dropped s) (chand s) (presults s) (cresults s) (bad s).
Definition set_c_rel (s : st) (v : bool) : st :=
  mkSt (tail s) (head s) (ch s) (ct s) (slots s) (p_closed s) (c_closed s) (pdropped s) (cdropped s) (scount s) (rcount s) (p_rel s) v (cw_lock s) (cw_slot s) (recv_w s) (c_notif s) (tok_c s) (pw_lock s) (pw_slot s) (send_w s) (p_notif s) (tok_p s) (ppc s) (cpc s) (pprog s) (cprog s) (pseq s) (accepted s) (received s) (dropped s) (chand s) (presults s) (cresults s) (bad s).
Definition set_cw_lock (s : st) (v : bool) : st :=
  mkSt (tail s) (head s) (ch s) (ct s) (slots s) (p_closed s) (c_closed s) (pdropped s) (cdropped s) (scount s) (rcount s) (p_rel s) (c_rel s) v (cw_slot s) (recv_w s) (c_notif s) (tok_c s) (pw_lock s) (pw_slot s) (send_w s) (p_notif s) (tok_p s) (ppc s) (cpc s) (pprog s) (cprog s) (pseq s) (accepted s) (received s) (dropped s) (chand s) (presults s) (cresults s) (bad s).
Definition set_cw_slot (s : st) (v : bool) : st :=
  mkSt (tail s) (head s) (ch s) (ct s) (slots s) (p_closed s) (c_closed s) (pdropped s) (cdropped s) (scount s) (rcount s) (p_rel s) (c_rel s) (cw_lock s) v (recv_w s) (c_notif s) (tok_c s) (pw_lock s) (pw_slot s) (send_w s) (p_notif s) (tok_p s) (ppc s) (cpc s) (pprog s) (cprog s) (pseq s) (accepted s) (received s) (dropped s) (chand s) (presults s) (cresults s) (bad s).
Definition set_recv_w (s : st) (v : N) : st :=
  mkSt (tail s) (head s) (ch s) (ct s) (slots s) (p_closed s) (c_closed s) (pdropped s) (cdropped s) (scount s) (rcount s) (p_rel s) (c_rel s) (cw_lock s) (cw_slot s) v (c_notif s) (tok_c s) (pw_lock s) (pw_slot s) (send_w s) (p_notif s) (tok_p s) (ppc s) (cpc s) (pprog s) (cprog s) (pseq s) (accepted s) (received s) (dropped s) (chand s) (presults s) (cresults s) (bad s).
Definition set_c_notif (s : st) (v : bool) : st :=
  mkSt (tail s) (head s) (ch s) (ct s) (slots s) (p_closed s) (c_closed s) (pdropped s) (cdropped s) (scount s) (rcount s) (p_rel s) (c_rel s) (cw_lock s) (cw_slot s) (recv_w s) v (tok_c s) (pw_lock s) (pw_slot s) (send_w s) (p_notif s) (tok_p s) (ppc s) (cpc s) (pprog s) (cprog s) (pseq s) (accepted s) (received s) (dropped s) (chand s) (presults s) (cresults s) (bad s).
Definition set_tok_c (s : st) (v : bool) : st :=
  mkSt (tail s) (head s) (ch s) (ct s) (slots s) (p_closed s) (c_closed s) (pdropped s) (cdropped s) (scount s) (rcount s) (p_rel s) (c_rel s) (cw_lock s) (cw_slot s) (recv_w s) (c_notif s) v (pw_lock s) (pw_slot s) (send_w s) (p_notif s) (tok_p s) (ppc s) (cpc s) (pprog s) (cprog s) (pseq s) (accepted s) (received s) (dropped s) (chand s) (presults s) (cresults s) (bad s).
Definition set_pw_lock (s : st) (v : bool) : st :=
  mkSt (tail s) (head s) (ch s) (ct s) (slots s) (p_closed s) (c_closed s) (pdropped s) (cdropped s) (scount s) (rcount s) (p_rel s) (c_rel s) (cw_lock s) (cw_slot s) (recv_w s) (c_notif s) (tok_c s) v (pw_slot s) (send_w s) (p_notif s) (tok_p s) (ppc s) (cpc s) (pprog s) (cprog s) (pseq s) (accepted s) (received s) (dropped s) (chand s) (presults s) (cresults s) (bad s).
Definition set_pw_slot (s : st) (v : bool) : st :=
  mkSt (tail s) (head s) (ch s) (ct s) (slots s) (p_closed s) (c_closed s) (pdropped s) (cdropped s) (scount s) (rcount s) (p_rel s) (c_rel s) (cw_lock s) (cw_slot s) (recv_w s) (c_notif s) (tok_c s) (pw_lock s) v (send_w s) (p_notif s) (tok_p s) (ppc s) (cpc s) (pprog s) (cprog s) (pseq s) (accepted s) (received s) (dropped s) (chand s) (presults s) (cresults s) (bad s).
Definition set_send_w (s : st) (v : N) : st :=
  mkSt (tail s) (head s) (ch s) (ct s) (slots s) (p_closed s) (c_closed s) (pdropped s) (cdropped s) (scount s) (rcount s) (p_rel s) (c_rel s) (cw_lock s) (cw_slot s) (recv_w s) (c_notif s) (tok_c s) (pw_lock s) (pw_slot s) v (p_notif s) (tok_p s) (ppc s) (cpc s) (pprog s) (cprog s) (pseq s) (accepted s) (received s) (dropped s) (chand s) (presults s) (cresults s) (bad s).
Definition set_p_notif (s : st) (v : bool) : st :=
  mkSt (tail s) (head s) (ch s) (ct s) (slots s) (p_closed s) (c_closed s) (pdropped s) (cdropped s) (scount s) (rcount s) (p_rel s) (c_rel s) (cw_lock s) (cw_slot s) (recv_w s) (c_notif s) (tok_c s) (pw_lock s) (pw_slot s) (send_w s) v (tok_p s) (ppc s) (cpc s) (pprog s) (cprog s) (pseq s) (accepted s) (received s) (dropped s) (chand s) (presults s) (cresults s) (bad s).
Definition set_tok_p (s : st) (v : bool) : st :=
  mkSt (tail s) (head s) (ch s) (ct s) (slots s) (p_closed s) (c_closed s) (pdropped s) (cdropped s) (scount s) (rcount s) (p_rel s) (c_rel s) (cw_lock s) (cw_slot s) (recv_w s) (c_notif s) (tok_c s) (pw_lock s) (pw_slot s) (send_w s) (p_notif s) v (ppc s) (cpc s) (pprog s) (cprog s) (pseq s) (accepted s) (received s) (dropped s) (chand s) (presults s) (cresults s) (bad s).
Definition set_ppc (s : st) (v : ppc_t) : st :=
  mkSt (tail s) (head s) (ch s) (ct s) (slots s) (p_closed s) (c_closed s) (pdropped s) (cdropped s) (scount s) (rcount s) (p_rel s) (c_rel s) (cw_lock s) (cw_slot s) (recv_w s) (c_notif s) (tok_c s) (pw_lock s) (pw_slot s) (send_w s) (p_notif s) (tok_p s) v (cpc s) (pprog s) (cprog s) (pseq s) (accepted s) (received s) (dropped s) (chand s) (presults s) (cresults s) (bad s).
Definition set_cpc (s : st) (v : cpc_t) : st :=
  mkSt (tail s) (head s) (ch s) (ct s) (slots s) (p_closed s) (c_closed s) (pdropped s) (cdropped s) (scount s) (rcount s) (p_rel s) (c_rel s) (cw_lock s) (cw_slot s) (recv_w s) (c_notif s) (tok_c s) (pw_lock s) (pw_slot s) (send_w s) (p_notif s) (tok_p s) (ppc s) v (pprog s) (cprog s) (pseq s) (accepted s) (received s) (dropped s) (chand s) (presults s) (cresults s) (bad s).
Definition set_pprog (s : st) (v : list pop) : st :=
  mkSt (tail s) (head s) (ch s) (ct s) (slots s) (p_closed s) (c_closed s) (pdropped s) (cdropped s) (scount s) (rcount s) (p_rel s) (c_rel s) (cw_lock s) (cw_slot s) (recv_w s) (c_notif s) (tok_c s) (pw_lock s) (pw_slot s) (send_w s) (p_notif s) (tok_p s) (ppc s) (cpc s) v (cprog s) (pseq s) (accepted s) (received s) (dropped s) (chand s) (presults s) (cresults s) (bad s).
Definition set_cprog (s : st) (v : list cop) : st :=
  mkSt (tail s) (head s) (ch s) (ct s) (slots s) (p_closed s) (c_closed s) (pdropped s) (cdropped s) (scount s) (rcount s) (p_rel s) (c_rel s) (cw_lock s) (cw_slot s) (recv_w s) (c_notif s) (tok_c s) (pw_lock s) (pw_slot s) (send_w s) (p_notif s) (tok_p s) (ppc s) (cpc s) (pprog s) v (pseq s) (accepted s) (received s) (dropped s) (chand s) (presults s) (cresults s) (bad s).
Definition set_pseq (s : st) (v : N) : st :=
  mkSt (tail s) (head s) (ch s) (ct s) (slots s) (p_closed s) (c_closed s) (pdropped s) (cdropped s) (scount s) (rcount s) (p_rel s) (c_rel s) (cw_lock s) (cw_slot s) (recv_w s) (c_notif s) (tok_c s) (pw_lock s) (pw_slot s) (send_w s) (p_notif s) (tok_p s) (ppc s) (cpc s) (pprog s) (cprog s) v (accepted s) (received s) (dropped s) (chand s) (presults s) (cresults s) (bad s).
Definition set_accepted (s : st) (v : list N) : st :=
  mkSt (tail s) (head s) (ch s) (ct s) (slots s) (p_closed s) (c_closed s) (pdropped s) (cdropped s) (scount s) (rcount s) (p_rel s) (c_rel s) (cw_lock s) (cw_slot s) (recv_w s) (c_notif s) (tok_c s) (pw_lock s) (pw_slot s) (send_w s) (p_notif s) (tok_p s) (ppc s) (cpc s) (pprog s) (cprog s) (pseq s) v (received s) (dropped s) (chand s) (presults s) (cresults s) (bad s).
Definition set_received (s : st) (v : list N) : st :=
  mkSt (tail s) (head s) (ch s) (ct s) (slots s) (p_closed s) (c_closed s) (pdropped s) (cdropped s) (scount s) (rcount s) (p_rel s) (c_rel s) (cw_lock s) (cw_slot s) (recv_w s) (c_notif s) (tok_c s) (pw_lock s) (pw_slot s) (send_w s) (p_notif s) (tok_p s) (ppc s) (cpc s) (pprog s) (cprog s) (pseq s) (accepted s) v (dropped s) (chand s) (presults s) (cresults s) (bad s).
Definition set_dropped (s : st) (v : list N) : st :=
  mkSt (tail s) (head s) (ch s) (ct s) (slots s) (p_closed s) (c_closed s) (pdropped s) (cdropped s) (scount s) (rcount s) (p_rel s) (c_rel s) (cw_lock s) (cw_slot s) (recv_w s) (c_notif s) (tok_c s) (pw_lock s) (pw_slot s) (send_w s) (p_notif s) (tok_p s) (ppc s) (cpc s) (pprog s) (cprog s) (pseq s) (accepted s) (received s) v (chand s) (presults s) (cresults s) (bad s).
Definition set_chand (s : st) (v : N) : st :=
  mkSt (tail s) (head s) (ch s) (ct s) (slots s) (p_closed s) (c_closed s) (pdropped s) (cdropped s) (scount s) (rcount s) (p_rel s) (c_rel s) (cw_lock s) (cw_slot s) (recv_w s) (c_notif s) (tok_c s) (pw_lock s) (pw_slot s) (send_w s) (p_notif s) (tok_p s) (ppc s) (cpc s) (pprog s) (cprog s) (pseq s) (accepted s) (received s) (dropped s) v (presults s) (cresults s) (bad s).
Definition set_presults (s : st) (v : list pres) : st :=
  mkSt (tail s) (head s) (ch s) (ct s) (slots s) (p_closed s) (c_closed s) (pdropped s) (cdropped s) (scount s) (rcount s) (p_rel s) (c_rel s) (cw_lock s) (cw_slot s) (recv_w s) (c_notif s) (tok_c s) (pw_lock s) (pw_slot s) (send_w s) (p_notif s) (tok_p s) (ppc s) (cpc s) (pprog s) (cprog s) (pseq s) (accepted s) (received s) (dropped s) (chand s) v (cresults s) (bad s).
Definition set_cresults (s : st) (v : list cres) : st :=
  mkSt (tail s) (head s) (ch s) (ct s) (slots s) (p_closed s) (c_closed s) (pdropped s) (cdropped s) (scount s) (rcount s) (p_rel s) (c_rel s) (cw_lock s) (cw_slot s) (recv_w s) (c_notif s) (tok_c s) (pw_lock s) (pw_slot s) (send_w s) (p_notif s) (tok_p s) (ppc s) (cpc s) (pprog s) (cprog s) (pseq s) (accepted s) (received s) (dropped s) (chand s) (presults s) v (bad s).
Definition set_bad (s : st) (v : bool) : st :=
  mkSt (tail s) (head s) (ch s) (ct s) (slots s) (p_closed s) (c_closed s) (pdropped s) (cdropped s) (scount s) (rcount s) (p_rel s) (c_rel s) (cw_lock s) (cw_slot s) (recv_w s) (c_notif s) (tok_c s) (pw_lock s) (pw_slot s) (send_w s) (p_notif s) (tok_p s) (ppc s) (cpc s) (pprog s) (cprog s) (pseq s) (accepted s) (received s) (dropped s) (chand s) (presults s) (cresults s) v.

Ltac st_cbn := cbn [tail head ch ct slots p_closed c_closed pdropped cdropped scount rcount p_rel c_rel cw_lock cw_slot recv_w c_notif tok_c pw_lock pw_slot send_w p_notif tok_p ppc cpc pprog cprog pseq accepted received dropped chand presults cresults bad
  set_tail set_head set_ch set_ct set_slots set_p_closed set_c_closed set_pdropped set_cdropped set_scount set_rcount set_p_rel set_c_rel set_cw_lock set_cw_slot set_recv_w set_c_notif set_tok_c set_pw_lock set_pw_slot set_send_w set_p_notif set_tok_p set_ppc set_cpc set_pprog set_cprog set_pseq set_accepted set_received set_dropped set_chand set_presults set_cresults set_bad] in *.

(* ---------------------------------------------------------------- steps *)
Definition b2n (b : bool) : N := if b then 1 else 0.
Definition upd (f : N -> option N) (k : N) (v : option N) : N -> option N :=
  fun x => if N.eqb x k then v else f x.

Definition init (pp0 : list pop) (cp0 : list cop) : st :=
  mkSt 0 0 0 0 (fun _ => None)
       false false false false 1 1 false false
       false false 0 false false
       false false 0 false false
       PIdle CIdle pp0 cp0 0
       [] [] [] 0 [] [] false.

Section Steps.
  Variable cap phys : N.      (* logical capacity; physical buffer length (mask + 1) *)

  (* --- completion of an API call *)
  Definition p_done_op (s : st) (r : pres) : st :=
    set_ppc (set_presults (set_pprog s (tl (pprog s))) (presults s ++ [r])) PIdle.
  Definition c_next_prog (s : st) (r : cres) : list cop :=
    match cprog s, r with
    | Drain :: _, RVal _ => cprog s
    | _, _ => tl (cprog s)
    end.
  Definition c_done_op (s : st) (r : cres) : st :=
    set_cpc (set_cresults (set_cprog s (c_next_prog s r)) (cresults s ++ [r])) CIdle.

  (* --- releasing the Arc<SpscShared>: the last one runs Ring::drop *)
  Definition p_release (s : st) : st :=
    set_ppc (set_p_rel s true) (if c_rel s then PDrain LdA else PDone).
  Definition c_release (s : st) : st :=
    set_cpc (set_c_rel s true) (if p_rel s then CDrain LdA else CDone).

  (* --- payload cell accesses *)
  Definition write_slot (s : st) : st :=
    let k := tail s mod phys in
    let s1 := match slots s k with Some _ => set_bad s true | None => s end in
    set_slots s1 (upd (slots s) k (Some (pseq s))).
  (* toRecv = true: the consumer's pop (value goes to the consumer's hand);
     false: Ring::drop (value is dropped) *)
  Definition take_slot (toRecv : bool) (s : st) : st :=
    let k := head s mod phys in
    match slots s k with
    | None => set_bad s true                        (* assume_init_read of an empty cell: UB *)
    | Some v =>
        let s1 := set_slots s (upd (slots s) k None) in
        if toRecv then set_chand (set_received s1 (received s ++ [v])) v
        else set_dropped s1 (dropped s ++ [v])
    end.

  (* --- Ring::pop, common part: (state without pc change, event, outcome) *)
  Inductive pop_out := PoNext (p : pp) | PoNone | PoSome.
  Definition pop_core (toRecv : bool) (s : st) (p : pp) : st * event * pop_out :=
    match p with
    | LdA => (s, eLoad VHead ORlx (head s), PoNext (if N.eqb (head s) (ct s) then LdB else Slot))
    | LdB => (set_ct s (tail s), eLoad VTail OAcq (tail s),
              if N.eqb (head s) (tail s) then PoNone else PoNext Slot)
    | Slot => (take_slot toRecv s, eRSlot, PoNext StIdx)
    | StIdx => (set_head s (head s + 1), eStore VHead ORel (head s + 1), PoSome)
    end.

  (* --- producer *)
  Definition p_push_ok (s : st) (k : pctx) : st :=
    match k with
    | KLoop true => set_ppc s (PUnreg UOk UnLock)
    | _ => set_ppc s PNfFence
    end.
  Definition p_push_err (s : st) (k : pctx) : st :=
    match k with
    | KTry => p_done_op s (PFull (pseq s))
    | KFirst => set_ppc s (PCd (KLoop false))
    | KLoop true => set_ppc s PPark
    | KLoop false => set_ppc s PSpinDec
    end.
  Definition p_wake_done (s : st) (w : wctx) : st :=
    match w with
    | WNotify => p_done_op s (POk (pseq s))
    | WDrop => p_release s
    end.
  (* lock attempt on producer_waiter by the producer; on success `slotv` is written into the cell *)
  Definition p_lock_pw (s : st) (slotv : bool) (fail ok : ppc_t) : st * event :=
    if pw_lock s then (set_ppc s fail, eLock VLockP false)
    else (set_ppc (set_pw_slot (set_pw_lock s true) slotv) ok, eLock VLockP true).

  Definition pstep (s : st) (c : choice) : option (st * event) :=
    match ppc s with
    | PIdle =>
        match pprog s with
        | [] =>
            let s1 := set_p_closed s true in
            Some (if p_closed s then p_release s1 else set_ppc s1 PDrStore,
                  eSwap VClosedP OAcqRel 1 (b2n (p_closed s)))
        | op :: _ =>
            let s1 := set_p_notif (set_pseq s (pseq s + 1)) false in
            Some (if p_closed s
                  then p_done_op s1 (match op with Send => PGone (pseq s1) | TrySend => PClosed (pseq s1) end)
                  else set_ppc s1 (PCd (match op with Send => KFirst | TrySend => KTry end)),
                  eLoad VClosedP ORlx (b2n (p_closed s)))
        end
    | PCd k =>
        Some (if cdropped s
              then match k with
                   | KTry => p_done_op s (PClosed (pseq s))
                   | KFirst => p_done_op s (PGone (pseq s))
                   | KLoop true => set_ppc s (PUnreg UClosed UnLock)
                   | KLoop false => p_done_op s (PGone (pseq s))
                   end
              else set_ppc s (PPush k LdA),
              eLoad VConsDropped OAcq (b2n (cdropped s)))
    | PPush k LdA =>
        Some (set_ppc s (PPush k (if N.leb cap (tail s - ch s) then LdB else Slot)),
              eLoad VTail ORlx (tail s))
    | PPush k LdB =>
        let s1 := set_ch s (head s) in
        Some (if N.leb cap (tail s - head s) then p_push_err s1 k else set_ppc s1 (PPush k Slot),
              eLoad VHead OAcq (head s))
    | PPush k Slot => Some (set_ppc (write_slot s) (PPush k StIdx), eWSlot)
    | PPush k StIdx =>
        Some (p_push_ok (set_accepted (set_tail s (tail s + 1)) (accepted s ++ [pseq s])) k,
              eStore VTail ORel (tail s + 1))
    | PUnreg a UnLock => Some (p_lock_pw s false (PUnreg a UnLock) (PUnreg a UnSt))
    | PUnreg a UnSt => Some (set_ppc (set_send_w s 0) (PUnreg a UnUnlock), eStore VSendW ORlx 0)
    | PUnreg a UnUnlock =>
        let s1 := set_pw_lock s false in
        Some (match a with UOk => set_ppc s1 PNfFence | UClosed => p_done_op s1 (PGone (pseq s)) end,
              eUnlock VLockP)
    | PNfFence => Some (set_ppc s PNfLd, eFence)
    | PNfLd =>
        Some (if N.eqb (recv_w s) 0 then p_done_op s (POk (pseq s)) else set_ppc s (PWake WNotify WkLock),
              eLoad VRecvW ORlx (recv_w s))
    | PWake w WkLock =>
        if cw_lock s then Some (s, eLock VLockC false)
        else
          let s1 := set_cw_lock s true in
          Some (if cw_slot s then set_ppc (set_cw_slot s1 false) (PWake w WkSt0)
                else set_ppc s1 (PWake w (WkUnlock false)),
                eLock VLockC true)
    | PWake w WkSt0 => Some (set_ppc (set_recv_w s 0) (PWake w WkStN), eStore VRecvW ORlx 0)
    | PWake w WkStN => Some (set_ppc (set_c_notif s true) (PWake w (WkUnlock true)), eStore VNotifC ORel 1)
    | PWake w (WkUnlock b) =>
        let s1 := set_cw_lock s false in
        Some (if b then set_ppc s1 (PWake w WkUnpark) else p_wake_done s1 w, eUnlock VLockC)
    | PWake w WkUnpark => Some (p_wake_done (set_tok_c s true) w, eUnpark 1)
    | PPark =>
        match c with
        | CSpur => Some (set_ppc s PSwap, ePark)
        | _ => if tok_p s then Some (set_ppc (set_tok_p s false) PSwap, ePark) else None
        end
    | PSwap =>
        Some (set_ppc (set_p_notif s false) (PCd (KLoop (negb (p_notif s)))),
              eSwap VNotifP OAcq 0 (b2n (p_notif s)))
    | PSpinDec =>
        match c with
        | CSpin => Some (set_ppc s (PCd (KLoop false)), eSpin)
        | _ => Some (p_lock_pw s true (PReg RgLock) (PReg RgSt))
        end
    | PReg RgLock => Some (p_lock_pw s true (PReg RgLock) (PReg RgSt))
    | PReg RgSt => Some (set_ppc (set_send_w s 1) (PReg RgUnlock), eStore VSendW ORlx 1)
    | PReg RgUnlock => Some (set_ppc (set_pw_lock s false) PFence, eUnlock VLockP)
    | PFence => Some (set_ppc s (PCd (KLoop true)), eFence)
    | PDrStore => Some (set_ppc (set_pdropped s true) PDrSub, eStore VProdDropped ORel 1)
    | PDrSub =>
        let s1 := set_scount s (scount s - 1) in
        Some (if N.eqb (scount s) 1 then set_ppc s1 (PWake WDrop WkLock) else p_release s1,
              eFsub VSenderCnt OAcqRel 1 (scount s))
    | PDrain p =>
        let '(s1, e, o) := pop_core false s p in
        Some (match o with
              | PoNext p' => set_ppc s1 (PDrain p')
              | PoNone => set_ppc s1 PDone
              | PoSome => set_ppc s1 (PDrain LdA)
              end, e)
    | PDone => None
    end.

  (* --- consumer *)
  Definition c_pop_some (s : st) (k : cctx) : st :=
    match k with
    | CLoop true | CLoopD true => set_cpc s (CUnreg CUVal UnLock)
    | _ => set_cpc s CNfFence
    end.
  Definition c_pop_none (s : st) (k : cctx) : st :=
    match k with
    | CTry1 => set_cpc s (CSc STry)
    | CTry2 => c_done_op s RDisc
    | CFirst => set_cpc s (CPop (CLoop false) LdA)
    | CLoop r => set_cpc s (CSc (SLoop r))
    | CLoopD true => set_cpc s (CUnreg CUDisc UnLock)
    | CLoopD false => c_done_op s RDisc
    end.
  Definition c_wake_done (s : st) (w : wctx) : st :=
    match w with
    | WNotify => c_done_op s (RVal (chand s))
    | WDrop => c_release s
    end.
  Definition c_lock_cw (s : st) (slotv : bool) (fail ok : cpc_t) : st * event :=
    if cw_lock s then (set_cpc s fail, eLock VLockC false)
    else (set_cpc (set_cw_slot (set_cw_lock s true) slotv) ok, eLock VLockC true).

  Definition cstep (s : st) (c : choice) : option (st * event) :=
    match cpc s with
    | CIdle =>
        match cprog s with
        | [] =>
            let s1 := set_c_closed s true in
            Some (if c_closed s then c_release s1 else set_cpc s1 CDrStore,
                  eSwap VClosedC OAcqRel 1 (b2n (c_closed s)))
        | op :: _ =>
            let s1 := set_c_notif s false in
            Some (if c_closed s then c_done_op s1 RDisc
                  else set_cpc s1 (CPop (match op with TryRecv => CTry1 | _ => CFirst end) LdA),
                  eLoad VClosedC ORlx (b2n (c_closed s)))
        end
    | CPop k p =>
        let '(s1, e, o) := pop_core true s p in
        Some (match o with
              | PoNext p' => set_cpc s1 (CPop k p')
              | PoNone => c_pop_none s1 k
              | PoSome => c_pop_some s1 k
              end, e)
    | CSc k =>
        Some (match k with
              | STry => if N.eqb (scount s) 0 then set_cpc s (CPop CTry2 LdA) else c_done_op s REmpty
              | SLoop r =>
                  if N.eqb (scount s) 0 then set_cpc s (CPop (CLoopD r) LdA)
                  else if r then set_cpc s CPark else set_cpc s CSpinDec
              end,
              eLoad VSenderCnt OAcq (scount s))
    | CUnreg a UnLock => Some (c_lock_cw s false (CUnreg a UnLock) (CUnreg a UnSt))
    | CUnreg a UnSt => Some (set_cpc (set_recv_w s 0) (CUnreg a UnUnlock), eStore VRecvW ORlx 0)
    | CUnreg a UnUnlock =>
        let s1 := set_cw_lock s false in
        Some (match a with CUVal => set_cpc s1 CNfFence | CUDisc => c_done_op s1 RDisc end,
              eUnlock VLockC)
    | CNfFence => Some (set_cpc s CNfLd, eFence)
    | CNfLd =>
        Some (if N.eqb (send_w s) 0 then c_done_op s (RVal (chand s)) else set_cpc s (CWake WNotify WkLock),
              eLoad VSendW ORlx (send_w s))
    | CWake w WkLock =>
        if pw_lock s then Some (s, eLock VLockP false)
        else
          let s1 := set_pw_lock s true in
          Some (if pw_slot s then set_cpc (set_pw_slot s1 false) (CWake w WkSt0)
                else set_cpc s1 (CWake w (WkUnlock false)),
                eLock VLockP true)
    | CWake w WkSt0 => Some (set_cpc (set_send_w s 0) (CWake w WkStN), eStore VSendW ORlx 0)
    | CWake w WkStN => Some (set_cpc (set_p_notif s true) (CWake w (WkUnlock true)), eStore VNotifP ORel 1)
    | CWake w (WkUnlock b) =>
        let s1 := set_pw_lock s false in
        Some (if b then set_cpc s1 (CWake w WkUnpark) else c_wake_done s1 w, eUnlock VLockP)
    | CWake w WkUnpark => Some (c_wake_done (set_tok_p s true) w, eUnpark 0)
    | CPark =>
        match c with
        | CSpur => Some (set_cpc s CSwap, ePark)
        | _ => if tok_c s then Some (set_cpc (set_tok_c s false) CSwap, ePark) else None
        end
    | CSwap =>
        Some (set_cpc (set_c_notif s false) (CPop (CLoop (negb (c_notif s))) LdA),
              eSwap VNotifC OAcq 0 (b2n (c_notif s)))
    | CSpinDec =>
        match c with
        | CSpin => Some (set_cpc s (CPop (CLoop false) LdA), eSpin)
        | _ => Some (c_lock_cw s true (CReg RgLock) (CReg RgSt))
        end
    | CReg RgLock => Some (c_lock_cw s true (CReg RgLock) (CReg RgSt))
    | CReg RgSt => Some (set_cpc (set_recv_w s 1) (CReg RgUnlock), eStore VRecvW ORlx 1)
    | CReg RgUnlock => Some (set_cpc (set_cw_lock s false) CFence, eUnlock VLockC)
    | CFence => Some (set_cpc s (CPop (CLoop true) LdA), eFence)
    | CDrStore => Some (set_cpc (set_cdropped s true) CDrSub, eStore VConsDropped ORel 1)
    | CDrSub =>
        let s1 := set_rcount s (rcount s - 1) in
        Some (if N.eqb (rcount s) 1 then set_cpc s1 (CWake WDrop WkLock) else c_release s1,
              eFsub VRecvCnt OAcqRel 1 (rcount s))
    | CDrain p =>
        let '(s1, e, o) := pop_core false s p in
        Some (match o with
              | PoNext p' => set_cpc s1 (CDrain p')
              | PoNone => set_cpc s1 CDone
              | PoSome => set_cpc s1 (CDrain LdA)
              end, e)
    | CDone => None
    end.

  Definition step (s : st) (t : tid) (c : choice) : option (st * event) :=
    match t with TP => pstep s c | TC => cstep s c end.

  Definition sys (pp0 : list pop) (cp0 : list cop) : system :=
    mkSystem st tid choice event (init pp0 cp0) step.
End Steps.

(* ---------------------------------------------------------------- observables used by the theorems *)
(* next_power_of_two(cap).max(2), as Ring::new computes the physical length *)
Fixpoint pow2_ge (fuel : nat) (p cap : N) : N :=
  match fuel with
  | O => p
  | S f => if N.leb cap p then p else pow2_ge f (2 * p) cap
  end.
Definition phys_of (cap : N) : N := pow2_ge (N.to_nat cap) 2 cap.

(* a slot access (payload cell step) happened whose index store is still outstanding *)
Definition p_wrote (pc : ppc_t) : bool := match pc with PPush _ StIdx => true | _ => false end.
Definition c_took (pc : cpc_t) : bool := match pc with CPop _ StIdx | CDrain StIdx => true | _ => false end.
Definition p_took (pc : ppc_t) : bool := match pc with PDrain StIdx => true | _ => false end.
Definition wrote (s : st) : bool := p_wrote (ppc s).
Definition took (s : st) : bool := c_took (cpc s) || p_took (ppc s).
Definition hi (s : st) : N := tail s + b2n (wrote s).
Definition lo (s : st) : N := head s + b2n (took s).
(* values whose payload cell has been written, in order *)
Definition written (s : st) : list N := accepted s ++ (if wrote s then [pseq s] else []).
(* payloads currently owned by the ring *)
Definition buffered (s : st) : list N := skipn (N.to_nat (lo s)) (written s).

Definition pres_ok (r : pres) : list N := match r with POk v => [v] | _ => [] end.
Definition cres_val (r : cres) : list N := match r with RVal v => [v] | _ => [] end.
Definition sent_ok (s : st) : list N := flat_map pres_ok (presults s).
Definition got (s : st) : list N := flat_map cres_val (cresults s).

(* wait conditions *)
Definition consumer_parked (s : st) : Prop := cpc s = CPark /\ tok_c s = false.
Definition producer_parked (s : st) : Prop := ppc s = PPark /\ tok_p s = false.
(* quiescence that ignores the spurious-wake choice: nobody can move unless woken *)
Definition quiescent_ns (cap phys : N) (s : st) : Prop :=
  forall t, step cap phys s t CGo = None /\ step cap phys s t CSpin = None.

(* strict replay of an observed trace (D2 tie) *)
Definition replay_spsc (cap phys : N) (pp0 : list pop) (cp0 : list cop)
           (tr : list (tid * choice * event)) : option st + nat :=
  replay (sys cap phys pp0 cp0) event_eqb (init pp0 cp0) tr.
