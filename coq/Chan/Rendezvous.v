(* Chan/Rendezvous.v — K2 (op-level) model of fibre's rendezvous (capacity 0) channels.

   Code modelled (read 2026-09, /repo/channels/src):
     internal/rendezvous.rs        the shared core: Core { sender_waiters, receivers, sender_count,
                                   receiver_count } behind one mutex; fulfill_* under the lock;
                                   cancel_* = CAS WAITING->CANCELLED outside the lock, then locked removal;
                                   recv_timeout loop; poll_send / poll_recv; drop_sender / drop_receiver
     spsc/rendezvous.rs            wrapper, single-slot receiver store, no Clone
     mpsc/rendezvous.rs            wrapper, single-slot receiver store, senders Clone
     mpmc_v2/rendezvous.rs         wrapper, VecDeque receiver store, both sides Clone

   One public API call = one atomic step; one poll / one drop of a future = one step.
   Payloads, handles, futures and wakers are ids (N).  The model is faithful to the code as it is,
   including its defects; four booleans of [cfg] select the behaviour after the small proposed fixes
   (docs/rv.md) so that the full theorems are proved for the repaired code as well.

   No proofs in this file (Proofs/RendezvousProofs.v). *)
From Fibre Require Import Common.Base.

Inductive side := Tx | Rx.
(* the waiter's inline state atomic: WAITING=0 DONE=1 CANCELLED=2 DISCONNECTED=3 *)
Inductive wst := WAITING | DONE | CANCELLED | DISCONNECTED.

Record cfg := mkCfg {
  multi_rx  : bool;   (* receiver store: true = VecDeque (mpmc), false = Option (mpsc, spsc) *)
  tx_clone  : bool;   (* sender handles are Clone (mpsc, mpmc) *)
  rx_clone  : bool;   (* receiver handles are Clone (mpmc) *)
  fix_conv  : bool;   (* F-07 repaired: to_sync/to_async carry the closed flag *)
  fix_fut   : bool;   (* F-35 repaired: an unregistered future polls Closed/Disconnected on a closed handle *)
  fix_clone : bool;   (* F-34 repaired: cloning a closed handle yields a closed handle, count unchanged *)
}.

Record handle := mkH { h_side : side; h_async : bool; h_closed : bool }.

(* a live SendFuture / RecvFuture.  f_cell is the inline `slot` (send) or `dest` (recv);
   f_st the inline state atomic; f_reg the `registered` flag.
   Ghost (never printed, never read by the step function's control flow):
   f_val = the payload the send future was created with; f_woken = the waker stored in this future's
   queue record has been woken since the future's last poll. *)
Record fut := mkF { f_side : side; f_h : N; f_cell : option N; f_st : wst; f_reg : bool;
                    f_val : N; f_woken : bool }.

Record state := mkS {
  hs   : list (N * handle);   (* live handles *)
  fs   : list (N * fut);      (* live futures *)
  sq   : list (N * N);        (* Core.sender_waiters: (future id, waker id), FIFO *)
  rq   : list (N * N);        (* Core.receivers: (future id, waker id) *)
  scnt : N;                   (* Core.sender_count *)
  rcnt : N;                   (* Core.receiver_count *)
}.

Inductive op :=
| TrySend (h v : N)
| Send (h v : N)            (* blocking sync send *)
| TryRecv (h : N)
| Recv (h : N)              (* blocking sync recv *)
| RecvTimeout0 (h : N)      (* sync recv_timeout(Duration::ZERO) *)
| Close (h : N)
| DropH (h : N)
| Clone (h h' : N)
| Conv (h : N)              (* to_async on a sync handle, to_sync on an async handle *)
| Obs (h : N)               (* is_closed, len, is_empty, is_full, capacity *)
| MkSend (f h v : N)        (* let f = h.send(v) on an async sender *)
| MkRecv (f h : N)          (* let f = h.recv()  on an async receiver *)
| Poll (f w : N)
| DropF (f : N).

Inductive out :=
| OOk                       (* Ok(()) of send / try_send / close *)
| OFull (v : N)             (* TrySendError::Full(v) *)
| OClosedV (v : N)          (* TrySendError::Closed(v) *)
| OClosed                   (* SendError::Closed *)
| OVal (v : N)              (* Ok(v) of a sync receive form / try_recv *)
| OEmpty | ODisc | OTimeout
| OCloseErr
| OPending | OReadyOk | OReadyClosed | OReadyVal (v : N) | OReadyDisc
| OObs (closed : bool) (len : N) (empty full : bool) (cap : N)
| ONone                     (* unit: drop, clone, conversion, future creation *)
| ONa                       (* not applicable: dead/unknown id, wrong side or mode, borrowed handle *)
| OPanic
| OBlock.                   (* the call would park the thread (never executed on the real code) *)

(* events of one step.  Printed by the driver: EWake, EDrop*.  The others are history (ghost)
   events used only to state theorems. *)
Inductive ev :=
| EWake (w : N)             (* Waker::wake of waker w *)
| EDropSlot (v : N)         (* payload destroyed inside a dropped SendFuture (never handed off) *)
| EDropDest (v : N)         (* payload destroyed inside a dropped RecvFuture (already handed off): F-31 *)
| EDropArg (v : N)          (* payload destroyed inside a failing blocking send (SendError carries no value) *)
| EIntro (v : N)            (* payload v entered through a send form *)
| EBack (v : N)             (* payload handed back to the caller inside an error *)
| ERecv (v : N)             (* payload returned to a receiver *)
| EOffer (v : N)            (* a send of v became visible to the channel (parked, or met a parked receiver) *)
| EHand (v : N)             (* v crossed from the sender's memory to a receiver (the handoff, under the lock) *)
| EAck (v : N).             (* a send form reported success for v to its caller *)

Definition res := (state * out * list ev)%type.

(** association lists *)
Fixpoint aget {A} (k : N) (m : list (N * A)) : option A :=
  match m with
  | [] => None
  | (k', a) :: t => if N.eqb k k' then Some a else aget k t
  end.

Fixpoint aupd {A} (k : N) (g : A -> A) (m : list (N * A)) : list (N * A) :=
  match m with
  | [] => []
  | (k', a) :: t => if N.eqb k k' then (k', g a) :: t else (k', a) :: aupd k g t
  end.

Fixpoint adel {A} (k : N) (m : list (N * A)) : list (N * A) :=
  match m with
  | [] => []
  | (k', a) :: t => if N.eqb k k' then t else (k', a) :: adel k t
  end.

Definition ahas {A} (k : N) (m : list (N * A)) : bool :=
  match aget k m with Some _ => true | None => false end.

(** state setters *)
Definition set_hs (s : state) x := mkS x (fs s) (sq s) (rq s) (scnt s) (rcnt s).
Definition set_fs (s : state) x := mkS (hs s) x (sq s) (rq s) (scnt s) (rcnt s).
Definition set_sq (s : state) x := mkS (hs s) (fs s) x (rq s) (scnt s) (rcnt s).
Definition set_rq (s : state) x := mkS (hs s) (fs s) (sq s) x (scnt s) (rcnt s).
Definition set_scnt (s : state) x := mkS (hs s) (fs s) (sq s) (rq s) x (rcnt s).
Definition set_rcnt (s : state) x := mkS (hs s) (fs s) (sq s) (rq s) (scnt s) x.

(** future record transitions *)
(* fulfill_*: cell written/taken, DONE stored, waker woken *)
Definition fut_done (c : option N) (r : fut) : fut :=
  mkF (f_side r) (f_h r) c DONE (f_reg r) (f_val r) true.
(* disconnect_all / drop_receiver: DISCONNECTED stored, waker woken; the cell is untouched *)
Definition fut_disc (r : fut) : fut :=
  mkF (f_side r) (f_h r) (f_cell r) DISCONNECTED (f_reg r) (f_val r) true.
(* cancel_*: the successful CAS WAITING -> CANCELLED *)
Definition fut_cancelled (r : fut) : fut :=
  mkF (f_side r) (f_h r) (f_cell r) CANCELLED (f_reg r) (f_val r) (f_woken r).
(* poll completes on the registered path: registered := false, cell := c *)
Definition fut_unreg (c : option N) (r : fut) : fut :=
  mkF (f_side r) (f_h r) c (f_st r) false (f_val r) false.
(* poll parks: state.store(WAITING); registered := true *)
Definition fut_park (r : fut) : fut :=
  mkF (f_side r) (f_h r) (f_cell r) WAITING true (f_val r) false.
(* spurious poll: waker refreshed in place *)
Definition fut_repoll (r : fut) : fut :=
  mkF (f_side r) (f_h r) (f_cell r) (f_st r) (f_reg r) (f_val r) false.
(* fresh poll_send hands off directly: slot.take() *)
Definition fut_sent (r : fut) : fut :=
  mkF (f_side r) (f_h r) None (f_st r) (f_reg r) (f_val r) (f_woken r).

Definition qhas (f : N) (q : list (N * N)) : bool := ahas f q.
Definition qrefresh (f w : N) (q : list (N * N)) : list (N * N) := aupd f (fun _ => w) q.
Definition qdel (f : N) (q : list (N * N)) : list (N * N) := adel f q.

(* ReceiverStore::push_receiver: VecDeque::push_back, or `*self = Some(rec)` (the release build
   overwrites; `debug_assert!(self.is_none())` only exists in debug builds) *)
Definition push_receiver (c : cfg) (f w : N) (q : list (N * N)) : list (N * N) :=
  if multi_rx c then q ++ [(f, w)] else [(f, w)].

Definition is_waiting (x : wst) : bool := match x with WAITING => true | _ => false end.
Definition is_done (x : wst) : bool := match x with DONE => true | _ => false end.

(** core: disconnect every parked waiter of a queue (DISCONNECTED + wake), in queue order *)
Fixpoint disc_all (q : list (N * N)) (m : list (N * fut)) : list (N * fut) :=
  match q with
  | [] => m
  | (f, _) :: t => disc_all t (aupd f fut_disc m)
  end.
Definition wakes_of (q : list (N * N)) : list ev := map (fun p => EWake (snd p)) q.

(* drop_sender / drop_receiver.  `count -= 1` panics on underflow (the harness profile has
   overflow-checks on; without them the count would wrap to usize::MAX). *)
Definition core_drop_sender (s : state) : res :=
  if N.eqb (scnt s) 0 then (s, OPanic, [])
  else
    let n := N.pred (scnt s) in
    if N.eqb n 0
    then (mkS (hs s) (disc_all (rq s) (fs s)) (sq s) [] n (rcnt s), OOk, wakes_of (rq s))
    else (set_scnt s n, OOk, []).

Definition core_drop_receiver (s : state) : res :=
  if N.eqb (rcnt s) 0 then (s, OPanic, [])
  else
    let n := N.pred (rcnt s) in
    if N.eqb n 0
    then (mkS (hs s) (disc_all (sq s) (fs s)) [] (rq s) (scnt s) n, OOk, wakes_of (sq s))
    else (set_rcnt s n, OOk, []).

(** core: hand v to the parked receiver at the head of the store (fulfill_receiver) *)
Definition handoff_to_receiver (s : state) (g w : N) (rest : list (N * N)) (v : N) : state :=
  mkS (hs s) (aupd g (fut_done (Some v)) (fs s)) (sq s) rest (scnt s) (rcnt s).

(* try_send / the fast path of send_blocking, after the wrapper's closed-flag test *)
Definition core_send (blocking : bool) (s : state) (v : N) : res :=
  if N.eqb (rcnt s) 0 then
    if blocking then (s, OClosed, [EDropArg v]) else (s, OClosedV v, [EBack v])
  else match rq s with
       | (g, w) :: rest =>
           (handoff_to_receiver s g w rest v, OOk, [EOffer v; EHand v; EAck v; EWake w])
       | [] => if blocking then (s, OBlock, []) else (s, OFull v, [EBack v])
       end.

(* fulfill_sender on the head of sender_waiters: take() of the record source slot (expect), DONE, wake *)
Definition take_from_sender (s : state) : option (state * N * N) :=
  match sq s with
  | [] => None
  | (g, w) :: rest =>
      match aget g (fs s) with
      | Some r => match f_cell r with
                  | Some v => Some (mkS (hs s) (aupd g (fut_done None) (fs s)) rest (rq s) (scnt s) (rcnt s), v, w)
                  | None => None
                  end
      | None => None
      end
  end.

Inductive rkind := RTry | RBlock | RTimeout0.

(* try_recv / recv_blocking / recv_timeout(0), after the wrapper's closed-flag test *)
Definition core_recv (c : cfg) (k : rkind) (s : state) : res :=
  match sq s with
  | _ :: _ =>
      match take_from_sender s with
      | Some (s', v, w) => (s', OVal v, [EHand v; ERecv v; EWake w])
      | None => (s, OPanic, [])       (* "a parked sender always holds an item" *)
      end
  | [] =>
      if N.eqb (scnt s) 0 then (s, ODisc, [])
      else match k with
           | RTry => (s, OEmpty, [])
           | RBlock => (s, OBlock, [])
           | RTimeout0 =>
               (* push_receiver(own record); deadline already passed; cancel_receiver: CAS succeeds,
                  remove_receiver(own).  The deque is back to what it was; the single slot was
                  overwritten by the push and is now empty. *)
               (set_rq s (if multi_rx c then rq s else []), OTimeout, [])
           end
  end.

(** handles *)
Definition h_live_side (s : state) (h : N) (sd : side) : option handle :=
  match aget h (hs s) with
  | Some hd => match h_side hd, sd with
               | Tx, Tx => Some hd
               | Rx, Rx => Some hd
               | _, _ => None
               end
  | None => None
  end.

Definition borrowed (s : state) (h : N) : bool :=
  existsb (fun p => N.eqb (f_h (snd p)) h) (fs s).

Definition h_close (hd : handle) : handle := mkH (h_side hd) (h_async hd) true.

(* X::close(&self): CAS closed false->true, then drop_sender / drop_receiver *)
Definition do_close (s : state) (h : N) (hd : handle) : res :=
  if h_closed hd then (s, OCloseErr, [])
  else
    let s1 := set_hs s (aupd h h_close (hs s)) in
    match h_side hd with
    | Tx => core_drop_sender s1
    | Rx => core_drop_receiver s1
    end.

(** futures *)
Definition handle_closed (s : state) (h : N) : bool :=
  match aget h (hs s) with Some hd => h_closed hd | None => false end.

(* SendFuture::poll *)
Definition poll_send (c : cfg) (s : state) (f w : N) (r : fut) : res :=
  match f_reg r, f_cell r with
  | false, None => (s, OReadyOk, [])          (* wrapper: slot.is_none() && !registered *)
  | false, Some v =>
      if fix_fut c && handle_closed s (f_h r) then (s, OReadyClosed, [])
      else if N.eqb (rcnt s) 0 then (s, OReadyClosed, [])
      else match rq s with
           | (g, w') :: rest =>
               (mkS (hs s) (aupd g (fut_done (Some v)) (aupd f fut_sent (fs s))) (sq s) rest (scnt s) (rcnt s),
                OReadyOk, [EOffer v; EHand v; EAck v; EWake w'])
           | [] =>
               (mkS (hs s) (aupd f fut_park (fs s)) (sq s ++ [(f, w)]) (rq s) (scnt s) (rcnt s),
                OPending, [EOffer v])
           end
  | true, _ =>
      match f_st r with
      | WAITING =>
          if qhas f (sq s)
          then (mkS (hs s) (aupd f fut_repoll (fs s)) (qrefresh f w (sq s)) (rq s) (scnt s) (rcnt s), OPending, [])
          else (set_fs s (aupd f (fut_unreg (f_cell r)) (fs s)), OReadyClosed, [])
      | DONE => (set_fs s (aupd f (fut_unreg (f_cell r)) (fs s)), OReadyOk, [EAck (f_val r)])
      | _ => (set_fs s (aupd f (fut_unreg (f_cell r)) (fs s)), OReadyClosed, [])
      end
  end.

(* RecvFuture::poll *)
Definition poll_recv (c : cfg) (s : state) (f w : N) (r : fut) : res :=
  if f_reg r then
    match f_st r with
    | WAITING =>
        if qhas f (rq s)
        then (mkS (hs s) (aupd f fut_repoll (fs s)) (sq s) (qrefresh f w (rq s)) (scnt s) (rcnt s), OPending, [])
        else (set_fs s (aupd f (fut_unreg (f_cell r)) (fs s)), OReadyDisc, [])
    | DONE =>
        match f_cell r with
        | Some v => (set_fs s (aupd f (fut_unreg None) (fs s)), OReadyVal v, [ERecv v])
        | None => (s, OPanic, [])    (* "DONE implies the sender wrote the item" *)
        end
    | _ => (set_fs s (aupd f (fut_unreg (f_cell r)) (fs s)), OReadyDisc, [])
    end
  else
    if fix_fut c && handle_closed s (f_h r) then (s, OReadyDisc, [])
    else match sq s with
         | _ :: _ =>
             match take_from_sender s with
             | Some (s', v, w') => (s', OReadyVal v, [EHand v; ERecv v; EWake w'])
             | None => (s, OPanic, [])
             end
         | [] =>
             if N.eqb (scnt s) 0 then (s, OReadyDisc, [])
             else (mkS (hs s) (aupd f fut_park (fs s)) (sq s) (push_receiver c f w (rq s)) (scnt s) (rcnt s),
                   OPending, [])
         end.

(* cancel_sender / cancel_receiver are two steps in the code: (1) the CAS on the inline state,
   outside the lock; (2) the removal of the record, under the lock.  Sequentially they compose. *)
Definition cancel_cas (r : fut) : bool := is_waiting (f_st r).
Definition cancel_remove (s : state) (f : N) (sd : side) : state :=
  match sd with
  | Tx => set_sq s (qdel f (sq s))
  | Rx => set_rq s (qdel f (rq s))
  end.

Definition drop_cell_ev (r : fut) : list ev :=
  match f_cell r with
  | None => []
  | Some v => match f_side r with Tx => [EDropSlot v] | Rx => [EDropDest v] end
  end.

(* Drop for SendFuture / RecvFuture *)
Definition drop_fut (s : state) (f : N) (r : fut) : res :=
  let s1 := if f_reg r && cancel_cas r
            then cancel_remove (set_fs s (aupd f fut_cancelled (fs s))) f (f_side r)
            else s in
  (set_fs s1 (adel f (fs s1)), ONone, drop_cell_ev r).

(** one API call *)
Definition step (c : cfg) (s : state) (o : op) : res :=
  match o with
  | TrySend h v =>
      match h_live_side s h Tx with
      | None => (s, ONa, [])
      | Some hd =>
          if h_closed hd then (s, OClosedV v, [EIntro v; EBack v])
          else let '(s', r, e) := core_send false s v in (s', r, EIntro v :: e)
      end
  | Send h v =>
      match h_live_side s h Tx with
      | None => (s, ONa, [])
      | Some hd =>
          if h_async hd then (s, ONa, [])
          else if h_closed hd then (s, OClosed, [EIntro v; EDropArg v])
          else let '(s', r, e) := core_send true s v in
               (* a call that parks is never executed: its payload never enters *)
               (s', r, match r with OBlock => [] | _ => EIntro v :: e end)
      end
  | TryRecv h =>
      match h_live_side s h Rx with
      | None => (s, ONa, [])
      | Some hd => if h_closed hd then (s, ODisc, []) else core_recv c RTry s
      end
  | Recv h =>
      match h_live_side s h Rx with
      | None => (s, ONa, [])
      | Some hd =>
          if h_async hd then (s, ONa, [])
          else if h_closed hd then (s, ODisc, []) else core_recv c RBlock s
      end
  | RecvTimeout0 h =>
      match h_live_side s h Rx with
      | None => (s, ONa, [])
      | Some hd =>
          if h_async hd then (s, ONa, [])
          else if h_closed hd then (s, ODisc, []) else core_recv c RTimeout0 s
      end
  | Close h =>
      match aget h (hs s) with
      | None => (s, ONa, [])
      | Some hd => do_close s h hd
      end
  | DropH h =>
      match aget h (hs s) with
      | None => (s, ONa, [])
      | Some hd =>
          if borrowed s h then (s, ONa, [])
          else
            (* Drop: `let _ = self.close();` then the fields are released *)
            let '(s1, r, e) := do_close s h hd in
            (set_hs s1 (adel h (hs s1)), match r with OPanic => OPanic | _ => ONone end, e)
      end
  | Clone h h' =>
      match aget h (hs s) with
      | None => (s, ONa, [])
      | Some hd =>
          if ahas h' (hs s) then (s, ONa, [])
          else if negb (match h_side hd with Tx => tx_clone c | Rx => rx_clone c end) then (s, ONa, [])
          else if fix_clone c && h_closed hd
          then (set_hs s (hs s ++ [(h', mkH (h_side hd) (h_async hd) true)]), ONone, [])
          else
            let s1 := set_hs s (hs s ++ [(h', mkH (h_side hd) (h_async hd) false)]) in
            (match h_side hd with
             | Tx => set_scnt s1 (N.succ (scnt s))
             | Rx => set_rcnt s1 (N.succ (rcnt s))
             end, ONone, [])
      end
  | Conv h =>
      match aget h (hs s) with
      | None => (s, ONa, [])
      | Some hd =>
          if borrowed s h then (s, ONa, [])
          else (set_hs s (aupd h (fun x => mkH (h_side x) (negb (h_async x))
                                            (if fix_conv c then h_closed x else false)) (hs s)),
                ONone, [])
      end
  | Obs h =>
      match aget h (hs s) with
      | None => (s, ONa, [])
      | Some hd =>
          (s, OObs (match h_side hd with Tx => N.eqb (rcnt s) 0 | Rx => N.eqb (scnt s) 0 end) 0 true true 0, [])
      end
  | MkSend f h v =>
      match h_live_side s h Tx with
      | None => (s, ONa, [])
      | Some hd =>
          if negb (h_async hd) || ahas f (fs s) then (s, ONa, [])
          else (set_fs s (fs s ++ [(f, mkF Tx h (Some v) WAITING false v false)]), ONone, [EIntro v])
      end
  | MkRecv f h =>
      match h_live_side s h Rx with
      | None => (s, ONa, [])
      | Some hd =>
          if negb (h_async hd) || ahas f (fs s) then (s, ONa, [])
          else (set_fs s (fs s ++ [(f, mkF Rx h None WAITING false 0 false)]), ONone, [])
      end
  | Poll f w =>
      match aget f (fs s) with
      | None => (s, ONa, [])
      | Some r => match f_side r with
                  | Tx => poll_send c s f w r
                  | Rx => poll_recv c s f w r
                  end
      end
  | DropF f =>
      match aget f (fs s) with
      | None => (s, ONa, [])
      | Some r => drop_fut s f r
      end
  end.

(* rendezvous() / rendezvous_async(): handle 0 = the sender, handle 1 = the receiver *)
Definition init (async : bool) : state :=
  mkS [(0, mkH Tx async false); (1, mkH Rx async false)] [] [] [] 1 1.

Definition titem := (op * out * list ev)%type.

(* a whole history.  A blocking call that would park is the output OBlock and leaves the state
   unchanged; the drivers stop a case at the first OBlock (such a history is not executed on the
   real code), the theorems hold for the superset of histories in which it is a no-op. *)
Fixpoint run (c : cfg) (s : state) (ops : list op) : state * list titem :=
  match ops with
  | [] => (s, [])
  | o :: t =>
      let '(s1, r, e) := step c s o in
      let '(s2, tr) := run c s1 t in
      (s2, (o, r, e) :: tr)
  end.

(** the three flavours as shipped, and with every proposed fix applied *)
Definition spsc_cfg := mkCfg false false false false false false.
Definition mpsc_cfg := mkCfg false true false false false false.
Definition mpmc_cfg := mkCfg true true true false false false.
Definition fixed (c : cfg) : cfg := mkCfg (multi_rx c) (tx_clone c) (rx_clone c) true true true.
