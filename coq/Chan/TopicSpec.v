(* Chan/TopicSpec.v — what property C08 demands, as an executable reference ("monitor") that reads a
   trace of (operation, result) pairs and reports the clauses that the trace violates.

   The reference keeps, per receiver handle, the subscription set that results from the
   subscribe/unsubscribe/clone/close calls made so far and an ideal bounded mailbox; per sender handle
   whether it is still open.  It never looks at the model's state: only at the results of the calls.
   No proofs in this file (lemmas about the reference itself are in Proofs/TopicSpecProofs.v). *)
From Fibre Require Import Common.Base Chan.TopicOps.

Record srx := {
  s_id : N; s_live : bool;
  s_closed : bool;             (* close() returned Ok on this handle at some point (sticky) *)
  s_subs : list N;             (* topics the handle is subscribed to *)
  s_q : list msg;              (* ideal mailbox content *)
  s_cap : N;
  s_full : N;                  (* messages omitted because the ideal mailbox was full *)
  s_exp : list (msg * bool);   (* log: every accepted publish to a subscribed topic, flag = omitted (full) *)
  s_got : list msg;            (* log: what the receive forms returned *)
  s_reach : bool               (* some close of the last open sender happened while this handle had a subscription *)
}.

Record stx := { x_id : N; x_live : bool; x_closed : bool }.

Record spec := { sp_rx : list srx; sp_tx : list stx; sp_futs : list (N * N) }.

Inductive clause :=
| VRouting (r : N)     (* a receive on r returned something else than the head of the ideal mailbox,
                          or reported nothing although the ideal mailbox is not empty *)
| VDiscLive (r : N)    (* Disconnected although an open sender handle exists or the mailbox is not drained *)
| VNoDisc (r : N).     (* no Disconnected although every sender handle is gone and the mailbox is drained *)

Definition x_open (x : stx) : bool := x_live x && negb (x_closed x).
Definition any_open (sp : spec) : bool := existsb x_open (sp_tx sp).

Definition find_srx (r : N) (l : list srx) : option srx := find (fun x => N.eqb (s_id x) r) l.
Definition upd_srx (r : N) (f : srx -> srx) (l : list srx) : list srx :=
  map (fun x => if N.eqb (s_id x) r then f x else x) l.
Definition find_stx (s : N) (l : list stx) : option stx := find (fun x => N.eqb (x_id x) s) l.
Definition upd_stx (s : N) (f : stx -> stx) (l : list stx) : list stx :=
  map (fun x => if N.eqb (x_id x) s then f x else x) l.

Definition srx_set_subs (x : srx) (s : list N) : srx :=
  {| s_id := s_id x; s_live := s_live x; s_closed := s_closed x; s_subs := s; s_q := s_q x;
     s_cap := s_cap x; s_full := s_full x; s_exp := s_exp x; s_got := s_got x; s_reach := s_reach x |}.
Definition srx_close (x : srx) (live : bool) (closed : bool) : srx :=
  {| s_id := s_id x; s_live := live; s_closed := closed; s_subs := []; s_q := s_q x;
     s_cap := s_cap x; s_full := s_full x; s_exp := s_exp x; s_got := s_got x; s_reach := s_reach x |}.
Definition srx_reach (x : srx) : srx :=
  {| s_id := s_id x; s_live := s_live x; s_closed := s_closed x; s_subs := s_subs x; s_q := s_q x;
     s_cap := s_cap x; s_full := s_full x; s_exp := s_exp x; s_got := s_got x;
     s_reach := s_reach x || (s_live x && match s_subs x with [] => false | _ => true end) |}.
(* an accepted publish of [m] to a topic the handle is subscribed to *)
Definition srx_offer (x : srx) (m : msg) : srx :=
  if N.ltb (N.of_nat (length (s_q x))) (s_cap x)
  then {| s_id := s_id x; s_live := s_live x; s_closed := s_closed x; s_subs := s_subs x;
          s_q := s_q x ++ [m]; s_cap := s_cap x; s_full := s_full x;
          s_exp := s_exp x ++ [(m, false)]; s_got := s_got x; s_reach := s_reach x |}
  else {| s_id := s_id x; s_live := s_live x; s_closed := s_closed x; s_subs := s_subs x;
          s_q := s_q x; s_cap := s_cap x; s_full := s_full x + 1;
          s_exp := s_exp x ++ [(m, true)]; s_got := s_got x; s_reach := s_reach x |}.
Definition srx_take (x : srx) (m : msg) (q' : list msg) : srx :=
  {| s_id := s_id x; s_live := s_live x; s_closed := s_closed x; s_subs := s_subs x;
     s_q := q'; s_cap := s_cap x; s_full := s_full x; s_exp := s_exp x; s_got := s_got x ++ [m];
     s_reach := s_reach x |}.
Definition srx_new (id : N) (subs : list N) (cap : N) : srx :=
  {| s_id := id; s_live := true; s_closed := false; s_subs := subs; s_q := []; s_cap := cap;
     s_full := 0; s_exp := []; s_got := []; s_reach := false |}.

Definition sp_set_rx (sp : spec) (l : list srx) : spec :=
  {| sp_rx := l; sp_tx := sp_tx sp; sp_futs := sp_futs sp |}.
Definition sp_set_tx (sp : spec) (l : list stx) : spec :=
  {| sp_rx := sp_rx sp; sp_tx := l; sp_futs := sp_futs sp |}.
Definition sp_set_futs (sp : spec) (l : list (N * N)) : spec :=
  {| sp_rx := sp_rx sp; sp_tx := sp_tx sp; sp_futs := l |}.

(* after a sender handle was closed or dropped: if no open sender is left, every live receiver that has a
   subscription right now is "reached" by that close *)
Definition after_sender_gone (sp : spec) : spec :=
  if any_open sp then sp else sp_set_rx sp (map srx_reach (sp_rx sp)).

Definition msg_eqb (a b : msg) : bool := N.eqb (fst a) (fst b) && N.eqb (snd a) (snd b).

(* a receive form on receiver r returned [rs] *)
Definition sp_recv (sp : spec) (r : N) (rs : res) : spec * list clause :=
  match find_srx r (sp_rx sp) with
  | None => (sp, [])
  | Some x =>
    match rs with
    | RVal t v =>
      match s_q x with
      | m :: q' => if msg_eqb m (t, v)
                   then (sp_set_rx sp (upd_srx r (fun y => srx_take y (t, v) q') (sp_rx sp)), [])
                   else (sp, [VRouting r])
      | [] => (sp, [VRouting r])
      end
    | REmpty | RTimeout | RPending =>
      match s_q x with
      | _ :: _ => (sp, [VRouting r])
      | [] => if negb (s_closed x) && negb (any_open sp) then (sp, [VNoDisc r]) else (sp, [])
      end
    | RDisc =>
      if s_closed x then (sp, [])
      else match s_q x with
           | _ :: _ => (sp, [VDiscLive r])
           | [] => if any_open sp then (sp, [VDiscLive r]) else (sp, [])
           end
    | _ => (sp, [])
    end
  end.

Definition sp_step (sp : spec) (o : op) (rs : res) : spec * list clause :=
  match o, rs with
  | Publish _ t v, ROk =>
    (sp_set_rx sp (map (fun x => if s_live x && mem t (s_subs x) then srx_offer x (t, v) else x) (sp_rx sp)), [])
  | CloneS s s', ROk =>
    match find_stx s (sp_tx sp), find_stx s' (sp_tx sp) with
    | Some x, None => (sp_set_tx sp (sp_tx sp ++ [{| x_id := s'; x_live := true; x_closed := x_closed x |}]), [])
    | _, _ => (sp, [])
    end
  | CloseS s, ROk =>
    (after_sender_gone (sp_set_tx sp (upd_stx s (fun x => {| x_id := x_id x; x_live := x_live x; x_closed := true |}) (sp_tx sp))), [])
  | DropS s, ROk =>
    let was_open := match find_stx s (sp_tx sp) with Some x => x_open x | None => false end in
    let sp1 := sp_set_tx sp (upd_stx s (fun x => {| x_id := x_id x; x_live := false; x_closed := true |}) (sp_tx sp)) in
    (if was_open then after_sender_gone sp1 else sp1, [])
  | Subscribe r t, ROk =>
    (sp_set_rx sp (upd_srx r (fun x => if mem t (s_subs x) then x else srx_set_subs x (s_subs x ++ [t])) (sp_rx sp)), [])
  | Unsubscribe r t, ROk =>
    (sp_set_rx sp (upd_srx r (fun x => srx_set_subs x (filter (fun u => negb (N.eqb u t)) (s_subs x))) (sp_rx sp)), [])
  | CloneR r r', ROk =>
    match find_srx r (sp_rx sp), find_srx r' (sp_rx sp) with
    | Some x, None => (sp_set_rx sp (sp_rx sp ++ [srx_new r' (s_subs x) (s_cap x)]), [])
    | _, _ => (sp, [])
    end
  | CloseR r, ROk => (sp_set_rx sp (upd_srx r (fun x => srx_close x (s_live x) true) (sp_rx sp)), [])
  | DropR r, ROk => (sp_set_rx sp (upd_srx r (fun x => srx_close x false (s_closed x)) (sp_rx sp)), [])
  | MkRecv f r, ROk => (sp_set_futs sp (sp_futs sp ++ [(f, r)]), [])
  | DropF f, ROk => (sp_set_futs sp (filter (fun p => negb (N.eqb (fst p) f)) (sp_futs sp)), [])
  | TryRecv r, _ => sp_recv sp r rs
  | RecvTimeout0 r, _ => sp_recv sp r rs
  | PollNext r _, _ => sp_recv sp r rs
  | Poll f _, _ =>
    match find (fun p => N.eqb (fst p) f) (sp_futs sp) with
    | Some (_, r) => sp_recv sp r rs
    | None => (sp, [])
    end
  | _, _ => (sp, [])
  end.

Definition sp_init (cap : N) : spec :=
  {| sp_rx := [srx_new 0 [] cap]; sp_tx := [{| x_id := 0; x_live := true; x_closed := false |}]; sp_futs := [] |}.

(* run the model and the reference side by side; collect the reference's complaints *)
Fixpoint check_from (c : cfg) (s : state) (sp : spec) (h : list op) : list clause :=
  match h with
  | [] => []
  | o :: h' =>
    let '(s1, (rs, _)) := step c s o in
    let '(sp1, vs) := sp_step sp o rs in
    vs ++ check_from c s1 sp1 h'
  end.

Definition violations (c : cfg) (async : bool) (cap : N) (h : list op) : list clause :=
  check_from c (init async cap) (sp_init cap) h.

(* the reference state after a trace (for statements about its logs) *)
Fixpoint spec_from (c : cfg) (s : state) (sp : spec) (h : list op) : spec :=
  match h with
  | [] => sp
  | o :: h' =>
    let '(s1, (rs, _)) := step c s o in
    spec_from c s1 (fst (sp_step sp o rs)) h'
  end.

Definition spec_after (c : cfg) (async : bool) (cap : N) (h : list op) : spec :=
  spec_from c (init async cap) (sp_init cap) h.
