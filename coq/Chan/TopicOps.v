(* Chan/TopicOps.v — K2 (op-level) model of fibre::spmc::topic (channels/src/spmc/topic).
   One public API call = one atomic step; for the async receive form one poll / one drop of a
   future is a step.  Faithful to the code INCLUDING its defects; the record [cfg] selects, per
   finding, the behaviour of the current code ([false]) or of the proposed patch ([true]):

     fix04  F-04  sender handles are counted in the dispatcher; only the close of the last
                  open sender handle disconnects; a clone of a closed sender is closed
     fix05  F-05  the last close disconnects every mailbox of the channel (registry), not only
                  the subscribed ones; receivers cloned afterwards are born disconnected
     fix07  F-07  receiver to_sync/to_async keep the `closed` flag; AsyncTopicReceiver::drop
                  tests it (as TopicReceiver::drop already does)
     fix14  F-14  receiver close_internal unsubscribes instead of draining its local set first

   Source map (sync_impl.rs / async_impl.rs are the same code twice unless noted):
     mailbox.rs  MailboxInternal{buffer,capacity,consumer_waiter,is_disconnected,dropped_count}
                 deliver / disconnect / try_recv / recv_timeout_sync(0) / RecvFuture::poll
     core.rs     SpmcTopicDispatcher{subscriptions: topic -> Vec<Weak<mailbox>>, receiver_count}
     senders     hold Arc<dispatcher> (so the dispatcher lives while any sender handle, closed or
                 not, is not dropped); receivers hold Weak<dispatcher>.
   No proofs in this file. *)
From Fibre Require Import Common.Base.

Record cfg := { fix04 : bool; fix05 : bool; fix07 : bool; fix14 : bool }.
Definition pre_fix : cfg := {| fix04 := false; fix05 := false; fix07 := false; fix14 := false |}.
Definition post_fix : cfg := {| fix04 := true; fix05 := true; fix07 := true; fix14 := true |}.

Definition msg := (N * N)%type.          (* (topic, payload id) *)

(** mailbox.rs: MailboxInternal *)
Record mbox := { m_buf : list msg; m_cap : N; m_waiter : option N; m_disc : bool; m_dropped : N }.

Definition opt_list (o : option N) : list N := match o with Some w => [w] | None => [] end.

(* MailboxProducer::deliver *)
Definition mb_deliver (m : mbox) (x : msg) : mbox * list N :=
  if N.leb (m_cap m) (N.of_nat (length (m_buf m)))
  then ({| m_buf := m_buf m; m_cap := m_cap m; m_waiter := m_waiter m; m_disc := m_disc m;
           m_dropped := m_dropped m + 1 |}, [])
  else ({| m_buf := m_buf m ++ [x]; m_cap := m_cap m; m_waiter := None; m_disc := m_disc m;
           m_dropped := m_dropped m |}, opt_list (m_waiter m)).

(* MailboxProducer::disconnect *)
Definition mb_disconnect (m : mbox) : mbox * list N :=
  if m_disc m then (m, [])
  else ({| m_buf := m_buf m; m_cap := m_cap m; m_waiter := None; m_disc := true;
           m_dropped := m_dropped m |}, opt_list (m_waiter m)).

Definition mb_set_buf (m : mbox) (b : list msg) : mbox :=
  {| m_buf := b; m_cap := m_cap m; m_waiter := m_waiter m; m_disc := m_disc m; m_dropped := m_dropped m |}.
Definition mb_set_waiter (m : mbox) (w : option N) : mbox :=
  {| m_buf := m_buf m; m_cap := m_cap m; m_waiter := w; m_disc := m_disc m; m_dropped := m_dropped m |}.
Definition mb_new (cap : N) (disc : bool) : mbox :=
  {| m_buf := []; m_cap := cap; m_waiter := None; m_disc := disc; m_dropped := 0 |}.

(** handles *)
Record txh := { t_id : N; t_live : bool; t_async : bool; t_closed : bool }.
Record rxh := { r_id : N; r_live : bool; r_async : bool; r_closed : bool;
                r_subs : list N;            (* the receiver's local HashSet<K> *)
                r_mb : mbox }.

Definition rx_set_mb (x : rxh) (m : mbox) : rxh :=
  {| r_id := r_id x; r_live := r_live x; r_async := r_async x; r_closed := r_closed x;
     r_subs := r_subs x; r_mb := m |}.
Definition rx_set_subs (x : rxh) (s : list N) : rxh :=
  {| r_id := r_id x; r_live := r_live x; r_async := r_async x; r_closed := r_closed x;
     r_subs := s; r_mb := r_mb x |}.
Definition rx_set_closed (x : rxh) (c : bool) : rxh :=
  {| r_id := r_id x; r_live := r_live x; r_async := r_async x; r_closed := c;
     r_subs := r_subs x; r_mb := r_mb x |}.
Definition rx_set_live (x : rxh) (l : bool) : rxh :=
  {| r_id := r_id x; r_live := l; r_async := r_async x; r_closed := r_closed x;
     r_subs := r_subs x; r_mb := r_mb x |}.
Definition rx_set_kind (x : rxh) (a c : bool) : rxh :=
  {| r_id := r_id x; r_live := r_live x; r_async := a; r_closed := c;
     r_subs := r_subs x; r_mb := r_mb x |}.

Definition tx_set (x : txh) (l a c : bool) : txh :=
  {| t_id := t_id x; t_live := l; t_async := a; t_closed := c |}.

Record state := {
  txs : list txh;                 (* every sender handle ever created (dropped ones: t_live = false) *)
  rxs : list rxh;                 (* every receiver handle ever created; handle id = mailbox id *)
  lists : list (N * list N);      (* dispatcher.subscriptions: topic -> subscriber list (mailbox ids) *)
  rcount : Z;                     (* dispatcher.receiver_count (AtomicUsize; fetch_sub wraps, modelled in Z) *)
  scount : Z;                     (* sender count: exists only in the fix04 patch *)
  futs : list (N * N)             (* live RecvFutures: future id -> receiver id (the future is stateless) *)
}.

Definition st_set_rxs (s : state) (r : list rxh) : state :=
  {| txs := txs s; rxs := r; lists := lists s; rcount := rcount s; scount := scount s; futs := futs s |}.
Definition st_set_txs (s : state) (t : list txh) : state :=
  {| txs := t; rxs := rxs s; lists := lists s; rcount := rcount s; scount := scount s; futs := futs s |}.
Definition st_set_lists (s : state) (l : list (N * list N)) : state :=
  {| txs := txs s; rxs := rxs s; lists := l; rcount := rcount s; scount := scount s; futs := futs s |}.
Definition st_set_rcount (s : state) (c : Z) : state :=
  {| txs := txs s; rxs := rxs s; lists := lists s; rcount := c; scount := scount s; futs := futs s |}.
Definition st_set_scount (s : state) (c : Z) : state :=
  {| txs := txs s; rxs := rxs s; lists := lists s; rcount := rcount s; scount := c; futs := futs s |}.
Definition st_set_futs (s : state) (f : list (N * N)) : state :=
  {| txs := txs s; rxs := rxs s; lists := lists s; rcount := rcount s; scount := scount s; futs := f |}.

(** lookups / updates by id *)
Definition find_rx (r : N) (rs : list rxh) : option rxh := find (fun x => N.eqb (r_id x) r) rs.
Definition upd_rx (r : N) (f : rxh -> rxh) (rs : list rxh) : list rxh :=
  map (fun x => if N.eqb (r_id x) r then f x else x) rs.
Definition find_tx (s : N) (ts : list txh) : option txh := find (fun x => N.eqb (t_id x) s) ts.
Definition upd_tx (s : N) (f : txh -> txh) (ts : list txh) : list txh :=
  map (fun x => if N.eqb (t_id x) s then f x else x) ts.

Fixpoint get_list (t : N) (ls : list (N * list N)) : option (list N) :=
  match ls with
  | [] => None
  | (t', l) :: rest => if N.eqb t' t then Some l else get_list t rest
  end.
Fixpoint set_list (t : N) (l : list N) (ls : list (N * list N)) : list (N * list N) :=
  match ls with
  | [] => [(t, l)]
  | (t', l') :: rest => if N.eqb t' t then (t', l) :: rest else (t', l') :: set_list t l rest
  end.

(* Weak<MailboxProducer>::upgrade() succeeds iff the receiver handle owning the mailbox is not dropped *)
Definition rx_alive (m : N) (rs : list rxh) : bool :=
  match find_rx m rs with Some x => r_live x | None => false end.

(* Weak<dispatcher>::upgrade() succeeds iff some sender handle (closed or not) is not dropped *)
Definition disp_alive (s : state) : bool := existsb t_live (txs s).

Definition rx_busy (r : N) (s : state) : bool := existsb (fun p => N.eqb (snd p) r) (futs s).

(** receiver side: subscribe / unsubscribe *)
Definition subscribe_core (r t : N) (s : state) : state :=
  match find_rx r (rxs s) with
  | None => s
  | Some x =>
    if mem t (r_subs x) then s
    else
      let rs' := upd_rx r (fun y => rx_set_subs y (r_subs y ++ [t])) (rxs s) in
      if disp_alive s then
        let l := match get_list t (lists s) with Some l => l | None => [] end in
        let l1 := filter (fun m => rx_alive m (rxs s)) l in               (* prune dead weak refs *)
        let l2 := if mem r l1 then l1 else l1 ++ [r] in
        st_set_lists (st_set_rxs s rs') (set_list t l2 (lists s))
      else st_set_rxs s rs'
  end.

Definition unsubscribe_core (r t : N) (s : state) : state :=
  match find_rx r (rxs s) with
  | None => s
  | Some x =>
    if mem t (r_subs x) then
      let rs' := upd_rx r (fun y => rx_set_subs y (filter (fun u => negb (N.eqb u t)) (r_subs y))) (rxs s) in
      if disp_alive s then
        match get_list t (lists s) with
        | Some l =>
          let l' := filter (fun m => rx_alive m (rxs s) && negb (N.eqb m r)) l in
          st_set_lists (st_set_rxs s rs') (set_list t l' (lists s))
        | None => st_set_rxs s rs'
        end
      else st_set_rxs s rs'
    else s
  end.

(* {Topic,AsyncTopic}Receiver::close_internal.  Current code: `subscriptions.lock().drain()` empties
   the local set, so every following `self.unsubscribe(&topic)` returns early (F-14).  Patch: iterate
   over a copy of the set and really unsubscribe. *)
Definition rx_close_internal (c : cfg) (r : N) (s : state) : state :=
  if disp_alive s then
    match find_rx r (rxs s) with
    | None => s
    | Some x =>
      let s1 := if fix14 c
                then fold_left (fun a t => unsubscribe_core r t a) (r_subs x) s
                else st_set_rxs s (upd_rx r (fun y => rx_set_subs y []) (rxs s)) in
      st_set_rcount s1 (rcount s1 - 1)%Z
    end
  else s.

(** sender side *)
Definition in_lists (m : N) (ls : list (N * list N)) : bool := existsb (fun p => mem m (snd p)) ls.

Fixpoint map_wakes (f : rxh -> rxh * list N) (rs : list rxh) : list rxh * list N :=
  match rs with
  | [] => ([], [])
  | x :: rest =>
    let '(x', w) := f x in
    let '(rest', w') := map_wakes f rest in
    (x' :: rest', w ++ w')
  end.

(* disconnect every reachable mailbox: those found through the subscription lists (current code)
   or every mailbox of the channel (fix05: registry).  Iteration order is hash order in the code;
   disconnect is idempotent and wakes at most once per mailbox, so a map over the handles is the same. *)
Definition disconnect_all (c : cfg) (s : state) : state * list N :=
  let '(rs', w) := map_wakes (fun x =>
      if r_live x && (fix05 c || in_lists (r_id x) (lists s))
      then let '(m', w) := mb_disconnect (r_mb x) in (rx_set_mb x m', w)
      else (x, [])) (rxs s) in
  (st_set_rxs s rs', w).

(* {Topic,AsyncTopic}Sender::close_internal *)
Definition tx_close_internal (c : cfg) (s : state) : state * list N :=
  if fix04 c then
    let s1 := st_set_scount s (scount s - 1)%Z in
    if Z.eqb (scount s) 1 then disconnect_all c s1 else (s1, [])
  else disconnect_all c s.

(* send(): deliver to the snapshot of the topic's subscriber list, in list order *)
Definition deliver_one (m : N) (x : msg) (rs : list rxh) : list rxh * list N :=
  match find_rx m rs with
  | Some y =>
    if r_live y
    then let '(mb', w) := mb_deliver (r_mb y) x in (upd_rx m (fun z => rx_set_mb z mb') rs, w)
    else (rs, [])
  | None => (rs, [])
  end.

Fixpoint deliver_list (l : list N) (x : msg) (rs : list rxh) : list rxh * list N :=
  match l with
  | [] => (rs, [])
  | m :: l' =>
    let '(rs1, w1) := deliver_one m x rs in
    let '(rs2, w2) := deliver_list l' x rs1 in
    (rs2, w1 ++ w2)
  end.

(** operations and results *)
Inductive op :=
| Publish (s t v : N)       (* sender.send(topic, value) *)
| CloneS (s s' : N)         (* TopicSender::clone (AsyncTopicSender has no Clone impl) *)
| CloseS (s : N)
| DropS (s : N)
| ConvS (s : N)             (* to_async / to_sync *)
| IsClosedS (s : N)
| Subscribe (r t : N)
| Unsubscribe (r t : N)
| CloneR (r r' : N)
| CloseR (r : N)
| DropR (r : N)
| ConvR (r : N)
| TryRecv (r : N)
| RecvTimeout0 (r : N)      (* TopicReceiver::recv_timeout(Duration::ZERO) *)
| MkRecv (f r : N)          (* AsyncTopicReceiver::recv() *)
| Poll (f w : N)
| DropF (f : N)
| PollNext (r w : N)        (* Stream::poll_next *)
| IsClosedR (r : N)
| IsEmptyR (r : N)
| CapR (r : N).

Inductive res :=
| RNoHandle | RBadId | RNoApi | RBusy
| ROk | RClosed | RCloseErr
| RBool (b : bool) | RNum (n : N)
| RVal (t v : N) | REmpty | RTimeout | RPending | RDisc.

Definition out := (res * list N)%type.     (* result, wakers woken during the op *)

Definition mb_pop (m : mbox) : option (msg * mbox) :=
  match m_buf m with
  | x :: b => Some (x, mb_set_buf m b)
  | [] => None
  end.

(* try_recv / recv_timeout_sync(0) / RecvFuture::poll share: pop, else disconnected?, else [none] *)
Definition recv_core (r : N) (x : rxh) (none : res) (reg : option N) (s : state) : state * out :=
  match mb_pop (r_mb x) with
  | Some ((t, v), m') => (st_set_rxs s (upd_rx r (fun y => rx_set_mb y m') (rxs s)), (RVal t v, []))
  | None =>
    if m_disc (r_mb x) then (s, (RDisc, []))
    else match reg with
         | Some w => (st_set_rxs s (upd_rx r (fun y => rx_set_mb y (mb_set_waiter (r_mb y) (Some w))) (rxs s)),
                      (none, []))
         | None => (s, (none, []))
         end
  end.

Definition live_rx (r : N) (s : state) : option rxh :=
  match find_rx r (rxs s) with
  | Some x => if r_live x then Some x else None
  | None => None
  end.
Definition live_tx (t : N) (s : state) : option txh :=
  match find_tx t (txs s) with
  | Some x => if t_live x then Some x else None
  | None => None
  end.

Definition new_rx (id : N) (async closed : bool) (cap : N) (disc : bool) : rxh :=
  {| r_id := id; r_live := true; r_async := async; r_closed := closed; r_subs := [];
     r_mb := mb_new cap disc |}.

Definition step (c : cfg) (s : state) (o : op) : state * out :=
  match o with
  | Publish h t v =>
    match live_tx h s with
    | None => (s, (RNoHandle, []))
    | Some x =>
      if t_closed x || Z.eqb (rcount s) 0 then (s, (RClosed, []))
      else match get_list t (lists s) with
           | Some l => let '(rs', w) := deliver_list l (t, v) (rxs s) in (st_set_rxs s rs', (ROk, w))
           | None => (s, (ROk, []))
           end
    end
  | CloneS h h' =>
    match live_tx h s with
    | None => (s, (RNoHandle, []))
    | Some x =>
      match find_tx h' (txs s) with
      | Some _ => (s, (RBadId, []))
      | None =>
        if t_async x then (s, (RNoApi, []))
        else
          let cl := fix04 c && t_closed x in
          let s1 := st_set_txs s (txs s ++ [{| t_id := h'; t_live := true; t_async := false; t_closed := cl |}]) in
          let s2 := if fix04 c && negb cl then st_set_scount s1 (scount s1 + 1)%Z else s1 in
          (s2, (ROk, []))
      end
    end
  | CloseS h =>
    match live_tx h s with
    | None => (s, (RNoHandle, []))
    | Some x =>
      if t_closed x then (s, (RCloseErr, []))
      else
        let s1 := st_set_txs s (upd_tx h (fun y => tx_set y (t_live y) (t_async y) true) (txs s)) in
        let '(s2, w) := tx_close_internal c s1 in (s2, (ROk, w))
    end
  | DropS h =>
    match live_tx h s with
    | None => (s, (RNoHandle, []))
    | Some x =>
      (* Drop = `let _ = self.close()`, then the Arc<dispatcher> is released *)
      let '(s1, w) := if t_closed x then (s, []) else tx_close_internal c s in
      (st_set_txs s1 (upd_tx h (fun y => tx_set y false (t_async y) true) (txs s1)), (ROk, w))
    end
  | ConvS h =>
    match live_tx h s with
    | None => (s, (RNoHandle, []))
    | Some x => (st_set_txs s (upd_tx h (fun y => tx_set y (t_live y) (negb (t_async y)) (t_closed y)) (txs s)), (ROk, []))
    end
  | IsClosedS h =>
    match live_tx h s with
    | None => (s, (RNoHandle, []))
    | Some x => (s, (RBool (Z.eqb (rcount s) 0), []))
    end
  | Subscribe r t =>
    match live_rx r s with
    | None => (s, (RNoHandle, []))
    | Some x => (subscribe_core r t s, (ROk, []))
    end
  | Unsubscribe r t =>
    match live_rx r s with
    | None => (s, (RNoHandle, []))
    | Some x => (unsubscribe_core r t s, (ROk, []))
    end
  | CloneR r r' =>
    match live_rx r s with
    | None => (s, (RNoHandle, []))
    | Some x =>
      match find_rx r' (rxs s) with
      | Some _ => (s, (RBadId, []))
      | None =>
        if disp_alive s then
          let born_disc := fix05 c && fix04 c && Z.eqb (scount s) 0 in
          let s1 := st_set_rcount s (rcount s + 1)%Z in
          let s2 := st_set_rxs s1 (rxs s1 ++ [new_rx r' (r_async x) false (m_cap (r_mb x)) born_disc]) in
          (fold_left (fun a t => subscribe_core r' t a) (r_subs x) s2, (ROk, []))
        else
          (* "dead receiver": Weak::new(), capacity 0, closed = true *)
          (st_set_rxs s (rxs s ++ [new_rx r' (r_async x) true 0 (fix05 c)]), (ROk, []))
      end
    end
  | CloseR r =>
    match live_rx r s with
    | None => (s, (RNoHandle, []))
    | Some x =>
      if r_closed x then (s, (RCloseErr, []))
      else
        let s1 := st_set_rxs s (upd_rx r (fun y => rx_set_closed y true) (rxs s)) in
        (rx_close_internal c r s1, (ROk, []))
    end
  | DropR r =>
    match live_rx r s with
    | None => (s, (RNoHandle, []))
    | Some x =>
      if rx_busy r s then (s, (RBusy, []))
      else
        (* TopicReceiver::drop: `if !closed.swap(true) { close_internal() }`;
           AsyncTopicReceiver::drop runs the close_internal body unconditionally (current code) *)
        let run := if r_async x && negb (fix07 c) then true else negb (r_closed x) in
        let s1 := st_set_rxs s (upd_rx r (fun y => rx_set_closed y true) (rxs s)) in
        let s2 := if run then rx_close_internal c r s1 else s1 in
        (* the fields are dropped: the last Arc<MailboxProducer> goes, MailboxProducer::drop disconnects
           the handle's own mailbox and thereby wakes a waker left registered by an earlier poll *)
        let w := if m_disc (r_mb x) then [] else opt_list (m_waiter (r_mb x)) in
        (st_set_rxs s2 (upd_rx r (fun y => rx_set_mb (rx_set_live y false) (fst (mb_disconnect (r_mb y)))) (rxs s2)),
         (ROk, w))
    end
  | ConvR r =>
    match live_rx r s with
    | None => (s, (RNoHandle, []))
    | Some x =>
      if rx_busy r s then (s, (RBusy, []))
      else (st_set_rxs s (upd_rx r (fun y => rx_set_kind y (negb (r_async y)) (fix07 c && r_closed y)) (rxs s)),
            (ROk, []))
    end
  | TryRecv r =>
    match live_rx r s with
    | None => (s, (RNoHandle, []))
    | Some x => recv_core r x REmpty None s
    end
  | RecvTimeout0 r =>
    match live_rx r s with
    | None => (s, (RNoHandle, []))
    | Some x =>
      if r_async x then (s, (RNoApi, []))
      else if r_closed x
           then (* `self.consumer.try_recv().map_err(|_| Disconnected)` *)
                recv_core r x RDisc None s
           else recv_core r x RTimeout None s
    end
  | MkRecv f r =>
    match live_rx r s with
    | None => (s, (RNoHandle, []))
    | Some x =>
      if negb (r_async x) then (s, (RNoApi, []))
      else if existsb (fun p => N.eqb (fst p) f) (futs s) then (s, (RBadId, []))
      else (st_set_futs s (futs s ++ [(f, r)]), (ROk, []))
    end
  | Poll f w =>
    match find (fun p => N.eqb (fst p) f) (futs s) with
    | None => (s, (RNoHandle, []))
    | Some (_, r) =>
      match live_rx r s with
      | None => (s, (RNoHandle, []))        (* unreachable: a receiver with live futures is never dropped *)
      | Some x => recv_core r x RPending (Some w) s
      end
    end
  | DropF f =>
    match find (fun p => N.eqb (fst p) f) (futs s) with
    | None => (s, (RNoHandle, []))
    | Some _ => (st_set_futs s (filter (fun p => negb (N.eqb (fst p) f)) (futs s)), (ROk, []))
    end
  | PollNext r w =>
    match live_rx r s with
    | None => (s, (RNoHandle, []))
    | Some x =>
      if negb (r_async x) then (s, (RNoApi, []))
      else if rx_busy r s then (s, (RBusy, []))
      else recv_core r x RPending (Some w) s
    end
  | IsClosedR r =>
    match live_rx r s with
    | None => (s, (RNoHandle, []))
    | Some x => (s, (RBool (r_closed x || (negb (disp_alive s) && match m_buf (r_mb x) with [] => true | _ => false end)), []))
    end
  | IsEmptyR r =>
    match live_rx r s with
    | None => (s, (RNoHandle, []))
    | Some x => (s, (RBool (match m_buf (r_mb x) with [] => true | _ => false end), []))
    end
  | CapR r =>
    match live_rx r s with
    | None => (s, (RNoHandle, []))
    | Some x => (s, (RNum (m_cap (r_mb x)), []))
    end
  end.

(* topic::channel(cap) / topic::channel_async(cap): sender 0, receiver 0 *)
Definition init (async : bool) (cap : N) : state :=
  {| txs := [{| t_id := 0; t_live := true; t_async := async; t_closed := false |}];
     rxs := [new_rx 0 async false cap false];
     lists := []; rcount := 1%Z; scount := 1%Z; futs := [] |}.

Fixpoint run_from (c : cfg) (s : state) (h : list op) : state * list out :=
  match h with
  | [] => (s, [])
  | o :: h' =>
    let '(s1, x) := step c s o in
    let '(s2, xs) := run_from c s1 h' in
    (s2, x :: xs)
  end.

Definition run (c : cfg) (async : bool) (cap : N) (h : list op) : state * list out :=
  run_from c (init async cap) h.
