(* Chan/TopicSpec04.v — the C04 (disconnect protocol / handle lifecycle) clauses for the topic flavour,
   as a second executable reference over (operation, result) traces.  It tracks per handle only what the
   calls themselves tell: alive?, did close() return Ok on it?, did it observe Disconnected?
   No proofs in this file. *)
From Fibre Require Import Common.Base Chan.TopicOps.

Record rx4 := { a_id : N; a_live : bool;
                a_closed : bool;      (* close() returned Ok on this handle (sticky) *)
                a_sawdisc : bool }.   (* a receive on this handle reported Disconnected while it was not closed *)
Record tx4 := { b_id : N; b_live : bool;
                b_closed : bool;      (* closed, or cloned from a closed handle *)
                b_self : bool }.      (* close() returned Ok on this very handle *)
Record spec4 := { s4_rx : list rx4; s4_tx : list tx4; s4_futs : list (N * N) }.

Inductive clause4 :=
| V4ValueAfterDisc (r : N)     (* a receive returned a value after the handle had observed Disconnected *)
| V4SendAfterLastRx (s : N)    (* send returned Ok although no receiver handle is open *)
| V4ClosedWithLiveRx (s : N)   (* send on an open sender handle returned Closed while a receiver handle is open *)
| V4ClosedTxAccepts (s : N)    (* send returned Ok on a sender handle whose close() had returned Ok *)
| V4ClosedRxAccepts (r : N)    (* a receive on a receiver handle whose close() had returned Ok handed out a value
                                  or reported "nothing yet" instead of failing *)
| V4DoubleCloseTx (s : N)      (* close() returned Ok twice on one sender handle *)
| V4DoubleCloseRx (r : N).     (* close() returned Ok twice on one receiver handle *)

Definition find_rx4 (r : N) (l : list rx4) : option rx4 := find (fun x => N.eqb (a_id x) r) l.
Definition upd_rx4 (r : N) (f : rx4 -> rx4) (l : list rx4) : list rx4 :=
  map (fun x => if N.eqb (a_id x) r then f x else x) l.
Definition find_tx4 (s : N) (l : list tx4) : option tx4 := find (fun x => N.eqb (b_id x) s) l.
Definition upd_tx4 (s : N) (f : tx4 -> tx4) (l : list tx4) : list tx4 :=
  map (fun x => if N.eqb (b_id x) s then f x else x) l.

Definition rx4_open (x : rx4) : bool := a_live x && negb (a_closed x).
Definition tx4_open (x : tx4) : bool := b_live x && negb (b_closed x).
Definition any_rx_open (sp : spec4) : bool := existsb rx4_open (s4_rx sp).

Definition s4_set_rx (sp : spec4) (l : list rx4) : spec4 := {| s4_rx := l; s4_tx := s4_tx sp; s4_futs := s4_futs sp |}.
Definition s4_set_tx (sp : spec4) (l : list tx4) : spec4 := {| s4_rx := s4_rx sp; s4_tx := l; s4_futs := s4_futs sp |}.
Definition s4_set_futs (sp : spec4) (l : list (N * N)) : spec4 := {| s4_rx := s4_rx sp; s4_tx := s4_tx sp; s4_futs := l |}.

Definition rx4_set (x : rx4) (live closed sawdisc : bool) : rx4 :=
  {| a_id := a_id x; a_live := live; a_closed := closed; a_sawdisc := sawdisc |}.
Definition tx4_set (x : tx4) (live closed self : bool) : tx4 :=
  {| b_id := b_id x; b_live := live; b_closed := closed; b_self := self |}.

Definition s4_recv (sp : spec4) (r : N) (rs : res) : spec4 * list clause4 :=
  match find_rx4 r (s4_rx sp) with
  | None => (sp, [])
  | Some x =>
    match rs with
    | RVal _ _ =>
      (sp, (if a_sawdisc x then [V4ValueAfterDisc r] else []) ++ (if a_closed x then [V4ClosedRxAccepts r] else []))
    | REmpty | RTimeout | RPending => (sp, if a_closed x then [V4ClosedRxAccepts r] else [])
    | RDisc =>
      if a_closed x then (sp, [])
      else (s4_set_rx sp (upd_rx4 r (fun y => rx4_set y (a_live y) (a_closed y) true) (s4_rx sp)), [])
    | _ => (sp, [])
    end
  end.

Definition s4_step (sp : spec4) (o : op) (rs : res) : spec4 * list clause4 :=
  match o, rs with
  | Publish s _ _, ROk =>
    match find_tx4 s (s4_tx sp) with
    | Some x => (sp, (if b_self x then [V4ClosedTxAccepts s] else []) ++
                     (if any_rx_open sp then [] else [V4SendAfterLastRx s]))
    | None => (sp, [])
    end
  | Publish s _ _, RClosed =>
    match find_tx4 s (s4_tx sp) with
    | Some x => (sp, if tx4_open x && any_rx_open sp then [V4ClosedWithLiveRx s] else [])
    | None => (sp, [])
    end
  | CloneS s s', ROk =>
    match find_tx4 s (s4_tx sp), find_tx4 s' (s4_tx sp) with
    | Some x, None => (s4_set_tx sp (s4_tx sp ++ [{| b_id := s'; b_live := true; b_closed := b_closed x; b_self := false |}]), [])
    | _, _ => (sp, [])
    end
  | CloseS s, ROk =>
    match find_tx4 s (s4_tx sp) with
    | Some x => (s4_set_tx sp (upd_tx4 s (fun y => tx4_set y (b_live y) true true) (s4_tx sp)),
                 if b_self x then [V4DoubleCloseTx s] else [])
    | None => (sp, [])
    end
  | DropS s, ROk => (s4_set_tx sp (upd_tx4 s (fun y => tx4_set y false true (b_self y)) (s4_tx sp)), [])
  | CloneR r r', ROk =>
    match find_rx4 r (s4_rx sp), find_rx4 r' (s4_rx sp) with
    | Some x, None => (s4_set_rx sp (s4_rx sp ++ [{| a_id := r'; a_live := true; a_closed := false; a_sawdisc := false |}]), [])
    | _, _ => (sp, [])
    end
  | CloseR r, ROk =>
    match find_rx4 r (s4_rx sp) with
    | Some x => (s4_set_rx sp (upd_rx4 r (fun y => rx4_set y (a_live y) true (a_sawdisc y)) (s4_rx sp)),
                 if a_closed x then [V4DoubleCloseRx r] else [])
    | None => (sp, [])
    end
  | DropR r, ROk => (s4_set_rx sp (upd_rx4 r (fun y => rx4_set y false (a_closed y) (a_sawdisc y)) (s4_rx sp)), [])
  | MkRecv f r, ROk => (s4_set_futs sp (s4_futs sp ++ [(f, r)]), [])
  | DropF f, ROk => (s4_set_futs sp (filter (fun p => negb (N.eqb (fst p) f)) (s4_futs sp)), [])
  | TryRecv r, _ => s4_recv sp r rs
  | RecvTimeout0 r, _ => s4_recv sp r rs
  | PollNext r _, _ => s4_recv sp r rs
  | Poll f _, _ =>
    match find (fun p => N.eqb (fst p) f) (s4_futs sp) with
    | Some (_, r) => s4_recv sp r rs
    | None => (sp, [])
    end
  | _, _ => (sp, [])
  end.

Definition s4_init : spec4 :=
  {| s4_rx := [{| a_id := 0; a_live := true; a_closed := false; a_sawdisc := false |}];
     s4_tx := [{| b_id := 0; b_live := true; b_closed := false; b_self := false |}];
     s4_futs := [] |}.

Fixpoint check4_from (c : cfg) (s : state) (sp : spec4) (h : list op) : list clause4 :=
  match h with
  | [] => []
  | o :: h' =>
    let '(s1, (rs, _)) := step c s o in
    let '(sp1, vs) := s4_step sp o rs in
    vs ++ check4_from c s1 sp1 h'
  end.

Definition violations4 (c : cfg) (async : bool) (cap : N) (h : list op) : list clause4 :=
  check4_from c (init async cap) s4_init h.
