(* Chan/MpscUSpec.v — vocabulary of the pinned theorems about the unbounded-MPSC model
   (definitions only, no proofs). *)
From Fibre Require Import Common.Base Chan.MpscU.

Definition reach (s : st) : Prop := exists a fcl ops, s = final (init a fcl) ops.

Fixpoint failed (r : res) : bool :=
  match r with
  | RClosedV _ | RClosed | REmpty | RDisc | RTimeout | RCloseErr | RBad | RBlock | RPanic
  | RMutClosed _ | RBatchErr _ _ => true
  | RReady r' => failed r'
  | _ => false
  end.

Definition recv_ids (r : res) : list N :=
  match r with
  | RVal v | RReady (RVal v) => [v]
  | RVals vs | RReady (RVals vs) => vs
  | _ => []
  end.

Definition out_res (x : out) : res := fst (fst x).
Definition out_wakes (x : out) : list N := snd (fst x).
Definition out_drops (x : out) : list N := snd x.

Definition disc_state (s : st) : Prop := scount s = 0 /\ q s = [].

Definition clones_closed (s : st) (o : op) : Prop :=
  exists h h2 r, o = Clone h h2 /\ aget h (hs s) = Some r /\ hclosed r = true.

Definition has_value (r : res) : bool := negb (is_nil (recv_ids r)).

Definition closed_with_value (o : op) (r : res) : Prop :=
  match o with
  | TrySend _ v => r = RClosedV v
  | Send _ _ => r = RClosed                        (* SendError carries no value: it is dropped *)
  | SendB _ vs false _ => r = RBatchErr 0 vs
  | SendB _ vs true _ => r = RMutClosed vs
  | _ => True
  end.
