(* Chan/MpscUSpec.v — vocabulary of the pinned theorems about the unbounded-MPSC model
   (definitions only, no proofs). *)
From Fibre Require Import Common.Base Chan.MpscU.

Definition reach (s : st) : Prop := exists a fcl ops, s = final (init a fcl) ops.

Fixpoint failed (r : res) : bool :=
  match r with
  | RClosedV _ | RClosed | REmpty | RDisc | RTimeout | RCloseErr | RBad | RBlock | RPanic
  | RMutClosed _ | RBatchErr _ _ => true
  | RReady r' => failed r'
  | _ => false
  end.

Definition recv_ids (r : res) : list N :=
  match r with
  | RVal v | RReady (RVal v) => [v]
  | RVals vs | RReady (RVals vs) => vs
  | _ => []
  end.

Definition out_res (x : out) : res := fst (fst x).
Definition out_wakes (x : out) : list N := snd (fst x).
Definition out_drops (x : out) : list N := snd x.

Definition disc_state (s : st) : Prop := scount s = 0 /\ q s = [].

Definition clones_closed (s : st) (o : op) : Prop :=
  exists h h2 r, o = Clone h h2 /\ aget h (hs s) = Some r /\ hclosed r = true.

Definition has_value (r : res) : bool := negb (is_nil (recv_ids r)).

Definition closed_with_value (o : op) (r : res) : Prop :=
  match o with
  | TrySend _ v => r = RClosedV v
  | Send _ _ => r = RClosed                        (* SendError carries no value: it is dropped *)
  | SendB _ vs false _ => r = RBatchErr 0 vs
  | SendB _ vs true _ => r = RMutClosed vs
  | _ => True
  end.

(* ---- C06 vocabulary: pending receive-side waiters and the wake-up invariants ---- *)
Definition rpend (s : st) (f w c : N) : Prop :=
  exists fr, aget f (fs s) = Some fr /\ is_recv_kind (fk fr) = true /\ fpend fr = Some (w, c).
Definition spend (s : st) (h w c : N) : Prop :=
  exists r, aget h (hs s) = Some r /\ hpend r = Some (w, c).
Definition reg_of (k : fkind) : bool :=
  match k with FRecv g | FRecvB _ g => g | _ => false end.

Definition W1 s := forall o w, rw s = Some (o, w) -> q s = [] /\ scount s <> 0.
Definition W2 s := forall f w c, rpend s f w c ->
  c <= wk s w /\ (rw s = Some (OF f, w) \/ c < wk s w \/ multi s = true).
Definition W3 s := forall h w c, spend s h w c ->
  c <= wk s w /\ (rw s = Some (OH h, w) \/ c < wk s w \/ multi s = true).
Definition W4 s := multi s = false -> forall f1 f2 fr1 fr2,
  aget f1 (fs s) = Some fr1 -> aget f2 (fs s) = Some fr2 ->
  is_recv_kind (fk fr1) = true -> is_recv_kind (fk fr2) = true -> f1 = f2.
Definition W5 s := multi s = false -> forall f fr h r,
  aget f (fs s) = Some fr -> is_recv_kind (fk fr) = true -> aget h (hs s) = Some r -> hreg r = false.
Definition W6 s := forall f w, rw s = Some (OF f, w) ->
  exists fr, aget f (fs s) = Some fr /\ reg_of (fk fr) = true.
Definition W7 s := forall h w, rw s = Some (OH h, w) ->
  exists r, aget h (hs s) = Some r /\ hreg r = true.
Definition W8 s := forall h r, aget h (hs s) = Some r ->
  (hpend r <> None -> hreg r = true) /\ (hreg r = true -> htx r = false /\ hasync r = true).

