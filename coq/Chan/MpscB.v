(* Chan/MpscB.v — K2 (op-level) model of fibre::mpsc::bounded / bounded_async
   (channels/src/mpsc/bounded_v3/{shared,producer,consumer}.rs + the handle code).

   One public API call = one atomic step; for async forms one poll / one drop of a
   future is a step.  Payloads, handles, futures and wakers are ids (N).

   What is kept of the ticket/chunk machinery (sequential histories only, so no SKIP
   tombstones and no in-flight tickets):
     q      the SET-undrained values in ticket order   (g_tail - drained = len q)
     unpub  Head::unpublished = drained - progress     (g_tail - progress = len q + unpub)
     kk     Head::publish_chunk = run_cap (the release cadence K)
   so  window_open      <->  len q + unpub < cap   (hot path: try_send_now, claim_run)
       window_open_cold <->  len q < cap           (try_send_now_cold, claim_run_cold)
   The chunk table / slot states are abstracted away; D1 exercises them on the real
   code (chunk boundaries and table laps) and compares every observable.

   No proofs in this file.  Ghost fields (used/acc/rcv/back/drp/qdrp/lost/multi and the
   owner tag in rw) never influence behaviour; they exist for the theorems. *)
From Fibre Require Import Common.Base.

Definition len {A} (l : list A) : N := N.of_nat (length l).

(** association lists keyed by N; [aset] keeps keys unique *)
Fixpoint aget {A} (k : N) (l : list (N * A)) : option A :=
  match l with
  | [] => None
  | (k', v) :: t => if N.eqb k k' then Some v else aget k t
  end.

Fixpoint adel {A} (k : N) (l : list (N * A)) : list (N * A) :=
  match l with
  | [] => []
  | (k', v) :: t => if N.eqb k k' then adel k t else (k', v) :: adel k t
  end.

Definition aset {A} (k : N) (v : A) (l : list (N * A)) : list (N * A) := (k, v) :: adel k l.

Definition is_nil {A} (l : list A) : bool := match l with [] => true | _ => false end.

Fixpoint nodupb (l : list N) : bool :=
  match l with [] => true | x :: t => negb (mem x t) && nodupb t end.

(** who registered the waker sitting in the single async recv-waiter slot (ghost) *)
Inductive owner := OF (f : N) | OH (h : N).

(** a handle: Sender/AsyncSender/Receiver/AsyncReceiver with its own [closed] flag;
    [hreg]/[hpend] are AsyncReceiver::is_registered (Stream) and the ghost "last
    poll_next returned Pending with (waker, wake count then)" *)
Record hrec := mkH {
  htx : bool; hasync : bool; hclosed : bool; hreg : bool; hpend : option (N * N) }.

Inductive fkind :=
| FSend (item : option N)                  (* SendFuture { item, my_id } *)
| FRecv (reg : bool)                       (* RecvFuture { is_registered } *)
| FSendB (rest : list N) (sent total : N)  (* BoundedSendBatchFuture *)
| FRecvB (max : N) (reg : bool).           (* BoundedRecvBatchFuture *)

(** [fpend] (ghost): last poll returned Pending with (waker, that waker's wake count then) *)
Record frec := mkF { fh : N; fk : fkind; fpend : option (N * N) }.

Record st := mkSt {
  cap : N;
  kk : N;
  q : list N;
  unpub : N;
  scount : N;
  rdrop : bool;
  sq : list (N * N);
  rw : option (owner * N);
  hs : list (N * hrec);
  fs : list (N * frec);
  wk : N -> N;
  used : list N;
  acc : list N;
  rcv : list N;
  back : list N;
  drp : list N;
  qdrp : list N;
  lost : bool;
  multi : bool;
  evw : list N;
  evd : list N;
  fix03 : bool;
  fixcl : bool
}.

Definition set_cap (s : st) (x : N) : st :=
  mkSt x (kk s) (q s) (unpub s) (scount s) (rdrop s) (sq s) (rw s) (hs s) (fs s) (wk s) (used s) (acc s) (rcv s) (back s) (drp s) (qdrp s) (lost s) (multi s) (evw s) (evd s) (fix03 s) (fixcl s).
Definition set_kk (s : st) (x : N) : st :=
  mkSt (cap s) x (q s) (unpub s) (scount s) (rdrop s) (sq s) (rw s) (hs s) (fs s) (wk s) (used s) (acc s) (rcv s) (back s) (drp s) (qdrp s) (lost s) (multi s) (evw s) (evd s) (fix03 s) (fixcl s).
Definition set_q (s : st) (x : list N) : st :=
  mkSt (cap s) (kk s) x (unpub s) (scount s) (rdrop s) (sq s) (rw s) (hs s) (fs s) (wk s) (used s) (acc s) (rcv s) (back s) (drp s) (qdrp s) (lost s) (multi s) (evw s) (evd s) (fix03 s) (fixcl s).
Definition set_unpub (s : st) (x : N) : st :=
  mkSt (cap s) (kk s) (q s) x (scount s) (rdrop s) (sq s) (rw s) (hs s) (fs s) (wk s) (used s) (acc s) (rcv s) (back s) (drp s) (qdrp s) (lost s) (multi s) (evw s) (evd s) (fix03 s) (fixcl s).
Definition set_scount (s : st) (x : N) : st :=
  mkSt (cap s) (kk s) (q s) (unpub s) x (rdrop s) (sq s) (rw s) (hs s) (fs s) (wk s) (used s) (acc s) (rcv s) (back s) (drp s) (qdrp s) (lost s) (multi s) (evw s) (evd s) (fix03 s) (fixcl s).
Definition set_rdrop (s : st) (x : bool) : st :=
  mkSt (cap s) (kk s) (q s) (unpub s) (scount s) x (sq s) (rw s) (hs s) (fs s) (wk s) (used s) (acc s) (rcv s) (back s) (drp s) (qdrp s) (lost s) (multi s) (evw s) (evd s) (fix03 s) (fixcl s).
Definition set_sq (s : st) (x : list (N * N)) : st :=
  mkSt (cap s) (kk s) (q s) (unpub s) (scount s) (rdrop s) x (rw s) (hs s) (fs s) (wk s) (used s) (acc s) (rcv s) (back s) (drp s) (qdrp s) (lost s) (multi s) (evw s) (evd s) (fix03 s) (fixcl s).
Definition set_rw (s : st) (x : option (owner * N)) : st :=
  mkSt (cap s) (kk s) (q s) (unpub s) (scount s) (rdrop s) (sq s) x (hs s) (fs s) (wk s) (used s) (acc s) (rcv s) (back s) (drp s) (qdrp s) (lost s) (multi s) (evw s) (evd s) (fix03 s) (fixcl s).
Definition set_hs (s : st) (x : list (N * hrec)) : st :=
  mkSt (cap s) (kk s) (q s) (unpub s) (scount s) (rdrop s) (sq s) (rw s) x (fs s) (wk s) (used s) (acc s) (rcv s) (back s) (drp s) (qdrp s) (lost s) (multi s) (evw s) (evd s) (fix03 s) (fixcl s).
Definition set_fs (s : st) (x : list (N * frec)) : st :=
  mkSt (cap s) (kk s) (q s) (unpub s) (scount s) (rdrop s) (sq s) (rw s) (hs s) x (wk s) (used s) (acc s) (rcv s) (back s) (drp s) (qdrp s) (lost s) (multi s) (evw s) (evd s) (fix03 s) (fixcl s).
Definition set_wk (s : st) (x : N -> N) : st :=
  mkSt (cap s) (kk s) (q s) (unpub s) (scount s) (rdrop s) (sq s) (rw s) (hs s) (fs s) x (used s) (acc s) (rcv s) (back s) (drp s) (qdrp s) (lost s) (multi s) (evw s) (evd s) (fix03 s) (fixcl s).
Definition set_used (s : st) (x : list N) : st :=
  mkSt (cap s) (kk s) (q s) (unpub s) (scount s) (rdrop s) (sq s) (rw s) (hs s) (fs s) (wk s) x (acc s) (rcv s) (back s) (drp s) (qdrp s) (lost s) (multi s) (evw s) (evd s) (fix03 s) (fixcl s).
Definition set_acc (s : st) (x : list N) : st :=
  mkSt (cap s) (kk s) (q s) (unpub s) (scount s) (rdrop s) (sq s) (rw s) (hs s) (fs s) (wk s) (used s) x (rcv s) (back s) (drp s) (qdrp s) (lost s) (multi s) (evw s) (evd s) (fix03 s) (fixcl s).
Definition set_rcv (s : st) (x : list N) : st :=
  mkSt (cap s) (kk s) (q s) (unpub s) (scount s) (rdrop s) (sq s) (rw s) (hs s) (fs s) (wk s) (used s) (acc s) x (back s) (drp s) (qdrp s) (lost s) (multi s) (evw s) (evd s) (fix03 s) (fixcl s).
Definition set_back (s : st) (x : list N) : st :=
  mkSt (cap s) (kk s) (q s) (unpub s) (scount s) (rdrop s) (sq s) (rw s) (hs s) (fs s) (wk s) (used s) (acc s) (rcv s) x (drp s) (qdrp s) (lost s) (multi s) (evw s) (evd s) (fix03 s) (fixcl s).
Definition set_drp (s : st) (x : list N) : st :=
  mkSt (cap s) (kk s) (q s) (unpub s) (scount s) (rdrop s) (sq s) (rw s) (hs s) (fs s) (wk s) (used s) (acc s) (rcv s) (back s) x (qdrp s) (lost s) (multi s) (evw s) (evd s) (fix03 s) (fixcl s).
Definition set_qdrp (s : st) (x : list N) : st :=
  mkSt (cap s) (kk s) (q s) (unpub s) (scount s) (rdrop s) (sq s) (rw s) (hs s) (fs s) (wk s) (used s) (acc s) (rcv s) (back s) (drp s) x (lost s) (multi s) (evw s) (evd s) (fix03 s) (fixcl s).
Definition set_lost (s : st) (x : bool) : st :=
  mkSt (cap s) (kk s) (q s) (unpub s) (scount s) (rdrop s) (sq s) (rw s) (hs s) (fs s) (wk s) (used s) (acc s) (rcv s) (back s) (drp s) (qdrp s) x (multi s) (evw s) (evd s) (fix03 s) (fixcl s).
Definition set_multi (s : st) (x : bool) : st :=
  mkSt (cap s) (kk s) (q s) (unpub s) (scount s) (rdrop s) (sq s) (rw s) (hs s) (fs s) (wk s) (used s) (acc s) (rcv s) (back s) (drp s) (qdrp s) (lost s) x (evw s) (evd s) (fix03 s) (fixcl s).
Definition set_evw (s : st) (x : list N) : st :=
  mkSt (cap s) (kk s) (q s) (unpub s) (scount s) (rdrop s) (sq s) (rw s) (hs s) (fs s) (wk s) (used s) (acc s) (rcv s) (back s) (drp s) (qdrp s) (lost s) (multi s) x (evd s) (fix03 s) (fixcl s).
Definition set_evd (s : st) (x : list N) : st :=
  mkSt (cap s) (kk s) (q s) (unpub s) (scount s) (rdrop s) (sq s) (rw s) (hs s) (fs s) (wk s) (used s) (acc s) (rcv s) (back s) (drp s) (qdrp s) (lost s) (multi s) (evw s) x (fix03 s) (fixcl s).
Definition set_fix03 (s : st) (x : bool) : st :=
  mkSt (cap s) (kk s) (q s) (unpub s) (scount s) (rdrop s) (sq s) (rw s) (hs s) (fs s) (wk s) (used s) (acc s) (rcv s) (back s) (drp s) (qdrp s) (lost s) (multi s) (evw s) (evd s) x (fixcl s).
Definition set_fixcl (s : st) (x : bool) : st :=
  mkSt (cap s) (kk s) (q s) (unpub s) (scount s) (rdrop s) (sq s) (rw s) (hs s) (fs s) (wk s) (used s) (acc s) (rcv s) (back s) (drp s) (qdrp s) (lost s) (multi s) (evw s) (evd s) (fix03 s) x.

Definition init (async : bool) (c : N) (f03 fcl : bool) : st :=
  let c := N.max c 1 in
  mkSt c (if async then c else N.min c 64) [] 0 1 false [] None
       [(0, mkH true async false false None); (1, mkH false async false false None)]
       [] (fun _ => 0) [] [] [] [] [] [] false false [] [] f03 fcl.

(** ops and results *)
Inductive op :=
| TrySend (h v : N) | Send (h v : N) | TryRecv (h : N) | Recv (h : N) | RecvT0 (h : N)
| Close (h : N) | DropH (h : N) | Clone (h h2 : N) | ToSync (h : N) | ToAsync (h : N)
| Len (h : N) | IsEmpty (h : N) | IsFull (h : N) | Cap (h : N) | IsClosed (h : N)
| MkSend (f h v : N) | MkRecv (f h : N) | Poll (f w : N) | DropF (f : N) | PollNext (h w : N)
| TrySendB (h : N) (vs : list N) (inplace : bool) | SendB (h : N) (vs : list N) (inplace : bool)
| TryRecvB (h max : N) | RecvB (h max : N)
| MkSendB (f h : N) (vs : list N) | MkRecvB (f h max : N).

Inductive res :=
| ROk | RFull (v : N) | RClosedV (v : N) | RClosed | RVal (v : N) | REmpty | RDisc | RTimeout
| RCloseErr | RBad | RBlock | RNum (n : N) | RBool (b : bool)
| RBatchOk (n : N) | RBatchErr (sent : N) (full : bool) (unsent : list N)
| RMutOk (n : N) (left : list N) | RMutClosed (left : list N)
| RVals (vs : list N)
| RPending | RReady (r : res).

(** ghost moves *)
Definition fresh (vs : list N) (s : st) : bool :=
  forallb (fun v => negb (mem v (used s))) vs && nodupb vs.
Definition use (vs : list N) (s : st) : st := set_used s (vs ++ used s).
Definition giveback (vs : list N) (s : st) : st := set_back s (back s ++ vs).
Definition dropv (vs : list N) (s : st) : st := set_evd (set_drp s (drp s ++ vs)) (evd s ++ vs).

(** wakes: Waker::wake / Thread::unpark is an output event + a per-waker counter *)
Definition wake (w : N) (s : st) : st :=
  set_evw (set_wk s (fun x => if N.eqb x w then wk s x + 1 else wk s x)) (evw s ++ [w]).

(** Shared::notify_senders (async part: exactly one, the metered drip) *)
Definition notify_senders (s : st) : st :=
  match sq s with [] => s | (_, w) :: r => wake w (set_sq s r) end.
(** Shared::publish_progress / flush_progress *)
Definition publish (s : st) : st := notify_senders (set_unpub s 0).
Definition flush (s : st) : st := if 0 <? unpub s then publish s else s.
(** Shared::notify_receiver = wake_all_receivers (async slot) *)
Definition notify_receiver (s : st) : st :=
  match rw s with None => s | Some (_, w) => wake w (set_rw s None) end.
Fixpoint wake_list (l : list (N * N)) (s : st) : st :=
  match l with [] => s | (_, w) :: r => wake_list r (wake w s) end.
(** Shared::wake_all_senders *)
Definition wake_all_senders (s : st) : st := wake_list (sq s) (set_sq s []).

Definition window_open (s : st) : bool := len (q s) + unpub s <? cap s.
Definition window_open_cold (s : st) : bool := len (q s) <? cap s.
(** free credits of the hot window: cap.saturating_sub(g_tail - progress) *)
Definition hot_slack (s : st) : N := cap s - (len (q s) + unpub s).
Definition cold_slack (s : st) : N := cap s - len (q s).

(** Shared::deq_once: Got v (with the K-cadenced publish) or Empty *)
Definition deq1 (s : st) : st * option N :=
  match q s with
  | [] => (s, None)
  | v :: r =>
      let s1 := set_rcv (set_unpub (set_q s r) (unpub s + 1)) (rcv s ++ [v]) in
      (if kk s1 <=? unpub s1 then publish s1 else s1, Some v)
  end.
(** Shared::deq_run *)
Fixpoint deqn (n : nat) (s : st) : st * list N :=
  match n with
  | O => (s, [])
  | S n' => match deq1 s with
            | (s1, None) => (s1, [])
            | (s1, Some v) => let '(s2, vs) := deqn n' s1 in (s2, v :: vs)
            end
  end.

(** write_slot(SET) + notify_receiver; resolve_run + one notify_receiver *)
Definition pushl (vs : list N) (s : st) : st :=
  if is_nil vs then s
  else notify_receiver (set_acc (set_q s (q s ++ vs)) (acc s ++ vs)).
Definition push (v : N) (s : st) : st := pushl [v] s.

(** handle helpers *)
Definition tx_dead (s : st) (r : hrec) : bool := hclosed r || rdrop s.
Definition has_futs (h : N) (s : st) : bool := existsb (fun p => N.eqb (fh (snd p)) h) (fs s).
Definition with_closed (r : hrec) : hrec := mkH (htx r) (hasync r) true (hreg r) (hpend r).
Definition with_async (r : hrec) (a : bool) : hrec := mkH (htx r) a (hclosed r) false None.
Definition with_reg (r : hrec) (g : bool) (p : option (N * N)) : hrec :=
  mkH (htx r) (hasync r) (hclosed r) g p.
Definition put_h (h : N) (r : hrec) (s : st) : st := set_hs s (aset h r (hs s)).
Definition put_f (f : N) (r : frec) (s : st) : st := set_fs s (aset f r (fs s)).
Definition unreg_send (f : N) (s : st) : st :=
  set_sq s (filter (fun p => negb (N.eqb (fst p) f)) (sq s)).
Definition in_sq (f : N) (s : st) : bool := existsb (fun p => N.eqb (fst p) f) (sq s).
Definition is_recv_kind (k : fkind) : bool :=
  match k with FRecv _ | FRecvB _ _ => true | _ => false end.
Definition kitems (k : fkind) : list N :=
  match k with FSend (Some v) => [v] | FSendB rest _ _ => rest | _ => [] end.
Definition fitems (l : list (N * frec)) : list N := flat_map (fun p => kitems (fk (snd p))) l.

(** ghost: a send future that was handed the one wake of a progress publication (it is
    Pending and no longer queued) and now leaves without sending: the F-11 class *)
Definition note_lost (f : N) (fr : frec) (s : st) : st :=
  match fpend fr with
  | Some _ => if negb (in_sq f s) && negb (rdrop s) then set_lost s true else s
  | None => s
  end.
(** ghost: a second receive-side waiter while one is outstanding (outside the documented
    single-consumer usage; the slot holds one waker) *)
Definition note_multi (h : N) (r : hrec) (s : st) : st :=
  if existsb (fun p => is_recv_kind (fk (snd p))) (fs s) || hreg r then set_multi s true else s.

(* ---- sender side ---- *)
Definition do_try_send (s : st) (h v : N) : st * res :=
  match aget h (hs s) with
  | Some r =>
      if htx r && fresh [v] s then
        let s := use [v] s in
        if tx_dead s r then (giveback [v] s, RClosedV v)
        else if window_open s || window_open_cold s then (push v s, ROk)
        else (giveback [v] s, RFull v)
      else (s, RBad)
  | None => (s, RBad)
  end.

Definition do_send (s : st) (h v : N) : st * res :=
  match aget h (hs s) with
  | Some r =>
      if htx r && negb (hasync r) && fresh [v] s then
        if tx_dead s r then (dropv [v] (use [v] s), RClosed)
        else if window_open s then (push v (use [v] s), ROk)
        else (s, RBlock)
      else (s, RBad)
  | None => (s, RBad)
  end.

Definition do_try_send_b (s : st) (h : N) (vs : list N) (inplace : bool) : st * res :=
  match aget h (hs s) with
  | Some r =>
      if htx r && fresh vs s then
        if is_nil vs then (s, if inplace then RMutOk 0 [] else RBatchOk 0)
        else
          let s := use vs s in
          if tx_dead s r then
            (giveback vs s, if inplace then RMutClosed vs else RBatchErr 0 false vs)
          else
            let k := N.to_nat (N.min (len vs) (cold_slack s)) in
            let s1 := pushl (firstn k vs) s in
            let rest := skipn k vs in
            if is_nil rest
            then (s1, if inplace then RMutOk (len vs) [] else RBatchOk (len vs))
            else (giveback rest s1,
                  if inplace then RMutOk (N.of_nat k) rest else RBatchErr (N.of_nat k) true rest)
      else (s, RBad)
  | None => (s, RBad)
  end.

Definition do_send_b (s : st) (h : N) (vs : list N) (inplace : bool) : st * res :=
  match aget h (hs s) with
  | Some r =>
      if htx r && negb (hasync r) && fresh vs s then
        if is_nil vs then (s, if inplace then RMutOk 0 [] else RBatchOk 0)
        else if tx_dead s r then
          (giveback vs (use vs s), if inplace then RMutClosed vs else RBatchErr 0 false vs)
        else if len vs <=? hot_slack s then
          (pushl vs (use vs s), if inplace then RMutOk (len vs) [] else RBatchOk (len vs))
        else (s, RBlock)
      else (s, RBad)
  | None => (s, RBad)
  end.

(* ---- receiver side ---- *)
Definition recv_tail (s : st) (onempty : res) : st * res :=
  if scount s =? 0 then (flush s, RDisc) else (flush s, onempty).

Definition do_try_recv (s : st) (h : N) : st * res :=
  match aget h (hs s) with
  | Some r =>
      if htx r then (s, RBad)
      else if hclosed r then (s, RDisc)
      else match deq1 s with
           | (s1, Some v) => (s1, RVal v)
           | (s1, None) => recv_tail s1 REmpty
           end
  | None => (s, RBad)
  end.

Definition do_recv (s : st) (h : N) : st * res :=
  match aget h (hs s) with
  | Some r =>
      if htx r || hasync r then (s, RBad)
      else if hclosed r then (s, RDisc)
      else match deq1 s with
           | (s1, Some v) => (s1, RVal v)
           | (s1, None) => if scount s1 =? 0 then (flush s1, RDisc) else (s, RBlock)
           end
  | None => (s, RBad)
  end.

(** Receiver::recv_timeout(Duration::ZERO): no test of the handle's own closed flag (F-03);
    [fix03] selects the repaired behaviour *)
Definition do_recv_t0 (s : st) (h : N) : st * res :=
  match aget h (hs s) with
  | Some r =>
      if htx r || hasync r then (s, RBad)
      else if fix03 s && hclosed r then (s, RDisc)
      else match deq1 s with
           | (s1, Some v) => (s1, RVal v)
           | (s1, None) => recv_tail s1 RTimeout
           end
  | None => (s, RBad)
  end.

Definition do_try_recv_b (s : st) (h max : N) : st * res :=
  match aget h (hs s) with
  | Some r =>
      if htx r then (s, RBad)
      else if max =? 0 then (s, RVals [])
      else if hclosed r then (s, RDisc)
      else let '(s1, vs) := deqn (N.to_nat max) s in
           if is_nil vs then recv_tail s1 REmpty else (flush s1, RVals vs)
  | None => (s, RBad)
  end.

Definition do_recv_b (s : st) (h max : N) : st * res :=
  match aget h (hs s) with
  | Some r =>
      if htx r || hasync r then (s, RBad)
      else if max =? 0 then (s, RVals [])
      else if hclosed r then (s, RDisc)
      else let '(s1, vs) := deqn (N.to_nat max) s in
           if is_nil vs then (if scount s1 =? 0 then (flush s1, RDisc) else (s, RBlock))
           else (flush s1, RVals vs)
  | None => (s, RBad)
  end.

(* ---- lifecycle ---- *)
(** close(): CAS on the handle's flag, then drop_sender / drop_receiver *)
Definition close_h (s : st) (h : N) (r : hrec) : st :=
  let s1 := put_h h (with_closed r) s in
  if htx r then
    let s2 := set_scount s1 (scount s1 - 1) in
    if scount s1 =? 1 then notify_receiver s2 else s2
  else wake_all_senders (set_rdrop s1 true).

Definition do_close (s : st) (h : N) : st * res :=
  match aget h (hs s) with
  | Some r => if hclosed r then (s, RCloseErr) else (close_h s h r, ROk)
  | None => (s, RBad)
  end.

(** Shared::drop: every SET-undrained value is dropped with its chunk *)
Definition destroy (s : st) : st :=
  dropv (q s) (set_qdrp (set_q s []) (q s ++ qdrp s)).

Definition do_drop_h (s : st) (h : N) : st * res :=
  match aget h (hs s) with
  | Some r =>
      if has_futs h s then (s, RBad)
      else
        let s0 := if negb (htx r) && hasync r && hreg r then set_rw s None else s in
        let s1 := if hclosed r then s0 else close_h s0 h r in
        let s2 := set_hs s1 (adel h (hs s1)) in
        (if is_nil (hs s2) then destroy s2 else s2, ROk)
  | None => (s, RBad)
  end.

(** Clone: add_sender + a fresh open handle - also from a closed handle (candidate finding
    "clone after close"); [fixcl] selects the repaired behaviour (clone of a closed handle is closed) *)
Definition do_clone (s : st) (h h2 : N) : st * res :=
  match aget h (hs s), aget h2 (hs s) with
  | Some r, None =>
      if htx r then
        if fixcl s && hclosed r
        then (put_h h2 (mkH true (hasync r) true false None) s, ROk)
        else (put_h h2 (mkH true (hasync r) false false None) (set_scount s (scount s + 1)), ROk)
      else (s, RBad)
  | _, _ => (s, RBad)
  end.

Definition do_to_async (s : st) (h : N) : st * res :=
  match aget h (hs s) with
  | Some r =>
      if hasync r || has_futs h s then (s, RBad)
      else if htx r then (put_h h (with_async r true) s, ROk)
      else (put_h h (with_async r true) (set_kk s (cap s)), ROk)
  | None => (s, RBad)
  end.

Definition do_to_sync (s : st) (h : N) : st * res :=
  match aget h (hs s) with
  | Some r =>
      if negb (hasync r) || has_futs h s then (s, RBad)
      else if htx r then (put_h h (with_async r false) s, ROk)
      else
        let s0 := if hreg r then set_rw s None else s in
        (put_h h (with_async r false) (set_kk s0 (N.min (cap s0) 64)), ROk)
  | None => (s, RBad)
  end.

Definition obs (s : st) (h : N) (f : hrec -> res) : st * res :=
  match aget h (hs s) with Some r => (s, f r) | None => (s, RBad) end.
Definition chan_len (s : st) : N := N.min (len (q s)) (cap s).
Definition is_closed_h (s : st) (r : hrec) : bool :=
  if htx r then hclosed r || rdrop s
  else hclosed r || ((scount s =? 0) && (chan_len s =? 0)).

(* ---- futures ---- *)
Definition do_mk_send (s : st) (f h v : N) : st * res :=
  match aget h (hs s), aget f (fs s) with
  | Some r, None =>
      if htx r && hasync r && fresh [v] s
      then (put_f f (mkF h (FSend (Some v)) None) (use [v] s), ROk)
      else (s, RBad)
  | _, _ => (s, RBad)
  end.

Definition do_mk_send_b (s : st) (f h : N) (vs : list N) : st * res :=
  match aget h (hs s), aget f (fs s) with
  | Some r, None =>
      if htx r && hasync r && fresh vs s
      then (put_f f (mkF h (FSendB vs 0 (len vs)) None) (use vs s), ROk)
      else (s, RBad)
  | _, _ => (s, RBad)
  end.

Definition do_mk_recv (s : st) (f h : N) (k : fkind) : st * res :=
  match aget h (hs s), aget f (fs s) with
  | Some r, None =>
      if negb (htx r) && hasync r
      then (put_f f (mkF h k None) (note_multi h r s), ROk)
      else (s, RBad)
  | _, _ => (s, RBad)
  end.

(** the receive poll core shared by RecvFuture and Stream (consumer.rs poll_recv):
    returns the new state, the new is_registered flag and the result *)
Definition poll_recv_core (s : st) (o : owner) (w : N) (reg : bool) : st * bool * res :=
  match deq1 s with
  | (s1, Some v) => (if reg then set_rw s1 None else s1, false, RReady (RVal v))
  | (s1, None) =>
      let s2 := flush s1 in
      if scount s2 =? 0 then (if reg then set_rw s2 None else s2, false, RReady RDisc)
      else (set_rw s2 (Some (o, w)), true, RPending)
  end.

(** consumer.rs poll_recv_batch *)
Definition poll_recv_b_core (s : st) (o : owner) (w max : N) (reg : bool) : st * bool * res :=
  let '(s1, vs) := deqn (N.to_nat max) s in
  if is_nil vs then
    let s2 := flush s1 in
    if scount s2 =? 0 then (if reg then set_rw s2 None else s2, false, RReady RDisc)
    else (set_rw s2 (Some (o, w)), true, RPending)
  else (flush (if reg then set_rw s1 None else s1), false, RReady (RVals vs)).

Definition pend_of (s : st) (w : N) (r : res) : option (N * N) :=
  match r with RPending => Some (w, wk s w) | _ => None end.

Definition do_poll (s : st) (f w : N) : st * res :=
  match aget f (fs s) with
  | None => (s, RBad)
  | Some fr =>
    match aget (fh fr) (hs s) with
    | None => (s, RBad)
    | Some r =>
      match fk fr with
      | FSend item =>
          if tx_dead s r then
            (put_f f (mkF (fh fr) (FSend item) None) (unreg_send f (note_lost f fr s)), RReady RClosed)
          else match item with
          | None => (s, RReady ROk)
          | Some v =>
              if window_open s then
                (put_f f (mkF (fh fr) (FSend None) None) (push v (unreg_send f s)), RReady ROk)
              else
                let s1 := set_sq s (sq (unreg_send f s) ++ [(f, w)]) in
                (put_f f (mkF (fh fr) (FSend item) (Some (w, wk s1 w))) s1, RPending)
          end
      | FSendB rest sent total =>
          if sent =? total then
            (put_f f (mkF (fh fr) (FSendB rest sent total) None) (unreg_send f (note_lost f fr s)),
             RReady (RBatchOk total))
          else if tx_dead s r then
            (put_f f (mkF (fh fr) (FSendB [] sent total) None)
                   (giveback rest (unreg_send f (note_lost f fr s))),
             RReady (RBatchErr sent false rest))
          else
            let j := N.to_nat (N.min (len rest) (hot_slack s)) in
            let s1 := if is_nil (firstn j rest) then s else pushl (firstn j rest) (unreg_send f s) in
            let rest' := skipn j rest in
            let sent' := sent + N.of_nat j in
            if is_nil rest'
            then (put_f f (mkF (fh fr) (FSendB [] sent' total) None) (unreg_send f s1), RReady (RBatchOk total))
            else
              let s2 := set_sq s1 (sq (unreg_send f s1) ++ [(f, w)]) in
              (put_f f (mkF (fh fr) (FSendB rest' sent' total) (Some (w, wk s2 w))) s2, RPending)
      | FRecv reg =>
          if hclosed r then (put_f f (mkF (fh fr) (FRecv reg) None) s, RReady RDisc)
          else
            let '(s1, reg', res) := poll_recv_core s (OF f) w reg in
            (put_f f (mkF (fh fr) (FRecv reg') (pend_of s1 w res)) s1, res)
      | FRecvB max reg =>
          if max =? 0 then (put_f f (mkF (fh fr) (FRecvB max reg) None) s, RReady (RVals []))
          else if hclosed r then (put_f f (mkF (fh fr) (FRecvB max reg) None) s, RReady RDisc)
          else
            let '(s1, reg', res) := poll_recv_b_core s (OF f) w max reg in
            (put_f f (mkF (fh fr) (FRecvB max reg') (pend_of s1 w res)) s1, res)
      end
    end
  end.

Definition do_drop_f (s : st) (f : N) : st * res :=
  match aget f (fs s) with
  | None => (s, RBad)
  | Some fr =>
      let s1 :=
        match fk fr with
        | FSend _ | FSendB _ _ _ => dropv (kitems (fk fr)) (unreg_send f (note_lost f fr s))
        | FRecv reg | FRecvB _ reg => if reg then set_rw s None else s
        end in
      (set_fs s1 (adel f (fs s1)), ROk)
  end.

(** Stream::poll_next on the AsyncReceiver itself (its own is_registered flag) *)
Definition do_poll_next (s : st) (h w : N) : st * res :=
  match aget h (hs s) with
  | Some r =>
      if htx r || negb (hasync r) || has_futs h s then (s, RBad)
      else if hclosed r then (put_h h (with_reg r (hreg r) None) s, RReady RDisc)
      else
        let '(s1, reg', res) := poll_recv_core s (OH h) w (hreg r) in
        (put_h h (with_reg r reg' (pend_of s1 w res)) s1, res)
  | None => (s, RBad)
  end.

Definition exec (s : st) (o : op) : st * res :=
  match o with
  | TrySend h v => do_try_send s h v
  | Send h v => do_send s h v
  | TryRecv h => do_try_recv s h
  | Recv h => do_recv s h
  | RecvT0 h => do_recv_t0 s h
  | Close h => do_close s h
  | DropH h => do_drop_h s h
  | Clone h h2 => do_clone s h h2
  | ToSync h => do_to_sync s h
  | ToAsync h => do_to_async s h
  | Len h => obs s h (fun _ => RNum (chan_len s))
  | IsEmpty h => obs s h (fun _ => RBool (chan_len s =? 0))
  | IsFull h => obs s h (fun _ => RBool (cap s <=? chan_len s))
  | Cap h => obs s h (fun _ => RNum (cap s))
  | IsClosed h => obs s h (fun r => RBool (is_closed_h s r))
  | MkSend f h v => do_mk_send s f h v
  | MkRecv f h => do_mk_recv s f h (FRecv false)
  | Poll f w => do_poll s f w
  | DropF f => do_drop_f s f
  | PollNext h w => do_poll_next s h w
  | TrySendB h vs ip => do_try_send_b s h vs ip
  | SendB h vs ip => do_send_b s h vs ip
  | TryRecvB h max => do_try_recv_b s h max
  | RecvB h max => do_recv_b s h max
  | MkSendB f h vs => do_mk_send_b s f h vs
  | MkRecvB f h max => do_mk_recv s f h (FRecvB max false)
  end.

(** one step: the result plus the wake and drop events of this call *)
Definition out := (res * list N * list N)%type.
Definition step (s : st) (o : op) : st * out :=
  let '(s1, r) := exec (set_evd (set_evw s []) []) o in
  (s1, (r, evw s1, evd s1)).

Fixpoint run (s : st) (ops : list op) : st * list out :=
  match ops with
  | [] => (s, [])
  | o :: t => let '(s1, x) := step s o in let '(s2, xs) := run s1 t in (s2, x :: xs)
  end.

Definition final (s : st) (ops : list op) : st := fst (run s ops).

(* ------------------------------------------------------------------ *)
(** * vocabulary of the theorems (definitions only) *)

Definition keysN {A} (l : list (N * A)) : list N := map fst l.
Definition isopen (r : hrec) : bool := htx r && negb (hclosed r).
(** number of sender handles whose close() has not succeeded *)
Definition open_tx (l : list (N * hrec)) : N := len (filter (fun p => isopen (snd p)) l).

(** every live future borrows a live async handle of the right side *)
Definition fut_ok (s : st) : Prop :=
  forall f fr, aget f (fs s) = Some fr ->
    exists r, aget (fh fr) (hs s) = Some r /\ hasync r = true /\ htx r = negb (is_recv_kind (fk fr)).
(** the receiver is not Clone: the only receiving handle is id 1 *)
Definition rx_one (s : st) : Prop := forall h r, aget h (hs s) = Some r -> htx r = false -> h = 1.
(** receiver_dropped is false exactly while the receiver handle is alive and not closed *)
Definition rx_live (s : st) : Prop :=
  rdrop s = false <-> exists r, aget 1 (hs s) = Some r /\ htx r = false /\ hclosed r = false.

(** structural invariant: handle/future tables and the two shared lifecycle fields *)
Definition GS (s : st) : Prop :=
  NoDup (keysN (hs s)) /\ NoDup (keysN (fs s)) /\ fut_ok s /\ rx_one s
  /\ scount s = open_tx (hs s) /\ rx_live s.

(** capacity invariant *)
Definition G1 (s : st) : Prop := 1 <= cap s /\ len (q s) <= cap s.

(** FIFO invariant: accepted = received ++ buffered ++ destroyed-with-the-channel, in send order *)
Definition G2 (s : st) : Prop := acc s = rcv s ++ q s ++ qdrp s /\ (qdrp s <> [] -> hs s = []).

(** conservation: every id ever handed to the API is in exactly one place *)
Definition cnt (v : N) (l : list N) : nat := count_occ N.eq_dec l v.
Definition held (s : st) : list N := rcv s ++ q s ++ fitems (fs s) ++ back s ++ drp s.
Definition G3 (s : st) : Prop :=
  (forall v, cnt v (used s) = cnt v (held s)) /\ (forall v, (cnt v (used s) <= 1)%nat).

Definition Inv (s : st) : Prop := G1 s /\ GS s /\ G2 s /\ G3 s.

(** a step starts by clearing the per-call event logs *)
Definition clear_ev (s : st) : st := set_evd (set_evw s []) [].
