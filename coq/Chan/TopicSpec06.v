(* Chan/TopicSpec06.v — C06 (async wake-ups / cancellation) for the topic flavour: a ghost that follows, from the
   calls, their results and the wakers woken by each call, every live RecvFuture:
     g_pend  = Some w  : its last poll returned Pending and registered waker w
     g_woken           : w has been woken since that poll
     g_over            : another future of the SAME receiver handle was polled Pending after it
                         (the mailbox has a single waiter slot, so this one's registration was overwritten)
   and the judgement, on the model state after each call: a future whose last poll was Pending, that has not been
   woken, and whose poll would now be Ready (mailbox non-empty or disconnected) is a missed wake-up.
   No proofs in this file. *)
From Fibre Require Import Common.Base Chan.TopicOps.

Record gfut := { g_id : N; g_rx : N; g_pend : option N; g_woken : bool; g_over : bool }.

Inductive clause6 := V6Missed (f : N) (overwritten : bool).

Definition gf_set (x : gfut) (p : option N) (w o : bool) : gfut :=
  {| g_id := g_id x; g_rx := g_rx x; g_pend := p; g_woken := w; g_over := o |}.

Definition is_pending (x : gfut) : bool :=
  match g_pend x with Some _ => negb (g_woken x) | None => false end.

(* wakers woken by the call *)
Definition mark_woken (wk : list N) (g : list gfut) : list gfut :=
  map (fun x => match g_pend x with
                | Some w => if mem w wk then gf_set x (g_pend x) true (g_over x) else x
                | None => x
                end) g.

Definition find_gf (f : N) (g : list gfut) : option gfut := find (fun x => N.eqb (g_id x) f) g.

Definition g_step (g : list gfut) (o : op) (rs : res) (wk : list N) : list gfut :=
  let g1 := mark_woken wk g in
  match o, rs with
  | MkRecv f r, ROk => g1 ++ [{| g_id := f; g_rx := r; g_pend := None; g_woken := false; g_over := false |}]
  | DropF f, ROk => filter (fun x => negb (N.eqb (g_id x) f)) g1
  | Poll f w, RPending =>
    match find_gf f g1 with
    | Some e =>
      map (fun x => if N.eqb (g_id x) f then gf_set x (Some w) false false
                    else if N.eqb (g_rx x) (g_rx e) && is_pending x then gf_set x (g_pend x) (g_woken x) true
                    else x) g1
    | None => g1
    end
  | Poll f w, RVal _ _ => map (fun x => if N.eqb (g_id x) f then gf_set x None false false else x) g1
  | Poll f w, RDisc => map (fun x => if N.eqb (g_id x) f then gf_set x None false false else x) g1
  | _, _ => g1
  end.

(* would a poll of a future of receiver r be Ready in state s? *)
Definition rx_ready (r : N) (s : state) : bool :=
  match find_rx r (rxs s) with
  | Some x => r_live x && (match m_buf (r_mb x) with [] => false | _ => true end || m_disc (r_mb x))
  | None => false
  end.

Definition missed (s : state) (g : list gfut) : list clause6 :=
  flat_map (fun x => if is_pending x && rx_ready (g_rx x) s then [V6Missed (g_id x) (g_over x)] else []) g.

Fixpoint check6_from (c : cfg) (s : state) (g : list gfut) (h : list op) : list clause6 :=
  match h with
  | [] => []
  | o :: h' =>
    let '(s1, (rs, wk)) := step c s o in
    let g1 := g_step g o rs wk in
    missed s1 g1 ++ check6_from c s1 g1 h'
  end.

Definition violations6 (c : cfg) (async : bool) (cap : N) (h : list op) : list clause6 :=
  check6_from c (init async cap) [] h.
